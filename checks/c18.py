"""C18 — parse callbacks fire in derivation order with right values; errors abort."""
from .lrcommon import *

LEVEL = "proof"


def run(ctx):
    quick = ctx.tier == "quick"
    ctx.build_go()
    ctx.extract(["tables"])
    try:
        ctx.prove("Emerge.Props.C18")
        if not quick:
            ctx.leanchecker("Emerge.Props.C18")
    except Broken as b:
        ctx.add_broken(b.what, b.detail)
        ok, out = ctx.lake(["model"])
        if not ok:
            ctx.add_broken("model driver no longer builds", out[-2000:])
            return ctx.finish(LEVEL, {"evaluations": 0, "distinct_nontrivial": 0, "samples": []}, [])
    table_sweep(ctx)
    base = []
    for _ in range(400 if quick else 4000):
        t = rd.gen_spec(ctx.rng, 4)
        if ctx.rng.random() < 0.25:
            t = mutate(ctx.rng, t)
        base.append(t)
    cases = []
    for t in base:
        r = rd.recognise(t)
        nev = len(r[1]) if r[0] == "ACCEPT" else len(r[2])
        cases.append((t, -1))
        ks = range(0, nev + 2) if (quick and nev <= 60) or not quick else sorted(set(ctx.rng.randrange(nev + 2) for _ in range(20)))
        for k in ks:
            cases.append((t, k))
    lines = [fmt_case(t, k) for t, k in cases]
    impl = ctx.run_impl("lr", lines)
    model = ctx.run_model("lr", lines)
    ncorr = 0
    distinct = set()
    unfailing = {}
    for (t, k), i, m in zip(cases, impl, model):
        if i != m:
            ncorr += 1
            if ncorr <= 3:
                ctx.add_broken("correspondence: LR driver model and Parser.Parse disagree on %s failing callback %d" % (t, k), "impl=%s\nmodel=%s" % (i, m))
        evs, res = split_out(i)
        if k == -1:
            unfailing[tuple(t)] = (evs, res)
            ok, exp = oracle_ok(t, i)
            if not ok:
                ctx.add_violation("callback sequence is not the derivation order computed by the independent recogniser",
                                  {"token_kinds": t, "fail_at": k, "implementation": i, "expected": exp, "model_of_code": m})
            if res == "ACCEPT":
                distinct.add(tuple(t))
        else:
            uevs, ures = unfailing[tuple(t)]
            if k < len(uevs):
                want_evs = uevs[:k + 1]
                good = evs == want_evs and res.startswith("ERR") and unhx(res.split()[1]).decode().endswith("cb")
            else:
                good = (evs, res) == (uevs, ures)
            if not good:
                ctx.add_violation("a failing callback did not stop the parse exactly there / its error was not returned",
                                  {"token_kinds": t, "fail_at": k, "implementation": i, "unfailing_run": " ".join(uevs) + " | " + ures, "model_of_code": m})
    cov = {"evaluations": len(cases), "distinct_nontrivial": len(distinct),
           "rule": "seeded random valid specifications (token-kind level) and mutations, each run without failure and with the callback failing at every invocation index k (0..#events+1); non-trivial = distinct accepted sequence",
           "samples": [fmt_case(*cases[-1]), fmt_case(*cases[len(cases) // 2])],
           "correspondence_disagreements": ncorr,
           "trusted_base": TRUSTED_BASE + ["hand-modelled: Parser.Parse loop (Emerge.LR.step/run)", "value passing of ParseAndEvaluate is checked by the C11/C01 correspondence runs, not by these theorems"]}
    return ctx.finish(LEVEL, cov, ["stub lexer delivering token kinds; callbacks are recording closures that fail at a chosen invocation"])


def replay(ctx, rp):
    ctx.build_go(); ctx.extract(["tables"]); ctx.lake(["model"])
    l = fmt_case(rp["token_kinds"], rp.get("fail_at", -1))
    print("implementation:", ctx.run_impl("lr", [l])[0])
    print("model of code :", ctx.run_model("lr", [l])[0])
    print("RD oracle     :", rd.recognise(rp["token_kinds"]))
