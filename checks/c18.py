"""C18 — parse callbacks fire in derivation order with right values; errors abort."""
from .lrcommon import *

LEVEL = "proof"


def run(ctx):
    quick = ctx.tier == "quick"
    ctx.build_go()
    if not ctx.prepare(["tables", "parserdrv"], "Emerge.Props.C18", quick):
        return ctx.finish(LEVEL, {"evaluations": 0, "distinct_nontrivial": 0, "samples": []}, [])
    table_sweep(ctx)
    base = []
    for _ in range(400 if quick else 4000):
        t = rd.gen_spec(ctx.rng, 4)
        if ctx.rng.random() < 0.25:
            t = mutate(ctx.rng, t)
        base.append(t)
    cases = []
    for t in base:
        r = rd.recognise(t)
        nev = len(r[1]) if r[0] == "ACCEPT" else len(r[2])
        cases.append((t, -1))
        ks = range(0, nev + 2) if (quick and nev <= 60) or not quick else sorted(set(ctx.rng.randrange(nev + 2) for _ in range(20)))
        for k in ks:
            cases.append((t, k))
    lines = [fmt_case(t, k) for t, k in cases]
    impl = ctx.run_impl("lr", lines)
    model = ctx.run_model("lr", lines)
    ncorr = 0
    distinct = set()
    unfailing = {}
    for (t, k), i, m in zip(cases, impl, model):
        if i != m:
            ncorr += 1
            if ncorr <= 3:
                ctx.add_broken("correspondence: LR driver model and Parser.Parse disagree on %s failing callback %d" % (t, k), "impl=%s\nmodel=%s" % (i, m))
        evs, res = split_out(i)
        if k == -1:
            unfailing[tuple(t)] = (evs, res)
            ok, exp = oracle_ok(t, i)
            if not ok:
                ctx.add_violation("callback sequence is not the derivation order computed by the independent recogniser",
                                  {"token_kinds": t, "fail_at": k, "implementation": i, "expected": exp, "model_of_code": m})
            if res == "ACCEPT":
                distinct.add(tuple(t))
        else:
            uevs, ures = unfailing[tuple(t)]
            if k < len(uevs):
                want_evs = uevs[:k + 1]
                good = evs == want_evs and res.startswith("ERR") and unhx(res.split()[1]).decode().endswith("cb")
            else:
                good = (evs, res) == (uevs, ures)
            if not good:
                ctx.add_violation("a failing callback did not stop the parse exactly there / its error was not returned",
                                  {"token_kinds": t, "fail_at": k, "implementation": i, "unfailing_run": " ".join(uevs) + " | " + ures, "model_of_code": m})
    # ---- value passing: ParseAndEvaluate (every choice of the failing invocation of the evaluation function) and ParseAndBuildAST
    vcases = []
    # long sentences: more than a thousand values are alive on the evaluation stack or pass through it (alternatives and
    # juxtapositions of one rule stay on the stack until the rule ends; many rules pass through)
    from .c04 import big_cases
    for t in big_cases(True)[:4] + big_cases(True)[-3:]:
        vcases.append((t, -1))
        vcases.append((t, 1100))
    for t in base:
        r = rd.recognise(t)
        nprod = sum(1 for e in (r[1] if r[0] == "ACCEPT" else r[2]) if e[0] == "P")
        vcases.append((t, -1))
        ks = range(0, nprod + 1) if nprod <= 80 else sorted(set(ctx.rng.randrange(nprod + 1) for _ in range(25)))
        for k in ks:
            vcases.append((t, k))
    vlines = [fmt_case(t, k) for t, k in vcases]
    vimpl = ctx.run_impl("lreval", vlines)
    vmodel = ctx.run_model("lreval", vlines)
    alines = [fmt_case(t, -1).split(" ", 1)[1] for t in base]
    aimpl = ctx.run_impl("lrast", alines)
    amodel = ctx.run_model("lrast", alines)
    nv = 0
    for (t, k), i, m in zip(vcases, vimpl, vmodel):
        if i != m:
            ncorr += 1
            if ncorr <= 3:
                ctx.add_broken("correspondence: model of ParseAndEvaluate and the implementation disagree on %s, evaluation failing at call %d" % (t, k), "impl=%s\nmodel=%s" % (i, m))
        r = rd.recognise(t)
        if r[0] != "ACCEPT":
            if not i.startswith("ERR "):
                ctx.add_violation("ParseAndEvaluate of a sequence that is not a specification did not return an error",
                                  {"token_kinds": t, "fail_at": k, "implementation": i, "model_of_code": m, "cmd": "lreval"})
            continue
        (val, pos), tree, calls = fold_events(r[1])
        nv += 1
        if k == -1 or k >= len(calls):
            want = "OK " + hx("%s@%s" % (val, pos))
        else:
            want = "ERR " + hx("cb")
        if i != want:
            ctx.add_violation("ParseAndEvaluate: the evaluation function did not receive the body values left to right / its result or the first body symbol's position did not become the head's / its error did not abort the parse",
                              {"token_kinds": t, "fail_at": k, "implementation": decode_hex_fields(i), "expected": decode_hex_fields(want), "model_of_code": decode_hex_fields(m), "cmd": "lreval"})
    for t, i, m in zip(base, aimpl, amodel):
        if i != m:
            ncorr += 1
            if ncorr <= 3:
                ctx.add_broken("correspondence: model of ParseAndBuildAST and the implementation disagree on %s" % t, "impl=%s\nmodel=%s" % (i, m))
        r = rd.recognise(t)
        if r[0] == "ACCEPT":
            want = "OK " + hx(fold_events(r[1])[1])
            if i != want:
                ctx.add_violation("ParseAndBuildAST: the tree is not the derivation (children in body order, leaves = tokens)",
                                  {"token_kinds": t, "implementation": decode_hex_fields(i), "expected": decode_hex_fields(want), "cmd": "lrast"})
        elif not i.startswith("ERR "):
            ctx.add_violation("ParseAndBuildAST of a sequence that is not a specification did not return an error", {"token_kinds": t, "implementation": i, "cmd": "lrast"})
    cov = {"evaluations": len(cases) + len(vcases) + len(base), "distinct_nontrivial": len(distinct),
           "rule": "seeded random valid specifications (token-kind level) and mutations, each run (a) through Parse without failure and with the callback failing at every invocation index k (0..#events+1), (b) through ParseAndEvaluate with an S-expression-building evaluation function, unfailing and failing at every invocation, (c) through ParseAndBuildAST; expected values/trees are folded from the derivation of the independent recogniser; non-trivial = distinct accepted sequence",
           "samples": [fmt_case(*cases[-1]), fmt_case(*cases[len(cases) // 2])],
           "correspondence_disagreements": ncorr, "evaluate_runs": len(vcases), "accepted_evaluate_runs": nv,
           "trusted_base": TRUSTED_BASE + ["hand-modelled: Parser.Parse loop (Emerge.LR.step/run), ParseAndEvaluate/ParseAndBuildAST as folds over the callback sequence (Emerge.LREval)"]}
    return ctx.finish(LEVEL, cov, ["stub lexer delivering token kinds; callbacks are recording closures that fail at a chosen invocation"])


def replay(ctx, rp):
    ctx.build_go(); ctx.extract(["tables"]); ctx.lake(["model"])
    l = fmt_case(rp["token_kinds"], rp.get("fail_at", -1))
    cmd = rp.get("cmd", "lr")
    if cmd == "lrast":
        l = l.split(" ", 1)[1]
    print("implementation:", decode_hex_fields(ctx.run_impl(cmd, [l])[0]))
    print("model of code :", decode_hex_fields(ctx.run_model(cmd, [l])[0]))
    print("RD oracle     :", rd.recognise(rp["token_kinds"]))
