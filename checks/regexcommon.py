"""Shared by the pattern-level checks (C02, C09, C10, C14, C03): pattern generators, the DFA text format of
harness and model driver, and language comparison of two DFAs by exploring their product."""
import itertools
from collections import deque
from .common import *


# ------------------------------------------------------------------ DFA format
def parse_dfa(s):
    """'start=0 finals=1,2 trans=0>1:97-99,120;1>1:97' -> (start, finals, {state: [(lo, hi, target)]})"""
    f = dict(x.split("=", 1) for x in s.split(" ") if "=" in x)
    start = int(f["start"])
    finals = set(int(x) for x in f["finals"].split(",") if x)
    trans = {}
    for part in f.get("trans", "").split(";"):
        if not part:
            continue
        st, _, syms = part.partition(":")
        a, _, b = st.partition(">")
        a, b = int(a), int(b)
        for r in syms.split(","):
            lo, _, hi = r.partition("-")
            lo = int(lo); hi = int(hi) if hi else lo
            trans.setdefault(a, []).append((lo, hi, b))
    return start, finals, trans


def dfa_next(trans, s, c):
    if s is None:
        return None
    for lo, hi, t in trans.get(s, ()):
        if lo <= c <= hi:
            return t
    return None


def dfa_symbols(*dfas):
    """representatives: every range boundary of every automaton (lo and hi+1), so that all runes between two
    consecutive representatives behave alike in all automata"""
    pts = set()
    for _, _, trans in dfas:
        for rows in trans.values():
            for lo, hi, _ in rows:
                pts.add(lo); pts.add(hi + 1)
    return sorted(pts)


def dfa_diff(a, b, skip=(0,)):
    """None if the two DFAs accept the same strings over all runes except those in `skip`;
    otherwise a shortest string (list of runes) accepted by exactly one of them."""
    syms = [c for c in dfa_symbols(a, b) if c not in skip]
    # a skipped rune that is a range start: use the next rune as representative of the rest of that range
    extra = set()
    for c in skip:
        extra.add(c + 1)
    syms = sorted(set(syms) | {c for c in extra if c not in skip})
    start = (a[0], b[0])
    seen = {start: None}
    q = deque([start])
    while q:
        st = q.popleft()
        x, y = st
        if (x in a[1]) != (y in b[1]):
            w = []
            while seen[st] is not None:
                st, c = seen[st]
                w.append(c)
            return w[::-1]
        for c in syms:
            nx = (dfa_next(a[2], x, c), dfa_next(b[2], y, c))
            if nx == (None, None) or nx in seen:
                continue
            seen[nx] = (st, c)
            q.append(nx)
    return None


def dfa_accepts_empty(d):
    return d[0] in d[1]


def dfa_states(d):
    st = {d[0]} | set(d[1]) | set(d[2])
    for rows in d[2].values():
        st |= {t for _, _, t in rows}
    return len(st)


# ------------------------------------------------------------------ pattern generators
ESCAPED = "\\|.?*+()[]{}$"
CLASSES = ["\\d", "\\D", "\\w", "\\W", "\\s", "\\S"]
ASCII_CLASSES = ["[:blank:]", "[:space:]", "[:digit:]", "[:xdigit:]", "[:upper:]", "[:lower:]", "[:alpha:]", "[:alnum:]", "[:word:]", "[:ascii:]"]
UNI = ["\\p{L}", "\\p{Lu}", "\\P{Ll}", "\\p{Letter}", "\\p{Lt}", "\\p{N}", "\\P{L}", "\\p{Zs}"]
UNI_BIG = ["\\p{Greek}", "\\P{Latin}", "\\P{Math}", "\\p{Latin}", "\\p{Cyrillic}", "\\P{Greek}"]   # corpus only: large classes are slow on the followpos route
LITS = ["a", "b", "c", "0", "9", "A", "Z", "_", " ", "-", ",", ":", "x", "p", "^", "/", "\"", "'", "~", "!"]
HEX = ["\\x41", "\\x61", "\\x7F", "\\x20", "\\x00", "\\x0041", "\\x00E9", "\\x03B1", "\\x1F600", "\\x0000", "\\x10FFFF"]


def gen_char(rng):
    k = rng.random()
    if k < 0.6:
        return rng.choice(LITS)
    if k < 0.8:
        return "\\" + rng.choice(ESCAPED)
    return rng.choice(HEX)


def gen_group_item(rng):
    k = rng.random()
    if k < 0.35:
        c = rng.choice(["a", "b", "c", "0", "A", "z", "_", " ", "\\.", "\\*", "\\+", "\\?", "\\(", "\\)", "\\{", "\\}", "\\|", "\\$", "^", ",", ":", "/", "\\\\", "\\]", "\\[", "\\x41", "\\x00E9"])
        return c
    if k < 0.6:
        lo, hi = rng.choice([("a", "c"), ("0", "9"), ("A", "Z"), ("a", "z"), ("b", "b"), ("\\x41", "\\x43"), ("\\x0041", "\\x0043"), ("\\x21", "\\x2F"), (" ", "~"), ("\\x00", "\\x1F"), ("\\x00E0", "\\x00E5")])
        if rng.random() < 0.06:
            lo, hi = hi, lo          # descending: grammatical but meaningless
        return lo + "-" + hi
    if k < 0.75:
        return rng.choice(CLASSES)
    if k < 0.9:
        return rng.choice(ASCII_CLASSES)
    return rng.choice(UNI)


def gen_atom(rng, depth):
    """-> (text, expanded size)"""
    k = rng.random()
    if depth > 0 and k < 0.22:
        t, n = gen_expr(rng, depth - 1)
        return "(" + t + ")", n
    if k < 0.5:
        return gen_char(rng), 1
    if k < 0.58:
        return ".", 1
    if k < 0.66:
        return rng.choice(CLASSES), 1
    if k < 0.72:
        return rng.choice(ASCII_CLASSES), 1
    if k < 0.76:
        return rng.choice(UNI), 1
    neg = "^" if rng.random() < 0.3 else ""
    items = [gen_group_item(rng) for _ in range(rng.choice([1, 1, 2, 3]))]
    if items[0].startswith("^"):
        items = items[1:] + items[:1] if len(items) > 1 else ["a"] + items
    return "[" + neg + "".join(items) + "]", 1


def gen_quant(rng):
    """-> (text, multiplier of the expanded size)"""
    k = rng.random()
    if k < 0.5:
        q = rng.choice("?*+")
        mult = 2 if q == "+" else 1
    else:
        lo = rng.choice([0, 0, 1, 2, 3])
        f = rng.random()
        if f < 0.35:
            q = "{%d}" % lo; mult = max(lo, 1)
        elif f < 0.6:
            q = "{%d,}" % lo; mult = lo + 1
        else:
            hi = lo + rng.choice([0, 1, 2]) if rng.random() > 0.07 else max(0, lo - 1)
            q = "{%d,%d}" % (lo, hi); mult = max(hi, 1)
    if rng.random() < 0.12:
        q = re.sub(r"\d+", lambda m: rng.choice(["0", "00"]) + m.group(0), q)      # bounds written with leading zeros are decimal all the same
    if rng.random() < 0.15:
        q += "?"
    return q, mult


def gen_item(rng, depth):
    if rng.random() < 0.04:
        return "$", 0
    a, n = gen_atom(rng, depth)
    if rng.random() < 0.4:
        q, m = gen_quant(rng)
        a += q; n *= m
    return a, n


def gen_subexpr(rng, depth):
    items = [gen_item(rng, depth) for _ in range(rng.choice([1, 1, 2, 2, 3, 4]))]
    return "".join(t for t, _ in items), sum(n for _, n in items)


def gen_expr(rng, depth):
    subs = [gen_subexpr(rng, depth) for _ in range(rng.choice([1, 1, 1, 2, 3]))]
    return "|".join(t for t, _ in subs), sum(n for _, n in subs)


def wide_weight(t):
    """rough count of wide character sets (., negations, [:ascii:]) times the largest repetition count: the followpos
    route creates one position per character of a set and is slow when many wide sets are duplicated"""
    wide = len(re.findall(r"(?<!\\)\.|\\[DWSP]|\[\^|\[:ascii:\]", t))
    for lo, hi in re.findall(r"\\x([0-9A-Fa-f]{2,8})-\\x([0-9A-Fa-f]{2,8})", t):     # a range over hexadecimal escapes: one position per code point
        wide += max(0, int(hi, 16) - int(lo, 16)) // 128
    reps = [int(x) for x in re.findall(r"[{,](\d+)", t)] + [1]
    return wide * max(max(reps), 1)


def gen_pattern(rng, depth=2, max_size=24, max_wide=1000):
    """a random pattern whose quantifier-expanded size stays moderate (the automata grow with it)"""
    while True:
        t, n = gen_expr(rng, depth)
        # ambiguous spellings are not generated: `]-x` (the bracket would be read as the start of a range) and a
        # group whose first item is a literal `^`, a pattern starting with a literal `^` (read as the start anchor)
        if n <= max_size and wide_weight(t) <= max_wide and "]-" not in t and "[^]" not in t and "[^^" not in t and not t.startswith("^"):
            return ("^" if rng.random() < 0.05 else "") + t


REDUCED = ["a", "0", "A", "\\", "|", ".", "?", "*", "+", "(", ")", "[", "]", "{", "}", "$", "^", "-", ",", ":", "x", "p", "d"]


def exhaustive_strings(maxlen, alphabet=REDUCED):
    for n in range(0, maxlen + 1):
        for t in itertools.product(alphabet, repeat=n):
            yield "".join(t)


def mutate_pattern(rng, p):
    pool = REDUCED + ["b", "1", "}", "{", "\\x", "[:", ":]", "\\p{", "é"]
    i = rng.randrange(len(p) + 1)
    k = rng.random()
    if k < 0.34 and p:
        i = min(i, len(p) - 1)
        return p[:i] + p[i + 1:]
    if k < 0.67:
        return p[:i] + rng.choice(pool) + p[i:]
    if p:
        i = min(i, len(p) - 1)
        return p[:i] + rng.choice(pool) + p[i + 1:]
    return rng.choice(pool)


# every construct individually (each class, escape and hexadecimal form, every quantifier form)
def construct_corpus():
    out = ["a{18446744073709551616}", "a{18446744073709551618,3}", "a{9223372036854775808}", "a{1,18446744073709551616}", "a{99999999999999999999,}b",      # counts that do not fit into an int
           "[\\x7FFFFFF0-\\x7FFFFFFF]", "\\x7FFFFFFF", "[a\\x7FFFFFFF]", "[\\x7FFFFFFE-\\x7FFFFFFF]+b",      # ranges that end at the largest rune
           "a\\xEEEE", "a\\xEEEE?b", "[\\xEEE0-\\xEEEF]", "\\xEEEE*", "\\xEEEE", "(a|\\xEEEE)+b", "[^\\xEEEE]", "a\\xEEEE{2}",      # the character the direct route uses as end marker
           "a", ".", "$", "^a", "a$", "^if", "^ab", "^a^b", "^-", "^abc", "^_x", "if", "^^a", "a^", "a|b", "ab", "(a)", "(a|b)c", "a|", "()", "[]", "[a]", "[^a]", "[a-c]", "[^a-c]", "[c-a]", "[-]", "[a-]", "[--0]",
           "a?", "a*", "a+", "a{0}", "a{1}", "a{2}", "a{0,}", "a{1,}", "a{2,}", "a{0,0}", "a{0,1}", "a{1,2}", "a{2,4}", "a{3,1}", "a??", "a*?", "a+?", "a{1,2}?",
           "a**", "a+*", "a{1}{2}", "(a*)*", "(a?)+", "(a|b)*abb", "(ab|a)(bc|c)", "a(b|)c", "((a))", "(a", "a)", "a||b", "|a", "*a", "+", "?",
           "\\", "\\a", "\\n", "\\t", "\\/", "\\x", "\\x4", "\\x41", "\\x4g", "\\x414", "\\x4142", "\\x41424", "\\x41424344", "\\x414243445", "\\xFFFFFFFF", "\\x80000000", "\\x0000", "\\x00",
           "[\\x41-\\x43]", "[\\x0041-\\x0043]", "[\\x00FF]", "[^\\x00FF]", "[\\p{Greek}]", "[^\\p{Greek}a]", "[\\d-z]", "[a-\\d]", "[[:alpha:]]", "[^[:alpha:]0]", "[[:alpha:][:digit:]_]",
           "[:alpha:]", "[:alpha:]+", "[:nope:]", "\\p{L}", "\\P{L}", "\\p{Nope}", "\\p{Lu", "\\pL", "é", "a é", "[é]", ".{2,3}", "\\D{2}", "[^a]{0,2}b", ".*a", "(.|a)*", "\\S+\\s\\S+",
           "a{01}", "a{1,02}", "a{08}", "a{1,09}", "a{010,9}", "a{011,10}", "a{10,010}", "(a|b){0012,11}?", "a{007}", "a{0x2}", "a{,2}", "a{}", "a{1,2", "a{1 ,2}", "{1}", "a{2}{0}"]
    out += CLASSES + ASCII_CLASSES + UNI + UNI_BIG + ["\\" + c for c in ESCAPED] + list(ESCAPED) + HEX
    out += ["[" + c + "]" for c in CLASSES + ASCII_CLASSES + UNI] + ["[^" + c + "]" for c in CLASSES + ASCII_CLASSES]
    # names that are keys of internal tables, near-misses of documented names, and case variants: none is a documented category
    for name in ["ASCII", "UTF-8", "UTF8", "ascii", "Ascii", "L1", "Lx", "LL", "lu", "letter", "LETTER", "Letters", "Greekk", "Gree", "greek", "Han1", "",
                 "s", "d", "w", "alpha", ":alpha:", "Any", "All", "Is_Greek", "IsGreek", "Zs ", " Zs", "Z-s", "Cc", "Cn", "Co", "Cs", "Cf", "C", "Other"]:
        out += ["\\p{%s}" % name, "\\P{%s}" % name, "[\\p{%s}]" % name, "a\\p{%s}+" % name]
    for name in ["ascii", "ASCII", "alphanum", "Alpha", "space ", "w", "blank1", ""]:
        out += ["[[:%s:]]" % name, "[:%s:]" % name]
    return out


def pattern_lines(pats):
    return [hx(p.encode("utf-8")) for p in pats]


# ------------------------------------------------------------------ running patterns through implementation, model and oracle
_sem_bad = [False]


def outcome_of(line):
    """'OK ...' -> ('OK', None); 'ERR <hex>' -> ('ERR', message); others as they are"""
    if line.startswith("OK"):
        return ("OK", None)
    if line.startswith("ERR "):
        return ("ERR", unhx(line.split(" ", 1)[1]).decode("utf-8", "replace"))
    return (line.split(" ", 1)[0], line)


class Sweep:
    """all five views of a list of patterns"""
    def __init__(self, ctx, pats, want=("nfa", "ast", "spec")):
        self.pats = pats
        lines = pattern_lines(pats)
        self.impl_nfa = ctx.run_impl_par("renfa", lines, timeout=900, isolate=True) if "nfa" in want else None
        self.model_nfa = ctx.run_model_par("renfa", lines) if "nfa" in want else None
        self.model_fixed = ctx.run_model_par("renfafixed", lines) if "nfa" in want else None
        self.spec = ctx.run_model_par("respec", lines) if "spec" in want else None
        self.impl_ast = ctx.run_impl_par("reast", lines, timeout=900, isolate=True) if "ast" in want else None
        # the model of the followpos route is list-based: a few patterns with several wide sets under nested repetition take it minutes
        self.model_ast = ctx.run_model_budget("reast", lines) if "ast" in want else None


def lang_diff(a_line, b_line, skip=(0,)):
    """two 'OK <dfa>' lines -> None if same language (NUL excluded), else a shortest distinguishing string"""
    return dfa_diff(parse_dfa(a_line[3:]), parse_dfa(b_line[3:]), skip=skip)


def show_runes(w):
    return "".join(chr(c) if 32 <= c < 127 else "\\x{%X}" % c for c in w)


def crash_explained(ctx, *lines):
    """a crash that a recorded finding of this property explains - by the frame that raised the panic, never by the message
    (e.g. F24: the dependency's renumbering queue at a 64-entry node boundary)"""
    for l in lines:
        if l.split(" ", 1)[0] != "PANIC":
            continue
        text = decode_hex_fields(l)
        for f in known_for(ctx.pid):
            fr = f.get("explains_panic_frame")
            if fr and fr in text:
                if f not in ctx.known_hits:
                    ctx.known_hits.append(f)
                return f["id"]
    return None


def prepare_regex(ctx, module, quick):
    """build, regenerate the grammar and class tables, re-check the property module"""
    ctx.build_go()
    return ctx.prepare(["regex"], module, quick)
