"""C09 — a pattern is accepted only as a whole sentence of the documented pattern grammar."""
from .regexcommon import *
from . import regexcommon as rc
from .docregex import in_doc_regex

LEVEL = "proof"


def sem_bad_text(p):
    """does the text contain a repetition range with min > max (a descending character range is tracked by the generator)"""
    for m in re.finditer(r"\{(\d+),(\d+)\}", p):
        if int(m.group(1), 10) > int(m.group(2), 10):      # the documented num is a decimal number
            return True
    return False


def run(ctx):
    quick = ctx.tier == "quick"
    if not prepare_regex(ctx, "Emerge.Props.C09", quick):
        return ctx.finish(LEVEL, {"evaluations": 0, "distinct_nontrivial": 0, "samples": [], "explanation": "aborted"}, [])
    rng = ctx.rng
    exh = list(exhaustive_strings(3 if quick else 4))
    corpus = construct_corpus()
    canon = []
    for _ in range(1500 if quick else 20000):
        canon.append(gen_pattern(rng, max_size=40, max_wide=80))   # acceptance does not depend on class width; wide classes are slow on the followpos route
    muts = []
    for p in rng.sample(canon, 300 if quick else 3000):
        for _ in range(4 if quick else 10):
            m = mutate_pattern(rng, p)
            if wide_weight(m) <= 80:        # a mutation can turn a small range into one over tens of thousands of code points
                muts.append(m)
    pats = corpus + exh + canon + muts
    kinds = ["corpus"] * len(corpus) + ["exhaustive"] * len(exh) + ["canonical"] * len(canon) + ["mutation"] * len(muts)
    lines = pattern_lines(pats)
    nfa = ctx.run_impl_par("renfaonly", lines, timeout=900, isolate=True)
    ast = ctx.run_impl_par("reastonly", lines, timeout=900, isolate=True)
    model = ctx.run_model_par("repat", lines)
    stats = {"accepted": 0, "invalid": 0, "semantic": 0, "crash": 0}
    ncorr = 0
    distinct = set()
    for idx, (p, k, n, a, m) in enumerate(zip(pats, kinds, nfa, ast, model)):
        on, oa, om = outcome_of(n), outcome_of(a), outcome_of(m)
        if on[0] in ("CRASH", "PANIC", "NILNIL") or oa[0] in ("CRASH", "PANIC", "NILNIL"):
            stats["crash"] += 1     # C14's subject; the pattern cannot be decided here
            if crash_explained(ctx, n, a):
                stats["crashes_explained_by_known_findings"] = stats.get("crashes_explained_by_known_findings", 0) + 1
                continue
            ctx.add_broken("correspondence: a pattern crashed an entry point (see C14): %r" % p, "nfa=%s ast=%s" % (n[:200], a[:200]))
            continue
        if (on != om or oa != om) and ncorr < 20:
            # is it this pattern, or what was parsed before it? the same pattern alone in a fresh process
            sn = outcome_of(ctx.run_impl("renfaonly", pattern_lines([p]), isolate=True)[0])
            sa = outcome_of(ctx.run_impl("reastonly", pattern_lines([p]), isolate=True)[0])
            if (sn == om and on != om) or (sa == om and oa != om):
                ctx.add_violation("the outcome for a pattern depends on the patterns parsed before it in the same process: alone it is %s, after them %s" % (om[0], (on if on != om else oa)[:2]),
                                  {"pattern": p, "pattern_hex": hx(p.encode()), "alone": [sn, sa], "in_sequence": [on, oa], "model_of_code": om,
                                   "preceding_patterns_in_the_same_process": pats[idx % 14:idx:14][-6:]})
        if on != om or oa != om:
            ncorr += 1
            if ncorr <= 3:
                ctx.add_broken("correspondence: model of the pattern parser and nfa.Parse / ast.Parse disagree on %r" % p,
                               "nfa.Parse=%s\nast.Parse=%s\nmodel=%s" % (on, oa, om))
        for who, o in (("nfa.Parse", on), ("ast.Parse", oa)):
            if o[0] == "OK":
                if not in_doc_regex(p):
                    ctx.add_violation("%s accepted a text that is not a sentence of the documented pattern grammar" % who,
                                      {"pattern": p, "pattern_hex": hx(p.encode()), "implementation": o[0], "model_of_code": om[0], "oracle": "checks/docregex.py (Earley, documented grammar)"})
                elif sem_bad_text(p):
                    ctx.add_violation("%s accepted a repetition range whose minimum exceeds its maximum" % who,
                                      {"pattern": p, "pattern_hex": hx(p.encode()), "implementation": o[0], "model_of_code": om[0]})
            elif o[0] == "ERR":
                if o[1].startswith("invalid regular expression"):
                    if k == "canonical" and in_doc_regex(p):
                        ctx.add_violation("%s rejected a pattern written with the documented constructs in their unambiguous forms" % who,
                                          {"pattern": p, "pattern_hex": hx(p.encode()), "implementation": o[1], "model_of_code": om})
                elif not ("invalid character range" in o[1] or "invalid repetition range" in o[1]):
                    ctx.add_violation("%s rejected a grammatical pattern with an error that does not name the problem" % who,
                                      {"pattern": p, "pattern_hex": hx(p.encode()), "implementation": o[1]})
                elif not in_doc_regex(p):
                    ctx.add_violation("%s reported a semantic error for a text that is not grammatical" % who, {"pattern": p, "pattern_hex": hx(p.encode()), "implementation": o[1]})
        if on[0] == "OK":
            stats["accepted"] += 1; distinct.add(p)
        elif on[0] == "ERR" and on[1].startswith("invalid regular"):
            stats["invalid"] += 1
        else:
            stats["semantic"] += 1
    cov = {"evaluations": len(pats), "distinct_nontrivial": len(distinct),
           "rule": "every string up to length %d over the reduced alphabet %s (every metacharacter plus representatives), a corpus of every construct/class/escape form, seeded random patterns built from the documented constructs (groups, alternation, all quantifier forms, bracket groups with ranges and classes, hexadecimal escapes; 6%% with a descending range or min>max), and single-edit mutations of them; each through nfa.Parse, regex ast.Parse and the Lean model; non-trivial = distinct accepted pattern" % (3 if quick else 4, "".join(REDUCED)),
           "samples": [canon[0], muts[0], exh[len(exh) // 2]], "outcomes": stats, "by_kind": {k: kinds.count(k) for k in set(kinds)},
           "correspondence_disagreements": ncorr, "exhaustive": False,
           "trusted_base": TRUSTED_BASE + ["Emerge/Ref/Regex.lean: transcription of the documented pattern grammar", "checks/docregex.py: the same grammar as a CFG with an Earley recogniser (oracle of the search only)",
                                         "hand-modelled: the mappers up to the syntax tree (Emerge.Regex.Pat.app); combinator semantics of moorara/algo parser/combinator (Emerge.Regex.ev)"]}
    return ctx.finish(LEVEL, cov, ["completeness (every unambiguous documented form is accepted) is explored, not proved; fuel sufficiency of the interpreter is checked per case (OOF is reported)"])


def replay(ctx, rp):
    ctx.build_go(); ctx.extract(["regex"]); ctx.lake(["model"])
    l = [rp["pattern_hex"]]
    print("pattern       :", rp["pattern"])
    print("nfa.Parse     :", decode_hex_fields(ctx.run_impl("renfaonly", l, isolate=True)[0])[:300])
    print("ast.Parse     :", decode_hex_fields(ctx.run_impl("reastonly", l, isolate=True)[0])[:300])
    print("model of code :", decode_hex_fields(ctx.run_model("repat", l)[0])[:300])
    print("documented grammar (Earley):", in_doc_regex(rp["pattern"]))
