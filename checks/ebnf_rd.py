"""Independent recursive-descent recogniser for emerge's EBNF, written from docs/5-definitions.md
(grammar + published precedence list: juxtaposition binds tighter than `|`, `|` groups to the
right, handles and operands are consumed greedily).  It yields, for a sequence of token kinds,
either the reduction/shift event sequence an LR parser for the 35-production grammar must
produce (post-order of the derivation) or the index of the first token after which no valid
specification can continue.  Used as oracle for C04, C11, C18, C20; plus generators of valid
token sequences and texts."""

TERMS = ["=", ";", "|", "(", ")", "[", "]", "{", "}", "{{", "}}", "<", ">",
         "grammar", "@left", "@right", "@none", "IDENT", "TOKEN", "STRING", "REGEX", "PREDEF"]
T = {n: i for i, n in enumerate(TERMS)}
EOF_K = len(TERMS)
OPEN = {T["("]: (T[")"], 24), T["["]: (T["]"], 25), T["{"]: (T["}"], 26), T["{{"]: (T["}}"], 27)}
FIRST_PRIMARY = set(OPEN) | {T["IDENT"], T["TOKEN"], T["STRING"]}


class SyntaxErr(Exception):
    def __init__(self, idx):
        self.idx = idx


class RD:
    def __init__(self, toks):
        self.t = list(toks)
        self.i = 0
        self.ev = []

    def la(self):
        return self.t[self.i] if self.i < len(self.t) else EOF_K

    def shift(self, k):
        if self.la() != k:
            raise SyntaxErr(self.i)
        self.ev.append("T%d" % self.i)
        self.i += 1

    def red(self, p):
        self.ev.append("P%d" % p)

    def semi_opt(self):
        if self.la() == T[";"]:
            self.shift(T[";"]); self.red(7)
        else:
            self.red(8)

    def grammar(self):
        self.shift(T["grammar"]); self.shift(T["IDENT"]); self.semi_opt(); self.red(1)
        self.red(3)
        while self.la() != EOF_K:
            self.decl(); self.red(2)
        self.red(0)

    def decl(self):
        k = self.la()
        if k == T["TOKEN"]:
            self.shift(k); self.shift(T["="])
            v = self.la()
            if v == T["STRING"]:
                self.shift(v); self.red(9)
            elif v == T["REGEX"]:
                self.shift(v); self.red(10)
            elif v == T["PREDEF"]:
                self.shift(v); self.red(11)
            else:
                raise SyntaxErr(self.i)
            self.semi_opt(); self.red(4)
        elif k in (T["@left"], T["@right"], T["@none"]):
            self.shift(k)
            self.handles()
            self.red({T["@left"]: 12, T["@right"]: 13, T["@none"]: 14}[k])
            self.semi_opt(); self.red(5)
        elif k == T["IDENT"]:
            self.rule(); self.shift(T[";"]); self.red(6)
        else:
            raise SyntaxErr(self.i)

    def handle(self, first):
        k = self.la()
        if k == T["TOKEN"]:
            self.shift(k); self.red(33); self.red(17 if first else 15)
        elif k == T["STRING"]:
            self.shift(k); self.red(34); self.red(17 if first else 15)
        elif k == T["<"]:
            self.shift(k); self.rule(); self.shift(T[">"]); self.red(19); self.red(18 if first else 16)
        else:
            raise SyntaxErr(self.i)

    def handles(self):
        self.handle(True)
        while self.la() in (T["TOKEN"], T["STRING"], T["<"]):      # greedy
            self.handle(False)

    def rule(self):
        self.shift(T["IDENT"]); self.red(32); self.red(22)
        self.shift(T["="])
        if self.la() in FIRST_PRIMARY:
            self.rhs(); self.red(20)
        else:
            self.red(21)

    def primary(self):
        k = self.la()
        if k in OPEN:
            close, p = OPEN[k]
            self.shift(k); self.rhs(); self.shift(close); self.red(p)
        elif k == T["IDENT"]:
            self.shift(k); self.red(32); self.red(30)
        elif k == T["TOKEN"]:
            self.shift(k); self.red(33); self.red(31)
        elif k == T["STRING"]:
            self.shift(k); self.red(34); self.red(31)
        else:
            raise SyntaxErr(self.i)

    def seq(self):
        self.primary()
        while self.la() in FIRST_PRIMARY:                         # greedy, left-associative
            self.primary(); self.red(23)

    def rhs(self):
        self.seq()
        if self.la() == T["|"]:
            self.shift(T["|"])
            if self.la() in FIRST_PRIMARY:
                self.rhs(); self.red(28)                           # groups to the right
            else:
                self.red(29)
                # `rhs "|"` is itself an rhs: it may be followed by more operands only via another `|`
                while self.la() == T["|"]:
                    self.shift(T["|"])
                    if self.la() in FIRST_PRIMARY:
                        self.rhs(); self.red(28); break
                    self.red(29)


def recognise(toks):
    """-> ("ACCEPT", events) or ("ERR", index_of_offending_token, events_so_far)"""
    r = RD(toks)
    try:
        r.grammar()
        if r.i != len(r.t):
            raise SyntaxErr(r.i)
        return ("ACCEPT", r.ev)
    except SyntaxErr as e:
        return ("ERR", e.idx, r.ev)


# ------------------------------------------------------------------ generators
def gen_rhs(rng, depth):
    n = rng.choice([1, 1, 2, 3])
    out = []
    for a in range(n):
        m = rng.choice([1, 1, 2, 3])
        for _ in range(m):
            x = rng.random()
            if depth > 0 and x < 0.35:
                o = rng.choice(list(OPEN))
                out += [o] + gen_rhs(rng, depth - 1) + [OPEN[o][0]]
            else:
                out.append(rng.choice([T["IDENT"], T["IDENT"], T["TOKEN"], T["STRING"]]))
        if a < n - 1:
            out.append(T["|"])
    if rng.random() < 0.15:
        out.append(T["|"])
    return out


def gen_rule(rng, depth=3):
    out = [T["IDENT"], T["="]]
    if rng.random() < 0.9:
        out += gen_rhs(rng, depth)
    return out


def gen_spec(rng, maxdecl=6):
    out = [T["grammar"], T["IDENT"]]
    if rng.random() < 0.5:
        out.append(T[";"])
    prev_open = False     # previous declaration may swallow a following TOKEN/STRING/IDENT start
    for _ in range(rng.choice([0, 1, 2, 3, maxdecl])):
        k = rng.random()
        if k < 0.3:
            d = [T["TOKEN"], T["="], rng.choice([T["STRING"], T["REGEX"], T["PREDEF"]])]
            semi = rng.random() < 0.5
            out += d + ([T[";"]] if semi else [])
        elif k < 0.5:
            d = [rng.choice([T["@left"], T["@right"], T["@none"]])]
            for _ in range(rng.choice([1, 1, 2, 4])):
                if rng.random() < 0.7:
                    d.append(rng.choice([T["TOKEN"], T["STRING"]]))
                else:
                    d += [T["<"]] + gen_rule(rng, 2) + [T[">"]]
            out += d + [T[";"]] if rng.random() < 0.6 else d
            # without the semicolon a following token declaration would be swallowed: the generator may
            # produce such invalid sequences on purpose (the oracle decides)
        else:
            out += gen_rule(rng) + [T[";"]]
    return out


IDENTS = ["a", "b", "expr", "start", "g", "gram", "grammarx", "x_1", "stmt"]
TOKENS = ["AB", "ID", "NUM", "T_1", "IF"]
STRINGS = ['"a"', '"+"', '"if"', '"\\""', '"{{"', '"a\\\\b"']
REGEXES = ["/a/", "/[a-z]+/", "/a|b/", "/x*/", "/[0-9]+(\\.[0-9]+)?/"]
PREDEFS = ["$WS", "$ID", "$NUMBER", "$STRING", "$FOO"]


def render(rng, toks, seps=(" ", " ", " ", "\n", "\t", "  ", " /* c */ ", " // c\n", "\n\n", " ", "\n",
                            # comments that end in runs of asterisks, hold asterisks and slashes, span lines
                            " /** d **/ ", "/****/", " /* a * b / c */ ", "/***/", " /*** x\n * y ****/\n", " /**/ ", " // * / */\n",
                            "/*/*/", " /*/ c */ ", "/*/ b /*/")):
    """token kinds -> source text with random lexemes and separators; returns (text, lexemes)"""
    parts, lex = [], []
    for k in toks:
        n = TERMS[k]
        if n == "IDENT":
            s = rng.choice(IDENTS)
        elif n == "TOKEN":
            s = rng.choice(TOKENS)
        elif n == "STRING":
            s = rng.choice(STRINGS)
        elif n == "REGEX":
            s = rng.choice(REGEXES)
        elif n == "PREDEF":
            s = rng.choice(PREDEFS)
        else:
            s = n
        lex.append(s)
        parts.append(s)
        parts.append(rng.choice(seps))
    return "".join(parts), lex
