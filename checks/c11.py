"""C11 — the syntax trees of a specification reflect the source exactly and round-trip."""
from .speccommon import *

LEVEL = "proof"
K = 4
ASSOC = {"@none": 0, "@left": 1, "@right": 2}


def goquote(s):
    return '"' + s.replace("\\", "\\\\").replace('"', '\\"') + '"'


# ------------------------------------------------------------------ expected typed tree, from the generator's tree alone
def norm(r):
    k = r[0]
    if k == "nt":
        return ("nt", r[1])
    if k == "tok":
        return ("t", r[1])
    if k == "str":
        return ("t", goquote(r[1]))
    if k == "group":
        return norm(r[1])
    if k in ("opt", "star", "plus"):
        return (k, norm(r[1]))
    if k == "seq":
        ops = []
        for x in r[1]:
            n = norm(x)
            ops.extend(n[1] if n[0] == "concat" else [n])
        return ops[0] if len(ops) == 1 else ("concat", ops)
    if k == "alt":
        ops = []
        for x in r[1]:
            n = norm(x)
            ops.extend(n[1] if n[0] == "alt" else [n])
        if r[2]:
            ops.append(("eps",))
        return ops[0] if len(ops) == 1 and not r[2] else ("alt", ops)
    raise ValueError(k)


def expected_tree(spec):
    decls = []
    for d in spec["decls"]:
        if d[0] == "token":
            if d[2] == "string":
                decls.append(("strtok", d[1], d[3]))
            elif d[2] == "regex":
                decls.append(("retok", d[1], d[3]))
            else:
                if d[3] not in sg.PREDEFS:
                    return None
                decls.append(("retok", d[1], sg.PREDEFS[d[3]]))
        elif d[0] == "dir":
            hs = []
            for h in d[2]:
                if h[0] == "tok":
                    hs.append(("th", h[1]))
                elif h[0] == "str":
                    hs.append(("th", goquote(h[1])))
                else:
                    hs.append(("ph", h[1], ("eps",) if h[2] is None else norm(h[2])))
            decls.append(("prec", ASSOC[d[1]], hs))
        else:
            decls.append(("rule", d[1], ("eps",) if d[2] is None else norm(d[2])))
    return ("grammar", spec["name"], decls)


# ------------------------------------------------------------------ reading the harness's S-expression
def read_sexpr(s):
    toks = s.replace("(", " ( ").replace(")", " ) ").split()
    pos = [0]

    def rd():
        t = toks[pos[0]]; pos[0] += 1
        if t == "(":
            out = []
            while toks[pos[0]] != ")":
                out.append(rd())
            pos[0] += 1
            return out
        return t
    return rd()


def dec(x):
    return unhx(x).decode("utf-8", "replace")


def tree_of(sx):
    k = sx[0]
    if k == "grammar":
        return ("grammar", dec(sx[1]), [tree_of(x) for x in sx[2:]])
    if k in ("strtok", "retok"):
        return (k, dec(sx[1]), dec(sx[2]))
    if k == "prec":
        return ("prec", int(sx[1]), [tree_of(x) for x in sx[2:]])
    if k == "th":
        return ("th", dec(sx[1]))
    if k in ("ph", "rule"):
        return (k, dec(sx[1]), tree_of(sx[2]))
    if k in ("concat", "alt"):
        return (k, [tree_of(x) for x in sx[1:]])
    if k in ("opt", "star", "plus"):
        return (k, tree_of(sx[1]))
    if k in ("nt", "t"):
        return (k, dec(sx[1]))
    if k == "eps":
        return ("eps",)
    return ("?", sx)


# ------------------------------------------------------------------ the grammar the typed tree denotes (bounded languages)
def denote_typed(r, env, k):
    t = r[0]
    if t == "eps":
        return {()}
    if t == "t":
        return {(r[1],)}
    if t == "nt":
        return env.get(r[1], set())
    if t == "concat":
        acc = {()}
        for x in r[1]:
            acc = sg.cat(acc, denote_typed(x, env, k), k)
        return acc
    if t == "alt":
        out = set()
        for x in r[1]:
            out |= denote_typed(x, env, k)
        return out
    if t == "opt":
        return {()} | denote_typed(r[1], env, k)
    if t in ("star", "plus"):
        base = denote_typed(r[1], env, k)
        acc = set(base) if t == "plus" else {()}
        while True:
            nxt = acc | sg.cat(acc, base, k)
            if t == "star":
                nxt |= {()}
            if nxt == acc:
                return acc
            acc = nxt
    raise ValueError(t)


def typed_languages(tree, k):
    rules = {}
    for d in tree[2]:
        if d[0] == "rule":
            rules.setdefault(d[1], []).append(d[2])
        elif d[0] == "prec":
            for h in d[2]:
                if h[0] == "ph":
                    rules.setdefault(h[1], []).append(h[2])
    env = {h: set() for h in rules}
    changed = True
    while changed:
        changed = False
        for h, bodies in rules.items():
            new = set()
            for b in bodies:
                new |= denote_typed(b, env, k)
            if new != env[h]:
                env[h] = new; changed = True
    return env


def run(ctx):
    quick = ctx.tier == "quick"
    ctx.build_go()
    if not ctx.prepare(["lexer", "tables", "specmaps"], "Emerge.Props.C11", quick):
        return ctx.finish(LEVEL, {"evaluations": 0, "distinct_nontrivial": 0, "samples": [], "explanation": "aborted"}, [])
    rng = ctx.rng
    cases = []
    special = ["grammar x", "grammar x;", "grammar x\n", "grammar x; a =;", "grammar x; a = ;\nb = |;", "grammar x; start = (((((( a )))))) [[[ b ]]] {{{ c }}} {{ {{ d }} }};",
               "grammar x; @left \"+\"; TT = \"t\"; start = TT; @right <start = start \"+\" start> TT; RR = /r/; PP = $ID",
               "grammar x; start = a | b | c | | ;", "grammar x; start = (a | b) (c | d) | (e f) (g h);", "grammar x; start = a (b (c (d (e)))) | ((((a) b) c) d) e;"]
    for tree, text, defects in gen_cases(ctx, 700 if quick else 12000, defect_rate=0.0):
        cases.append((tree, text))
    texts = [t.encode() for t in special] + [c[1] for c in cases]
    trees = [None] * len(special) + [c[0] for c in cases]
    lines = [hx(t) for t in texts]
    typed = ctx.run_impl_par("ebnftyped", lines, isolate=True)
    typed_model = ctx.run_model_par("ebnftyped", lines)
    rnd = ctx.run_impl_par("ebnfround", lines, isolate=True)
    gen = ctx.run_impl_par("ebnftree", lines, isolate=True)
    scan = ctx.run_impl_par("scan", lines, isolate=True)
    specs = ctx.run_impl_par("spec", lines, isolate=True)
    # the tie of the typed-tree model (EbnfTyped.typedAction, about which C11_typed_* are proved) to ast.Parse
    ntyped = 0
    for text, ty, tm in zip(texts, typed, typed_model):
        same = (ty == tm) if (ty.startswith("OK") or tm.startswith("OK")) else (ty.split(" ")[0] == tm.split(" ")[0])
        if not same:
            ntyped += 1
            if ntyped <= 3:
                ctx.add_broken("correspondence: the model of the typed-tree actions and ast.Parse disagree on a specification",
                               "input=%r\nimpl=%s\nmodel=%s" % (text, decode_hex_fields(ty)[:800], decode_hex_fields(tm)[:800]))
    stats = {"typed_model_disagreements": ntyped, "typed_trees_compared_with_source_tree": 0, "round_trips": 0, "generic_trees": 0, "languages_compared": 0, "rejected": 0, "explained_by_known_findings": 0}
    distinct = set()
    for text, tree, ty, rt, gt, sc_, sp in zip(texts, trees, typed, rnd, gen, scan, specs):
        for who, o in (("ast.Parse", ty), ("ParseAndBuildAST", gt)):
            if o.split(" ")[0] in ("PANIC", "CRASH", "NILNIL"):
                ctx.add_violation("%s crashed or returned nothing for a specification" % who, {"input": text.decode(), "input_hex": hx(text), "implementation": decode_hex_fields(o)[:500]})
        if not ty.startswith("OK"):
            stats["rejected"] += 1
            continue
        distinct.add(text)
        got = tree_of(read_sexpr(ty[3:]))
        # (b) the typed tree has the declarations, operators, nesting and operand order that were written
        if tree is not None:
            want = expected_tree(tree)
            if want is not None:
                stats["typed_trees_compared_with_source_tree"] += 1
                if got != want:
                    ctx.add_violation("the typed tree does not have the declarations, operators, nesting and operand order that were written",
                                      {"input": text.decode(), "input_hex": hx(text), "typed_tree": repr(got)[:1500], "written": repr(want)[:1500]})
        # (c) printing the typed tree back to EBNF and parsing it again yields an equal tree
        stats["round_trips"] += 1
        if not rt.startswith("SAME"):
            ctx.add_violation("printing the typed tree back to EBNF and parsing it again does not yield an equal tree",
                              {"input": text.decode(), "input_hex": hx(text), "round_trip": decode_hex_fields(rt)[:1500]})
        # (a) the leaves of the parse tree are the significant tokens with their positions; every interior node applies one rule
        if gt.startswith("OK"):
            stats["generic_trees"] += 1
            f = dict(x.split("=", 1) for x in gt.split(" ")[1:])
            leaves = [tuple(x.split(":")) for x in f["leaves"].split(",") if x]
            toks = []
            for x in sc_.split(" "):
                if x and not x.startswith("END") and ":" in x:
                    p = x.split(":")
                    toks.append((p[0], p[1], "%s/%s/%s" % (p[2], p[3], p[4])))
            if f["rules"] != "true" or leaves != toks:
                ctx.add_violation("the parse tree's leaves are not the significant tokens with their positions, or an interior node does not apply one rule of the grammar",
                                  {"input": text.decode(), "input_hex": hx(text), "rules_ok": f["rules"], "leaves": decode_hex_fields(f["leaves"])[:800], "tokens": decode_hex_fields(sc_)[:800]})
        else:
            ctx.add_violation("the typed tree was built but the parse tree was not", {"input": text.decode(), "input_hex": hx(text), "implementation": decode_hex_fields(gt)[:400]})
        # (d) the grammar obtained from the typed tree's structure is the one emerge derives directly
        if sp.startswith("OK"):
            stats["languages_compared"] += 1
            direct = sg.cfg_languages(parse_ok(sp)["P"], K)
            mine = typed_languages(got, K)
            bad = None
            for h, ws in mine.items():
                ws2 = {tuple((x[1:-1].replace('\\"', '"').replace("\\\\", "\\") if x.startswith('"') else x) for x in w) for w in ws}
                if direct.get(h, set()) != ws2:
                    bad = (h, sorted(ws2 - direct.get(h, set()))[:3], sorted(direct.get(h, set()) - ws2)[:3])
                    break
            if bad:
                facts = sg.spec_facts(tree) if tree is not None else None
                known = {f["id"] for f in known_for("C11")}
                conflated = facts is not None and (set(facts["used_strs"]) & (set(facts["token_defs"]) | set(facts["used_tokens"])))
                synth = re.search(r"\bgen\d*_\w+\b", text.decode("utf-8", "replace")) is not None
                if (conflated and "F14" in known) or (synth and "F2b" in known):
                    stats["explained_by_known_findings"] += 1
                else:
                    ctx.add_violation("the grammar obtained from the typed tree's structure is not the one emerge derives directly (rule %s)" % bad[0],
                                      {"input": text.decode(), "input_hex": hx(text), "rule": bad[0], "only_from_typed_tree": [list(x) for x in bad[1]], "only_direct": [list(x) for x in bad[2]]})
    ctx.witness_hits()
    cov = {"evaluations": len(texts), "distinct_nontrivial": len(distinct),
           "rule": "special cases (no declarations, empty rules, deep nesting, every declaration kind) and seeded random valid specifications rendered in varying layouts; per specification: the typed tree against the tree the text was rendered from (flattening of juxtaposition and alternation, transparent groups, trailing | as an empty alternative, operand order), the round trip print -> parse, the parse tree's leaves against the lexer's token stream with positions and the production of every interior node, and the bounded languages of the grammar read off the typed tree against the grammar spec.Parse derives; non-trivial = distinct accepted specification",
           "samples": [texts[5].decode(), texts[len(special) + 1].decode()[:300]], "outcomes": stats,
           "explanation": "proof for the generic tree (leaves = tokens in order, every interior node has the arity of its production: C11_leaves, C11_arity, with C18's derivation-order theorems); the typed tree, its round trip and its agreement with the directly derived grammar are decided per specification against the generator's own tree and bounded languages (not proved)",
           "trusted_base": TRUSTED_BASE + ["checks/c11.py: expected typed tree and EBNF denotation; harness/ebnfast.go: S-expression printer and EBNF printer for typed trees"]}
    return ctx.finish(LEVEL, cov, ["languages compared up to length %d" % K, "positions of typed-tree nodes are not compared (the printer chooses its own layout)"])


def replay(ctx, rp):
    ctx.build_go()
    for cmd in ("ebnftyped", "ebnfround", "ebnftree"):
        print(cmd, ":", decode_hex_fields(ctx.run_impl(cmd, [rp["input_hex"]], isolate=True)[0])[:1500])
