"""C13 — the result depends only on the token sequence, not on layout, padding or file size."""
from .lrcommon import *
from .c20 import parse_scan

LEVEL = "proof"
BUF = 4096


def relayout(rng, toks, lex):
    """The same tokens with another layout (separators, comments, newlines)."""
    seps = [" ", "\n", "\t", "  ", " /* c */ ", " // c\n", "\n\n", "\r\n", " /***/ ", "/**/",
            # block comments over several lines, with every line-end convention, lines ending in `*`, banners
            "/*/*/", " /*/ c */ ", "/*/ b /*/", " /*// c */ ", "/*/\n*/",          # a comment whose text begins with a slash
            "/**\n * c\n */", "/**\r\n * c\r\n */", "/*\r*\r*/", " /*****\r\n c *\r\n *****/ ", "/* * / ** /\t*\t*/", " // c\r\n", "//\n", "\r", "/*\n\n*/"]
    parts = []
    for k, s in zip(toks, lex):
        parts.append(s)
        parts.append(rng.choice(seps))
    return "".join(parts)


def run(ctx):
    quick = ctx.tier == "quick"
    ctx.build_go()
    have_model = True
    try:
        ctx.extract(["lexer", "tables"])
        ctx.prove("Emerge.Props.C13")
        if not quick:
            ctx.leanchecker("Emerge.Props.C13")
    except Broken as b:
        ctx.add_broken(b.what, b.detail)
        ok, out = ctx.lake(["model"])
        if not ok:
            # the model of the code cannot be rebuilt (the source lost the shape the translator reads): the search for a
            # failing input goes on with what does not depend on it - layouts against each other, the padding sweeps, and
            # the documented scanner (a hand transcription, present in the driver built before)
            have_model = False
            if not os.path.exists(MODEL):
                ctx.add_broken("model driver no longer builds", out[-2000:])
                return ctx.finish(LEVEL, {"evaluations": 0, "distinct_nontrivial": 0, "samples": []}, [])
    rng = ctx.rng
    # ---- (a) re-layouts of the same token sequence: identical callback sequence, final newline irrelevant
    texts, groups = [], []
    nspec = 120 if quick else 1200
    for g in range(nspec):
        t = rd.gen_spec(rng, 5)
        if rng.random() < 0.2:
            t = mutate(rng, t)
        _, lex = rd.render(rng, t)
        for v in range(4):
            txt = relayout(rng, t, lex)
            for final in (txt.rstrip(), txt.rstrip() + "\n", txt.rstrip() + " \t\n\n"):
                texts.append(final.encode()); groups.append(g)
    texts = [x if x else b" " for x in texts]
    lines = ["-1 " + hx(x) for x in texts]
    impl = ctx.run_impl("parse", lines)
    model = ctx.run_model("parse", lines) if have_model else impl
    ncorr = 0
    first = {}
    distinct = set()
    for x, g, i, m in zip(texts, groups, impl, model):
        if i != m:
            ncorr += 1
            if ncorr <= 3:
                ctx.add_broken("correspondence: scanner+driver model and parser.Parse disagree on %r" % x, "impl=%s\nmodel=%s" % (i, m))
        evs, res = split_out(i)
        key = (tuple(evs), res if res == "ACCEPT" else "ERR")
        distinct.add(x)
        if g not in first:
            first[g] = (key, x)
        elif first[g][0] != key:
            ctx.add_violation("two layouts of the same token sequence give different results",
                              {"input_hex": hx(x), "input": x.decode(), "other_layout": first[g][1].decode(),
                               "implementation": i, "other_result": " ".join(first[g][0][0]) + " | " + first[g][0][1]})
    ctx.note('re-layout phase done: %d texts' % len(texts))
    # ---- (a') optional semicolons: the one after the grammar header, after a token definition, after a directive (the one that
    # ends a rule is mandatory). Written with all of them, then with random subsets removed: accepted either way.
    # Recorded finding F31: the documented grammar cannot tell `@left AA` followed by the token definition `BB = ...` from the
    # directive `@left AA BB` (TOKEN is a handle) - there the semicolon is required.
    T = rd.T
    semi_cases = []
    for _ in range(150 if quick else 1500):
        decls = [[T["grammar"], T["IDENT"]]]
        for _ in range(rng.choice([1, 2, 3, 5])):
            k = rng.random()
            if k < 0.35:
                decls.append([T["TOKEN"], T["="], rng.choice([T["STRING"], T["REGEX"], T["PREDEF"]])])
            elif k < 0.6:
                d = [rng.choice([T["@left"], T["@right"], T["@none"]])]
                for _ in range(rng.choice([1, 1, 2])):
                    d += [rng.choice([T["TOKEN"], T["STRING"]])] if rng.random() < 0.75 else [T["<"]] + rd.gen_rule(rng, 2) + [T[">"]]
                decls.append(d)
            else:
                decls.append(rd.gen_rule(rng, 2))
        full = [x for d in decls for x in d + [T[";"]]]
        if rd.recognise(full)[0] != "ACCEPT":
            continue
        optional = [i for i, d in enumerate(decls) if d[0] != T["IDENT"]]
        for _ in range(3):
            drop = set(i for i in optional if rng.random() < 0.5)
            var = [x for i, d in enumerate(decls) for x in d + ([] if i in drop else [T[";"]])]
            f31 = any(i in drop and decls[i][0] in (T["@left"], T["@right"], T["@none"]) and i + 1 < len(decls) and decls[i + 1][0] == T["TOKEN"] for i in range(len(decls)))
            semi_cases.append((full, var, f31))
    if semi_cases:
        def txt_of(toks):
            return rd.render(rng, toks)[0].encode()
        a = ctx.run_impl("parse", ["-1 " + hx(txt_of(f)) for f, _, _ in semi_cases])
        b = ctx.run_impl("parse", ["-1 " + hx(txt_of(v)) for _, v, _ in semi_cases])
        nf31 = 0
        for (full, var, f31), ra, rb in zip(semi_cases, a, b):
            acc_a, acc_b = split_out(ra)[1] == "ACCEPT", split_out(rb)[1] == "ACCEPT"
            if acc_a != acc_b:
                if f31 and any(f["id"] == "F31" for f in known_for("C13")):
                    nf31 += 1
                    continue
                ctx.add_violation("removing optional semicolons changed whether the specification is accepted",
                                  {"with_all_semicolons": [rd.TERMS[x] for x in full], "with_some_removed": [rd.TERMS[x] for x in var],
                                   "accepted_with_all": acc_a, "accepted_with_some_removed": acc_b})
        ctx.note("optional-semicolon phase done: %d pairs, %d explained by F31" % (len(semi_cases), nf31))
    # ---- (b) padding sweep across both buffer-half boundaries (and beyond), several pad kinds and insertion points
    sweeps = []
    nsw = 6 if quick else 40
    step = 7 if quick else 1
    hi = 2 * BUF + 64
    near = sorted(set(p for b in (BUF, 2 * BUF) for p in range(b - 40, b + 12) if p >= 0))
    for _ in range(nsw):
        t = rd.gen_spec(rng, 4)
        if rd.recognise(t)[0] != "ACCEPT":
            continue
        txt, lex = rd.render(rng, t, seps=(" ", "\n", " "))
        # insertion points: before everything, and at two token boundaries
        toks_txt = relayout(random_const(), t, lex)
        cut_points = [0]
        acc = 0
        bounds = []
        for s in lex:
            acc += len(s) + 1
            bounds.append(acc)
        if len(bounds) > 2:
            cut_points += [bounds[len(bounds) // 2], bounds[-2]]
        base = "".join(s + " " for s in lex)
        for cp in cut_points:
            for kind in (["sp", "cm", "lc", "mix", "nl"] if not quick else [rng.choice(["sp", "mix", "nl"]), rng.choice(["cm", "lc"])]):
                for final in ("", "\n"):
                    head, tail = base[:cp], base[cp:].rstrip() + final
                    sweeps.append("%s %s %s 0 %d %d %s" % (hx(head), hx(tail), kind, hi, step, " ".join(map(str, near))))
    sw_out = ctx.run_impl_par("padsweep", sweeps, timeout=3000) if sweeps else []
    nparses = 0
    for l, o in zip(sweeps, sw_out):
        f = o.split()
        if f[0] == "UNIFORM":
            nparses += int(f[1])
            if "ACCEPT" not in f[2]:
                ctx.add_violation("a valid specification is rejected (padding sweep base case)", {"sweep": l, "result": o})
        else:
            p = int(f[1])
            fl = l.split()
            ctx.add_violation("the result changes with the amount of padding (buffer boundary dependence)",
                              {"head_hex": fl[0], "tail_hex": fl[1], "pad_kind": fl[2], "pad_amount": p,
                               "result_at_pad": f[2].replace("_", " "), "result_without": f[4].replace("_", " "),
                               "how_to_run": "./check C13 --replay <this file>"})
    ctx.note('padding sweeps done: %d sweeps, %d parses' % (len(sweeps), nparses))
    # ---- (c) positions move by exactly the inserted text: token positions against the model for sampled paddings
    ptexts = []
    for _ in range(20 if quick else 200):
        t = rd.gen_spec(rng, 3)
        txt, lex = rd.render(rng, t)
        for p in [0, 1, BUF - 2, BUF - 1, BUF, BUF + 1, 2 * BUF - 1, 2 * BUF, 2 * BUF + 1, rng.randrange(0, hi)]:
            kind = rng.choice([" ", "\n", "\t "])
            ptexts.append(((kind * p)[:p] + txt).encode())
    # ... and of the re-laid-out texts of phase (a): tokens behind multi-line comments, CR/CRLF/LF mixtures, banners
    ptexts += rng.sample(texts, min(len(texts), 400 if quick else 4000))
    pl = [hx(x) for x in ptexts]
    pi = ctx.run_impl("scan", pl)
    pm = ctx.run_model("scan", pl) if have_model else pi
    pr = ctx.run_model("scanref41", pl)
    for x, i, m, r in zip(ptexts, pi, pm, pr):
        if i != m:
            ncorr += 1
            if ncorr <= 3:
                ctx.add_broken("correspondence: scanner model and lexer disagree on a padded text of %d bytes" % len(x), "impl=%s\nmodel=%s" % (i[:300], m[:300]))
        if i != r:
            ctx.add_violation("token stream / positions of a padded text differ from the documented scanner",
                              {"input_hex": hx(x), "input_len": len(x), "implementation": i[:2000], "documented": r[:2000]})
    cov = {"evaluations": len(texts) + nparses + len(ptexts), "distinct_nontrivial": len(distinct),
           "rule": "(a) seeded random specifications, 4 random layouts x 3 endings each (separators: blanks, tabs, LF/CRLF/CR, line comments, one-line and multi-line block comments with lines ending in `*`, banners): same callback sequence required; (b) padding sweep: head+PAD(kind,p)+tail for p = 0..2*4096+64 (quick: stride 7 plus every p within -40..+12 of both boundaries) x pad kinds (spaces, newlines, mixed, block comment, line comment) x 3 insertion points x with/without final newline: uniform result required; (c) token positions of padded texts and of a sample of the layouts of (a) against the documented scanner. non-trivial = distinct layout text",
           "samples": [texts[-1].decode(), sweeps[0] if sweeps else ""],
           "padding_parses": nparses, "sweeps": len(sweeps), "position_texts": len(ptexts), "correspondence_disagreements": ncorr,
           "trusted_base": TRUSTED_BASE + ["the dependency's two-half input buffer is kept away from its reload path by the lexer (buffer sized to the source); the model therefore has no buffer and the sweep (b) is what ties this to the code"]}
    return ctx.finish(LEVEL, cov, ["the property excludes the NUL byte; since the repair 027b8ad the reader no longer reserves it"])


class random_const:
    def choice(self, xs):
        return xs[0]


def replay(ctx, rp):
    ctx.build_go(); ctx.extract(["lexer", "tables"]); ctx.lake(["model"])
    if "head_hex" in rp:
        l = "%s %s %s %d %d 1" % (rp["head_hex"], rp["tail_hex"], rp["pad_kind"], 0, 0)
        print("without padding:", ctx.run_impl("padsweep", [l])[0])
        l = "%s %s %s %d %d 1" % (rp["head_hex"], rp["tail_hex"], rp["pad_kind"], rp["pad_amount"], rp["pad_amount"])
        print("with padding %d:" % rp["pad_amount"], ctx.run_impl("padsweep", [l])[0])
    else:
        l = "-1 " + rp["input_hex"]
        print("implementation:", ctx.run_impl("parse", [l])[0])
        print("model of code :", ctx.run_model("parse", [l])[0])
