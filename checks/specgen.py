"""Generator of EBNF specifications as syntax trees, their text, and the reference semantics
computed from the tree alone (documentation-level meaning): bounded languages of the rules,
the list of well-formedness defects, the expected definitions and precedence levels."""
import itertools

PREDEFS = {"$WS": r"[\x09\x0A\x0D\x20]", "$DIGIT": "[0-9]", "$LETTER": "[A-Za-z]", "$ID": "[A-Za-z_][0-9A-Za-z_]*",
           "$NUMBER": r"-?[0-9]+(\.[0-9]+)?", "$STRING": r'"([\x21\x23-\x5B\x5D-\x7E]|\\[\x21-\x7E])+"',
           "$COMMENT": r"(#|//)[\x09\x20-\x7E]*|/\*[\x09\x0A\x0D\x20-\x7E]*?\*/"}
VALID_REGEX = ["[a-z]+", "[0-9]+", "a|b", "x*y", r"\d+", "(ab)+", "[A-Z][a-z]*", "a?b", r"\."]
INVALID_REGEX = ["[b-a]", "a{3,1}", "(", "a)", "[", "*a", "a**", "+", "a||b", "[]"]

NT_POOL = ["a", "b", "ab", "c", "expr", "stmt", "plus", "star", "opt", "dot", "semi", "gen_a_opt", "gen1_star", "gen_plus_opt", "gen2_group", "x_1"]
TOK_POOL = ["ID", "NUM", "IF", "AB", "T_1", "WS", "PLUS"]
STR_POOL = ["a", "b", "+", "-", "*", "(", ";", ".", "if", "IF", "ID", "==", '\\"', "a\\\\b", "\\+", "\\a"]


def unescape(s):
    out, i = [], 0
    while i < len(s):
        if s[i] == "\\" and i + 1 < len(s):
            i += 1
        out.append(s[i]); i += 1
    return "".join(out)


# ------------------------------------------------------------------ trees
# rhs tree: ("nt", n) ("tok", T) ("str", s) ("seq", [..]) ("alt", [..], trailing) ("group", r) ("opt", r) ("star", r) ("plus", r)

def gen_primary(rng, depth, nts, toks, strs):
    x = rng.random()
    if depth > 0 and x < 0.35:
        k = rng.choice(["group", "opt", "star", "plus"])
        return (k, gen_rhs(rng, depth - 1, nts, toks, strs))
    y = rng.random()
    if y < 0.45:
        return ("nt", rng.choice(nts))
    if y < 0.7 and toks:
        return ("tok", rng.choice(toks))
    return ("str", rng.choice(strs))


def gen_seq(rng, depth, nts, toks, strs):
    n = rng.choice([1, 1, 2, 2, 3])
    items = [gen_primary(rng, depth, nts, toks, strs) for _ in range(n)]
    return items[0] if n == 1 else ("seq", items)


def gen_rhs(rng, depth, nts, toks, strs):
    n = rng.choice([1, 1, 1, 2, 3])
    alts = [gen_seq(rng, depth, nts, toks, strs) for _ in range(n)]
    trailing = rng.random() < 0.12
    if n == 1 and not trailing:
        return alts[0]
    return ("alt", alts, trailing)


def gen_spec_tree(rng, defects=()):
    """-> dict(name, decls) ; decls: ("token", T, kind, value) | ("dir", assoc, [handles]) | ("rule", lhs, rhs|None)
    handles: ("tok", T) | ("str", s) | ("rule", lhs, rhs|None)"""
    nnt = rng.choice([1, 2, 3, 4])
    nts = ["start"] + rng.sample(NT_POOL, nnt)
    memo_family = rng.random() < 0.2
    if memo_family:
        nts = ["start", "a", "b", "ab"] + rng.sample([n for n in NT_POOL if n not in ("a", "b")], rng.choice([0, 1]))
    toks = rng.sample(TOK_POOL, rng.choice([0, 1, 2, 3]))
    strs = rng.sample(STR_POOL, rng.choice([1, 2, 3, 4]))
    # sub-expression reuse: a small pool of subtrees that are repeated under different operators
    decls = []
    for t in toks:
        k = rng.random()
        if k < 0.4:
            decls.append(("token", t, "string", rng.choice(STR_POOL + ["while", "x1", "<="])))
        elif k < 0.8:
            decls.append(("token", t, "regex", rng.choice(VALID_REGEX)))
        else:
            decls.append(("token", t, "predef", rng.choice(list(PREDEFS))))
    shared = [gen_rhs(rng, 1, nts, toks, strs) for _ in range(2)]
    for n in nts:
        for _ in range(rng.choice([1, 1, 1, 2])):
            if rng.random() < 0.08:
                decls.append(("rule", n, None))
                continue
            r = gen_rhs(rng, rng.choice([1, 2, 2, 3]), nts, toks, strs)
            if rng.random() < 0.5:
                # the same sub-expression under several operators
                s = rng.choice(shared)
                ops = rng.sample(["group", "opt", "star", "plus"], rng.choice([2, 3, 4]))
                r = ("seq", [r] + [(o, s) for o in ops])
            decls.append(("rule", n, r))
    if memo_family:
        # bracketed alternative lists built to meet in the table that maps a bracket's alternatives to its
        # synthesised non-terminal: repeated alternatives, permutations, proper sub-/supersets of equal length.
        # All alternatives of one family member spell the same text when their symbol names are concatenated, so
        # every list of k of them has the same hash: only the key comparison keeps different brackets apart.
        A, B, AB = ("nt", "a"), ("nt", "b"), ("nt", "ab")
        classes = [[[A, B], [AB]], [[A, B, A, B], [AB, AB], [A, B, AB], [AB, A, B]], [[A, AB], [A, A, B]]]
        cl = rng.choice(classes)
        k = rng.choice([2, 2, 3])
        for n in rng.sample(nts, rng.choice([2, 3])):
            items = []
            for _ in range(rng.choice([1, 2, 2, 3])):
                alts = [("seq", list(x)) if len(x) > 1 else x[0] for x in (rng.choice(cl) for _ in range(k))]
                items.append((rng.choice(["group", "opt", "star", "plus", "opt", "star"]), ("alt", alts, False)))
            items.append(("str", rng.choice(strs)))
            decls.append(("rule", n, ("seq", items)))
    for _ in range(rng.choice([0, 0, 1, 2, 3])):
        hs = []
        for _ in range(rng.choice([1, 2, 3])):
            k = rng.random()
            if k < 0.4 and toks:
                hs.append(("tok", rng.choice(toks)))
            elif k < 0.8:
                hs.append(("str", rng.choice(strs)))
            else:
                hs.append(("rule", rng.choice(nts), gen_rhs(rng, 1, nts, toks, strs)))
        decls.append(("dir", rng.choice(["@left", "@right", "@none"]), hs))
    rng.shuffle(decls)
    spec = {"name": rng.choice(["g", "calc", "x"]), "decls": decls}
    for d in defects:
        apply_defect(rng, spec, d, nts, toks, strs)
    return spec


def apply_defect(rng, spec, d, nts, toks, strs):
    decls = spec["decls"]
    if d == "undef_token":
        decls.append(("rule", rng.choice(nts), ("seq", [("tok", "UNDEF"), ("nt", "start")])))
    elif d == "dup_token":
        t = rng.choice(toks) if toks else "DUP"
        decls.insert(rng.randrange(len(decls) + 1), ("token", t, "string", "dup1"))
        decls.insert(rng.randrange(len(decls) + 1), ("token", t, "regex", "d+"))
    elif d == "same_value":
        # two string tokens, a string token and a pattern token, or two pattern tokens with one text
        ka, kb = rng.choice([("string", "string"), ("string", "string"), ("string", "regex"), ("regex", "string"), ("regex", "regex")])
        decls.insert(rng.randrange(len(decls) + 1), ("token", "SV_A", ka, "same"))
        decls.insert(rng.randrange(len(decls) + 1), ("token", "SV_B", kb, rng.choice(["same", "s\\ame"]) if kb == "string" else "same"))
    elif d == "literal_vs_token_value":
        decls.insert(rng.randrange(len(decls) + 1), ("token", "KW", rng.choice(["string", "string", "regex"]), "kw"))
        decls.append(("rule", rng.choice(nts), ("str", "kw")))
    elif d == "bad_predef":
        decls.insert(rng.randrange(len(decls) + 1), ("token", "BP", "predef", "$NOSUCH"))
    elif d == "bad_regex":
        decls.insert(rng.randrange(len(decls) + 1), ("token", "BR", "regex", rng.choice(INVALID_REGEX)))
    elif d == "undef_nonterm":
        decls.append(("rule", rng.choice(nts), ("seq", [("nt", "undefined_nt"), ("str", "a")])))
    elif d == "no_start":
        spec["decls"] = [x for x in decls if not (x[0] == "rule" and x[1] == "start")]
        for x in spec["decls"]:
            pass
    elif d == "dup_handle":
        h = ("str", rng.choice(strs))
        decls.insert(rng.randrange(len(decls) + 1), ("dir", "@left", [h]))
        decls.insert(rng.randrange(len(decls) + 1), ("dir", "@right", [h, ("str", "zz")]))
    elif d == "token_literal_same_name":
        t = rng.choice(toks) if toks else "ID"
        if not toks:
            decls.insert(0, ("token", "ID", "regex", "[a-z]+"))
        decls.append(("rule", rng.choice(nts), ("seq", [("tok", t), ("str", t)])))


DEFECTS = ["undef_token", "dup_token", "same_value", "literal_vs_token_value", "bad_predef", "bad_regex", "undef_nonterm", "no_start", "dup_handle"]

# ------------------------------------------------------------------ text

def render_rhs(r, top=True):
    k = r[0]
    if k == "nt":
        return r[1]
    if k == "tok":
        return r[1]
    if k == "str":
        return '"' + r[1] + '"'
    if k == "seq":
        return " ".join(render_rhs(x, False) for x in r[1])
    if k == "alt":
        s = " | ".join(render_rhs(x, False) if x[0] != "alt" else "(" + render_rhs(x) + ")" for x in r[1])
        if r[2]:
            s += " |"
        return s if top else "(" + s + ")"
    op = {"group": ("(", ")"), "opt": ("[", "]"), "star": ("{", "}"), "plus": ("{{", "}}")}[k]
    return op[0] + " " + render_rhs(r[1]) + " " + op[1]


def render_rule(lhs, rhs):
    return lhs + " =" + ("" if rhs is None else " " + render_rhs(rhs))


def render_spec(rng, spec):
    lines = ["grammar " + spec["name"] + rng.choice([";", "", ";"])]
    for d in spec["decls"]:
        if d[0] == "token":
            v = {"string": '"' + d[3] + '"', "regex": "/" + d[3] + "/", "predef": d[3]}[d[2]]
            lines.append(d[1] + " = " + v + rng.choice([";", ";", ""]))
        elif d[0] == "dir":
            hs = []
            for h in d[2]:
                if h[0] == "tok":
                    hs.append(h[1])
                elif h[0] == "str":
                    hs.append('"' + h[1] + '"')
                else:
                    hs.append("<" + render_rule(h[1], h[2]) + ">")
            lines.append(d[1] + " " + " ".join(hs) + ";")
        else:
            lines.append(render_rule(d[1], d[2]) + ";")
    sep = rng.choice(["\n", "\n\n", " ", "\n// c\n"])
    return sep.join(lines) + rng.choice(["\n", "", " "])


# ------------------------------------------------------------------ reference semantics (from the tree alone)
def all_rules(spec):
    """every rule of the specification, including those written inside < > handles"""
    out = []
    for d in spec["decls"]:
        if d[0] == "rule":
            out.append((d[1], d[2]))
        elif d[0] == "dir":
            for h in d[2]:
                if h[0] == "rule":
                    out.append((h[1], h[2]))
    return out


def term_name(r, conflate=False):
    """the terminal a primary stands for; with `conflate`, a literal spelled like a token name IS that token (finding F14)"""
    return ("T", r[1])


def cat(A, B, k):
    # B by length, so that pairs that are too long are never formed
    by_len = {}
    for b in B:
        by_len.setdefault(len(b), []).append(b)
    out = set()
    for a in A:
        room = k - len(a)
        for n, bs in by_len.items():
            if n <= room:
                for b in bs:
                    out.add(a + b)
    return out


def denote(r, env, k, lit_key):
    t = r[0]
    if t == "nt":
        return env.get(r[1], set())
    if t == "tok":
        return {(("tok", r[1]),)}
    if t == "str":
        return {(lit_key(r[1]),)}
    if t == "seq":
        acc = {()}
        for x in r[1]:
            acc = cat(acc, denote(x, env, k, lit_key), k)
        return acc
    if t == "alt":
        acc = set()
        for x in r[1]:
            acc |= denote(x, env, k, lit_key)
        if r[2]:
            acc.add(())
        return acc
    inner = denote(r[1], env, k, lit_key)
    if t == "group":
        return inner
    if t == "opt":
        return inner | {()}
    acc = {()} if t == "star" else set(inner)
    frontier = set(acc)
    while True:
        nxt = cat(frontier, inner, k) - acc
        if not nxt:
            break
        acc |= nxt
        frontier = nxt
    return acc


def ebnf_languages(spec, k, conflate_tokens=()):
    """bounded languages (terminal-name tuples of length <= k) of every rule head, by the EBNF meaning"""
    def lit_key(s):
        return ("tok", s) if s in conflate_tokens else ("str", s)
    rules = all_rules(spec)
    env = {h: set() for h, _ in rules}
    changed = True
    while changed:
        changed = False
        for h, r in rules:
            val = {()} if r is None else denote(r, env, k, lit_key)
            if not val <= env[h]:
                env[h] |= val
                changed = True
    return env


def cfg_languages(prods, k):
    """prods: list of (head, [("t"|"n", name)]) from the implementation's output"""
    env = {}
    for h, _ in prods:
        env.setdefault(h, set())
    changed = True
    while changed:
        changed = False
        for h, body in prods:
            acc = {()}
            for kind, name in body:
                if kind == "t":
                    acc = cat(acc, {(name,)}, k)
                else:
                    acc = cat(acc, env.get(name, set()), k)
                if not acc:
                    break
            if not acc <= env[h]:
                env[h] |= acc
                changed = True
    return env


def spec_facts(spec):
    """What the documentation says about this specification, from the tree alone."""
    token_defs = {}
    for d in spec["decls"]:
        if d[0] == "token":
            token_defs.setdefault(d[1], []).append((d[2], d[3]))
    used_tokens, used_strs, used_nts, heads = [], [], [], []

    def walk(r):
        if r is None:
            return
        t = r[0]
        if t == "tok":
            used_tokens.append(r[1])
        elif t == "str":
            used_strs.append(r[1])
        elif t == "nt":
            used_nts.append(r[1])
        elif t == "seq":
            for x in r[1]:
                walk(x)
        elif t == "alt":
            for x in r[1]:
                walk(x)
        else:
            walk(r[1])
    for h, r in all_rules(spec):
        heads.append(h)
        walk(r)
    levels = []
    for d in spec["decls"]:
        if d[0] == "dir":
            lv = []
            for h in d[2]:
                if h[0] == "tok":
                    used_tokens.append(h[1]); lv.append(("tok", h[1]))
                elif h[0] == "str":
                    used_strs.append(h[1]); lv.append(("str", h[1]))
                else:
                    lv.append(("rule", h[1], h[2]))
            levels.append((d[1], lv))
    return dict(token_defs=token_defs, used_tokens=used_tokens, used_strs=used_strs, used_nts=used_nts, heads=heads, levels=levels)


def ill_formed(spec, regex_ok):
    """list of defect kinds present (documentation-level); regex_ok(text) -> bool decides pattern validity"""
    f = spec_facts(spec)
    defects = set()
    alltoks = set(f["used_tokens"]) | set(f["token_defs"])
    for t in alltoks:
        n = len(f["token_defs"].get(t, []))
        if n == 0:
            defects.add(("undefined_token", t))
        elif n > 1:
            defects.add(("multiple_definitions", t))
    # values: every terminal with exactly one definition
    vals = {}
    for t, ds in f["token_defs"].items():
        if len(ds) == 1:
            kind, v = ds[0]
            if kind == "string":
                vals.setdefault(("s", unescape(v)), []).append(t)
            elif kind == "regex":
                vals.setdefault(("s", v), []).append(t)
            elif v in PREDEFS:
                vals.setdefault(("s", PREDEFS[v]), []).append(t)
    for s in set(f["used_strs"]):
        vals.setdefault(("s", unescape(s)), []).append('"' + s + '"')
    for v, ts in vals.items():
        if len(set(ts)) > 1:
            defects.add(("same_value", v[1]))
    for t, ds in f["token_defs"].items():
        for kind, v in ds:
            if kind == "predef" and v not in PREDEFS:
                defects.add(("unknown_predef", v))
            if kind == "regex" and not regex_ok(v):
                defects.add(("invalid_pattern", v))
    for n in set(f["used_nts"]):
        if n not in f["heads"]:
            defects.add(("undefined_nonterminal", n))
    if "start" not in f["heads"]:
        defects.add(("no_start", "start"))
    return defects, f
