"""Shared by the specification-level checks (C01, C07, C12, C11): running generated specifications through
spec.Parse (harness) and the Lean model, parsing the protocol lines."""
import re
from .common import *
from . import specgen as sg


def parse_ok(line):
    """OK line -> dict(name, T, N, P (list of (head, [(kind, name)])), D (list), L (list of (assoc, set(handles))))"""
    f = dict(x.split("=", 1) for x in line.split(" ")[1:])
    def names(s):
        return [unhx(x).decode("utf-8", "replace") for x in s.split(",")] if s else []
    def prod(s):
        h, _, b = s.partition(">")
        body = []
        for it in b.split(".") if b else []:
            body.append((it[0], unhx(it[1:]).decode("utf-8", "replace")))
        return (unhx(h).decode("utf-8", "replace"), body)
    prods = [prod(x) for x in f["P"].split(",")] if f["P"] else []
    defs = []
    for x in f["D"].split(",") if f["D"] else []:
        t, v, isre, pos = x.split(":")
        defs.append((unhx(t).decode("utf-8", "replace"), unhx(v).decode("utf-8", "replace"), isre == "true", pos))
    levels = []
    for x in f["L"].split(";") if f["L"] else []:
        a, _, hs = x.partition(":")
        hl = []
        for h in hs.split(",") if hs else []:
            hl.append(("t", unhx(h[1:]).decode("utf-8", "replace")) if h[0] == "t" else ("p", prod(h[1:])))
        levels.append((int(a), hl))
    return dict(name=unhx(f["name"]).decode(), T=names(f["T"]), N=names(f["N"]), P=prods, D=defs, L=levels)


def err_lines(line):
    parts = line.split(" ", 1)
    if len(parts) < 2 or not parts[1] or parts[0] in ("OK", "NILNIL"):
        return []
    if parts[0] == "PANIC":
        return ["PANIC " + unhx(parts[1]).decode("utf-8", "replace")]
    return [unhx(x).decode("utf-8", "replace") for x in parts[1].split(",")]


def canon_err(line):
    """canonical form for comparing implementation and model error output: the handle lists inside
    `... appeared in more than one precedence level` are compared as sets"""
    out = []
    for l in err_lines(line):
        m = re.match(r"^(.*) appeared in more than one precedence level$", l)
        if m:
            l = ", ".join(sorted(m.group(1).split(", "))) + " appeared in more than one precedence level"
        out.append(l)
    return (line.split(" ", 1)[0], tuple(out))          # in the order reported


def run_specs(ctx, texts, cmd="spec"):
    lines = [hx(t) for t in texts]
    impl = ctx.run_impl(cmd, lines)
    model = ctx.run_model("spec", lines) if cmd == "spec" else None
    return impl, model


def canon_grammar(line, user_nts):
    """The derived grammar modulo the identity of synthesised non-terminals: user-written non-terminals keep their
    names, synthesised ones are replaced by the colour that iterated refinement over their production sets gives them,
    so that two synthesised non-terminals with the same productions are one.  Needed because whether two bracket
    expressions whose alternative lists are equal as sets but not as lists share one synthesised non-terminal depends on
    the probe paths of the dependency's hash table (the model shares exactly on equal hashes); the language is the same."""
    o = parse_ok(line)
    nts = set(o["N"])
    col = {n: (n if n in user_nts else "S") for n in nts}
    prods = {}
    for h, body in o["P"]:
        prods.setdefault(h, []).append(body)
    for _ in range(12):          # a fixed number of refinement rounds, the same for both grammars compared
        new = {}
        for n in nts:
            if n in user_nts:
                new[n] = n
                continue
            sig = sorted(set(tuple((k, col.get(x, x) if k == "n" else x) for k, x in b) for b in prods.get(n, [])))
            new[n] = "S" + hashlib.sha256(repr(sig).encode()).hexdigest()[:16]
        col = new
    cp = sorted(set((col.get(h, h), tuple((k, col.get(x, x) if k == "n" else x) for k, x in b)) for h, b in o["P"]))
    levels = []
    for a, hl in o["L"]:
        hs = set()
        for h in hl:
            if h[0] == "t":
                hs.add(h)
            else:
                hd, body = h[1]
                hs.add(("p", col.get(hd, hd), tuple((k, col.get(x, x) if k == "n" else x) for k, x in body)))
        levels.append((a, tuple(sorted(hs, key=repr))))
    return (o["name"], tuple(sorted(o["T"])), tuple(cp), tuple(o["D"]), tuple(levels))


MEMO_SHARING = [0]


def same_modulo_sharing(text, i, m):
    """exact comparison failed: do the two results differ only in which set-equal bracket expressions share a synthesised non-terminal?"""
    if not (i.startswith("OK") and m.startswith("OK")):
        return False
    try:
        user = set(re.findall(r"(?<![A-Za-z0-9_\"$@])([a-z][0-9a-z_]*)\s*=", text.decode("utf-8", "replace")))
        user |= {"start"}
        if canon_grammar(i, user) == canon_grammar(m, user):
            MEMO_SHARING[0] += 1
            return True
    except Exception:
        pass
    return False


def same_as_model(t, i, m, fields=None):
    """does the implementation do on this specification what the model of the code (with the recorded findings in it) does?
    With `fields`, only that part of an accepted result is compared (the part the property checked is about): a change
    to the code that affects another part of the result leaves this property's tie alone."""
    if fields and i.startswith("OK") and m.startswith("OK"):
        fi = dict(x.split("=", 1) for x in i.split(" ")[1:])
        fm = dict(x.split("=", 1) for x in m.split(" ")[1:])
        if all(fi.get(k) == fm.get(k) for k in fields):
            return True
    same = (i == m) if i.startswith("OK") or m.startswith("OK") else (canon_err(i) == canon_err(m))
    return same or same_modulo_sharing(t, i, m)


def correspondence(ctx, texts, impl, model, what="spec.Parse", fields=None):
    n = 0
    for t, i, m in zip(texts, impl, model):
        same = same_as_model(t, i, m, fields)
        if not same:
            n += 1
            if n <= 3:
                ctx.add_broken("correspondence: model of the semantic actions and %s disagree on a specification" % what,
                               "input=%r\nimpl=%s\nmodel=%s" % (t, i, m))
    return n


def gen_cases(ctx, n, defect_rate=0.35):
    rng = ctx.rng
    cases = []
    for _ in range(n):
        defects = ()
        if rng.random() < defect_rate:
            defects = tuple(rng.sample(sg.DEFECTS, rng.choice([1, 1, 2, 3])))
        if rng.random() < 0.08:
            defects = defects + ("token_literal_same_name",)
        tree = sg.gen_spec_tree(rng, defects)
        text = sg.render_spec(rng, tree)
        cases.append((tree, text.encode(), defects))
    return cases
