"""Shared by the specification-level checks (C01, C07, C12, C11): running generated specifications through
spec.Parse (harness) and the Lean model, parsing the protocol lines."""
import re
from .common import *
from . import specgen as sg


def parse_ok(line):
    """OK line -> dict(name, T, N, P (list of (head, [(kind, name)])), D (list), L (list of (assoc, set(handles))))"""
    f = dict(x.split("=", 1) for x in line.split(" ")[1:])
    def names(s):
        return [unhx(x).decode("utf-8", "replace") for x in s.split(",")] if s else []
    def prod(s):
        h, _, b = s.partition(">")
        body = []
        for it in b.split(".") if b else []:
            body.append((it[0], unhx(it[1:]).decode("utf-8", "replace")))
        return (unhx(h).decode("utf-8", "replace"), body)
    prods = [prod(x) for x in f["P"].split(",")] if f["P"] else []
    defs = []
    for x in f["D"].split(",") if f["D"] else []:
        t, v, isre, pos = x.split(":")
        defs.append((unhx(t).decode("utf-8", "replace"), unhx(v).decode("utf-8", "replace"), isre == "true", pos))
    levels = []
    for x in f["L"].split(";") if f["L"] else []:
        a, _, hs = x.partition(":")
        hl = []
        for h in hs.split(",") if hs else []:
            hl.append(("t", unhx(h[1:]).decode("utf-8", "replace")) if h[0] == "t" else ("p", prod(h[1:])))
        levels.append((int(a), hl))
    return dict(name=unhx(f["name"]).decode(), T=names(f["T"]), N=names(f["N"]), P=prods, D=defs, L=levels)


def err_lines(line):
    parts = line.split(" ", 1)
    if len(parts) < 2 or not parts[1] or parts[0] in ("OK", "NILNIL"):
        return []
    if parts[0] == "PANIC":
        return ["PANIC " + unhx(parts[1]).decode("utf-8", "replace")]
    return [unhx(x).decode("utf-8", "replace") for x in parts[1].split(",")]


def canon_err(line):
    """canonical form for comparing implementation and model error output: the handle lists inside
    `... appeared in more than one precedence level` are compared as sets"""
    out = []
    for l in err_lines(line):
        m = re.match(r"^(.*) appeared in more than one precedence level$", l)
        if m:
            l = ", ".join(sorted(m.group(1).split(", "))) + " appeared in more than one precedence level"
        out.append(l)
    return (line.split(" ", 1)[0], tuple(sorted(out)))


def run_specs(ctx, texts, cmd="spec"):
    lines = [hx(t) for t in texts]
    impl = ctx.run_impl(cmd, lines)
    model = ctx.run_model("spec", lines) if cmd == "spec" else None
    return impl, model


def correspondence(ctx, texts, impl, model, what="spec.Parse"):
    n = 0
    for t, i, m in zip(texts, impl, model):
        same = (i == m) if i.startswith("OK") or m.startswith("OK") else (canon_err(i) == canon_err(m))
        if not same:
            n += 1
            if n <= 3:
                ctx.add_broken("correspondence: model of the semantic actions and %s disagree on a specification" % what,
                               "input=%r\nimpl=%s\nmodel=%s" % (t, i, m))
    return n


def gen_cases(ctx, n, defect_rate=0.35):
    rng = ctx.rng
    cases = []
    for _ in range(n):
        defects = ()
        if rng.random() < defect_rate:
            defects = tuple(rng.sample(sg.DEFECTS, rng.choice([1, 1, 2, 3])))
        if rng.random() < 0.08:
            defects = defects + ("token_literal_same_name",)
        tree = sg.gen_spec_tree(rng, defects)
        text = sg.render_spec(rng, tree)
        cases.append((tree, text.encode(), defects))
    return cases
