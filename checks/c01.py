"""C01 — EBNF-to-grammar translation preserves the language of every rule."""
from .speccommon import *

LEVEL = "proof"
K = 4


def lang_of_impl(spec_out, k):
    return sg.cfg_languages(spec_out["P"], k)


def run(ctx):
    quick = ctx.tier == "quick"
    ctx.build_go()
    if not ctx.prepare(["lexer", "tables", "specmaps"], "Emerge.Props.C01", quick):
        return ctx.finish(LEVEL, {"evaluations": 0, "distinct_nontrivial": 0, "samples": [], "explanation": "aborted"}, [])
    cases = gen_cases(ctx, 700 if quick else 12000, defect_rate=0.1)
    texts = [c[1] for c in cases]
    impl, model = run_specs(ctx, texts)
    ncorr = correspondence(ctx, texts, impl, model)
    known = {f["id"]: f for f in known_for("C01")}
    hits = set()
    pending = []
    nacc, ncmp = 0, 0
    distinct = set()
    for (tree, text, defects), i, mline in zip(cases, impl, model):
        if not i.startswith("OK"):
            continue
        nacc += 1
        out = parse_ok(i)
        got = lang_of_impl(out, K)
        want = sg.ebnf_languages(tree, K)
        # terminal naming: a literal "x" is the terminal named x (as written), a token T the terminal named T
        def norm(langs):
            return {h: {tuple(n for _, n in w) for w in ws} for h, ws in langs.items()}
        want_n = norm(want)
        bad = None
        for h, ws in want_n.items():
            ncmp += 1
            if got.get(h, set()) != ws:
                bad = (h, sorted(ws - got.get(h, set()))[:3], sorted(got.get(h, set()) - ws)[:3])
                break
        distinct.add(text)
        if bad:
            pending.append((tree, text, i, bad, same_as_model(text, i, mline)))
    # a disagreement is attributed to the recorded findings only if the model with those findings repaired
    # (Cfg.fixed: reserved prefix for synthesised names, separate keys for literals) yields the EBNF language
    if pending:
        fixed = ctx.run_model("specfixed", [hx(p[1]) for p in pending])
        for (tree, text, i, bad, as_model), fx in zip(pending, fixed):
            explained = False
            # explained by F14/F2b only if the implementation does here exactly what the model of the code (which has those
            # findings in it) does, and the model with exactly those findings repaired gives the EBNF language
            if fx.startswith("OK") and known and as_model:
                got = sg.cfg_languages(parse_ok(fx)["P"], K)
                want = sg.ebnf_languages(tree, K)
                wn = {h: {tuple((n if k == "tok" else '"' + n) for k, n in w) for w in ws} for h, ws in want.items()}
                explained = all(got.get(h, set()) == ws for h, ws in wn.items())
            if explained:
                toks = set(sg.spec_facts(tree)["token_defs"]) | set(sg.spec_facts(tree)["used_tokens"])
                if any(s in toks for s in sg.spec_facts(tree)["used_strs"]) and "F14" in known:
                    hits.add("F14")
                else:
                    hits.add("F2b")
                continue
            ctx.add_violation("the derived grammar does not generate the language the EBNF text denotes",
                              {"input_hex": hx(text), "input": text.decode(), "rule": bad[0], "missing_sentences": [list(x) for x in bad[1]],
                               "extra_sentences": [list(x) for x in bad[2]], "length_bound": K, "implementation": i, "model_with_findings_repaired": fx})
    ctx.witness_hits()
    cov = {"evaluations": len(cases), "distinct_nontrivial": len(distinct),
           "rule": "seeded random specification trees (1-5 rules; nested ( ) [ ] { } {{ }} | and trailing |; the same sub-expression under 2-4 different operators; rule names like gen_a_opt/gen1_star/plus/star next to the matching literals; escapes in literals), rendered to text; for every accepted one the bounded language (all terminal strings up to length %d) of every rule is computed from the tree by the EBNF meaning and from the implementation's productions; non-trivial = distinct accepted specification" % K,
           "samples": [texts[0].decode(), texts[-1].decode()],
           "accepted": nacc, "rule_languages_compared": ncmp, "correspondence_disagreements": ncorr,
           "explanation": "model of the semantic actions and symbol table tied to spec.Parse by exact comparison of the derived grammar (production sets incl. synthesised names); language preservation explored by bounded language comparison against the EBNF denotation; theorems: see Emerge/Props/C01.lean",
           "trusted_base": TRUSTED_BASE + ["checks/specgen.py: EBNF denotation and bounded CFG language (reference semantics used by the search)"]}
    return ctx.finish(LEVEL, cov, ["languages compared up to length %d" % K])


def replay(ctx, rp):
    ctx.build_go(); ctx.extract(["lexer", "tables", "specmaps"]); ctx.lake(["model"])
    print("input:", unhx(rp["input_hex"]).decode())
    print("implementation:", ctx.run_impl("spec", [rp["input_hex"]])[0])
    print("model of code :", ctx.run_model("spec", [rp["input_hex"]])[0])
