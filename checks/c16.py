"""C16 — CLI: success iff the package was fully written; flags honoured; existing files untouched."""
import shutil, tempfile, stat
from .common import *

LEVEL = "proof"

VALID = 'grammar calc;\nstart = expr;\nexpr = expr "+" NUM | NUM;\nNUM = /[0-9]+/;\n'
INPUTS = {
    "valid": (VALID, dict(parse=1, lexer=1, parser=1)),
    "lexical": ('grammar calc;\nstart = ?;\n', dict(parse=0, lexer=0, parser=0)),
    "syntax": ('grammar calc\nstart = = ;\n', dict(parse=0, lexer=0, parser=0)),
    "semantic": ('grammar calc;\nstart = NUM;\n', dict(parse=0, lexer=0, parser=0)),
    "token_conflict": ('grammar calc;\nstart = AA BB;\nAA = /[a-z]+/;\nBB = /[a-c]+/;\n', dict(parse=1, lexer=0, parser=1)),
    "invalid_pattern": ('grammar calc;\nstart = AA;\nAA = /[b-a]/;\n', dict(parse=1, lexer=0, parser=1)),
    "lalr_conflict": ('grammar calc;\nstart = expr;\nexpr = expr "+" expr | NUM;\nNUM = /[0-9]+/;\n', dict(parse=1, lexer=1, parser=0)),
    "empty": ('', dict(parse=0, lexer=0, parser=0)),
}
NAMES = {"": None, "parser": 1, "calc2": 1, "_": 0, "func": 0, "9lives": 0, "a-b": 0, "naïve": 1, "Pkg_1": 1, "string": 0, "x/y": 0, "..": 0,
         # names that are paths: the last element alone may look like an identifier
         "../escaped": 0, "./dotted": 0, "trailing/": 0, "cwd/../again": 0, "../cwd/inside": 0, "/abs": 0, "a/../../up": 0, ".": 0, "./.": 0}

# The rule emerge documents for a usable package name: a Go identifier ([letter or _][letter, decimal digit or _]*, with
# Unicode letters = categories L*, decimal digits = category Nd), not the blank identifier, not a keyword or predeclared name.
# Names with characters of the neighbouring categories (other numbers, marks, connectors, symbols) exercise the boundary.
import unicodedata


def go_package_name(name):
    if not name or name == "_":
        return 0
    for i, c in enumerate(name):
        cat = unicodedata.category(c)
        if c == "_" or cat.startswith("L"):
            continue
        if i > 0 and cat == "Nd":
            continue
        return 0
    return 1


UNICODE_NAMES = ["x\u00b2", "half\u00bd", "rev\u2167", "v\u0663", "\u0663v", "\u0394x", "\u4e2d\u6587", "a\u0301", "a\u203fb", "x\u2460", "n\u2075", "\u2167", "\u00aax", "x\u02b0",
                 "a\u00b7b", "x\uff11", "a$", "a b", "\u01c5x", "x\u0e51", "x\u3007", "x\u16ee"]
for _n in UNICODE_NAMES:
    NAMES[_n] = go_package_name(_n)

FILES = ["errors.go", "types.go", "stack.go", "input.go", "lexer.go", "parser.go"]


def snapshot(root):
    out = {}
    for dp, dns, fns in os.walk(root, followlinks=False):
        for n in dns + fns:
            p = os.path.join(dp, n)
            rel = os.path.relpath(p, root)
            st = os.lstat(p)
            if stat.S_ISLNK(st.st_mode):
                out[rel] = ("link", os.readlink(p))
            elif stat.S_ISDIR(st.st_mode):
                out[rel + "/"] = ("dir", stat.S_IMODE(st.st_mode))
            else:
                out[rel] = ("file", stat.S_IMODE(st.st_mode), st.st_size, hashlib.sha256(open(p, "rb").read()).hexdigest())
    return out


def scenarios(rng, quick):
    sc = []
    outs = ["cwd", "dir", "missing", "file"]
    pkgs = ["missing", "dir", "file", "symlink", "dangling", "dir_with_files"]
    flagsets = [[], ["-debug"], ["-verbose"], ["-debug", "-verbose"], ["-help"], ["-version"], ["-h"], ["-nosuch"], ["-help", "-version"], ["-verbose", "-version"]]
    for inp in list(INPUTS) + ["missing", "directory", "nofile"]:
        for out in outs:
            for pkg in pkgs:
                for name in (["", "parser"] if quick else list(NAMES)):
                    for fl in ([[], ["-debug", "-verbose"]] if quick else flagsets[:4]):
                        sc.append(dict(input=inp, out=out, pkg=pkg, name=name, flags=fl))
    for name in NAMES:
        for inp in ["valid", "token_conflict"]:
            sc.append(dict(input=inp, out="dir", pkg="missing", name=name, flags=[]))
    for fl in flagsets:
        for inp in ["valid", "syntax", "nofile"]:
            sc.append(dict(input=inp, out="dir", pkg="missing", name="", flags=fl))
    sc.append(dict(input="valid", out="dir", pkg="missing", name="-", flags=["-name"]))      # -name without a value
    # arguments after the input file: flags written behind it (the flag set stops at the file, so they are not flags any more),
    # a second file - honoured or refused, never dropped in silence
    for after in (["-out", "ELSEWHERE"], ["-name", "other"], ["-out", "ELSEWHERE", "-name", "other"], ["-debug"], ["SECOND"], ["--", "-x"], ["-out"]):
        for inp in ["valid", "syntax", "missing"]:
            for out in ["cwd", "dir"]:
                for name in ["", "parser"]:
                    sc.append(dict(input=inp, out=out, pkg="missing", name=name, flags=[], after=after))
    # the command line as the flag set reads it: both spellings of a flag, values after `=` or as the next argument, boolean
    # values, the terminator, malformed flags, a missing value, flags given twice (the last one counts)
    for raw in (["--out=OUT", "FILE"], ["-out=OUT", "-name=pkg", "FILE"], ["--name", "pkg", "--out", "OUT", "FILE"], ["-debug=true", "-out", "OUT", "FILE"],
                ["-debug=maybe", "-out", "OUT", "FILE"], ["-verbose=0", "-out", "OUT", "FILE"], ["-out", "OUT", "--", "FILE"], ["-out", "OUT", "--", "FILE", "-x"],
                ["-out", "OUT", "-", "FILE"], ["---out", "OUT", "FILE"], ["-=x", "FILE"], ["-help=false", "-out", "OUT", "FILE"], ["-out", "OUT", "FILE", "-h"],
                ["-out", "OUT", "-h", "FILE"], ["--help"], ["-version=1", "FILE"], ["FILE", "-out"], ["-out", "OUT", "-name"], ["-out"], ["-name", "first", "-name", "pkg", "-out", "ELSE", "-out", "OUT", "FILE"],
                ["-out", "OUT", "-name", "", "FILE"], ["-out", "OUT", "-name=", "FILE"], ["-debug", "-debug=false", "-out=OUT", "FILE"], ["-out", "OUT", "-version=false", "-help=f", "FILE"],
                ["-out", "OUT", "--", "--", "FILE"], ["--", "-out", "OUT", "FILE"], ["-out", "OUT", "-nosuch=1", "FILE"], ["-out", "OUT", "-verbose=TRUE", "-debug=F", "FILE"], ["-help=T"], ["--h"], ["-h=1"]):
        for inp in ["valid", "syntax"]:
            sc.append(dict(input=inp, out="dir", pkg="missing", name="", flags=[], raw=raw))
    # -out values that are relative to the working directory and look like something else: a leading tilde (no shell here: it is a
    # directory name), a leading minus (the value of a flag is the next argument whatever it looks like), blanks, dots
    for rel in ("~gen", "~/x", "~", "-dash", "a b", "sub/../sub", "./.hidden", "--"):
        for raw in (["-out", "REL", "FILE"], ["-out=REL", "FILE"], ["-name", "pkg", "--out", "REL", "FILE"]):
            sc.append(dict(input="valid", out="dir", pkg="missing", name="", flags=[], raw=raw, rel=rel))
    return sc


BIG = 'grammar big;\nstart = { stmt };\nstmt = ID "=" expr ";" | "if" expr "then" stmt "else" stmt | "while" expr "do" stmt | "{" { stmt } "}";\n' \
      'expr = expr "+" term | expr "-" term | term;\nterm = term "*" atom | term "/" atom | atom;\natom = ID | NUM | STR | "(" expr ")";\n' \
      'ID = /[a-zA-Z_][a-zA-Z0-9_]*/;\nNUM = /[0-9]+(\\.[0-9]+)?([eE][0-9]+)?/;\nSTR = /"([a-z]|[A-Z]|[0-9]| )*"/;\n'


def write_faults(ctx, emerge, root, quick, stats):
    """Real write failures: the binary under a soft RLIMIT_FSIZE of L bytes with SIGXFSZ ignored - write(2) then fails with
    EFBIG once a file has L bytes, at whatever point of the template's output that is. For every L the run is compared
    with the property (success and status 0 iff every file is complete) and with the CLI model under the corresponding
    fault sequence (`half` for exactly the files longer than L)."""
    import resource, signal
    specs = [("calc", VALID), ("big", BIG)]
    for gname, text in specs:
        box = os.path.join(root, "wf_" + gname); os.makedirs(box)
        fp = os.path.join(box, "g.ebnf"); open(fp, "w").write(text)
        ref = os.path.join(box, "ref"); os.makedirs(ref)
        p = subprocess.run([emerge, "-out", ref, fp], stdout=subprocess.PIPE, stderr=subprocess.STDOUT, timeout=120)
        if p.returncode != 0:
            ctx.add_broken("write-fault sweep: the reference run failed", p.stdout.decode("utf-8", "replace")[-600:])
            continue
        want = {fn: open(os.path.join(ref, gname, fn), "rb").read() for fn in FILES}
        sizes = sorted(set(len(v) for v in want.values()))
        limits = {0, 1}
        for sz in sizes:
            for d in (1, 2, 17, 100, 511, 1000, 4095, 4096, 4097, sz // 2, sz // 3):
                if 0 <= sz - d:
                    limits.add(sz - d)
            for b in range(4096, sz + 1, 4096):
                limits.update((b - 1, b, b + 1))
            limits.add(sz)
        limits = sorted(limits)
        if quick:
            keep = set(ctx.rng.sample(limits, min(60, len(limits)))) | {0, 1, sizes[-1], sizes[-1] - 1, sizes[-1] - 100, sizes[-1] - 4095, sizes[0] - 1}
            limits = [l for l in limits if l in keep]
        lines, runs = [], []
        for L in limits:
            od = os.path.join(box, "o%d" % L); os.makedirs(od)
            def pre(L=L):
                signal.signal(signal.SIGXFSZ, signal.SIG_IGN)
                resource.setrlimit(resource.RLIMIT_FSIZE, (L, resource.getrlimit(resource.RLIMIT_FSIZE)[1]))
            p = subprocess.run([emerge, "-out", od, fp], stdout=subprocess.PIPE, stderr=subprocess.STDOUT, timeout=120, preexec_fn=pre)
            out = p.stdout.decode("utf-8", "replace")
            got = {}
            for fn in FILES:
                q = os.path.join(od, gname, fn)
                got[fn] = open(q, "rb").read() if os.path.isfile(q) else None
            shutil.rmtree(od)
            incomplete = sorted(fn for fn in FILES if got[fn] is not None and got[fn] != want[fn])
            missing = sorted(fn for fn in FILES if got[fn] is None)
            success = int("Successful!" in out)
            stats["write_fault_runs"] = stats.get("write_fault_runs", 0) + 1
            stats["write_fault_failures_reported"] = stats.get("write_fault_failures_reported", 0) + int(p.returncode != 0)
            rec = dict(specification=gname, file_size_limit=L, exit=p.returncode, success=success, incomplete=incomplete, missing=missing,
                       sizes={fn: (len(got[fn]) if got[fn] is not None else None) for fn in FILES}, full_sizes={fn: len(want[fn]) for fn in FILES}, output=out[-500:])
            if (p.returncode == 0 or success) and (incomplete or missing):
                ctx.add_violation("success was announced (or status 0 returned) although a file of the package was not completely written", rec)
            elif p.returncode == 0 and not success:
                ctx.add_violation("exit status 0 without success", rec)
            elif p.returncode != 0 and not out.strip():
                ctx.add_violation("a failure without any message", rec)
            for fn in incomplete:
                if not want[fn].startswith(got[fn]):
                    ctx.add_violation("an incompletely written file is not a prefix of the complete one", rec)
            halves = [fn for fn in FILES if len(want[fn]) > L]
            lines.append("perr=0 usage=0 help=0 version=0 out=%s name=- file=1 input=readable parse=1 gname=%s lexer=1 parser=1 idvalid=1 outstate=dir pkgstate=missing halves=%s" % (hx("O"), hx(gname), ",".join(halves)))
            runs.append((rec, halves))
        model = ctx.run_model("cli", lines)
        nc = 0
        for (rec, halves), m in zip(runs, model):
            f = dict(x.split("=", 1) for x in m.split(" "))
            minc = sorted(x for x in f.get("incomplete", "").split(",") if x)
            if int(f["exit"]) != rec["exit"] or int(f["success"]) != rec["success"] or minc != rec["incomplete"] or rec["missing"]:
                nc += 1
                if nc <= 2:
                    ctx.add_broken("correspondence: the CLI model under write faults and the binary under a file-size limit disagree",
                                   "limit=%d\nbinary: exit=%s success=%s incomplete=%s missing=%s\nmodel : %s" % (rec["file_size_limit"], rec["exit"], rec["success"], rec["incomplete"], rec["missing"], m))
        stats["write_fault_disagreements"] = stats.get("write_fault_disagreements", 0) + nc


def run(ctx):
    quick = ctx.tier == "quick"
    ctx.build_go()
    ctx.build_emerge()
    if not ctx.prepare(["fsops", "cliflags", "idrules"], "Emerge.Props.C16", quick):
        return ctx.finish(LEVEL, {"evaluations": 0, "distinct_nontrivial": 0, "samples": [], "explanation": "aborted"}, [])
    emerge = os.path.join(BUILD, "emerge")
    root = tempfile.mkdtemp(prefix="verif-c16-")
    scs = scenarios(ctx.rng, quick)
    stats = {"runs": 0, "successes": 0, "failures": 0, "informational": 0, "usage_errors": 0, "preexisting_paths_checked": 0}
    model_lines, actual = [], []
    try:
        for k, s in enumerate(scs):
            box = os.path.join(root, "s%d" % k)
            os.makedirs(box)
            cwd = os.path.join(box, "cwd"); os.makedirs(cwd)
            open(os.path.join(cwd, "keep.txt"), "w").write("keep")
            # input file
            args = list(s["flags"])
            gname = "calc"
            spec_flags = dict(parse=0, lexer=0, parser=0)
            inp_state = "readable"
            have_file = 1
            if s["input"] in INPUTS:
                text, spec_flags = INPUTS[s["input"]]
                open(os.path.join(box, "g.ebnf"), "w").write(text)
                fileArg = os.path.join(box, "g.ebnf")
            elif s["input"] == "missing":
                fileArg = os.path.join(box, "nosuch.ebnf"); inp_state = "missing"
            elif s["input"] == "directory":
                os.makedirs(os.path.join(box, "adir")); fileArg = os.path.join(box, "adir"); inp_state = "directory"
            else:
                fileArg = None; have_file = 0
            # output location
            if s["out"] == "cwd":
                outdir = cwd; outstate = "dir"
            else:
                outdir = os.path.join(box, "out")
                outstate = s["out"]
                if s["out"] == "dir":
                    os.makedirs(outdir); open(os.path.join(outdir, "other.txt"), "w").write("other")
                elif s["out"] == "file":
                    open(outdir, "w").write("i am a file")
                args += ["-out", outdir]
            name = s["name"]
            if name == "-":
                args += ["-name"]           # value missing: the file argument is swallowed as the value
            elif name:
                args += ["-name", name]
            eff = name if name and name != "-" else gname
            idvalid = NAMES.get(name) if name and name != "-" else 1
            pkgstate = "missing"
            if outstate == "dir" and "/" not in eff and eff not in ("..", "."):
                pp = os.path.join(outdir, eff)
                if s["pkg"] == "dir":
                    os.makedirs(pp); pkgstate = "dir"
                elif s["pkg"] == "dir_with_files":
                    os.makedirs(pp); pkgstate = "dir"
                    for fn in ("lexer.go", "types.go"):
                        open(os.path.join(pp, fn), "w").write("// mine\n")
                elif s["pkg"] == "file":
                    open(pp, "w").write("a file"); pkgstate = "file"
                elif s["pkg"] == "symlink":
                    os.makedirs(os.path.join(box, "target")); open(os.path.join(box, "target", "t.txt"), "w").write("t")
                    os.symlink(os.path.join(box, "target"), pp); pkgstate = "symlink"
                elif s["pkg"] == "dangling":
                    os.symlink(os.path.join(box, "nowhere"), pp); pkgstate = "symlink"
            if fileArg:
                args += [fileArg]
            rest = []
            for x in s.get("after", []):
                if x == "ELSEWHERE":
                    os.makedirs(os.path.join(box, "elsewhere"), exist_ok=True); x = os.path.join(box, "elsewhere")
                elif x == "SECOND":
                    x = os.path.join(box, "second.ebnf"); open(x, "w").write(VALID)
                rest.append(x)
            args += rest
            perr = int("-nosuch" in args)
            usage = int("-h" in args and not perr)
            if name == "-":
                # `-name <file>`: the file path becomes the name and no file argument is left
                have_file = 0; eff = fileArg or ""; idvalid = 0
            if "raw" in s:
                os.makedirs(os.path.join(box, "else"), exist_ok=True)
                if "rel" in s:
                    outdir = os.path.normpath(os.path.join(cwd, s["rel"])); os.makedirs(outdir, exist_ok=True)
                args = [x.replace("REL", s.get("rel", "REL")) for x in s["raw"]]
                args = [x.replace("OUT", outdir).replace("FILE", fileArg).replace("ELSE", os.path.join(box, "else")) for x in args]
                if "-name=pkg" in args or "pkg" in args:
                    eff = "pkg"
            before = snapshot(box)
            # HOME inside the sandbox directory: whatever a run writes "at home" is seen by the snapshots (and stays in the box)
            for hd in ("home", "home/gen", "home/x", "home/sub"):
                os.makedirs(os.path.join(box, hd), exist_ok=True)
            before = snapshot(box)
            p = subprocess.run([emerge] + args, cwd=cwd, stdout=subprocess.PIPE, stderr=subprocess.STDOUT, timeout=60,
                               env=dict(os.environ, HOME=os.path.join(box, "home")))
            after = snapshot(box)
            outtxt = p.stdout.decode("utf-8", "replace")
            created = sorted(k for k in after if k not in before)
            changed = sorted(k for k in before if after.get(k) != before[k])
            stats["runs"] += 1
            stats["preexisting_paths_checked"] += len(before)
            actual.append(dict(scenario=s, args=args, exit=p.returncode, created=created, changed=changed, success=int("Successful!" in outtxt),
                               trace=int("goroutine " in outtxt and "[running]" in outtxt), output=outtxt[-600:], idvalid=idvalid, chosen_name=eff, outrel=os.path.relpath(outdir, box), files={c: after[c] for c in created}))
            # the command line as typed goes to the model of the flag set (Emerge.CliArgs over the regenerated flag table)
            model_lines.append("argv=%s cwd=%s input=%s parse=%d gname=%s lexer=%d parser=%d idvalid=%d outstate=%s pkgstate=%s" % (
                ",".join(hx(x) if x else "-" for x in args) if args else "-", hx(cwd), inp_state,
                spec_flags["parse"], hx(gname), spec_flags["lexer"], spec_flags["parser"], idvalid if idvalid is not None else 1, outstate, pkgstate))
            shutil.rmtree(box)
        model = ctx.run_model("cli", model_lines)
        write_faults(ctx, emerge, root, quick, stats)
    finally:
        shutil.rmtree(root, ignore_errors=True)
    # reference content of the six files: one successful in-process generation
    distinct = set()
    ncorr = 0
    for a, m, ml in zip(actual, model, model_lines):
        f = dict(x.split("=", 1) for x in m.split(" "))
        want_created = sorted(x for x in f["created"].split(",") if x)
        got_created = sorted((c[len(a["outrel"]) + 1:] if c.startswith(a["outrel"] + "/") else c) for c in a["created"])
        s = a["scenario"]
        distinct.add(json.dumps(s, sort_keys=True))
        if int(f["exit"]) == 0 and f["success"] == "1":
            stats["successes"] += 1
        elif int(f["exit"]) == 0:
            stats["informational"] += 1
        elif int(f["exit"]) == 2:
            stats["usage_errors"] += 1
        else:
            stats["failures"] += 1
        # the property itself, on the real run
        if a["changed"]:
            ctx.add_violation("a run modified, truncated or deleted something that existed before it started: %s" % a["changed"][:3], dict(a, model=m))
        if a["trace"]:
            ctx.add_violation("the tool printed a Go stack trace", dict(a, model=m))
        success_paths = all(os.path.normpath("%s/%s/%s" % (a["outrel"], a["chosen_name"], fn)) in a["created"] for fn in FILES)      # in <out>/<name>, nowhere else
        complete = success_paths and all(v[2] > 0 for c, v in a["files"].items() if v[0] == "file")
        informational = any(x.startswith("-") and x.lstrip("-").split("=")[0] in ("help", "version", "h") for x in a["args"]) and "-nosuch" not in a["args"]
        if (a["exit"] == 0 and a["success"] == 1) != (a["success"] == 1) or (a["success"] == 1 and not complete):
            ctx.add_violation("success was announced although the package was not fully written", dict(a, model=m))
        if a.get("idvalid") == 0 and not informational and "-nosuch" not in a["args"] and (a["created"] or a["success"] or a["exit"] == 0):
            ctx.add_violation("a name that is not a usable Go package identifier was not rejected before anything was created", dict(a, model=m))
        after = s.get("after", [])
        if after and (a["success"] or a["exit"] == 0):
            # the run claims success: then every -out / -name of the command line must have been honoured
            want_out = "elsewhere" if "ELSEWHERE" in after else a["outrel"]
            want_name = "other" if "-name" in after and after.index("-name") + 1 < len(after) else a["chosen_name"]
            if not all(("%s/%s/%s" % (want_out, want_name, fn)) in a["created"] for fn in FILES) or "SECOND" in after:
                ctx.add_violation("success although part of the command line was ignored (%s after the input file)" % " ".join(after), dict(a, model=m))
        if f["success"] == "1" and not a["success"] and not after:
            # an accepted specification, a usable name, an existing directory given with -out (or the working directory), nothing
            # in the way and no write fault: `-out selects the parent directory` means the package is written there
            ctx.add_violation("a run that should write the package into <out>/<name> was refused: -out / -name not honoured", dict(a, model=m))
        if a["exit"] == 0 and not a["success"] and not informational:
            ctx.add_violation("exit status 0 without success", dict(a, model=m))
        if a["exit"] != 0 and not a["output"].strip():
            ctx.add_violation("a failure without any message", dict(a, model=m))
        # the tie: model = binary
        if a["exit"] != int(f["exit"]) or a["success"] != int(f["success"]) or got_created != want_created:
            ncorr += 1
            if ncorr <= 3:
                ctx.add_broken("correspondence: the CLI model and the binary disagree on %s" % json.dumps(s),
                               "args=%s\nbinary: exit=%s success=%s created=%s\nmodel : %s\noutput: %s" % (a["args"], a["exit"], a["success"], got_created, m, a["output"][-300:]))
    cov = {"evaluations": len(actual), "distinct_nontrivial": len(distinct),
           "rule": "the real binary (built from the working tree) run in a fresh sandbox directory per scenario: flags (-debug -verbose -help -version -h, unknown flag, -name with/without value, -out; flags and a second file written after the input file; 31 spellings of the command line: -x/--x, =value or next argument, boolean values, `--`, `-`, malformed flags, missing values, repeated flags) x input classes (valid; lexical, syntax, semantic error; token conflict; invalid pattern; LALR conflict; empty; missing file; directory; no file argument) x output location (cwd default, existing dir, missing, a file) x pre-existing <out>/<name> (missing, directory, directory holding lexer.go/types.go, file, symlink to a directory, dangling symlink) x names (usable and unusable identifiers); before/after snapshots (kind, mode, size, SHA-256 of every path), exit status, final message; plus write faults: two valid specifications run under RLIMIT_FSIZE = L with SIGXFSZ ignored for L swept around every file size, every 4096-byte boundary and 0/1, each compared with a reference run byte for byte and with the CLI model under the corresponding `half` faults; non-trivial = distinct scenario",
           "samples": [actual[0]["args"], actual[-1]["args"]], "outcomes": stats, "correspondence_disagreements": ncorr,
           "trusted_base": TRUSTED_BASE + ["Linux semantics of mkdir(2) and open(2) with O_CREAT|O_EXCL (fail with EEXIST on any existing path, including dangling symbolic links)",
                                         "translator fact fsops: the only calls in the tool's non-test code that can change the file system (C16_only_modelled_calls)",
                                         "failing write(2) is produced with a file-size limit (EFBIG) at swept byte positions; other errno values (ENOSPC, EIO) and a failing close(2) are covered by the theorems over the fault oracle only; an unreadable input cannot be produced either (the checks run as root)"]}
    return ctx.finish(LEVEL, cov, ["reading and checking the specification is abstracted as three booleans (parse, token automaton, LALR table) computed by the rest of emerge"])


def replay(ctx, rp):
    print(json.dumps({k: rp.get(k) for k in ("scenario", "args", "exit", "created", "changed", "success", "model", "output")}, indent=1))
