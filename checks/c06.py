"""C06 — the LALR(1) table for a user grammar parses exactly its language, per the directives."""
import itertools
from .common import *
from . import specgen as sg

LEVEL = "other"
K = 6

TEXTBOOK = [
    # SLR
    'grammar g; start = e; e = e "+" t | t; t = t "*" f | f; f = "(" e ")" | ID; ID = "i";',
    # LALR but not SLR
    'grammar g; start = s; s = l "=" r | r; l = "*" r | ID; r = l; ID = "i";',
    # LR(1) but not LALR: must be rejected with a conflict
    'grammar g; start = s; s = "a" e "c" | "a" f "d" | "b" f "c" | "b" e "d"; e = "e"; f = "e";',
    # inherently ambiguous without directives: rejected
    'grammar g; start = e; e = e "+" e | ID; ID = "i";',
    # dangling else: rejected without directives
    'grammar g; start = s; s = "if" s | "if" s "else" s | "x";',
    # dangling else resolved to shift
    'grammar g; @right "else" "if"; start = s; s = "if" s | "if" s "else" s | "x";',
    # epsilon productions and unit rules
    'grammar g; start = a b; a = "a" a | ; b = c; c = "c" | ;',
    'grammar g; start = { "a" } [ "b" ] {{ "c" }};',
    'grammar g; start = l; l = l "," ID | ID | ; ID = "i";',
    # unary minus with a rule handle
    'grammar g; @right <e = "-" e>; @left "*"; @left "+" "-"; start = e; e = e "+" e | e "-" e | e "*" e | "-" e | "(" e ")" | ID; ID = "i";',
    # non-associative
    'grammar g; @none "<"; @left "+"; start = e; e = e "<" e | e "+" e | ID; ID = "i";',
]


def op_grammar(rng):
    ops = rng.sample(["+", "-", "*", "/", "^", "<", "&"], rng.choice([1, 2, 3, 4, 5]))
    levels, left = [], list(ops)
    rng.shuffle(left)
    while left:
        k = rng.choice([1, 1, 2])
        grp, left = left[:k], left[k:]
        levels.append((rng.choice(["@left", "@left", "@right", "@none"]), grp))
    if rng.random() < 0.25 and levels:
        levels.pop(rng.randrange(len(levels)))         # an operator without a directive: must be rejected
    dirs = " ".join('%s %s;' % (a, " ".join('"%s"' % o for o in g)) for a, g in levels)
    alts = " | ".join('e "%s" e' % o for o in ops)
    return 'grammar g; %s start = e; e = %s | "(" e ")" | "i";' % (dirs, alts), ops, levels


def rule_handle_grammar(rng):
    """operator grammars whose directives are (partly) rule handles: a rule handle gives its level to the reduction by that
    production only - the shift of the operator needs a terminal handle of its own"""
    ops = rng.sample(["+", "-", "*", "/", "^"], rng.choice([1, 2, 3]))
    dirs = []
    for o in ops:
        a = rng.choice(["@left", "@right"])
        k = rng.random()
        if k < 0.4:
            dirs.append('%s "%s" <e = e "%s" e>;' % (a, o, o))        # both handles: resolved
        elif k < 0.7:
            dirs.append('%s "%s";' % (a, o))                            # terminal handle only: resolved
        else:
            dirs.append('%s <e = e "%s" e>;' % (a, o))                  # rule handle only: the conflict stays
    if rng.random() < 0.3:
        dirs.append('@right <e = "-" e>;') if "-" in ops else None
    rng.shuffle(dirs)
    alts = " | ".join('e "%s" e' % o for o in ops) + ((' | "-" e') if any("<e = \"-\" e>" in d for d in dirs) else "")
    return 'grammar g; %s start = e; e = %s | "i";' % (" ".join(d for d in dirs if d), alts)


def random_grammar(rng):
    nts = ["start"] + rng.sample(["a", "b", "c", "d"], rng.choice([1, 2, 3]))
    ts = rng.sample(['"x"', '"y"', '"z"', '"w"'], rng.choice([2, 3, 4]))
    rules = []
    for n in nts:
        alts = []
        for _ in range(rng.choice([1, 2, 2, 3])):
            body = [rng.choice(nts[1:] + ts + ts) for _ in range(rng.choice([0, 1, 2, 2, 3]))]
            alts.append(" ".join(body))
        rules.append("%s = %s;" % (n, " | ".join(alts)))
    return "grammar g; " + " ".join(rules)


# LALR(1)-but-not-SLR(1) shapes: FOLLOW sets alone put a shift and a reduction (or two reductions) into one cell that the
# LALR(1) look-aheads keep apart, so directives naming the symbols of such a cell must change nothing
NOT_SLR = [
    ('start = l "=" r | r; l = "*" r | "i"; r = l;', ['"="', '"*"', '"i"'], ['<r = l>', '<l = "i">']),
    ('start = "*" "i" "=" e | "let" e "=" e | e; e = e "+" e | "*" "i" | "i";', ['"*"', '"="', '"+"', '"i"', '"let"'], []),
    ('start = a "x" | "y" a "z" | "w" "z" | "y" "w" "x"; a = "w";', ['"x"', '"y"', '"z"', '"w"'], ['<a = "w">']),
    ('start = a "x" "x" | b "x" "y" | "z" a "y"; a = "w"; b = "w";', ['"x"', '"y"', '"z"', '"w"'], []),
    ('start = "(" e ")" | e; e = t "+" e | t; t = "i" | "(" e ")" "!";', ['"("', '")"', '"+"', '"i"', '"!"'], ['<e = t>']),
]


def with_directives(rng, body, handles, extra):
    """the grammar text `body` under a random precedence table over some of `handles` (terminals) and `extra` (rule handles)"""
    pool = [h for h in handles if rng.random() < 0.75] + [h for h in extra if rng.random() < 0.4]
    rng.shuffle(pool)
    dirs = []
    while pool:
        k = rng.choice([1, 1, 2])
        grp, pool = pool[:k], pool[k:]
        dirs.append("%s %s;" % (rng.choice(["@left", "@right", "@left", "@right", "@none"]), " ".join(grp)))
    return "grammar g; %s %s" % (" ".join(dirs), body)


DIRECTIVE = re.compile(r'@(left|right|none)((?:\s+(?:"(?:[^"\\]|\\.)*"|<[^>]*>|[A-Z][A-Z0-9_]*))+)\s*;')
HANDLE = re.compile(r'"(?:[^"\\]|\\.)*"|<[^>]*>|[A-Z][A-Z0-9_]*')


def written_levels(text):
    """the precedence levels as the directives of a plain-BNF specification text state them: [(assoc, {handle})], a handle
    being ('t', terminal name) or ('p', head, (body symbols as ('t', name) / ('n', name)))"""
    def sym(x):
        if x.startswith('"'):
            return ("t", x[1:-1])
        return ("t", x) if x[0].isupper() else ("n", x)
    out = []
    for m in DIRECTIVE.finditer(text):
        hs = set()
        for h in HANDLE.findall(m.group(2)):
            if h.startswith("<"):
                head, _, body = h[1:-1].partition("=")
                hs.add(("p", head.strip(), tuple(sym(x) for x in re.findall(r'"(?:[^"\\]|\\.)*"|[A-Za-z_][A-Za-z0-9_]*', body))))
            else:
                hs.add(sym(h))
        out.append(({"none": 0, "left": 1, "right": 2}[m.group(1)], hs))
    return out


def dumped_levels(g, text):
    """the levels of Spec.Precedences as the harness prints them, in the same terms (non-terminals are numbered in name order)"""
    nts = sorted(set(re.findall(r'(?:^|;)\s*([a-z][a-z0-9_]*)\s*=', text.split(";", 1)[1] if text.startswith("grammar") else text)))
    def sym(k, i):
        return ("t", g["tnames"][i]) if k == "t" else ("n", nts[i] if i < len(nts) else "?%d" % i)
    out = []
    for l in g["fields"].get("levels", "").split(";"):
        if not l:
            continue
        a, _, hs = l.partition(":")
        handles = set()
        for h in hs.split(","):
            if not h:
                continue
            if h[0] == "t":
                handles.add(("t", g["tnames"][int(h[1:])]))
            else:
                head, body = g["prods"][int(h[1:])]
                handles.add(("p", nts[head] if head < len(nts) else "?", tuple(sym(k, i) for k, i in body)))
        out.append((int(a), handles))
    return out


def parse_lalr(line):
    kind, _, rest = line.partition(" ")
    f = dict(x.split("=", 1) for x in rest.split(" ") if "=" in x)
    out = {"kind": kind, "fields": f}
    if kind in ("OK", "CONFLICT", "CONFLICT+TABLE"):
        out["nt"] = int(f["nt"]); out["nnt"] = int(f["nnt"]); out["start"] = int(f["start"])
        out["tnames"] = [unhx(x).decode() for x in f["tn"].split(",")] if f.get("tn") else []
        prods = []
        for p in f["prods"].split(";"):
            h, _, b = p.partition(">")
            prods.append((int(h), [(s[0], int(s[1:])) for s in b.split(".") if s]))
        out["prods"] = prods
    if kind == "OK":
        acts, gotos = {}, {}
        for e in f.get("acts", "").split(";"):
            if e:
                s, a, k, p = map(int, e.split(":"))
                acts[(s, a)] = (k, p)
        for e in f.get("gotos", "").split(";"):
            if e:
                s, A, j = map(int, e.split(":"))
                gotos[(s, A)] = j
        out["acts"], out["gotos"] = acts, gotos
    return out


def lr_run(g, w):
    """the standard shift-reduce algorithm over the dumped table: -> (accepted, reductions)"""
    stack, i, reds = [0], 0, []
    w = list(w) + [g["nt"]]
    for _ in range(10000):
        act = g["acts"].get((stack[-1], w[i]))
        if act is None:
            return False, reds
        k, p = act
        if k == 0:
            stack.append(p); i += 1
        elif k == 1:
            h, body = g["prods"][p]
            if len(body) >= len(stack):
                return False, reds          # the stack does not hold the body: not a sentence
            if body:
                del stack[-len(body):]
            nx = g["gotos"].get((stack[-1], h))
            if nx is None:
                return False, reds
            stack.append(nx); reds.append(p)
        else:
            return True, reds
    return False, reds


def bounded_language(g, k):
    """all terminal strings of length <= k derivable from the start symbol (least fixed point)"""
    lang = {n: set() for n in range(g["nnt"])}
    changed = True
    while changed:
        changed = False
        for h, body in g["prods"]:
            acc = {()}
            for kind, idx in body:
                nxt = set()
                part = {(idx,)} if kind == "t" else lang[idx]
                for a in acc:
                    for b in part:
                        if len(a) + len(b) <= k:
                            nxt.add(a + b)
                acc = nxt
                if not acc:
                    break
            if not acc <= lang[h]:
                lang[h] |= acc; changed = True
    return lang[g["start"]]


def climb(tokens, prec):
    """precedence climbing: prec[op] = (level index: smaller binds tighter, assoc). -> tree or None (non-assoc chain)"""
    pos = [0]

    def primary():
        t = tokens[pos[0]]
        if t == "(":
            pos[0] += 1
            r = expr(10 ** 6)
            pos[0] += 1
            return ("(", r)
        pos[0] += 1
        return "i"

    def expr(maxlevel):
        left = primary()
        while pos[0] < len(tokens) and tokens[pos[0]] in prec:
            op = tokens[pos[0]]
            lvl, assoc = prec[op]
            if lvl > maxlevel:
                break
            pos[0] += 1
            # the right operand may contain operators binding tighter, or equally tight if right-associative
            right = expr(lvl if assoc == "@right" else lvl - 1)
            if assoc == "@none" and pos[0] < len(tokens) and tokens[pos[0]] in prec and prec[tokens[pos[0]]][0] == lvl:
                raise ValueError("non-associative chain")
            left = (op, left, right)
        return left
    return expr(10 ** 6)


def tree_from_reductions(g, w, reds):
    """rebuild the parse tree of an operator grammar from the reduction sequence"""
    stack, toks = [], list(w)
    names = g["tnames"]
    # replay shift-reduce with the table to interleave shifts and reductions
    st, i = [0], 0
    ww = list(w) + [g["nt"]]
    for _ in range(10000):
        k, p = g["acts"][(st[-1], ww[i])]
        if k == 0:
            st.append(p); stack.append(names[ww[i]]); i += 1
        elif k == 1:
            h, body = g["prods"][p]
            args = stack[len(stack) - len(body):] if body else []
            if body:
                del stack[-len(body):]; del st[-len(body):]
            st.append(g["gotos"][(st[-1], h)])
            if len(args) == 3 and args[1] in ("+", "-", "*", "/", "^", "<", "&"):
                stack.append((args[1], args[0], args[2]))
            elif len(args) == 3 and args[0] == "(":
                stack.append(("(", args[1]))
            elif len(args) == 1:
                stack.append("i" if args[0] in ("i", "ID") else args[0])
            else:
                stack.append(tuple(args))
        else:
            return stack[-1]
    return None


def run(ctx):
    quick = ctx.tier == "quick"
    ctx.build_go()
    try:
        ctx.prove("Emerge.Props.C06")
        if not quick:
            ctx.leanchecker("Emerge.Props.C06")
    except Broken as b:
        ctx.add_broken(b.what, b.detail)
        ok, out = ctx.lake(["model"])
        if not ok:
            ctx.add_broken("model driver no longer builds", out[-2000:])
            return ctx.finish(LEVEL, {"evaluations": 0, "distinct_nontrivial": 0, "samples": [], "explanation": "aborted"}, [])
    rng = ctx.rng
    # strict: every conflict of the family is a genuine ambiguity (or there is none), so the table must accept exactly L(G)
    # last component: well-formed by construction (spec.Parse must not reject it)
    cases = [(t, None, True, True) for t in TEXTBOOK]
    for _ in range(150 if quick else 1500):
        t, ops, levels = op_grammar(rng)
        cases.append((t, (ops, levels), True, True))
    for _ in range(500 if quick else 6000):
        cases.append((random_grammar(rng), None, True, False))
    for _ in range(200 if quick else 2000):
        body, hs, ex = rng.choice(NOT_SLR)
        cases.append((with_directives(rng, body, hs, ex), None, True, True))      # LALR(1) without directives: they must change nothing
    for _ in range(200 if quick else 2000):
        t = random_grammar(rng)[len("grammar g; "):]
        cases.append((with_directives(rng, t, ['"x"', '"y"', '"z"', '"w"'], []), None, False, False))
    for _ in range(100 if quick else 1000):
        cases.append((rule_handle_grammar(rng), None, True, True))
    # entries holding a shift and several reductions, with directives that rank only some of them: the entry is settled iff
    # one action beats every other one - in whatever order the actions are visited (non-strict: precedence may remove sentences)
    from .c15 import multiway_conflict
    for _ in range(40 if quick else 400):
        t = multiway_conflict(rng)
        cases += [(t, None, False, False)] * 4        # asked four times: each time the actions come in another order
    # degenerate grammars: cycles through the start symbol, unit and empty productions (crashes of the dependency's
    # construction on them are recorded findings F25/F27 and attributed by the frame that raised the panic)
    from .c14 import grammar_cases
    for t in grammar_cases(rng, 60 if quick else 600):
        cases.append((t, None, False, False))
    impl = ctx.run_impl_par("lalr", [hx(t.encode()) for t, _, _, _ in cases], timeout=900, isolate=True)
    model = ctx.run_model_par("lalr", [l.split(" ", 1)[1] if " " in l else "nt=0 nnt=0 start=0 prods= levels=" for l in impl])
    stats = {"accepted": 0, "rejected_conflict": 0, "rejected_earlier": 0, "tables_isomorphic_to_reference": 0, "tables_well_formed": 0, "sentences_compared": 0, "expressions_compared": 0, "known_order_dependence": 0}
    distinct = set()
    ncorr = 0
    for (text, opinfo, strict, wellformed), i, m in zip(cases, impl, model):
        g = parse_lalr(i)
        if g["kind"] in ("PARSEERR",):
            stats["rejected_earlier"] += 1
            if wellformed:
                ctx.add_violation("a well-formed specification (an LALR(1) grammar, or one whose conflicts its directives cover) is rejected before the table is built",
                                  {"input": text, "input_hex": hx(text.encode()), "implementation": decode_hex_fields(i)[:600]})
            continue
        if "@" in text and g["kind"] in ("OK", "CONFLICT") and "{" not in text and "[" not in text and "(" not in text:
            # what is handed to the table builder must be what the directives say (plain-BNF families only: no synthesised names)
            stats["directive_sets_compared"] = stats.get("directive_sets_compared", 0) + 1
            wl, dl = written_levels(text), dumped_levels(g, text)
            if wl != dl:
                ctx.add_violation("the precedence levels handed to the table builder are not the ones the directives state",
                                  {"input": text, "input_hex": hx(text.encode()), "written": repr(wl)[:800], "handed_to_the_builder": repr(dl)[:800]})
                continue
        if g["kind"] == "PANIC" and any(f.get("explains_panic_frame") and f["explains_panic_frame"] in decode_hex_fields(i) for f in known_for("C06")):
            stats["crashes_explained_by_known_findings"] = stats.get("crashes_explained_by_known_findings", 0) + 1
            continue
        if g["kind"] == "OK" and any(k == 9 for k, _ in g["acts"].values()):
            cells = sorted(c for c, (k, _) in g["acts"].items() if k == 9)
            ctx.add_violation("the table of an accepted grammar still holds several actions in one entry (a conflict that was neither reported nor resolved)",
                              {"input": text, "input_hex": hx(text.encode()), "entries": ["ACTION[%d, %s]" % (st, g["tnames"][a] if a < len(g["tnames"]) else "$") for st, a in cells][:10]})
            continue
        if g["kind"] in ("CRASH", "PANIC", "NILNIL", "CONFLICT+TABLE"):
            ctx.add_violation("LALRParsingTable crashed or returned both a table and an error", {"input": text, "input_hex": hx(text.encode()), "implementation": decode_hex_fields(i)[:600]})
            continue
        distinct.add(text)
        mf = dict(x.split("=", 1) for x in m.split(" ") if "=" in x)
        ref_ok = mf.get("REF") == "ok"
        if g["kind"] == "CONFLICT":
            stats["rejected_conflict"] += 1
            if ref_ok and g["fields"].get("direct") == "ok":
                # the dependency's construction, given the spec's own grammar and levels, builds the table: the rejection is emerge's
                ctx.add_violation("a grammar whose conflicts the directives cover is rejected with a conflict report (the table construction itself, called with the same grammar and levels, succeeds)",
                                  {"input": text, "input_hex": hx(text.encode()), "message": unhx(g["fields"].get("msg", "-")).decode("utf-8", "replace")[:600]})
                continue
            if ref_ok:
                # the reference resolves every cell and emerge does not (since c31491e emerge settles an entry exactly as the
                # reference does - the action that beats every other one - so the raw entries must differ: F26-style tables)
                ncorr += 1
                if ncorr <= 3:
                    ctx.add_broken("correspondence: the grammar is rejected with a conflict although the reference LALR(1) construction with the documented precedence rule resolves every cell",
                                   "input=%s\nmessage=%s" % (text, unhx(g["fields"].get("msg", "-")).decode("utf-8", "replace")[:600]))
            continue
        stats["accepted"] += 1
        if not ref_ok:
            ctx.add_violation("a grammar with a conflict that the directives do not resolve was accepted (the reference LALR(1) construction reports an unresolved cell)",
                              {"input": text, "input_hex": hx(text.encode()), "implementation": i[:1500]})
            continue
        if mf.get("iso") == "1":
            stats["tables_isomorphic_to_reference"] += 1
            if mf.get("wf") == "1":
                stats["tables_well_formed"] += 1
            else:
                ctx.add_broken("a table equal to the reference LALR(1) table does not pass the well-formedness check on which the soundness theorem rests", "input=%s" % text)
        elif mf.get("sim") == "1":
            # the dependency conflates a reference state with a state holding a superset of its items (findSuperset): every
            # reference entry is present, so every sentence is parsed as by the reference table; that no further string is
            # accepted is then established by the bounded language comparison below only (the soundness theorem does not apply)
            stats["tables_with_conflated_states"] = stats.get("tables_with_conflated_states", 0) + 1
        else:
            # neither: the dependency's state conflation can also drop look-aheads that only the LALR merge added; such
            # tables are compared by language only (below)
            stats["tables_compared_by_language_only"] = stats.get("tables_compared_by_language_only", 0) + 1
        # exactly the sentences of the grammar, up to length K
        lang = bounded_language(g, K)
        for n in range(K + 1):
            for w in itertools.product(range(g["nt"]), repeat=n):
                if g["nt"] ** n > 3000 and rng.random() > 3000.0 / g["nt"] ** n:
                    continue
                stats["sentences_compared"] += 1
                acc, reds = lr_run(g, w)
                if acc != (tuple(w) in lang):
                    if not acc and strict is False and mf.get("noprec") == "reject":
                        # the grammar is not LALR(1) without its directives and is not ambiguous by construction: resolving a
                        # conflict that is not an ambiguity removes sentences (inherent to precedence resolution; the
                        # reference table does the same). Only soundness is expected of such a table.
                        stats["sentences_removed_by_resolving_non_ambiguities"] = stats.get("sentences_removed_by_resolving_non_ambiguities", 0) + 1
                        continue
                    f26 = [f for f in known_for("C06") if f["id"] == "F26"]
                    if f26 and g["fields"].get("direct") == "1" and mf.get("iso") != "1":
                        # the dependency's own construction, called directly, returns this very table, and it is not the LALR(1) table
                        stats["grammars_with_the_dependency_s_unsound_table"] = stats.get("grammars_with_the_dependency_s_unsound_table", 0) + 1
                        if f26[0] not in ctx.known_hits:
                            ctx.known_hits.append(f26[0])
                        break
                    ctx.add_violation("the table %s a terminal string that %s a sentence of the grammar" % ("accepts" if acc else "rejects", "is not" if acc else "is"),
                                      {"input": text, "input_hex": hx(text.encode()), "sentence": [g["tnames"][x] for x in w]})
                    break
            else:
                continue
            break
        # the parse the declared precedence and associativity dictate
        if opinfo:
            ops, levels = opinfo
            prec = {}
            for li, (a, grp) in enumerate(levels):
                for o in grp:
                    prec[o] = (li, a)
            tix = {n: k for k, n in enumerate(g["tnames"])}
            for _ in range(60):
                n = rng.choice([1, 2, 2, 3, 3, 4])
                toks = ["i"]
                for _ in range(n):
                    toks += [rng.choice(ops), "i"]
                if rng.random() < 0.3 and len(toks) >= 5:
                    a = rng.randrange(0, len(toks) - 2, 2)
                    toks = toks[:a] + ["("] + toks[a:a + 3] + [")"] + toks[a + 3:]
                try:
                    want = climb(toks, prec)
                except ValueError:
                    want = None
                w = [tix[t] for t in toks]
                acc, reds = lr_run(g, w)
                stats["expressions_compared"] += 1
                if want is None:
                    if acc:
                        ctx.add_violation("a chain of non-associative operators was accepted", {"input": text, "input_hex": hx(text.encode()), "expression": " ".join(toks)})
                        break
                    continue
                got = tree_from_reductions(g, w, reds) if acc else None
                if got != want:
                    ctx.add_violation("the parse built for an operator expression is not the one the declared precedence and associativity dictate",
                                      {"input": text, "input_hex": hx(text.encode()), "expression": " ".join(toks), "tree": repr(got), "dictated": repr(want)})
                    break
    ctx.witness_hits()
    cov = {"evaluations": len(cases), "distinct_nontrivial": len(distinct),
           "rule": "textbook families (SLR; LALR-not-SLR; LR(1)-not-LALR; inherently ambiguous; dangling else with and without directives; epsilon and unit productions; unary operators with rule handles; non-associative operators), LALR(1)-but-not-SLR(1) shapes and random grammars under random precedence tables that name the symbols of the cells FOLLOW sets alone would put in conflict, operator grammars with random precedence tables (1-5 operators, random levels and associativities, sometimes an operator left without a directive) and random grammars (2-4 non-terminals, 2-4 terminals); per grammar: accept/reject against the reference construction, table entry-for-entry (up to state renaming), WF of the implementation's table, every terminal string up to length 6 (sampled above 3000 per length) through the table against a bounded-language computation, operator expressions against precedence climbing; non-trivial = distinct grammar that reached the table construction",
           "samples": [cases[0][0], cases[len(TEXTBOOK)][0]], "outcomes": stats, "correspondence_disagreements": ncorr,
           "explanation": "partial proof (driver soundness for every WF table; precedence rule) + translation validation per grammar (table = reference LALR(1) table, WF evaluated on the implementation's table so that the soundness theorem applies to it) + bounded language and tree comparison; completeness of LALR(1) construction and tree shape in general are not proved",
           "trusted_base": TRUSTED_BASE + ["Emerge.LALR.build as the definition of 'the LALR(1) table of the grammar with the documented precedence rule' (compiled evaluation)", "the dependency's lookahead.BuildParsingTable (validated per grammar)", "Python shift-reduce driver, bounded-language computation and precedence climbing in checks/c06.py"]}
    return ctx.finish(LEVEL, cov, ["sentences are compared up to length %d" % K])


def replay(ctx, rp):
    ctx.build_go(); ctx.lake(["model"])
    print("input:", rp["input"])
    o = ctx.run_impl("lalr", [rp["input_hex"]], isolate=True)[0]
    print("implementation:", decode_hex_fields(o)[:1500])
    print("reference     :", ctx.run_model("lalr", [o.split(" ", 1)[1]])[0])
