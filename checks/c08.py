"""C08 — the emitted lexer is valid stand-alone Go encoding exactly the token automaton."""
from .regexcommon import *
from . import c03

LEVEL = "translation_validation"

# literals and classes that need escaping in Go source; patterns shadowed by literals (terminals that own no state)
LITS = ["'", "\\\"", "\\\\", "`", "%", "$", "{{", "}}", "/*", "*/", "//", "\\n", "a'b", "\\\\n", "%c", "%q", "\\\"\\\"", "if", "else", "=", "==", "\\'", "#{", "<%", "in", "for",
        # a backquote next to a quote or a backslash: no single Go literal form (raw or interpreted) can be chosen by looking at one of them only
        "`\\\"", "\\\"`", "`\\\\", "\\\\`", "a`\\\"b", "``", "`'\\\"", "\\`"]
PATS = ["\\x27", "\\x5C", "\\x22+", "[\\x00-\\x1F]", "\\x7F", "[\\x01-\\x08]+", "\\x0A", "\\x0D\\x0A", "\\x09+", "[\\x27\\x5C]", "\\x00E9+", "[\\x00E0-\\x00FF]", "\\x1F600", "\\x10FFFF",
        "\\x0080", "[\\x0080-\\x00A0]x", "\\xFFFFFFFF", "\\x80000000", "\\xD800", "[:ascii:]", "[^a]", ".", "\\p{Greek}", "\\s+", "if", "else|if", "=", "==?", "[a-z]+", "[0-9]+", "'[^']*'"]


def gen_spec(rng):
    n = rng.choice([1, 2, 3, 4, 5])
    names = rng.sample(c03.TOKNAMES, n)
    decls, uses = [], []
    kws = rng.sample(LITS + c03.KEYWORDS, len(LITS) + len(c03.KEYWORDS))
    kws = list(dict.fromkeys(kws))
    lits = [kws.pop() for _ in range(rng.choice([0, 1, 2, 3]))]
    for t in names:
        k = rng.random()
        if k < 0.55:
            decls.append("%s = /%s/;" % (t, rng.choice(PATS if rng.random() < 0.6 else c03.PATTERNS)))
        elif k < 0.8:
            decls.append("%s = \"%s\";" % (t, kws.pop()))
        else:
            # a pattern that is exactly a literal also defined: the pattern's terminal ends up owning no state
            v, pat = rng.choice([("if", "[i]f"), ("else", "el(s)e"), ("=", "[=]"), ("in", "i(n)"), ("for", "f[o]r")])
            decls.append("%s = /%s/;" % (t, pat))
            if v not in lits:
                lits.append(v)
        uses.append(t)
    for l in lits:
        uses.append('"%s"' % l)
    rng.shuffle(uses); rng.shuffle(decls)
    return "grammar %s;\nstart = %s;\n%s\n" % (rng.choice(["g", "calc", "lexer", "x1", "main_", "a_b_c"]), " ".join(uses), "\n".join(decls))


def run(ctx):
    quick = ctx.tier == "quick"
    ctx.build_go()
    ok_proofs = True
    try:
        ctx.extract(["lexertmpl"])
        ctx.prove("Emerge.Props.C08")
        if not quick:
            ctx.leanchecker("Emerge.Props.C08")
    except Broken as b:
        ctx.add_broken(b.what, b.detail)
    rng = ctx.rng
    texts = [gen_spec(rng) for _ in range(500 if quick else 6000)]
    lines = [hx(t.encode()) for t in texts]
    # a package of the same name generated into the same directory before, from a specification with more tokens (a longer
    # lexer.go): the second generation is refused, or it leaves the package of the second specification behind
    nre = 40 if quick else 400
    # many keywords and a long pattern: its lexer.go is longer than almost any of the generated ones
    LONG = ('grammar g;\nstart = ' + " ".join('"%s"' % w for w in ["alpha", "beta", "gamma", "delta", "epsilon", "zeta", "eta", "theta", "iota", "kappa", "lambda",
                                                                    "omicron", "upsilon", "while", "until", "return", "function", "procedure"]) +
            ' NUM;\nNUM = /[0-9]+(\\.[0-9]+)?([eE][0-9]+)?/;\n')
    longer = [LONG] * nre
    texts = texts + texts[:nre]
    lines = lines + [hx(t.encode()) + " - " + hx(l.encode()) for t, l in zip(texts[:nre], longer)]
    out = ctx.run_impl_par("gen", lines, nproc=8, timeout=1500, isolate=True)
    stats = {"validated": 0, "rejected_spec": 0, "conflict_or_invalid": 0, "entries_checked": 0, "with_stateless_terminal": 0, "second_generation_refused": 0}
    distinct = set()
    for t, o in zip(texts, out):
        kind = o.split(" ")[0]
        if kind == "REFUSED":
            stats["second_generation_refused"] += 1
            continue
        if kind in ("PARSEERR",):
            stats["rejected_spec"] += 1
            continue
        if kind in ("GENERR-DFA",):
            stats["conflict_or_invalid"] += 1      # definition conflict / invalid pattern: nothing is emitted for the lexer
            continue
        if kind == "GENERR":
            msg = decode_hex_fields(o)
            if "invalid package name" in msg or "parsing table" in msg or "conflict" in msg:
                stats["rejected_spec"] += 1
                continue
            ctx.add_violation("generation failed for an accepted specification", {"input": t, "input_hex": hx(t.encode()), "implementation": msg[:600]})
            continue
        if kind in ("CRASH", "PANIC", "GENOK-BUT-DFAERR", "TMPERR"):
            ctx.add_violation("generation crashed or succeeded although the token automaton cannot be built", {"input": t, "input_hex": hx(t.encode()), "implementation": decode_hex_fields(o)[:600]})
            continue
        f = dict(x.split("=", 1) for x in o.split(" ")[1:])
        stats["entries_checked"] += int(f["checked"])
        if f["stable"] != "true":
            ctx.add_violation("Spec.DFA() computed two different automata for the same specification (the emitted tables cannot be compared)", {"input": t, "input_hex": hx(t.encode())})
            continue
        probs = [unhx(x).decode("utf-8", "replace") for x in f["problems"].split(",") if x]
        if kind == "OK" and not probs:
            stats["validated"] += 1
            distinct.add(t)
            if "[i]f" in t or "el(s)e" in t or "[=]" in t or "i(n)" in t or "f[o]r" in t:
                stats["with_stateless_terminal"] += 1
        else:
            ctx.add_violation("the emitted package is not valid stand-alone Go or its tables differ from the token automaton: " + "; ".join(probs[:2]),
                              {"input": t, "input_hex": hx(t.encode()), "problems": probs})
    cov = {"programs": stats["validated"], "disagreements_checked": stats["entries_checked"], "samples": [texts[0], texts[1]],
           "evaluations": len(texts), "distinct_nontrivial": len(distinct),
           "rule": "seeded random specifications biased to quotes, backslashes, control and non-ASCII characters in literals and classes, terminals that end up owning no state, unusual grammar names; each emitted package is parsed (go/parser), type-checked (go/types) with an importer that refuses everything outside the standard library, and advanceDFA/evalDFA are read back from the syntax tree (go/constant) and compared with Spec.DFA(): every state x every symbol of the automaton plus probe characters (0x00 0x27 0x5C 0x7F 0x80 0xE000 0x10FFFF), every state of the accepting table, no extra cases",
           "outcomes": stats,
           "trusted_base": TRUSTED_BASE + ["go/parser, go/types (source importer) as the definition of 'valid Go using only the standard library'", "harness/gen.go: reading the two switch tables back from the emitted syntax tree"]}
    return ctx.finish(LEVEL, cov, ["validity is decided per emitted package by the Go front end, not by a Lean theorem (no Go semantics in Lean here)"])


def replay(ctx, rp):
    ctx.build_go()
    print("input:\n" + rp["input"])
    print("implementation:", decode_hex_fields(ctx.run_impl("gen", [rp["input_hex"]], isolate=True)[0])[:2000])
