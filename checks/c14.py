"""C14 — no input crashes or hangs emerge; failures are errors and clean non-zero exits."""
import shutil, tempfile
from .regexcommon import *
from . import specgen as sg
from . import ebnf_rd as rd

LEVEL = "other"

VALID_SPECS = [
    'grammar calc;\nstart = expr;\nexpr = expr "+" NUM | NUM;\nNUM = /[0-9]+/;\n',
    'grammar g\n@left "+" "-"\n@right <e = "-" e>\ne = e "+" e | e "-" e | "-" e | ID | "(" e ")";\nID = $ID\nstart = { e ";" } [ e ];\n',
    'grammar x;\nstart = {{ a | b }} ( c | ) [ "x" ];\na = "a"; b = "b"; c = TOK;\nTOK = "t";\n// comment\n/* block */\n',
]


def byte_cases(rng, n):
    out = [b"", b"\x00", b"\xff", b"\xc3", b"grammar", b"grammar x", b"grammar x\n", b"grammar x;", b"/*", b"\"", b"/", b"//", b"grammar x; a = \"", b"grammar x; A = /", b"\xef\xbb\xbfgrammar x;",
           b"grammar x; start = " + b"(" * 3000, b"grammar x; start = " + b"[" * 500 + b"a" + b"]" * 500 + b";", b"grammar x; start = " + b"a | " * 3000 + b"a;", b"grammar x; " + b"a = b; " * 2000,
           b"grammar x; start = \"" + b"a" * 5000 + b"\";", b"grammar x; start = A; A = /" + b"a" * 300 + b"/;", b"grammar x;\x00 start = a;", b"grammar \xf0\x9f\x8c\xb5;",
           # runs of millions of skipped tokens (blank lines, comments): the depth of the call stack must not follow their number
           b"grammar x;\n" + b" \n" * 3000000 + b"start = \"x\";\n", b"grammar x;" + b"//c\n" * 2500000 + b"start = \"x\";", b"grammar x; start = \"x\";" + b"/**/ " * 2500000]
    # user rules spelled like the names emerge synthesises for ( ) [ ] { } {{ }} - numbered (gen1_group ...) and descriptive (gen_a_opt ...),
    # declared before and after the operator that needs the name, also for the second operator of a rule: taken names must be skipped
    ops = {"group": '("a" "b")', "opt": '["a" "b"]', "star": '{"a" "b"}', "plus": '{{"a" "b"}}'}
    for kind, ex in ops.items():
        for nn in ("1", "2", "3"):
            nm = "gen%s_%s" % (nn, kind)
            out.append(('grammar g; %s = "x"; start = %s %s;' % (nm, ex, nm)).encode())
            out.append(('grammar g; start = %s %s; %s = "x";' % (ex, nm, nm)).encode())
            out.append(('grammar g; %s = "x"; start = %s %s %s;' % (nm, ex, ex.replace("a", "c"), nm)).encode())
    for nm, ex in (("gen_a_opt", "[a]"), ("gen_a_star", "{a}"), ("gen_a_plus", "{{a}}"), ("gen_A_opt", "[A]")):
        out.append(('grammar g; %s = "x"; start = %s %s; a = "y"; A = "z";' % (nm, ex, nm)).encode())
        out.append(('grammar g; start = %s %s; %s = "x"; a = "y"; A = "z";' % (ex, nm, nm)).encode())
    for _ in range(n):
        k = rng.random()
        if k < 0.25:
            out.append(bytes(rng.randrange(256) for _ in range(rng.randrange(1, 60))))
        elif k < 0.5:
            out.append(bytes(rng.choice(b"grammar start=;|()[]{}<>@lefrightnon\"/\\$AZaz09_ \n\t*+?.-") for _ in range(rng.randrange(1, 120))))
        else:
            s = bytearray(rng.choice(VALID_SPECS).encode())
            for _ in range(rng.choice([1, 1, 2, 3, 5])):
                m = rng.random()
                i = rng.randrange(len(s) + 1)
                if m < 0.3 and s:
                    del s[min(i, len(s) - 1)]
                elif m < 0.6:
                    s.insert(i, rng.choice(list(b"\x00\xff\"/\\{}[]()|=;@<>$ \n") + [rng.randrange(256)]))
                elif m < 0.8:
                    s = s[:i]
                else:
                    s[i:i] = s[max(0, i - rng.randrange(1, 20)):i]
            out.append(bytes(s))
    return out


def pattern_cases(rng, n):
    out = construct_corpus() + ["", "\x00", "\\", "[", "(", "{", "a{", "a{1", "a{1,", "[a-", "[\\", "\\x", "\\p{", "(" * 400, "(" * 200 + "a" + ")" * 200, "a|" * 500 + "a", "[" + "a" * 500 + "]", "a{0}" * 50,
                                "\\xFFFFFFFF", "[\\x00-\\xFFFFFFFF]"[:0] + "[\\x0000-\\x00FF]",
                                # eight-digit escapes with the top bit set are negative runes: alone, in brackets, negated, as range ends
                                "\\x80000000", "[\\xFFFFFFFF]", "[^\\xFFFFFFFF]", "[a\\xDEADBEEF]", "[\\xFFFFFFF0-\\xFFFFFFFF]", "[0-9\\xFFFFFFFE]+", "x|[\\x80000000]y",
                                "[\\x7FFFFFFF]", "[a-\\x7FFFFFFF]"[:0] + "[\\x10FFFF]", "[^\\x80]", "[\\x7F-\\x80]", "é", "\U0001F335", "a\x00b", "a{3}{2}", "(a{2}){3}", "a{10}", "(ab){4}c{0,3}"]
    for _ in range(n):
        k = rng.random()
        if k < 0.4:
            out.append(gen_pattern(rng))
        elif k < 0.7:
            out.append(mutate_pattern(rng, gen_pattern(rng)))
        else:
            out.append("".join(rng.choice("ab01\\|.?*+()[]{}$^-,:xpPdDsSwW\x00é ") for _ in range(rng.randrange(1, 25))))
    # repetition counts above 12 take minutes in the dependency's NFA construction (recorded finding F23): keep them out of the sweep
    def small_counts(p):
        return all(int(x) <= 12 for x in re.findall(r"[{,](\d+)", p))      # repetition bounds only (digits of hexadecimal escapes are not counts)
    return [p for p in out if small_counts(p) and p.count("{") <= 6]


def grammar_cases(rng, n):
    """degenerate but syntactically valid grammars for the table construction: cycles through the start symbol, unit and empty
    productions, non-terminals that derive nothing, duplicate alternatives, with and without directives"""
    out = ['grammar g; start = start | "a";', 'grammar g; @left "a"; start = start | "a";', 'grammar g; start = a; a = start | "x";',
           'grammar g; start = start;', 'grammar g; start = ;', 'grammar g; start = a b; a = ; b = ;', 'grammar g; start = a | a; a = "x";',
           'grammar g; start = a; a = a;', 'grammar g; start = a; a = b; b = a | "x";', 'grammar g; @none "x"; start = start "x" | start | ;',
           'grammar g; start = [ start ] "a";', 'grammar g; start = { start };', 'grammar g; start = {{ start }} | "a";']
    nts = ["start", "a", "b"]
    for _ in range(n):
        rules = []
        for nt in nts[:rng.choice([1, 2, 3])]:
            alts = []
            for _ in range(rng.choice([1, 2, 3])):
                alts.append(" ".join(rng.choice(nts + ['"x"', '"y"']) for _ in range(rng.choice([0, 1, 1, 2]))))
            rules.append("%s = %s;" % (nt, " | ".join(alts)))
        d = rng.choice(["", '@left "x"; ', '@right "y"; ', '@none "x" "y"; '])
        out.append("grammar g; " + d + " ".join(rules))
    return out


def explained(text):
    """is a crash attributed to a recorded finding?  Only by the frame that raised the panic (never by the message)."""
    for f in known_for("C14"):
        fr = f.get("explains_panic_frame")
        if fr and fr in text:
            return f["id"]
    return None


def classify(line):
    k = line.split(" ", 1)[0]
    if k in ("OK", "ERR"):
        return None
    if k == "ERR+SPEC":
        return None      # spec.Parse returns the partial result together with the error: documented behaviour of that entry point
    return k


def run(ctx):
    quick = ctx.tier == "quick"
    ctx.build_go()
    ctx.build_emerge()
    if not ctx.prepare(["regex"], "Emerge.Props.C14", quick):
        return ctx.finish(LEVEL, {"evaluations": 0, "distinct_nontrivial": 0, "samples": [], "explanation": "aborted"}, [])
    rng = ctx.rng
    specs = byte_cases(rng, 3000 if quick else 60000)
    pats = pattern_cases(rng, 2500 if quick else 50000)
    stats = {"spec_inputs": len(specs), "pattern_inputs": len(pats), "cli_runs": 0, "ok": 0, "errors": 0}
    distinct = set()
    slines = [hx(s) for s in specs]
    crashed = set()         # inputs on which an entry point crashed or hung: not fed to the later phases again (each costs a time-out)
    for cmd, what in (("spec", "spec.Parse"), ("ebnfast", "the typed-tree parser (ebnf ast.Parse)"), ("accept", "spec.Parse + Spec.DFA")):
        if len(ctx.violations) >= 5:
            break           # five inputs are reported at most; isolating hanging cases costs a time-out each
        res = ctx.run_impl_par(cmd, slines, timeout=200, isolate=True)
        for s, r in zip(specs, res):
            c = classify(r)
            if r.startswith("OK") or r.startswith("DFAERR"):
                stats["ok"] += 1
            else:
                stats["errors"] += 1
            distinct.add(s)
            if c and c not in ("DFAERR",):
                crashed.add(s)
                if explained(decode_hex_fields(r)):
                    stats["explained_by_known_findings"] = stats.get("explained_by_known_findings", 0) + 1
                    continue
                ctx.add_violation("%s %s on an input" % (what, {"PANIC": "panicked", "CRASH": "crashed or did not terminate", "NILNIL": "returned success with a nil result", "ERR+VALUE": "returned a value together with an error"}.get(c, c)),
                                  {"entry": cmd, "input_hex": hx(s), "input": s[:200].decode("utf-8", "replace"), "implementation": decode_hex_fields(r)[:600]})
    # the table construction on degenerate grammars
    gcases = grammar_cases(rng, 300 if quick else 4000)
    stats["grammar_inputs"] = len(gcases)
    for g, r in zip(gcases, ctx.run_impl_par("lalr", [hx(g.encode()) for g in gcases], timeout=900, isolate=True)):
        distinct.add(g.encode())
        k = r.split(" ", 1)[0]
        if k in ("PANIC", "CRASH", "NILNIL", "CONFLICT+TABLE"):
            if explained(decode_hex_fields(r)):
                stats["explained_by_known_findings"] = stats.get("explained_by_known_findings", 0) + 1
                continue
            ctx.add_violation("LALRParsingTable %s on a grammar" % {"PANIC": "panicked", "CRASH": "crashed or did not terminate"}.get(k, "returned " + k),
                              {"entry": "lalr", "input": g, "input_hex": hx(g.encode()), "implementation": decode_hex_fields(r)[:600]})
    # outcome class of spec.Parse against the total Lean model (texts that are valid UTF-8, zero bytes included)
    texts = [s for s in specs if len(s) < 2000 and s not in crashed]
    try:
        good = [t for t in texts if t.decode("utf-8") is not None]
    except Exception:
        good = []
    good = []
    for t in texts:
        try:
            t.decode("utf-8"); good.append(t)
        except UnicodeDecodeError:
            pass
    impl = ctx.run_impl_par("spec", [hx(t) for t in good], timeout=300, isolate=True)
    model = ctx.run_model_par("spec", [hx(t) for t in good])
    ncorr = 0
    for t, i, m in zip(good, impl, model):
        if i.split(" ")[0] != m.split(" ")[0] and not (i.startswith("ERR") and m.startswith("ERR")):
            ncorr += 1
            if ncorr <= 3:
                ctx.add_broken("correspondence: outcome class of spec.Parse and of the (total) model differ", "input=%r\nimpl=%s\nmodel=%s" % (t[:200], decode_hex_fields(i)[:300], decode_hex_fields(m)[:300]))
    plines = pattern_lines(pats)
    for cmd, what in (("renfaonly", "nfa.Parse"), ("reastonly", "regex ast.Parse")):
        res = ctx.run_impl_par(cmd, plines, timeout=900, isolate=True)
        mod = ctx.run_model_par("repat", plines)
        for p, r, m in zip(pats, res, mod):
            distinct.add(p)
            c = classify(r)
            if c:
                ctx.add_violation("%s %s on a pattern" % (what, {"PANIC": "panicked", "CRASH": "crashed or did not terminate", "NILNIL": "returned success with a nil result"}.get(c, c)),
                                  {"entry": cmd, "pattern": p[:200], "pattern_hex": hx(p.encode()), "implementation": decode_hex_fields(r)[:600]})
            elif r.split(" ")[0] != m.split(" ")[0] and "�" not in p:
                ncorr += 1
                if ncorr <= 3:
                    ctx.add_broken("correspondence: outcome class of %s and of the (total) model differ on %r" % (what, p), "impl=%s model=%s" % (r[:100], m[:100]))
    # the command-line tool
    emerge = os.path.join(BUILD, "emerge")
    root = tempfile.mkdtemp(prefix="verif-c14-")
    try:
        cmds = []
        files = {}
        for k, s in enumerate(specs[:(120 if quick else 1500)]):
            if s in crashed:
                continue        # already reported through the entry points
            fp = os.path.join(root, "in%d.ebnf" % k)
            open(fp, "wb").write(s)
            cmds.append(["-out", root, "-name", "p%d" % k, fp])
        flagpool = ["-h", "-help", "-version", "-verbose", "-debug", "-nosuch", "-out", "-name", "--", "-", "-out=", "-name=", "-name=x y", "-out=/nonexistent/dir", "-name", "", "\x7f", "-verbose=maybe", "-debug=2",
                    os.path.join(root, "nosuch.ebnf"), root, "/dev/null", "/proc/self/mem", os.path.join(root, "in0.ebnf")]
        for _ in range(80 if quick else 1200):
            cmds.append([rng.choice(flagpool) for _ in range(rng.randrange(0, 5))])
        for args in cmds:
            try:
                p = subprocess.run([emerge] + args, cwd=root, stdout=subprocess.PIPE, stderr=subprocess.STDOUT, timeout=60, env=dict(os.environ, GOMEMLIMIT="2GiB"))
                out, rc = p.stdout.decode("utf-8", "replace"), p.returncode
            except subprocess.TimeoutExpired:
                out, rc = "", "timeout"
            stats["cli_runs"] += 1
            info = any(a in ("-h", "-help", "-version") for a in args)
            bad = None
            if rc == "timeout":
                bad = "did not terminate within 60 s"
            elif "goroutine " in out and ("panic:" in out or "[running]" in out or "fatal error" in out):
                bad = "printed a Go stack trace"
            elif rc != 0 and not out.strip():
                bad = "failed without a message"
            elif rc not in (0, 1, 2):
                bad = "ended with exit status %s" % rc
            elif rc == 0 and "Successful!" not in out and not info:
                bad = "exit status 0 without success or an informational flag"
            if bad and explained(out):
                stats["explained_by_known_findings"] = stats.get("explained_by_known_findings", 0) + 1
                bad = None
            if bad:
                ctx.add_violation("the command-line tool " + bad, {"args": args, "exit": rc, "output": out[-1200:]})
    finally:
        shutil.rmtree(root, ignore_errors=True)
    ctx.witness_hits()
    cov = {"evaluations": len(specs) * 3 + len(pats) * 2 + stats["cli_runs"], "distinct_nontrivial": len(distinct),
           "rule": "arbitrary bytes (incl. NUL, invalid UTF-8), token soup, mutated/truncated/duplicated valid specifications, deep nesting and long inputs through spec.Parse, ebnf ast.Parse and Spec.DFA; arbitrary pattern strings (construct corpus, random, mutated, metacharacter soup, non-ASCII, nesting) through nfa.Parse and regex ast.Parse; every case in-process under recover with per-case crash/time-out isolation; the binary on the same inputs and on random command lines (unknown flags, missing values, odd file arguments); a panic, time-out, (nil, nil) result, stack trace, silent failure or wrong exit status is a violation; non-trivial = distinct input",
           "samples": [specs[30][:80].decode("utf-8", "replace"), pats[5]], "outcomes": stats, "correspondence_disagreements": ncorr,
           "explanation": "partial proof + exploration: the Lean models of the entry points are total functions (every Go operation that can panic is an explicit outcome) and their outcome class is compared with the implementation's on every generated input; proved: a failing run of the CLI model always carries a message and a non-zero status, an unparsable command line exits with status 2 (Emerge/Props/C14.lean); not proved: termination bounds of the real LR driver and of the dependency's automata constructions - hangs are looked for with time-outs",
           "trusted_base": TRUSTED_BASE + ["time-outs (20 s per isolated case) as the definition of 'hangs'"]}
    return ctx.finish(LEVEL, cov, ["repetition counts above 12 are excluded from the sweep (finding F23: the construction time grows steeply with the count)"])


def replay(ctx, rp):
    ctx.build_go()
    if "input_hex" in rp:
        print(decode_hex_fields(ctx.run_impl(rp["entry"], [rp["input_hex"]], isolate=True)[0])[:1500])
    elif "pattern_hex" in rp:
        print(decode_hex_fields(ctx.run_impl(rp["entry"], [rp["pattern_hex"]], isolate=True)[0])[:1500])
    else:
        print(json.dumps(rp, indent=1)[:2000])
