"""C07 — specification rejected iff ill-formed; every terminal gets exactly one definition."""
from .speccommon import *

LEVEL = "proof"


def regex_ok(v):
    if v in sg.VALID_REGEX or v in sg.PREDEFS.values() or v == "d+":
        return True
    if v in sg.INVALID_REGEX:
        return False
    return True


def categories(line):
    """diagnostic categories named by the implementation's error output"""
    cats = set()
    for l in err_lines(line):
        m = re.match(r'^no definition for terminal "(.*)"$', l)
        if m: cats.add(("undefined_token", m.group(1))); continue
        m = re.match(r'^multiple definitions for terminal "(.*)":$', l)
        if m: cats.add(("multiple_definitions", m.group(1))); continue
        m = re.match(r'^multiple definitions with the same value: (".*")$', l)
        if m:
            try:
                import ast as pyast
                cats.add(("same_value", pyast.literal_eval(m.group(1))))
            except Exception:
                cats.add(("same_value", m.group(1)))
            continue
        m = re.match(r"^invalid predefined regex: (.*)$", l)
        if m: cats.add(("unknown_predef", m.group(1))); continue
        m = re.match(r"^no production rule for non-terminal symbol (.*)$", l)
        if m: cats.add(("undefined_nonterminal", m.group(1))); continue
        if l.startswith("missing production rule with the start symbol"):
            cats.add(("no_start", "start")); continue
        if l.endswith("appeared in more than one precedence level"):
            cats.add(("dup_handle", l)); continue
        m = re.match(r"^(\w+): (invalid regular expression|invalid character range|invalid repetition range).*$", l)
        if m: cats.add(("invalid_pattern", m.group(1))); continue
        if "conflicting definitions capture the same string" in l:
            cats.add(("conflict", "")); continue
    return cats


def run(ctx):
    quick = ctx.tier == "quick"
    ctx.build_go()
    if not ctx.prepare(["lexer", "tables", "specmaps"], "Emerge.Props.C07", quick):
        return ctx.finish(LEVEL, {"evaluations": 0, "distinct_nontrivial": 0, "samples": [], "explanation": "aborted"}, [])
    cases = gen_cases(ctx, 1500 if quick else 25000, defect_rate=0.55)
    texts = [c[1] for c in cases]
    impl, model = run_specs(ctx, texts)
    ncorr = correspondence(ctx, texts, impl, model, fields=("name", "T", "D"))      # the part of an accepted result this property is about
    acc = ctx.run_impl("accept", [hx(t) for t in texts])
    known = {f["id"]: f for f in known_for("C07")}
    stats = {"accepted": 0, "rejected": 0, "skipped_conflict": 0, "skipped_syntax": 0, "explained_F14": 0}
    distinct = set()
    for (tree, text, defects), i, a in zip(cases, impl, acc):
        want, facts = sg.ill_formed(tree, regex_ok)
        el = err_lines(a)
        if any(("unexpected string" in l) or l.startswith("lexical error") for l in el):
            stats["skipped_syntax"] += 1      # not a syntactically valid specification (generator artefact, e.g. `/*a/`)
            continue
        cats = categories(a)
        if ("conflict", "") in cats and len(cats) == 1:
            if want and not any(s in (set(facts["token_defs"]) | set(facts["used_tokens"])) for s in facts["used_strs"]):
                # spec.Parse itself accepted a specification that has one of the documented defects; only the automaton
                # construction that follows objected (with a conflict report, which is about something else)
                ctx.add_violation("accept/reject or diagnostics disagree with the documented well-formedness rules",
                                  {"input_hex": hx(text), "input": text.decode(), "problems": ["spec.Parse accepted the specification although it has the defects %s" % sorted(c[0] for c in want)],
                                   "implementation": decode_hex_fields(a)[:3000]})
                continue
            stats["skipped_conflict"] += 1     # overlapping patterns: C03's subject
            continue
        cats.discard(("conflict", ""))
        # a handle listed in two levels: decided exactly only for terminal handles
        lv = facts["levels"]
        tseen, dup = {}, False
        for li, (_, hs) in enumerate(lv):
            for h in set(x for x in hs if x[0] != "rule"):
                if h in tseen and tseen[h] != li:
                    dup = True
                tseen.setdefault(h, li)
        rule_heads = [set(h[1] for h in hs if h[0] == "rule") for _, hs in lv]
        rule_dup_possible = any(rule_heads[x] & rule_heads[y] for x in range(len(lv)) for y in range(x + 1, len(lv)))
        if dup:
            want.add(("dup_handle", ""))
        rejected = not a.startswith("OK")
        distinct.add(text)
        toks = set(facts["token_defs"]) | set(facts["used_tokens"])
        conflated = any(s in toks for s in facts["used_strs"])
        problems = []
        got_kinds = {c[0] for c in cats}
        want_kinds = {c[0] for c in want}
        if rejected != bool(want) and not (rule_dup_possible and got_kinds <= {"dup_handle"} and not want):
            problems.append("rejected=%s but defects by the documentation=%s" % (rejected, sorted(want_kinds)))
        for c in cats:
            if c[0] == "dup_handle":
                if not dup and not rule_dup_possible:
                    problems.append("diagnostic names an absent problem: " + c[1])
            elif c[0] == "invalid_pattern":
                if "invalid_pattern" not in want_kinds:
                    problems.append("diagnostic names an absent problem: invalid pattern of " + c[1])
            elif c not in want:
                problems.append("diagnostic names an absent problem: %s %s" % c)
        if not rejected and not problems:
            # every terminal of the grammar has exactly one definition with the documented value
            out = parse_ok(a)
            defs = {}
            for t, v, isre, pos in out["D"]:
                defs.setdefault(t, []).append((v, isre))
            for t in out["T"]:
                if len(defs.get(t, [])) != 1:
                    problems.append("terminal %s has %d definitions" % (t, len(defs.get(t, []))))
            for s in set(facts["used_strs"]):
                if defs.get(s) != [(sg.unescape(s), False)]:
                    problems.append("string literal %r does not define itself: %s" % (s, defs.get(s)))
            for t, ds in facts["token_defs"].items():
                kind, v = ds[0]
                exp = (sg.unescape(v), False) if kind == "string" else ((v, True) if kind == "regex" else (sg.PREDEFS.get(v), True))
                if defs.get(t) != [exp]:
                    problems.append("token %s has definition %s, declared %s" % (t, defs.get(t), exp))
        if problems:
            if conflated and "F14" in known:
                stats["explained_F14"] += 1
                continue
            ctx.add_violation("accept/reject or diagnostics disagree with the documented well-formedness rules",
                              {"input_hex": hx(text), "input": text.decode(), "problems": problems[:5], "implementation": decode_hex_fields(a)[:3000]})
        stats["rejected" if rejected else "accepted"] += 1
    ctx.witness_hits()
    cov = {"evaluations": len(cases), "distinct_nontrivial": len(distinct),
           "rule": "seeded random specification trees, 55% seeded with 1-3 of the defect kinds {token used but undefined, token defined twice, two terminals with one value, literal equal to a token's value, unknown $NAME, invalid pattern, undefined non-terminal, no start rule, handle in two levels} in random declaration order; decided by spec.Parse followed by Spec.DFA(); non-trivial = distinct syntactically valid specification",
           "samples": [texts[1].decode(), texts[-1].decode()], "outcomes": stats, "correspondence_disagreements": ncorr,
           "explanation": "decision logic modelled in Lean (Emerge.Ebnf.verify/cfgVerify/precVerify/definitions) and tied to the code by exact comparison of accept/reject, diagnostics and definition lists; iff-property explored against the documentation-level oracle checks/specgen.ill_formed; pattern validity is labelled per pattern in the generator pool",
           "trusted_base": TRUSTED_BASE + ["checks/specgen.py ill_formed: the documented well-formedness rules"]}
    return ctx.finish(LEVEL, cov, ["pattern conflicts (C03) are not counted as ill-formedness here", "duplicate handles through rule handles are decided only when the heads differ"])


def replay(ctx, rp):
    ctx.build_go(); ctx.extract(["lexer", "tables", "specmaps"]); ctx.lake(["model"])
    print("input:", unhx(rp["input_hex"]).decode())
    print("implementation:", decode_hex_fields(ctx.run_impl("accept", [rp["input_hex"]])[0]))
    print("model of code :", decode_hex_fields(ctx.run_model("spec", [rp["input_hex"]])[0]))
