"""The pattern grammar of docs/5-definitions.md as a context-free grammar over characters, and an Earley
recogniser for it. Independent of the Lean model and of the implementation: used as the oracle of the violation
search of C09 (`accepted` must imply `in_doc_regex`)."""

HEXD = set("0123456789ABCDEF")
DIGIT = set("0123456789")
ESC = set("\\|.?*+()[]{}$")
CHAR = set(chr(c) for c in range(0x20, 0x7F))
UNESC = CHAR - ESC
CATS = ["Math", "Emoji", "Latin", "Greek", "Cyrillic", "Han", "Persian", "Letter", "Lu", "Ll", "Lt", "Lm", "Lo", "L",
        "Mark", "Mn", "Mc", "Me", "M", "Number", "Nd", "Nl", "No", "N", "Punctuation", "Pc", "Pd", "Ps", "Pe", "Pi", "Pf", "Po", "P",
        "Separator", "Zs", "Zl", "Zp", "Z", "Symbol", "Sm", "Sc", "Sk", "So", "S"]
ASCII_CLASSES = ["[:blank:]", "[:space:]", "[:digit:]", "[:xdigit:]", "[:upper:]", "[:lower:]", "[:alpha:]", "[:alnum:]", "[:word:]", "[:ascii:]"]


def lit(s):
    return [frozenset(c) for c in s]


G = {
    "regex": [["expr"], [frozenset("^"), "expr"]],
    "expr": [["subexpr"], ["subexpr", frozenset("|"), "expr"]],
    "subexpr": [["subexpr_item"], ["subexpr_item", "subexpr"]],
    "subexpr_item": [["anchor"], ["group"], ["match"]],
    "anchor": [lit("$")],
    "group": [[frozenset("("), "expr", frozenset(")")], [frozenset("("), "expr", frozenset(")"), "quantifier"]],
    "match": [["match_item"], ["match_item", "quantifier"]],
    "match_item": [["any_char"], ["single_char"], ["char_class"], ["ascii_char_class"], ["unicode_char_class"], ["char_group"]],
    "char_group": [[frozenset("["), "items", frozenset("]")], [frozenset("["), frozenset("^"), "items", frozenset("]")]],
    "items": [["char_group_item"], ["char_group_item", "items"]],
    "char_group_item": [["unicode_char_class"], ["ascii_char_class"], ["char_class"], ["char_range"], ["single_char"]],
    "char_range": [["char_in_range", frozenset("-"), "char_in_range"]],
    "char_in_range": [["unicode_char"], ["ascii_char"], [frozenset(CHAR)]],
    "quantifier": [["repetition"], ["repetition", frozenset("?")]],
    "repetition": [[frozenset("?")], [frozenset("*")], [frozenset("+")], ["range"]],
    "range": [[frozenset("{"), "num", frozenset("}")], [frozenset("{"), "num", "upper_bound", frozenset("}")]],
    "upper_bound": [[frozenset(",")], [frozenset(","), "num"]],
    "num": [[frozenset(DIGIT)], [frozenset(DIGIT), "num"]],
    "any_char": [lit(".")],
    "single_char": [["unicode_char"], ["ascii_char"], ["escaped_char"], [frozenset(UNESC)]],
    "char_class": [lit("\\" + c) for c in "sSdDwW"],
    "ascii_char_class": [lit(c) for c in ASCII_CLASSES],
    "unicode_char_class": [lit("\\p{") + ["cat"] + lit("}"), lit("\\P{") + ["cat"] + lit("}")],
    "cat": [lit(c) for c in CATS],
    "ascii_char": [lit("\\x") + [frozenset(HEXD)] * 2],
    "unicode_char": [lit("\\x") + [frozenset(HEXD)] * n for n in range(4, 9)],
    "escaped_char": [[frozenset("\\"), frozenset(ESC)]],
}


def in_doc_regex(s, start="regex"):
    """Earley recognition of the character string s"""
    n = len(s)
    chart = [set() for _ in range(n + 1)]
    order = [[] for _ in range(n + 1)]

    def add(i, item):
        if item not in chart[i]:
            chart[i].add(item); order[i].append(item)
    for k, _ in enumerate(G[start]):
        add(0, (start, k, 0, 0))
    for i in range(n + 1):
        j = 0
        while j < len(order[i]):
            head, k, dot, origin = order[i][j]; j += 1
            body = G[head][k]
            if dot == len(body):
                for (h2, k2, d2, o2) in list(chart[origin]):
                    b2 = G[h2][k2]
                    if d2 < len(b2) and b2[d2] == head:
                        add(i, (h2, k2, d2 + 1, o2))
                continue
            sym = body[dot]
            if isinstance(sym, str):
                for k2, _ in enumerate(G[sym]):
                    add(i, (sym, k2, 0, i))
            elif i < n and s[i] in sym:
                add(i + 1, (head, k, dot + 1, origin))
    return any(h == start and d == len(G[h][k]) and o == 0 for (h, k, d, o) in chart[n])
