"""C12 — recorded precedence levels are exactly the directives, in order, with their handles."""
from .speccommon import *

LEVEL = "proof"
K = 4
ASSOC = {"@none": 0, "@left": 1, "@right": 2}


def unq(n):
    """the repaired model keys literals with a leading quote"""
    return n[1:] if n.startswith('"') else n


def level_problems(tree, out):
    """the recorded levels of a parsed result against the directives of the tree -> list of problems"""
    facts = sg.spec_facts(tree)
    want = facts["levels"]
    problems = []
    nlev = 0
    if [a for a, _ in out["L"]] != [ASSOC[a] for a, _ in want]:
        problems.append("associativities %s, directives %s" % ([a for a, _ in out["L"]], [a for a, _ in want]))
        return problems, nlev
    langs = sg.cfg_languages(out["P"], K)
    allprods = {(h, tuple(b)) for h, b in out["P"]}
    for li, ((_, got), (_, hs)) in enumerate(zip(out["L"], want)):
        nlev += 1
        want_terms = {h[1] for h in hs if h[0] in ("tok", "str")}
        got_terms = {unq(n) for k, n in got if k == "t"}
        if got_terms != want_terms:
            problems.append("level %d: terminals %s, written %s" % (li, sorted(got_terms), sorted(want_terms)))
        got_prods = [p for k, p in got if k == "p"]
        for h, b in got_prods:
            if (h, tuple(b)) not in allprods:
                problems.append("level %d: handle production %s -> %s is not a production of the grammar" % (li, h, b))
        # per head: the productions contributed generate what the rule handles with that head denote
        heads = {h[1] for h in hs if h[0] == "rule"}
        if {h for h, _ in got_prods} != heads:
            problems.append("level %d: production handles for heads %s, rule handles written for %s" % (li, sorted({h for h, _ in got_prods}), sorted(heads)))
            continue
        env = sg.ebnf_languages(tree, K)
        for head in heads:
            want_lang = set()
            for h in hs:
                if h[0] == "rule" and h[1] == head:
                    want_lang |= ({()} if h[2] is None else sg.denote(h[2], env, K, lambda s: ("str", s)))
            want_lang = {tuple(n for _, n in w) for w in want_lang}
            got_lang = set()
            for hh, b in got_prods:
                if hh != head:
                    continue
                acc = {()}
                for kind, name in b:
                    acc = sg.cat(acc, {(unq(name),)} if kind == "t" else {tuple(unq(x) for x in w) for w in langs.get(name, set())}, K)
                got_lang |= acc
            if got_lang != want_lang:
                problems.append("level %d: the productions recorded for <%s = ...> do not generate what was written" % (li, head))
    return problems, nlev


def run(ctx):
    quick = ctx.tier == "quick"
    ctx.build_go()
    if not ctx.prepare(["lexer", "tables", "specmaps"], "Emerge.Props.C12", quick):
        return ctx.finish(LEVEL, {"evaluations": 0, "distinct_nontrivial": 0, "samples": []}, [])
    rng = ctx.rng
    cases = []
    for _ in range(800 if quick else 12000):
        tree = sg.gen_spec_tree(rng, ())
        # more directives, interleaved
        nts = sorted(set(h for h, _ in sg.all_rules(tree)))
        toks = sorted(sg.spec_facts(tree)["token_defs"])
        strs = sorted(set(sg.spec_facts(tree)["used_strs"])) or ["a"]
        for _ in range(rng.choice([1, 2, 3, 5, 8])):
            hs = []
            for _ in range(rng.choice([1, 1, 2, 4])):
                k = rng.random()
                if k < 0.35 and toks:
                    hs.append(("tok", rng.choice(toks)))
                elif k < 0.7:
                    hs.append(("str", rng.choice(strs + ["zz%d" % rng.randrange(50)])))
                else:
                    hs.append(("rule", rng.choice(nts), sg.gen_rhs(rng, 2, nts, toks, strs)))
            tree["decls"].insert(rng.randrange(len(tree["decls"]) + 1), ("dir", rng.choice(list(ASSOC)), hs))
        if {"a", "b", "ab"} <= set(nts) and rng.random() < 0.6:
            # one directive listing productions whose symbol names spell the same text when written one after the other
            # (`a b` / `ab`, `"a" b` / `a b`): each is a handle of its own
            A, B, AB = ("nt", "a"), ("nt", "b"), ("nt", "ab")
            head = rng.choice(nts)
            forms = [("alt", [("seq", [A, B]), AB], False), ("alt", [AB, ("seq", [A, B]), ("seq", [A, B, AB])], False),
                     ("alt", [("seq", [("str", "a"), B]), ("seq", [A, B])], False), ("alt", [("seq", [A, AB]), ("seq", [A, A, B]), ("seq", [AB, B])], False)]
            if rng.random() < 0.5:
                hs = [("rule", head, rng.choice(forms))]
            else:
                f = rng.choice(forms)
                hs = [("rule", head, alt) for alt in f[1]]          # the same productions as separate handles
            tree["decls"].insert(rng.randrange(len(tree["decls"]) + 1), ("dir", rng.choice(list(ASSOC)), hs))
        cases.append((tree, sg.render_spec(rng, tree).encode()))
    texts = [c[1] for c in cases]
    impl, model = run_specs(ctx, texts)
    ncorr = correspondence(ctx, texts, impl, model, fields=("L",))      # the part of an accepted result this property is about
    known = {f["id"]: f for f in known_for("C12")}
    nacc, nlev = 0, 0
    distinct = set()
    pending = []
    for (tree, text), i, mline in zip(cases, impl, model):
        if not i.startswith("OK"):
            continue
        nacc += 1
        problems, n = level_problems(tree, parse_ok(i))
        nlev += n
        distinct.add(text)
        if problems:
            pending.append((tree, text, i, problems, same_as_model(text, i, mline)))
    # a disagreement is attributed to the recorded findings (F14: literal spelled like a token; F2b: user rule spelled like a
    # synthesised name) only if the model with exactly those findings repaired satisfies the same oracle on the same input
    explained = 0
    if pending:
        fixed = ctx.run_model("specfixed", [hx(p[1]) for p in pending])
        for (tree, text, i, problems, as_model), fx in zip(pending, fixed):
            if known and as_model and fx.startswith("OK") and not level_problems(tree, parse_ok(fx))[0]:
                explained += 1
                continue
            ctx.add_violation("recorded precedence levels differ from the directives written",
                              {"input_hex": hx(text), "input": text.decode(), "problems": problems[:5], "implementation": decode_hex_fields(i)[:3000],
                               "model_with_findings_repaired": decode_hex_fields(fx)[:1500]})
    ctx.witness_hits()
    cov = {"evaluations": len(cases), "distinct_nontrivial": len(distinct),
           "rule": "seeded random specifications with 1-8 extra directives (any mix of @left/@right/@none; token, literal and <rule> handles with alternation and extended operators) inserted at random places among the other declarations; non-trivial = distinct accepted specification",
           "samples": [texts[0].decode(), texts[-1].decode()], "accepted": nacc, "levels_checked": nlev, "correspondence_disagreements": ncorr, "explained_by_known_findings": explained,
           "trusted_base": TRUSTED_BASE + ["source order of directive reductions rests on C18 (reductions in rightmost-derivation order)", "checks/specgen.py: what the directives say, read off the syntax tree"]}
    return ctx.finish(LEVEL, cov, ["rule-handle expansion compared by bounded language (length <= %d) and membership in the grammar's production set" % K])


def replay(ctx, rp):
    ctx.build_go(); ctx.extract(["lexer", "tables", "specmaps"]); ctx.lake(["model"])
    print("input:", unhx(rp["input_hex"]).decode())
    print("implementation:", decode_hex_fields(ctx.run_impl("spec", [rp["input_hex"]])[0]))
    print("model of code :", decode_hex_fields(ctx.run_model("spec", [rp["input_hex"]])[0]))
