"""Shared pieces of the LR-level checks (C04, C18, C20): case generation and comparison with the RD oracle."""
import itertools
from .common import *
from . import ebnf_rd as rd


def mutate(rng, t):
    t = list(t)
    if not t:
        return [rng.randrange(22)]
    i = rng.randrange(len(t) + 1)
    m = rng.random()
    if m < 0.3 and i < len(t):
        del t[i]
    elif m < 0.6:
        t.insert(i, rng.randrange(22))
    elif m < 0.85 and i < len(t):
        t[i] = rng.randrange(22)
    else:
        t = t[:i]
    return t


def token_cases(ctx, nrand, exhaustive_len):
    cases = []
    for n in range(0, exhaustive_len + 1):
        for t in itertools.product(range(22), repeat=n):
            cases.append(list(t))
    for n in range(0, exhaustive_len + 1):
        for t in itertools.product(range(22), repeat=n):
            cases.append([13, 17] + list(t))
    for _ in range(nrand):
        t = rd.gen_spec(ctx.rng)
        r = ctx.rng.random()
        if r < 0.45:
            t = mutate(ctx.rng, t)
        elif r < 0.55:
            t = mutate(ctx.rng, mutate(ctx.rng, t))
        cases.append(t)
    return cases


def fmt_case(t, fail=-1):
    return "%d %s" % (fail, ",".join(map(str, t)) or "-")


def split_out(o):
    ev, _, res = o.partition("|")
    return ev.split(), res.strip()


def oracle_ok(t, o):
    """Does the implementation's output agree with the independent recogniser?  -> (ok, expected)"""
    r = rd.recognise(t)
    evs, res = split_out(o)
    if r[0] == "ACCEPT":
        return (res == "ACCEPT" and evs == r[1]), ("ACCEPT " + " ".join(r[1]))
    ntok = sum(1 for e in evs if e[0] == "T")
    # all callbacks before the error must be a prefix-compatible part of the derivation: tokens 0..idx-1 shifted
    return (res.startswith("ERR") and ntok == r[1]), "syntax error at token %d" % r[1]


def table_sweep(ctx):
    """Exported ACTION/GOTO against the extracted tables, every state x every symbol (translator cross-check)."""
    nts = ["grammar", "name", "decls", "decl", "semi_opt", "token", "directive", "handles", "rule_handle", "rule", "lhs", "rhs", "nonterm", "term", "nosuch"]
    la = ["%d %d" % (s, a) for s in range(0, 62) for a in range(0, 23)]
    lg = ["%d %s" % (s, hx(n)) for s in range(0, 62) for n in nts]
    ia, ma = ctx.run_impl("action", la), ctx.run_model("action", la)
    ig, mg = ctx.run_impl("goto", lg), ctx.run_model("goto", lg)
    bad = [(l, i, m) for l, i, m in zip(la, ia, ma) if i != m] + [(l, i, m) for l, i, m in zip(lg, ig, mg) if i != m]
    if bad:
        ctx.add_broken("translator: extracted ACTION/GOTO differ from the exported functions at %d entries, first %s" % (len(bad), bad[0]))
    return len(la) + len(lg), sum(1 for x in ia if x != "E") + sum(1 for x in ig if x != "-1")


# number of body symbols of each production of the documented EBNF grammar (docs/5-definitions.md, desugared)
BODY_LEN = [2, 3, 2, 0, 2, 2, 2, 1, 0, 3, 3, 3, 2, 2, 2, 2, 2, 1, 1, 3, 3, 2, 1, 2, 3, 3, 3, 3, 3, 2, 1, 1, 1, 1, 1]


def fold_events(events):
    """What the property prescribes for ParseAndEvaluate / ParseAndBuildAST, computed from a derivation (post-order
    event list of the independent recogniser): the evaluation function receives the values of the body symbols left to
    right, its result becomes the head's value and the first body symbol's position the head's position.
    -> (value string of the root as the stub evaluation function builds it, tree string, calls: list of (prod, [args]))"""
    vals, trees, calls = [], [], []
    for e in events:
        if e[0] == "T":
            i = int(e[1:])
            vals.append(("L%d" % i, str(i)))
            trees.append("L%d" % i)
        else:
            p = int(e[1:])
            n = BODY_LEN[p]
            args = vals[len(vals) - n:] if n else []
            targs = trees[len(trees) - n:] if n else []
            if n:
                del vals[len(vals) - n:]
                del trees[len(trees) - n:]
            v = "(%d%s)" % (p, "".join(" %s@%s" % a for a in args))
            calls.append((p, args))
            vals.append((v, args[0][1] if n else "-"))
            trees.append("(%d%s)" % (p, "".join(" " + t for t in targs)))
    return vals[-1], trees[-1], calls
