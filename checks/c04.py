"""C04 — built-in EBNF parser accepts exactly the documented, disambiguated grammar."""
import shutil, tempfile
from .lrcommon import *

LEVEL = "proof"


def regen_check(ctx):
    """go run ./generate in a scratch copy of the working tree must reproduce parsing_table.go byte for byte."""
    d = tempfile.mkdtemp(prefix="verif-regen-")
    try:
        rc, out = sh(["rsync", "-a", "--exclude", ".git", REPO + "/", d + "/"])
        if rc != 0:
            raise Broken("scratch copy failed", out)
        pdir = os.path.join(d, "internal/ebnf/parser")
        rc, out = sh(["go", "run", "./generate"], cwd=pdir, env=GOENV, timeout=600)
        if rc != 0:
            return False, "generator failed: " + out[-1500:]
        a = open(os.path.join(pdir, "parsing_table.go"), "rb").read()
        b = open(os.path.join(REPO, "internal/ebnf/parser/parsing_table.go"), "rb").read()
        return a == b, "regenerated file differs from the checked-in parsing_table.go" if a != b else ""
    finally:
        shutil.rmtree(d, ignore_errors=True)


def big_cases(quick):
    """Sentences that need a deep parser stack or are very long: the grammar bounds neither the number of alternatives of
    a rule (`|` is right-associative: nothing is reduced before the end of the rule), nor the nesting depth, nor the length
    of a sequence, nor the number of rules."""
    T = {n: i for i, n in enumerate(rd.TERMS)}
    def spec(body):
        return [T["grammar"], T["IDENT"], T[";"], T["IDENT"], T["="]] + body + [T[";"]]
    def alts(n, item):
        b = []
        for i in range(n):
            if i:
                b.append(T["|"])
            b += item
        return b
    out = []
    for n in ([300, 511, 600] if quick else [100, 300, 510, 511, 512, 600, 1024, 2000, 5000]):
        out.append(spec(alts(n, [T["STRING"]])))
        out.append(spec(alts(n, [T["IDENT"], T["TOKEN"]]) + [T["|"]]))
    for o, c in (("(", ")"), ("[", "]"), ("{", "}"), ("{{", "}}")):
        for d in ([500, 1100] if quick else [200, 500, 1016, 1017, 1018, 1019, 1100, 2000, 4000]):
            out.append(spec([T[o]] * d + [T["IDENT"]] + [T[c]] * d))
            out.append(spec([T[o]] * d + [T["IDENT"]] + [T[c]] * (d - 1)))          # one bracket short: must be rejected
    out.append(spec([T["IDENT"], T["STRING"]] * (2500 if quick else 20000)))
    rules = [T["grammar"], T["IDENT"], T[";"]]
    for _ in range(1500 if quick else 10000):
        rules += [T["IDENT"], T["="], T["TOKEN"], T[";"]]
    out.append(rules)
    out.append([T["grammar"], T["IDENT"], T[";"]] + [T["@left"], T["STRING"], T[";"]] * (1200 if quick else 6000) + [T["IDENT"], T["="], T["IDENT"], T[";"]])
    return out


def run(ctx):
    """the oracle is a recursive-descent recogniser: deep sentences need a deep Python stack"""
    import sys, threading
    sys.setrecursionlimit(1000000)
    threading.stack_size(1 << 30)
    box = {}
    def go():
        try:
            box["rc"] = run_deep(ctx)
        except BaseException as e:      # re-raised in the main thread
            box["exc"] = e
    th = threading.Thread(target=go)
    th.start(); th.join()
    if "exc" in box:
        raise box["exc"]
    return box["rc"]


def run_deep(ctx):
    quick = ctx.tier == "quick"
    ctx.build_go()
    if not ctx.prepare(["tables"], "Emerge.Props.C04", quick):
        return ctx.finish(LEVEL, {"evaluations": 0, "distinct_nontrivial": 0, "samples": []}, [])
    same, why = regen_check(ctx)
    if not same:
        ctx.add_violation("regenerating the table file does not reproduce the checked-in file byte for byte",
                          {"detail": why, "how_to_run": "cd <copy of /repo>/internal/ebnf/parser && go run ./generate && cmp parsing_table.go /repo/internal/ebnf/parser/parsing_table.go"})
    nentries, nfilled = table_sweep(ctx)
    cases = token_cases(ctx, 3000 if quick else 60000, 3 if quick else 4)
    cases += big_cases(quick)
    lines = [fmt_case(t) for t in cases]
    impl = ctx.run_impl("lr", lines)
    model = ctx.run_model("lr", lines)
    ncorr, nacc = 0, 0
    distinct = set()
    for t, i, m in zip(cases, impl, model):
        if i != m:
            ncorr += 1
            if ncorr <= 3:
                ctx.add_broken("correspondence: LR driver model and Parser.Parse disagree on token kinds %s" % t, "impl=%s\nmodel=%s" % (i, m))
        ok, exp = oracle_ok(t, i)
        if i.endswith("ACCEPT"):
            nacc += 1
            if len(t) > 4:
                distinct.add(tuple(t))
        if not ok:
            ctx.add_violation("parser disagrees with the recursive-descent recogniser written from the documented grammar",
                              {"token_kinds": t, "tokens": [rd.TERMS[k] for k in t], "implementation": i, "expected": exp, "model_of_code": m})
    cov = {"evaluations": len(cases) + nentries, "distinct_nontrivial": len(distinct),
           "rule": "all token-kind sequences over the 22 kinds up to length %d, the same prefixed with `grammar IDENT`, plus seeded random valid specifications and 1-2 edit mutations, plus sentences that need a deep parser stack or are very long (rules with 300-5000 alternatives, 500-4000 nested groups of each bracket kind with and without the last bracket, sequences of 5000-40000 items, thousands of rules and directives); non-trivial = distinct accepted sequence longer than 4 tokens. tables: all 62 states x 23 terminal slots / 15 non-terminals against the exported ACTION/GOTO" % (3 if quick else 4),
           "samples": [" ".join(rd.TERMS[k] for k in cases[-1]), " ".join(rd.TERMS[k] for k in cases[-2])],
           "accepted": nacc, "table_entries_swept": nentries, "table_entries_filled": nfilled,
           "byte_for_byte_regeneration": same, "correspondence_disagreements": ncorr,
           "trusted_base": TRUSTED_BASE + ["Emerge.Ref.Ebnf: hand transcription of the documented grammar and precedence list", "Emerge.LALR.build is the definition of `the LALR(1) tables of a grammar` (merge-by-core to the least fixed point + the dependency's precedence rule); it is a definition, not proved against the textbook canonical-LR(1)-then-merge construction",
                                          "completeness (every sentence of the disambiguated grammar is accepted) is explored against checks/ebnf_rd.py, not proved"]}
    return ctx.finish(LEVEL, cov, ["token sequences only (the scanner is C05)"])


def replay(ctx, rp):
    ctx.build_go(); ctx.extract(["tables"]); ctx.lake(["model"])
    l = fmt_case(rp["token_kinds"])
    print("implementation:", ctx.run_impl("lr", [l])[0])
    print("model of code :", ctx.run_model("lr", [l])[0])
    print("RD oracle     :", rd.recognise(rp["token_kinds"]))
