"""C04 — built-in EBNF parser accepts exactly the documented, disambiguated grammar."""
import shutil, tempfile
from .lrcommon import *

LEVEL = "proof"


def regen_check(ctx):
    """go run ./generate in a scratch copy of the working tree must reproduce parsing_table.go byte for byte."""
    d = tempfile.mkdtemp(prefix="verif-regen-")
    try:
        rc, out = sh(["rsync", "-a", "--exclude", ".git", REPO + "/", d + "/"])
        if rc != 0:
            raise Broken("scratch copy failed", out)
        pdir = os.path.join(d, "internal/ebnf/parser")
        rc, out = sh(["go", "run", "./generate"], cwd=pdir, env=GOENV, timeout=600)
        if rc != 0:
            return False, "generator failed: " + out[-1500:]
        a = open(os.path.join(pdir, "parsing_table.go"), "rb").read()
        b = open(os.path.join(REPO, "internal/ebnf/parser/parsing_table.go"), "rb").read()
        return a == b, "regenerated file differs from the checked-in parsing_table.go" if a != b else ""
    finally:
        shutil.rmtree(d, ignore_errors=True)


def run(ctx):
    quick = ctx.tier == "quick"
    ctx.build_go()
    if not ctx.prepare(["tables"], "Emerge.Props.C04", quick):
        return ctx.finish(LEVEL, {"evaluations": 0, "distinct_nontrivial": 0, "samples": []}, [])
    same, why = regen_check(ctx)
    if not same:
        ctx.add_violation("regenerating the table file does not reproduce the checked-in file byte for byte",
                          {"detail": why, "how_to_run": "cd <copy of /repo>/internal/ebnf/parser && go run ./generate && cmp parsing_table.go /repo/internal/ebnf/parser/parsing_table.go"})
    nentries, nfilled = table_sweep(ctx)
    cases = token_cases(ctx, 3000 if quick else 60000, 3 if quick else 4)
    lines = [fmt_case(t) for t in cases]
    impl = ctx.run_impl("lr", lines)
    model = ctx.run_model("lr", lines)
    ncorr, nacc = 0, 0
    distinct = set()
    for t, i, m in zip(cases, impl, model):
        if i != m:
            ncorr += 1
            if ncorr <= 3:
                ctx.add_broken("correspondence: LR driver model and Parser.Parse disagree on token kinds %s" % t, "impl=%s\nmodel=%s" % (i, m))
        ok, exp = oracle_ok(t, i)
        if i.endswith("ACCEPT"):
            nacc += 1
            if len(t) > 4:
                distinct.add(tuple(t))
        if not ok:
            ctx.add_violation("parser disagrees with the recursive-descent recogniser written from the documented grammar",
                              {"token_kinds": t, "tokens": [rd.TERMS[k] for k in t], "implementation": i, "expected": exp, "model_of_code": m})
    cov = {"evaluations": len(cases) + nentries, "distinct_nontrivial": len(distinct),
           "rule": "all token-kind sequences over the 22 kinds up to length %d, the same prefixed with `grammar IDENT`, plus seeded random valid specifications and 1-2 edit mutations; non-trivial = distinct accepted sequence longer than 4 tokens. tables: all 62 states x 23 terminal slots / 15 non-terminals against the exported ACTION/GOTO" % (3 if quick else 4),
           "samples": [" ".join(rd.TERMS[k] for k in cases[-1]), " ".join(rd.TERMS[k] for k in cases[-2])],
           "accepted": nacc, "table_entries_swept": nentries, "table_entries_filled": nfilled,
           "byte_for_byte_regeneration": same, "correspondence_disagreements": ncorr,
           "trusted_base": TRUSTED_BASE + ["Emerge.Ref.Ebnf: hand transcription of the documented grammar and precedence list", "Emerge.LALR.build is the definition of `the LALR(1) tables of a grammar` (merge-by-core to the least fixed point + the dependency's precedence rule); it is a definition, not proved against the textbook canonical-LR(1)-then-merge construction",
                                          "completeness (every sentence of the disambiguated grammar is accepted) is explored against checks/ebnf_rd.py, not proved"]}
    return ctx.finish(LEVEL, cov, ["token sequences only (the scanner is C05)"])


def replay(ctx, rp):
    ctx.build_go(); ctx.extract(["tables"]); ctx.lake(["model"])
    l = fmt_case(rp["token_kinds"])
    print("implementation:", ctx.run_impl("lr", [l])[0])
    print("model of code :", ctx.run_model("lr", [l])[0])
    print("RD oracle     :", rd.recognise(rp["token_kinds"]))
