"""C17 — processing is a pure function of the text: no cross-run / cross-goroutine interference."""
import itertools
from .common import *
from . import c03, speccommon as sc, specgen as sg
from .regexcommon import gen_pattern

LEVEL = "other"

RACE_HARNESS = os.path.join(BUILD, "harness_race")

CLASS_PATTERNS = [r"x\s", r"\S", r"\d+", r"\D", r"\w", r"\W", r"[\s,]", r"[^\s]", r"[\d\w]", r"[^\w]", "[[:space:]]", "[^[:blank:]]", "[[:alpha:][:digit:]]",
                  "[^[:xdigit:]]", "[[:word:]]x", r"\S\s", r"a\.b\|", "[^a-c]", "."]
# rejected patterns of every kind (a recorded semantic error, a syntax error, both at once) between accepted ones: whatever a
# failed parse leaves behind must not reach the next one
REJECTED_PATTERNS = ["a{3,1}(", "[z-a]|", "a{3,1}", "[z-a]", "(", "a|", "x{2,1}y(", "[b-a]{4,2})", "\\", "[", "a{", "(a|b", "a{3,1}|b", ")", "*a"]
ACCEPTED_AFTER = ["ab", "a+", "[a-z]+", "x{1,3}", "(a|b)*c", "q"]


def build_race(ctx):
    env = dict(GOENV, CGO_ENABLED="1")
    with Lock():
        rc, out = sh(["go", "build", "-race", "-tags", "verif", "-overlay", os.path.join(BUILD, "overlay.json" if REPO == "/repo" else "overlay-alt.json"), "-o", RACE_HARNESS, "./internal/zzverif/harness"],
                     cwd=REPO, env=env, timeout=1200)
    if rc != 0:
        raise Broken("go build -race of the verification harness failed", out[-3000:])


def race_reports(stderr):
    """-> list of (owner, text): owner = the package of the first frame of the racing accesses that is neither the Go
    runtime nor the standard library: 'emerge', 'dependency' or 'other'"""
    reps = []
    for block in stderr.split("=================="):
        if "DATA RACE" not in block:
            continue
        owner = "other"
        for line in block.split("\n"):
            l = line.strip()
            if not l or l.startswith("/") or l.startswith("WARNING") or l.startswith("Read at") or l.startswith("Write at") or l.startswith("Previous") or l.startswith("Goroutine"):
                continue
            fn = l.split("(")[0]
            if fn.startswith("github.com/gardenbed/emerge/internal/zzverif"):
                continue
            if fn.startswith("github.com/moorara/algo"):
                owner = "dependency"; break
            if fn.startswith("github.com/gardenbed/emerge"):
                owner = "emerge"; break
        reps.append((owner, block.strip()[:1800]))
    return reps


def run(ctx):
    quick = ctx.tier == "quick"
    ctx.build_go()
    try:
        ctx.extract(["globals"])
        ctx.prove("Emerge.Props.C17", extra_targets=())
        if not quick:
            ctx.leanchecker("Emerge.Props.C17")
    except Broken as b:
        ctx.add_broken(b.what, b.detail)
    rng = ctx.rng
    items = []
    for _ in range(10 if quick else 40):
        items.append("S" + hx(c03.gen_defs(rng).encode()))
    for tree, text, defects in sc.gen_cases(ctx, 10 if quick else 40, defect_rate=0.4):
        if len(text) < 700:
            items.append("S" + hx(text))
    for _ in range(10 if quick else 40):
        items.append("P" + hx(gen_pattern(rng, max_wide=2).encode()))
    # specifications with precedence directives (several levels each): what one parse records must not reach another's result
    from .c06 import op_grammar
    for _ in range(8 if quick else 30):
        items.append("S" + hx(op_grammar(rng)[0].encode()))
    # every shared table of the pattern parsers is read by some item: each class, plain and negated, alone and in brackets
    directed = ["P" + hx(p.encode()) for p in CLASS_PATTERNS]
    items += directed
    # the same text once as a string literal and once as a pattern, in different specifications: whatever is kept per text
    # must not carry over from one to the other
    twins = []
    for txt in ["=+", "a|b", "x*", "[i]", "ab?", "(a)", "a.b", "i+"]:
        twins.append("S" + hx(('grammar lit;\nstart = "%s" ID;\nID = /[a-z]+/;\n' % txt).encode()))
        twins.append("S" + hx(('grammar pat;\nstart = TT NUM;\nTT = /%s/;\nNUM = /[0-9]+/;\n' % txt).encode()))
    items += twins
    rejected = ["P" + hx(p.encode()) for p in REJECTED_PATTERNS]
    after = ["P" + hx(p.encode()) for p in ACCEPTED_AFTER]
    items += rejected + after
    # isolated baselines: every item alone in a fresh process
    base = {}
    for it in items:
        base[it] = ctx.run_impl("seq", [it], isolate=True)[0]
    stats = {"items": len(items), "sequential_orders": 0, "concurrent_rounds": 0, "race_reports_dependency_state": 0, "race_reports_emerge_state": 0, "result_changes_with_dependency_races": 0}
    distinct = set(items)
    # sequential processing in one process: all orders of groups of 4 items
    groups = [rng.sample(items, 4) for _ in range(6 if quick else 40)]
    groups += [rng.sample(directed, 4) for _ in range(6 if quick else 40)]
    groups += [rng.sample(rejected, 2) + rng.sample(after, 2) for _ in range(8 if quick else 60)]
    groups += [[twins[2 * i], twins[2 * i + 1]] + rng.sample(twins, 2) for i in rng.sample(range(len(twins) // 2), 4 if quick else 8)]
    lines, orders = [], []
    for g in groups:
        for perm in itertools.permutations(g):
            lines.append(",".join(perm)); orders.append(perm)
    res = ctx.run_impl_par("seq", lines, isolate=True)
    for perm, r in zip(orders, res):
        stats["sequential_orders"] += 1
        got = r.split(",")
        for it, g in zip(perm, got):
            if decode_hex_fields(g).startswith("SHARED-STATE-CHANGED"):
                ctx.add_violation("processing an input modified package-level state of emerge that every later (or concurrent) parse reads",
                                  {"order": list(perm), "item": it, "item_text": decode_hex_fields(it[1:]), "shared_state": decode_hex_fields(g)[:700]})
                break
            if g != base[it]:
                ctx.add_violation("the result for an input depends on what was processed before it in the same process",
                                  {"order": list(perm), "item": it, "isolated": decode_hex_fields(base[it])[:700], "in_sequence": decode_hex_fields(g)[:700]})
                break
    # concurrent processing under the race detector
    try:
        build_race(ctx)
        rounds = 12 if quick else 60
        for g in [rng.sample(items, 8) for _ in range(4 if quick else 25)] + [rng.sample(directed, 8) for _ in range(3 if quick else 20)] + [rng.sample(rejected, 4) + rng.sample(after, 4) for _ in range(3 if quick else 20)]:
            p = subprocess.run([RACE_HARNESS, "conc"], input=("%d %s\n" % (rounds, ",".join(g))).encode(), stdout=subprocess.PIPE, stderr=subprocess.PIPE, timeout=900,
                               env=dict(os.environ, GORACE="halt_on_error=0 history_size=2"))
            stats["concurrent_rounds"] += rounds
            reps = race_reports(p.stderr.decode("utf-8", "replace"))
            dep = [r for r in reps if r[0] == "dependency"]
            own = [r for r in reps if r[0] != "dependency"]
            stats["race_reports_dependency_state"] += len(dep)
            stats["race_reports_emerge_state"] += len(own)
            for owner, text in own[:2]:
                ctx.add_violation("concurrent use performs an unsynchronised access to shared state owned by emerge (race detector)", {"items": g, "owner": owner, "race_report": text})
            out = p.stdout.decode().strip().split(",") if p.stdout.strip() else []
            if p.returncode not in (0, 66) or len(out) != len(g):
                if dep and "F21" in {f["id"] for f in known_for("C17")}:
                    stats["result_changes_with_dependency_races"] += 1
                    continue
                ctx.add_violation("the concurrent run crashed", {"items": g, "stderr": p.stderr.decode("utf-8", "replace")[-1500:]})
                continue
            for it, o in zip(g, out):
                n, _, first = o.partition(":")
                if decode_hex_fields(first).startswith("SHARED-STATE-CHANGED"):
                    ctx.add_violation("concurrent processing modified package-level state of emerge that every parse reads",
                                      {"items": g, "shared_state": decode_hex_fields(first)[:700]})
                    continue
                if n != "1" or first != base[it]:
                    if dep and "F21" in {f["id"] for f in known_for("C17")}:
                        stats["result_changes_with_dependency_races"] += 1       # explained: the dependency's shared hashers were raced on in this very run
                    else:
                        ctx.add_violation("the result for an input changes when other inputs are processed concurrently",
                                          {"items": g, "item": it, "isolated": decode_hex_fields(base[it])[:700], "concurrent": decode_hex_fields(first)[:700], "distinct_results": n})
    except Broken as b:
        ctx.add_broken(b.what, b.detail)
    for f in known_for("C17"):
        if f["id"] == "F21" and stats["race_reports_dependency_state"] > 0:
            ctx.known_hits.append(f)
    cov = {"evaluations": stats["sequential_orders"] + stats["concurrent_rounds"], "distinct_nontrivial": len(distinct),
           "rule": "specifications (definition sets, defect-seeded specifications), generated patterns and a fixed list of patterns that together read every class table (plain, negated, in brackets), rejected patterns of every kind (semantic error, syntax error, both) mixed with accepted ones, and pairs of specifications that use the same text once as a string literal and once as a pattern; after every item the harness prints emerge's package-level tables (Predefs, the EBNF grammar tables, terminalNames, RuneClasses members as stored, escapedChars) and compares them with their initial print; the result of a pattern includes the syntax tree as built; each alone in a fresh process (baseline); all 24 orders of groups of 4 in one process; 8 different items on 8 goroutines started together, repeated, in a harness built with -race; a race report is attributed to the owner of the state by the first non-runtime, non-standard-library frame; non-trivial = distinct item",
           "samples": [decode_hex_fields(items[0][1:])[:150], decode_hex_fields(items[-1][1:])[:80]], "outcomes": stats,
           "explanation": "partial: the frame theorem (disjoint private state + read-only shared data => every interleaving and every order give the isolated result) and the re-extracted, classified list of emerge's package-level variables carry the logic; data-race freedom itself rests on the race detector over the schedules that occur; the dependency's package-level hashers and shuffle generator are outside /repo (finding F21)",
           "trusted_base": TRUSTED_BASE + ["Go race detector", "translator fact `globals` (syntactic list of package-level variables)"]}
    return ctx.finish(LEVEL, cov, ["the Go memory model is not modelled; schedules are those the Go scheduler produces"])


def replay(ctx, rp):
    print(json.dumps(rp, indent=1)[:3000])
