"""C03 — combined scanner automaton: exact union, right winner, conflicts iff real; literals denote their own characters."""
from .regexcommon import *
from .speccommon import err_lines

LEVEL = "proof"

KEYWORDS = ["if", "else", "in", "int", "while", "for", "==", "=", "<", "<=", "+", "++", "a", "ab", "x1", "\\\"", "a\\\\b", "\\+", "(", "0", "\\\\/", "\\\\n", "\\\\\\\\", "\\\\", "\\a\\b", "x\\\\"]
PATTERNS = ["[a-z]+", "[a-z][a-z0-9_]*", "[0-9]+", "[0-9]+(\\.[0-9]+)?", "[a-c]+", "(a|b)+", "[ab]+", "if|in", "i[a-z]*", "\\d+", "\\s+", "[A-Z][a-z]*",
            "x*y", "a?b", "=+", "<=?", "\\+\\+?", "[a-z]{2,3}", "(ab)*a?", "[0-9a-f]+", "0x[0-9a-f]+", "\\w+", "[ \\t]+", "a{2}", "while|w", "\"[a-z]*\"",
            # patterns without a single operator character: still patterns (no priority over other patterns)
            "if", "in", "ab", "==", "a", "int", "x1", "while", "<", "0",
            ".", ".+", "[^a]", "[^ab]+x", "\\D", "i.", "#.*", "[:alpha:]+", "[[:alpha:]_][[:alnum:]_]*", "\\p{Lu}\\p{Ll}*", "\\x41+", "\\x0041", "-?[0-9]+"]
TOKNAMES = ["ID", "NUM", "KW", "OP", "WS", "T_1", "AB", "STR", "HEX", "XY"]


def gen_defs(rng):
    """-> (spec text, list of (terminal, kind, value))"""
    n = rng.choice([1, 2, 2, 3, 3, 4, 5, 6])
    names = rng.sample(TOKNAMES, min(n, len(TOKNAMES)))
    decls, uses = [], []
    kws = rng.sample(KEYWORDS, len(KEYWORDS))      # literal values are used at most once (equal values are C07's subject)
    lits = [kws.pop() for _ in range(rng.choice([0, 1, 2, 3]))]
    for t in names:
        if rng.random() < 0.72:
            decls.append("%s = /%s/;" % (t, rng.choice(PATTERNS)))
        else:
            decls.append("%s = \"%s\";" % (t, kws.pop()))
        uses.append(t)
    for l in lits:
        uses.append('"%s"' % l)
    rng.shuffle(uses)
    rng.shuffle(decls)
    return "grammar g;\nstart = %s;\n%s\n" % (" ".join(uses), "\n".join(decls))


def unescape(lit):
    """the documented value of a string literal: a backslash makes the next character literal"""
    out, i = [], 0
    while i < len(lit):
        if lit[i] == "\\" and i + 1 < len(lit):
            i += 1
        out.append(lit[i]); i += 1
    return "".join(out)


def expected_kinds(text):
    """terminal -> is it defined by a pattern (/…/) in the specification text? (a pattern never gets a literal's priority)"""
    kinds = {}
    for m in re.finditer(r'^([A-Z][A-Z0-9_]*) = (/|")', text, re.M):
        kinds[m.group(1)] = (m.group(2) == "/")
    return kinds


def expected_values(text):
    """terminal -> documented value of every string definition written in the specification text"""
    exp = {}
    for m in re.finditer(r'^([A-Z][A-Z0-9_]*) = "((?:[^"\\]|\\.)*)";$', text, re.M):
        exp[m.group(1)] = unescape(m.group(2))
    start = re.search(r"^start = (.*);$", text, re.M)
    if start:
        for m in re.finditer(r'"((?:[^"\\]|\\.)*)"', start.group(1)):
            exp[m.group(1)] = unescape(m.group(1))
    return exp


def chain_dfa(value):
    runes = [ord(c) for c in value]
    trans = {i: [(r, r, i + 1)] for i, r in enumerate(runes)}
    return (0, {len(runes)}, trans)


def parse_specdfa(line):
    """-> dict(kind, defs [(terminal, value, isRegex)], term {terminal: [states]}, dfa, errors)"""
    kind, _, rest = line.partition(" ")
    out = {"kind": kind, "defs": [], "term": {}, "dfa": None, "errors": []}
    if kind in ("OK", "DFAERR", "DFAERR+VALUE"):
        fields = rest.split(" ")
        for x in fields[0][len("defs="):].split(","):
            if x:
                t, v, r = x.split(":")
                out["defs"].append((unhx(t).decode(), unhx(v).decode("utf-8", "replace"), r == "true"))
        if kind == "OK":
            tm = fields[1][len("term="):]
            for x in tm.split(","):
                if x:
                    t, _, ss = x.partition(":")
                    out["term"][unhx(t).decode()] = [int(s) for s in ss.split("/") if s]
            out["dfa"] = parse_dfa(" ".join(fields[2:]))
        else:
            out["errors"] = err_lines("ERR " + " ".join(fields[1:]))
    elif kind == "PARSEERR":
        out["errors"] = err_lines("ERR " + rest)
    return out


def rule(owners):
    """the property's attribution rule on a list of (index, isRegex): -> ('none',) | ('term', i) | ('conflict', [i..])"""
    if not owners:
        return ("none",)
    lits = [i for i, r in owners if not r]
    if len(owners) == 1:
        return ("term", owners[0][0])
    if len(lits) == 1:
        return ("term", lits[0])
    return ("conflict", [i for i, _ in owners])


def explore(impl, per_def, is_regex):
    """product of the implementation's combined automaton (or None) with the per-definition automata:
    -> list of (impl_state or None, owners tuple, witness string) for every reachable product state"""
    dfas = ([impl] if impl else []) + per_def
    syms = [c for c in dfa_symbols(*dfas) if c != 0] + [1]
    syms = sorted(set(syms))
    start = (impl[0] if impl else None, tuple(d[0] for d in per_def))
    seen = {start: None}
    q = deque([start])
    out = []
    while q:
        st = q.popleft()
        x, tup = st
        owners = tuple((i, is_regex[i]) for i, (d, s) in enumerate(zip(per_def, tup)) if s is not None and s in d[1])
        out.append((x, owners, st))
        for c in syms:
            nx = (dfa_next(impl[2], x, c) if impl else None, tuple(dfa_next(d[2], s, c) for d, s in zip(per_def, tup)))
            if nx in seen or (nx[0] is None and all(s is None for s in nx[1])):
                continue
            seen[nx] = (st, c)
            q.append(nx)

    def witness(st):
        w = []
        while seen[st] is not None:
            st, c = seen[st]
            w.append(c)
        return w[::-1]
    return out, witness


def judge(p, per_def, expected_of):
    """compare the implementation's result with the expectation computed from per-definition automata and an attribution
    function on owner lists.  -> list of problems (text, witness runes)"""
    defs = p["defs"]
    is_regex = [d[2] for d in defs]
    states, witness = explore(p["dfa"], per_def, is_regex)
    problems = []
    conflicts = set()
    for x, owners, st in states:
        e = expected_of(owners)
        if e[0] == "conflict":
            conflicts.add(tuple(e[1]))
    if conflicts:
        if p["kind"] == "OK":
            c = sorted(conflicts)[0]
            st = next(s for x, o, s in states if expected_of(o) == ("conflict", list(c)))
            problems.append(("no conflict reported although definitions %s match the same text with no single literal to break the tie" % [defs[i][0] for i in c], witness(st)))
        else:
            named = set()
            for l in p["errors"]:
                m = re.match(r"^.*?: (\".*\"|\S+)$", l)
                if m and not l.startswith("conflicting"):
                    nm = m.group(1)
                    if nm.startswith('"'):
                        try:
                            nm = json.loads(nm)
                        except Exception:
                            nm = nm.strip('"')
                    named.add(nm)
            want = set(defs[i][0] for c in conflicts for i in c)
            if named != want:
                problems.append(("the conflict report names %s, the conflicting definitions are %s" % (sorted(named), sorted(want)), []))
        return problems
    if p["kind"] != "OK":
        problems.append(("a conflict is reported although no text is matched by two patterns without a literal: " + "; ".join(p["errors"])[:300], []))
        return problems
    owner_of_state = {}
    for t, ss in p["term"].items():
        for s in ss:
            owner_of_state.setdefault(s, []).append(t)
    finals = p["dfa"][1]
    for x, owners, st in states:
        e = expected_of(owners)
        impl_final = x is not None and x in finals
        if (e[0] != "none") != impl_final:
            problems.append(("the combined automaton %s a text that %s" % ("accepts" if impl_final else "rejects", "no definition matches" if impl_final else "definition %s matches" % defs[e[1]][0]), witness(st)))
            break
        got = owner_of_state.get(x, []) if x is not None else []
        want = [defs[e[1]][0]] if e[0] == "term" else []
        if sorted(got) != sorted(want):
            problems.append(("accepting state %s is attributed to %s, the winner must be %s (matching definitions: %s)" % (x, got, want, [defs[i][0] for i, _ in owners]), witness(st)))
            break
    return problems


def run(ctx):
    quick = ctx.tier == "quick"
    if not prepare_regex(ctx, "Emerge.Props.C03", quick):
        return ctx.finish(LEVEL, {"evaluations": 0, "distinct_nontrivial": 0, "samples": [], "explanation": "aborted"}, [])
    rng = ctx.rng
    texts = [gen_defs(rng) for _ in range(1500 if quick else 20000)]
    impl = ctx.run_impl_par("specdfa", [hx(t.encode()) for t in texts], timeout=900, isolate=True)
    parsed = [parse_specdfa(l) for l in impl]
    # per-definition automata: model of the code (current), model with findings repaired, documented meaning
    pats = sorted(set(v for p in parsed for (_, v, r) in p["defs"] if r))
    lines = pattern_lines(pats)
    cur = dict(zip(pats, ctx.run_model_par("renfa", lines)))
    fixed = dict(zip(pats, ctx.run_model_par("renfafixed", lines)))
    doc = dict(zip(pats, ctx.run_model_par("respec", lines)))
    known = {f["id"]: f for f in known_for("C03")}
    stats = {"accepted": 0, "conflict": 0, "rejected_earlier": 0, "crash": 0, "explained_F3": 0, "product_states": 0, "literal_vs_pattern_states": 0}
    ncorr = 0
    distinct = set()
    owner_sets = set()
    for t, l, p in zip(texts, impl, parsed):
        if p["kind"] in ("CRASH", "PANIC", "NILNIL", "DFAERR+VALUE"):
            stats["crash"] += 1
            ctx.add_violation("Spec.DFA crashed or returned both a value and an error", {"input": t, "input_hex": hx(t.encode()), "implementation": l[:400]})
            continue
        if p["kind"] == "PARSEERR" or any("invalid regular expression" in e or "invalid character range" in e or "invalid repetition" in e for e in p["errors"]):
            stats["rejected_earlier"] += 1      # duplicate values / invalid patterns: C07's subject
            continue
        defs = p["defs"]
        # a string literal denotes its own characters, with backslash escapes resolved
        exp = expected_values(t)
        kinds = expected_kinds(t)
        for (term, value, isre) in defs:
            if term in kinds and bool(isre) != kinds[term]:
                ctx.add_violation("a definition written as a %s is treated as a %s when the winner of a state is chosen" % (("pattern", "string literal") if kinds[term] else ("string literal", "pattern")),
                                  {"input": t, "input_hex": hx(t.encode()), "terminal": term, "value": value})
        for (term, value, isre) in defs:
            if not isre and term in exp and value != exp[term]:
                ctx.add_violation("a string literal does not denote its own characters: terminal %r has the value %r, the literal written denotes %r" % (term, value, exp[term]),
                                  {"input": t, "input_hex": hx(t.encode()), "terminal": term, "implementation_value": value, "documented_value": exp[term]})
        # ... decided from the source, not from the names the implementation gives its terminals: the values of the string definitions
        # are exactly the documented values of the literals and string tokens written
        doc_vals, impl_vals = set(exp.values()), set(v for (_, v, r) in defs if not r)
        if doc_vals != impl_vals:
            ctx.add_violation("the string definitions do not denote the literals written: values %r, documented %r" % (sorted(impl_vals - doc_vals), sorted(doc_vals - impl_vals)),
                              {"input": t, "input_hex": hx(t.encode()), "implementation_values": sorted(impl_vals), "documented_values": sorted(doc_vals)})
        def autos(table):
            out = []
            for (_, v, r) in defs:
                if r:
                    if not table[v].startswith("OK"):
                        return None
                    out.append(parse_dfa(table[v][3:]))
                else:
                    out.append(chain_dfa(v))
            return out
        a_cur, a_fix, a_doc = autos(cur), autos(fixed), autos(doc)
        if a_cur is None or a_doc is None:
            ncorr += 1
            if ncorr <= 3:
                ctx.add_broken("correspondence: the model rejects (or cannot build) a pattern that Spec.DFA accepted", "input=%r" % t)
            continue
        distinct.add(t)
        stats["conflict" if p["kind"] == "DFAERR" else "accepted"] += 1
        # tie: decision logic of the model (Lean `winner`) over the model-of-code automata
        sts, _ = explore(p["dfa"], a_cur, [d[2] for d in defs])
        stats["product_states"] += len(sts)
        sigs = sorted(set(o for _, o, _ in sts))
        owner_sets |= set(sigs)
        stats["literal_vs_pattern_states"] += sum(1 for o in sigs if len(o) >= 2 and any(not r for _, r in o))
        model_w = {}
        if sigs:
            outl = ctx.run_model("winner", [",".join("%d:%s" % (i, "r" if r else "s") for i, r in o) or "-" for o in sigs])
            for o, w in zip(sigs, outl):
                f = w.split(" ")
                model_w[o] = ("none",) if f[0] == "NONE" else (("term", int(f[1])) if f[0] == "TERM" else ("conflict", [int(x) for x in f[1].split(",")]))
        probs = judge(p, a_cur, lambda o: model_w[o])
        if probs:
            ncorr += 1
            if ncorr <= 3:
                ctx.add_broken("correspondence: Spec.DFA and the model of its decision logic (over the model-of-code automata of the definitions) disagree",
                               "input=%r\nproblem=%s witness=%r\nimpl=%s" % (t, probs[0][0], show_runes(probs[0][1]), l[:600]))
        # property: the documented languages and the property's rule
        probs = judge(p, a_doc, rule)
        if probs:
            explained = "F3" in known and not judge(p, a_cur, rule) and a_fix is not None and all(dfa_diff(x, y) is None for x, y in zip(a_fix, a_doc))
            if explained:
                stats["explained_F3"] += 1
            else:
                ctx.add_violation(probs[0][0], {"input": t, "input_hex": hx(t.encode()), "witness_text": show_runes(probs[0][1]), "witness_runes": probs[0][1],
                                                "definitions": [list(d) for d in defs], "implementation": l[:1500]})
    ctx.witness_hits()
    cov = {"evaluations": len(texts), "distinct_nontrivial": len(distinct),
           "rule": "seeded random definition sets (1-6 named tokens drawn from keyword/operator literals incl. escapes and prefix-related ones, and identifier/number/overlapping/identical-language/disjoint/empty-matching patterns; 0-3 literals used directly in rules) rendered as specifications; Spec.DFA's result is decided per set by exploring the FULL product of the combined automaton with the reference automata of the definitions (derivative automata of the documented meaning; literal chains): union, attribution of every accepting state, conflict iff some reachable product state has >=2 owners and not exactly one literal; non-trivial = distinct specification that reached Spec.DFA",
           "samples": [texts[0], texts[1]], "outcomes": stats, "distinct_owner_sets": len(owner_sets), "correspondence_disagreements": ncorr,
           "trusted_base": TRUSTED_BASE + ["contract of the dependency's CombineDFA (state map exact and complete): validated per definition set by the product exploration, not proved",
                                         "per-definition reference automata: derivative automata (C02_oracle) and literal chains (C03_literal)"]}
    return ctx.finish(LEVEL, cov, ["strings containing NUL excluded", "definition sets with duplicate literal values or invalid patterns are rejected earlier (C07) and not counted"])


def replay(ctx, rp):
    ctx.build_go(); ctx.extract(["regex"]); ctx.lake(["model"])
    print("input:\n" + rp["input"])
    print("implementation:", decode_hex_fields(ctx.run_impl("specdfa", [rp["input_hex"]], isolate=True)[0])[:1500])
    print("witness text:", rp.get("witness_text"))
