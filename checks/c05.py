"""C05 — EBNF scanner yields exactly the documented tokens, lexemes and positions."""
from .common import *

VALID = ["=", ";", "|", "(", ")", "[", "]", "{", "}", "{{", "}}", "<", ">", "$WS", "$A_1", "$STRING",
         "@left", "@right", "@none", "grammar", "a", "g", "gr", "gram", "gramma", "grammarx", "grammar_", "x9_", "start", "expr",
         "AB", "A_1", "ID", "NUM9", "A", "Z",
         '"a"', '"\\""', '"a\\\\"', '"{{"', '"if"', '"+"', '"a b"'.replace(" ", "!"),
         "/a/", "/a\\//", "/[a-z]+/", "/ /", "/\\\\/", "/a|b/", "/x*/", "/\\*/",
         "// c", "//", "/**/", "/***/", "/* **/", "/* a\n b */", "/*/ */", "/* * / */", "/****/", "/* x */",
         " ", "\t", "\n", "\r\n", "  ", "\n\n"]
NEAR = ["@lef", "@", "@leftx", "@rightt", "@non", "$", "$a", "$1", '"', '""', '"a', '"a\\', "/", "/a", "/\\", "/*", "/* *", "/* **", "'", "!", "#", "%",
        "&", ",", "-", ".", ":", "?", "\\", "^", "_", "`", "~", "0", "9a", "{{{", "}}}", "aB", "Ab", "\x7f", "\x01", "é", "A é", "日本", "\x80", "\xff", "\xc3", "\xe2\x82",
        "\xed\xa0\x80", "\xf4\x90\x80\x80", "\xc0\xaf", "a\tb", '"a b"', '"\t"', "/\t/", "/a\nb/", "//\r", "// é",
        # three- and four-byte characters next to tokens, separators and inside the delimited tokens (what is read ahead is given back
        # byte-exactly: lexemes, the error position and the following token tell)
        "€", "x€", "😀", "ab😀cd", "AB😀", "\U00010000", "=😀;", "/* c 😀 */", "/* 😀", '"😀"', "/😀/", "// 😀", "grammar😀", "😀😀", "@left😀"]
SEPS = ["", "", " ", "\n", "\t", " \n ", "\r\n"]


def gen_text(rng):
    n = rng.choice([1, 1, 2, 3, 4, 6, 10, 20, 40])
    parts = []
    for _ in range(n):
        x = rng.random()
        if x < 0.75:
            parts.append(rng.choice(VALID).encode("latin-1") if False else rng.choice(VALID).encode("utf-8"))
        elif x < 0.93:
            t = rng.choice(NEAR)
            parts.append(t.encode("latin-1") if any(ord(c) >= 0x80 and ord(c) <= 0xff for c in t) and not t.isprintable() else t.encode("utf-8", "surrogateescape"))
        else:
            parts.append(bytes(rng.choice(range(0, 256)) for _ in range(rng.choice([1, 1, 2, 5]))))
        parts.append(rng.choice(SEPS).encode())
    if rng.random() < 0.5 and parts:
        parts.pop()   # no trailing separator
    b = b"".join(parts)          # zero bytes included: a character like any other, which no token starts with
    return b[:3000] or b" "


def structured_texts():
    """Deterministic corpus: every valid and near-miss item alone, with each separator after it, and every ordered pair fused."""
    out = []
    items = [v.encode("utf-8") for v in VALID] + [t.encode("utf-8", "surrogateescape") if all(ord(c) < 0x80 or c.isprintable() for c in t) else t.encode("latin-1") for t in NEAR]
    for a in items:
        out.append(a)
        for s in (b" ", b"\n", b"x", b"/", b"*", b"*/", b'"', b"A"):
            out.append(a + s)
    return out, items


def run(ctx):
    quick = ctx.tier == "quick"
    proof_ok = True
    try:
        ctx.build_go()
    except Broken as b:
        ctx.add_broken(b.what, b.detail)
        return ctx.finish("proof", {"evaluations": 0, "distinct_nontrivial": 0, "samples": []}, [])
    try:
        ctx.extract(["lexer"])
    except Broken as b:
        # The source no longer has the shape the translator knows: the theorems cannot be re-checked against it.
        # Search for a failing input all the same: the documented scanner (which does not depend on the regenerated
        # tables) from the last model driver that was built, against the implementation.
        ctx.add_broken(b.what, b.detail)
        n = 0
        if os.path.exists(MODEL):
            corpus, items = structured_texts()
            texts = corpus + [a + b2 for a in items for b2 in items[:40]] + [gen_text(ctx.rng) for _ in range(4000)]
            texts = [t or b" " for t in texts]
            lines = [hx(t) for t in texts]
            try:
                impl = ctx.run_impl("scan", lines)
                ref = ctx.run_model("scanref", lines)
                ref41 = ctx.run_model("scanref41", lines)
                f10 = [f for f in known_for("C05") if f["id"] == "F10"]
                for t, i, r, r41 in zip(texts, impl, ref, ref41):
                    n += 1
                    if i != r and not (f10 and i == r41):
                        ctx.add_violation("token stream differs from the documented scanner",
                                          {"input_hex": hx(t), "input": t.decode("utf-8", "replace"), "implementation": i, "documented": r,
                                           "note": "found while the translator tie was broken: " + b.what[:300]})
            except Broken as b2:
                ctx.add_broken(b2.what, b2.detail)
        return ctx.finish("proof", {"evaluations": max(n, 0), "distinct_nontrivial": 0, "samples": [], "explanation": "translator tie broken; documented-scanner search only"}, [])
    try:
        ctx.prove("Emerge.Props.C05")
        if not quick:
            ctx.leanchecker("Emerge.Props.C05")
    except Broken as b:
        proof_ok = False
        ctx.add_broken(b.what, b.detail)
        ok, out = ctx.lake(["model"])
        if not ok:
            ctx.add_broken("model driver no longer builds against the regenerated tables", out[-2000:])
            return ctx.finish("proof", {"evaluations": 0, "distinct_nontrivial": 0, "samples": []}, [])

    # 1. full sweep of the transition function against the reference automaton (cross-check of the
    #    translator, and the targeted search for a failing input when a proof breaks)
    pairs = [(s, r) for s in range(0, 60) for r in list(range(0, 260)) + [0x2028, 0xFFFD, 0x10FFFF]]
    if not quick:
        pairs += [(s, r) for s in range(0, 56) for r in range(260, 70000, 7)]
    lines = ["%d %d" % p for p in pairs]
    impl = ctx.run_impl("advance", lines)
    ref = ctx.run_model("refadvance", lines)
    gen = ctx.run_model("advance", lines)
    diff_pairs = [(p, i, r) for p, i, r in zip(pairs, impl, ref) if i != r]
    tie_pairs = [(p, i, g) for p, i, g in zip(pairs, impl, gen) if i != g]
    if tie_pairs:
        ctx.add_broken("translator: extracted transition table differs from advanceDFA at %d pairs, first %s" % (len(tie_pairs), tie_pairs[0]))
    targeted = []
    for (s, r), i, rf in diff_pairs[:40]:
        path = ctx.run_impl("path", [str(s)])[0]
        if path == "NONE":
            continue
        base = unhx(path) + chr(r).encode("utf-8")
        for suf in (b"", b" ", b"\n", b"a", b"/", b"*/", b'"', b"A ", b"/ "):
            targeted.append(base + suf)

    # 2. correspondence (impl = model over the regenerated tables) and spec sweep (impl = documented scanner)
    corpus, items = structured_texts()
    texts = list(targeted) + corpus
    if not quick:
        for a in items:
            for b2 in items:
                texts.append(a + b2)
    nrand = 4000 if quick else 60000
    for _ in range(nrand):
        texts.append(gen_text(ctx.rng))
    texts = [t or b" " for t in texts]
    lines = [hx(t) for t in texts]
    impl = ctx.run_impl("scan", lines)
    model = ctx.run_model("scan", lines)
    ref = ctx.run_model("scanref", lines)
    ref41 = ctx.run_model("scanref41", lines)
    ncorr = 0
    f10 = [f for f in known_for("C05") if f["id"] == "F10"]
    f10_hit = False
    distinct = set()
    kinds = {}
    for t, i, m, r, r41 in zip(texts, impl, model, ref, ref41):
        ntok = i.count(":") // 4
        if ntok >= 2:
            distinct.add(t)
        endk = "eof" if i.endswith("END 454f46") else ("lexical" if "6c65786963616c" in i else "other")
        kinds[endk] = kinds.get(endk, 0) + 1
        if i != m:
            ncorr += 1
            if ncorr <= 3:
                ctx.add_broken("correspondence: scanner model and lexer.NextToken disagree on input %r" % t, "impl=%s\nmodel=%s" % (i, m))
        if i != r:
            if f10 and i == r41:
                f10_hit = True
                continue
            ctx.add_violation("token stream differs from the documented scanner",
                              {"input_hex": hx(t), "input": t.decode("utf-8", "replace"), "implementation": i, "documented": r,
                               "model_of_code": m, "how_to_run": "./check C05 --replay <this file>"})
    ctx.witness_hits()
    cov = {
        "evaluations": len(texts) + len(pairs),
        "distinct_nontrivial": len(distinct),
        "rule": "texts: every valid/near-miss lexical item alone and followed by 8 continuations, (thorough: every ordered pair fused,) plus seeded random concatenations of items and raw bytes with random separators; non-trivial = distinct text yielding at least two tokens. pairs: every (state<60, code point<260 and probes) against the reference automaton",
        "samples": [texts[len(targeted) + 3].decode("utf-8", "replace"), texts[-1].decode("utf-8", "replace"), texts[-2].decode("utf-8", "replace")],
        "transition_pairs_swept": len(pairs),
        "transition_pairs_differing_from_documentation": len(diff_pairs),
        "texts": len(texts), "endings": kinds,
        "correspondence_disagreements": ncorr,
        "trusted_base": TRUSTED_BASE + ["hand-modelled: the NextToken loop (Emerge.Scanner.segments), UTF-8 decoding and position bookkeeping of the dependency's input reader (Emerge.Utf8, advPos) — tied by the correspondence run; texts are < 4096 bytes so that the buffer reload (C13) is not involved",
                                      "reference automaton Emerge.Ref.Lexer transcribed by hand from docs/5-definitions.md and docs/6-design.md"],
    }
    return ctx.finish("proof", cov, [
        "zero bytes are part of the texts since the repair 027b8ad (a character no token starts with: a lexical error at its position)",
        "the model's position of an invalid UTF-8 byte and the error texts are compared verbatim with the implementation's",
    ])


def replay(ctx, rp):
    ctx.build_go(); ctx.extract(["lexer"]); ctx.lake(["model"])
    h = rp["input_hex"]
    print("input        :", repr(unhx(h)))
    print("implementation:", ctx.run_impl("scan", [h])[0])
    print("model of code :", ctx.run_model("scan", [h])[0])
    print("documented    :", ctx.run_model("scanref", [h])[0])
    print("documented, with known finding F10:", ctx.run_model("scanref41", [h])[0])
