"""C10 — the direct (followpos) pattern-to-DFA construction agrees with the NFA route and with the documented meaning."""
from .regexcommon import *
from .c02 import dfa_accepts

LEVEL = "proof"


def run(ctx):
    quick = ctx.tier == "quick"
    if not prepare_regex(ctx, "Emerge.Props.C10", quick):
        return ctx.finish(LEVEL, {"evaluations": 0, "distinct_nontrivial": 0, "samples": [], "explanation": "aborted"}, [])
    rng = ctx.rng
    corpus = construct_corpus()
    # weighted to operands that can match the empty string, nested options/stars, ranges that duplicate a sub-expression
    nullable = ["a?", "a*", "(a*)b", "ab?c", "a{0}", "a{0}b", "(a|b?)c", "(a?b?)*c", "a?b?c?", "(a*)*", "(a?)+b", "a{0,2}b{0,1}c", "(ab?){2}", "(a|)b", "((a?)?)?",
                "x(a?b?)y", "(a*b*)+", "a{2,}b*", "(a{0,1}){3}", "(a|b*)(c|d?)", "$a?", "a?$b", "(a?|b)(c?|d)e?", "[ab]?[cd]*e{0}f", ".?a", "\\d*\\.?\\d+", "(a+)?b", "((a|b)?c)*d?"]
    rnd = [gen_pattern(rng, max_wide=3) for _ in range(700 if quick else 12000)]
    for _ in range(200 if quick else 3000):
        a, b = rng.sample(nullable, 2)
        rnd.append(rng.choice([a + b, "(" + a + ")" + rng.choice(["?", "*", "+", "{0,2}", "{2}"]) + b, a + "|" + b, "(" + a + "|" + b + ")" + rng.choice(["c", "?", "*"])]))
    pats = corpus + nullable + rnd
    sw = Sweep(ctx, pats, want=("nfa", "ast", "spec"))
    known = {f["id"]: f for f in known_for("C10")}
    stats = {"accepted": 0, "rejected": 0, "crash": 0, "oracle_too_big": 0, "explained_F3": 0, "three_way_compared": 0, "matching_empty": 0}
    stats["model_timeouts_counted_as_too_big"] = getattr(ctx, "model_timeouts", 0)
    ncorr = 0
    distinct = set()
    for p, n, a, am, s, mn, mf in zip(pats, sw.impl_nfa, sw.impl_ast, sw.model_ast, sw.spec, sw.model_nfa, sw.model_fixed):
        on, oa, om = outcome_of(n), outcome_of(a), outcome_of(am)
        if on[0] in ("CRASH", "PANIC", "NILNIL") or oa[0] in ("CRASH", "PANIC", "NILNIL"):
            stats["crash"] += 1
            if crash_explained(ctx, n, a):
                stats["crashes_explained_by_known_findings"] = stats.get("crashes_explained_by_known_findings", 0) + 1
                continue
            ctx.add_broken("correspondence: a pattern crashed an entry point (see C14): %r" % p, "nfa=%s ast=%s" % (n[:200], a[:200]))
            continue
        if on[0] != oa[0] or (on[0] != "OK" and on != oa):
            ctx.add_violation("the two routes disagree on whether the pattern is accepted", {"pattern": p, "pattern_hex": hx(p.encode()), "nfa_route": on, "direct_route": oa})
            continue
        if oa[0] != "OK":
            stats["rejected"] += 1
            if oa != om:
                ncorr += 1
                if ncorr <= 3:
                    ctx.add_broken("correspondence: model and regex ast.Parse disagree on the outcome for %r" % p, "impl=%s model=%s" % (oa, om))
            continue
        stats["accepted"] += 1
        if om[0] == "FUEL":
            ctx.add_broken("the model of ToDFA's loop ran out of fuel (2^positions + 1 states): the hypothesis of C10_dfa is not met for %r" % p, am[:300])
            continue
        if om[0] == "OK" and " spined=1" not in am:
            ctx.add_broken("the pattern the mapper model builds for %r is not made of item lists: the hypothesis of C10_dfa_documented is not met" % p, am[:300])
            continue
        if s == "TOOBIG" or om[0] != "OK":
            stats["oracle_too_big"] += 1
            continue
        # tie: the model of the followpos construction has exactly the language of AST.ToDFA (NUL included: it is an ordinary character on this route)
        d = dfa_diff(parse_dfa(a[3:]), parse_dfa(am[3:]), skip=())
        if d is not None:
            ncorr += 1
            if ncorr <= 3:
                ctx.add_broken("correspondence: AST.ToDFA and the model of the followpos construction differ for %r" % p,
                               "distinguishing string %r\nimpl=%s\nmodel=%s" % (show_runes(d), a[:500], am[:500]))
        distinct.add(p)
        stats["three_way_compared"] += 1
        if dfa_accepts_empty(parse_dfa(s[3:])):
            stats["matching_empty"] += 1
        w1 = lang_diff(a, s)          # direct route vs documented meaning
        w2 = lang_diff(a, n)          # direct route vs NFA route
        if w1 is not None:
            ctx.add_violation("the direct (followpos) construction does not accept exactly the pattern's documented language",
                              {"pattern": p, "pattern_hex": hx(p.encode()), "distinguishing_string": show_runes(w1), "distinguishing_runes": w1,
                               "direct_route_accepts": dfa_accepts(parse_dfa(a[3:]), w1), "documented": dfa_accepts(parse_dfa(s[3:]), w1),
                               "direct_route": a[:1200], "documented_automaton": s[:1200], "model_of_code": am[:1200]})
        elif w2 is not None:
            explained = "F3" in known and mn.startswith("OK") and mf.startswith("OK") and lang_diff(n, mn) is None and lang_diff(mf, s) is None
            if explained:
                stats["explained_F3"] += 1
            else:
                ctx.add_violation("the direct construction and the NFA-based construction accept different languages",
                                  {"pattern": p, "pattern_hex": hx(p.encode()), "distinguishing_string": show_runes(w2), "distinguishing_runes": w2,
                                   "direct_route": a[:1200], "nfa_route": n[:1200]})
    ctx.witness_hits()
    cov = {"evaluations": len(pats), "distinct_nontrivial": len(distinct),
           "rule": "the pattern space of C02 (construct corpus + seeded random patterns) plus a family weighted to operands that can match the empty string, patterns that match the empty string, nested options/stars and repetition ranges that duplicate a sub-expression; per accepted pattern three automata are compared for full language equality (product exploration): AST.ToDFA (followpos), spec.regexToDFA (NFA route), derivative automaton of the documented meaning; non-trivial = distinct accepted pattern compared three ways",
           "samples": [nullable[3], rnd[0], rnd[-1]], "outcomes": stats, "correspondence_disagreements": ncorr,
           "explanation": "followpos attributes modelled as computed by the code (Emerge.Regex.Follow) and tied to AST.ToDFA by language comparison; nullable proved correct for every tree (C10_nullable); automaton equivalence decided per pattern by product exploration against the proved derivative oracle; the general Glushkov correctness theorem is not proved",
           "trusted_base": TRUSTED_BASE + ["the dependency's Minimize at the end of AST.ToDFA (validated per pattern)", "checks/regexcommon.py dfa_diff"]}
    return ctx.finish(LEVEL, cov, ["strings containing NUL are outside the property's quantifier (the two routes are known to treat NUL differently)"])


def replay(ctx, rp):
    ctx.build_go(); ctx.extract(["regex"]); ctx.lake(["model"])
    l = [rp["pattern_hex"]]
    print("pattern        :", rp["pattern"])
    print("direct route   :", ctx.run_impl("reast", l, isolate=True)[0][:600])
    print("NFA route      :", ctx.run_impl("renfa", l, isolate=True)[0][:600])
    print("model (direct) :", ctx.run_model("reast", l)[0][:600])
    print("documented     :", ctx.run_model("respec", l)[0][:600])
