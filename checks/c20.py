"""C20 — lexical and syntax errors are reported at the first offending token."""
import re
from .lrcommon import *

LEVEL = "other"
STRAYS = ["\x00", "!", "#", "%", "&", "'", "~", "`", "\\", "^", "@", "@lef", "$", "$x", '"abc', '"', "/abc", "/* never closed", "é", "\x7f", "0"]


def parse_scan(o):
    """scan protocol line -> ([(kind, lexeme, off, line, col)], end_message)"""
    toks = []
    parts = o.split(" ")
    end = None
    for i, p in enumerate(parts):
        if p == "END":
            end = unhx(parts[i + 1]).decode("utf-8", "replace")
            break
        if p in ("RUNAWAY", ""):
            continue
        k, lx, off, ln, col = p.split(":")
        toks.append((unhx(k).decode(), unhx(lx).decode("utf-8", "replace"), int(off), int(ln), int(col)))
    return toks, end


def goquote(s):
    return '"' + s.replace("\\", "\\\\").replace('"', '\\"') + '"'


def expected(scanref_line):
    toks, end = parse_scan(scanref_line)
    kinds = [rd.T[k] for k, _, _, _, _ in toks]
    r = rd.recognise(kinds)
    n = len(toks)
    lexfail = end != "EOF"
    if r[0] == "ACCEPT" and not lexfail:
        return ("ACCEPT",)
    idx = r[1] if r[0] == "ERR" else n
    if idx < n:
        k, lx, off, ln, col = toks[idx]
        return ("SYNTAX", "f:%d:%d: unexpected string %s: " % (ln, col, goquote(lx)), goquote(k) + "]")
    if lexfail:
        return ("LEX", end)
    return ("SYNTAX", 'unexpected string "": ', "$]")


def matches(exp, impl_line):
    evs, res = split_out(impl_line)
    if exp[0] == "ACCEPT":
        return res == "ACCEPT"
    if not res.startswith("ERR "):
        return False
    msg = unhx(res.split()[1]).decode("utf-8", "replace")
    if exp[0] == "LEX":
        return msg == exp[1]
    return msg.startswith(exp[1]) and msg.endswith(exp[2]) and "no action exists in the parsing table for ACTION[" in msg


def run(ctx):
    quick = ctx.tier == "quick"
    ctx.build_go()
    if not ctx.prepare(["lexer", "tables"], "Emerge.Props.C20", quick):
        return ctx.finish(LEVEL, {"evaluations": 0, "distinct_nontrivial": 0, "samples": [], "explanation": "aborted"}, [])
    rng = ctx.rng
    texts = []
    nspec = 150 if quick else 1500
    for _ in range(nspec):
        t = rd.gen_spec(rng, 4)
        # every single-token deletion / replacement / insertion / truncation at sampled positions
        positions = range(len(t) + 1) if not quick else sorted(set(rng.randrange(len(t) + 1) for _ in range(6)))
        variants = [t]
        for i in positions:
            variants.append(t[:i])                                   # truncation
            if i < len(t):
                variants.append(t[:i] + t[i + 1:])                    # deletion
                variants.append(t[:i] + [rng.randrange(22)] + t[i + 1:])   # replacement
            variants.append(t[:i] + [rng.randrange(22)] + t[i:])      # insertion
        for v in variants:
            txt, _ = rd.render(rng, v)
            if rng.random() < 0.5:
                txt = txt.rstrip()
            texts.append(txt.encode())
        # stray / unterminated lexical element at a token boundary
        for _ in range(3 if quick else 10):
            i = rng.randrange(len(t) + 1)
            a, _ = rd.render(rng, t[:i]); b, _ = rd.render(rng, t[i:])
            texts.append((a + rng.choice(STRAYS) + rng.choice(["", " ", "\n"]) + b).encode())
    # large sources: the offending token far behind the first buffer-fulls (sizes around one and two times 8 KiB, and more)
    for _ in range(6 if quick else 60):
        tail = rd.gen_spec(rng, 3)[3:]                      # declarations of a random specification, without its header
        i = rng.randrange(len(tail) + 1)
        bad = rng.choice([tail[:i] + tail[i + 1:], tail[:i] + [rng.randrange(22)] + tail[i:], tail[:i], tail])
        for target in rng.sample([8192, 8200, 9000, 12288, 16384, 16400, 20000, 40000], 3):
            body = [rd.T["grammar"], rd.T["IDENT"], rd.T[";"]]
            txt = ""
            while len(txt) < target - 40:
                body += [rd.T["IDENT"], rd.T["="], rd.T["IDENT"], rd.T["STRING"], rd.T[";"]]
                if len(body) % 50 == 3:
                    txt, _ = rd.render(rng, body)
            txt, _ = rd.render(rng, body + bad)
            texts.append(txt.encode())
            a, _ = rd.render(rng, body + bad[:i]); b, _ = rd.render(rng, bad[i:])
            texts.append((a + rng.choice(STRAYS) + " " + b).encode())
    texts = [x if x else b" " for x in texts]
    lines = ["-1 " + hx(x) for x in texts]
    impl = ctx.run_impl("parse", lines)
    model = ctx.run_model("parse", lines)
    ref = ctx.run_model("scanref", [hx(x) for x in texts])
    ncorr = 0
    kinds = {"ACCEPT": 0, "SYNTAX": 0, "LEX": 0}
    distinct = set()
    suffix_cases = []
    for x, i, m, r in zip(texts, impl, model, ref):
        if i != m:
            ncorr += 1
            if ncorr <= 3:
                ctx.add_broken("correspondence: scanner+driver model and parser.Parse disagree on %r" % x, "impl=%s\nmodel=%s" % (i, m))
        exp = expected(r)
        kinds[exp[0]] += 1
        if exp[0] != "ACCEPT":
            distinct.add(x)
        if not matches(exp, i):
            evs, res = split_out(i)
            ctx.add_violation("error not reported at the first offending token (or valid input rejected / invalid accepted)",
                              {"input_hex": hx(x), "input": x.decode("utf-8", "replace"), "implementation": (unhx(res.split()[1]).decode("utf-8", "replace") if res.startswith("ERR ") else res),
                               "expected": list(exp), "model_of_code": m})
        elif exp[0] == "SYNTAX" and exp[1].startswith("f:") and len(suffix_cases) < (300 if quick else 3000):
            suffix_cases.append((x, r, i))
    # nothing after the offending token influences the message: replace everything after it
    sfx_lines, sfx_want, sfx_glued = [], [], []
    for x, r, i in suffix_cases:
        toks, _ = parse_scan(r)
        kindsq = [rd.T[k] for k, _, _, _, _ in toks]
        rr = rd.recognise(kindsq)
        idx = rr[1]
        off_runes = toks[idx][2] + len(toks[idx][1]) + (2 if toks[idx][0] in ("STRING", "REGEX") else 0)
        head = x.decode("utf-8", "replace")[:off_runes]
        tail, _ = rd.render(rng, [rng.randrange(22) for _ in range(rng.randrange(0, 6))])
        # ... or by bytes that are not UTF-8 at all (a Latin-1 comment, a truncated or stray multi-byte sequence): still later text
        junk = rng.choice([b"", b"", b" // caf\xe9\n", b"\n\xe2\x82", b" \x80 x", b"\n/* \xff\xfe */", b" \xc3"])
        if rng.random() < 0.15:
            # a byte that is not UTF-8 directly behind the offending token (recorded finding F30: the token is then never delivered)
            sfx_lines.append("-1 " + hx(head.encode() + rng.choice([b"\xff", b"\x80", b"\xc3("]) + tail.encode()))
            sfx_glued.append(True)
        else:
            sfx_lines.append("-1 " + hx((head + " " + tail).encode() + junk))
            sfx_glued.append(False)
        sfx_want.append(unhx(split_out(i)[1].split()[1]))
    if sfx_lines:
        got = ctx.run_impl("parse", sfx_lines)
        nf30 = 0
        for l, g, w, glued in zip(sfx_lines, got, sfx_want, sfx_glued):
            res = split_out(g)[1]
            gm = unhx(res.split()[1]) if res.startswith("ERR ") else res.encode()
            if gm != w and glued and b"invalid utf-8 character" in gm and any(f["id"] == "F30" for f in known_for("C20")):
                nf30 += 1
                continue
            if gm != w:
                ctx.add_violation("text after the offending token changed the diagnostic",
                                  {"input_hex": l.split()[1], "input": unhx(l.split()[1]).decode("utf-8", "replace"),
                                   "implementation": gm.decode("utf-8", "replace"), "expected": w.decode("utf-8", "replace")})
    cov = {"evaluations": len(texts) + len(sfx_lines), "distinct_nontrivial": len(distinct),
           "rule": "seeded random valid specifications rendered to text with random lexemes/separators/comments; every truncation, single-token deletion, replacement and insertion (thorough: at every position; quick: at 6 sampled positions), stray and unterminated lexical elements at token boundaries; then, for erroneous texts, the text after the offending token replaced by random tokens, sometimes followed by bytes that are not UTF-8. non-trivial = distinct rejected text",
           "samples": [texts[-1].decode("utf-8", "replace"), texts[len(texts) // 3].decode("utf-8", "replace")],
           "expected_outcomes": kinds, "suffix_replacements": len(sfx_lines), "correspondence_disagreements": ncorr,
           "explanation": "partial proof (C20_error_token: error index <= |w| and exactly the tokens before it were shifted; C20_suffix_irrelevant: run up to the error is independent of what follows; lexical: C05_error_prefix) + exploration of minimality of the error position against the independent recursive-descent recogniser (viable-prefix oracle); the correct-prefix property of the tables (C20_viable) is not proved",
           "trusted_base": TRUSTED_BASE + ["checks/ebnf_rd.py: recursive-descent recogniser written from the documentation, as viable-prefix oracle"]}
    return ctx.finish(LEVEL, cov, ["file name fixed to `f`", "texts < 4096 bytes"])


def replay(ctx, rp):
    ctx.build_go(); ctx.extract(["lexer", "tables"]); ctx.lake(["model"])
    l = "-1 " + rp["input_hex"]
    print("input         :", repr(unhx(rp["input_hex"])))
    print("implementation:", ctx.run_impl("parse", [l])[0])
    print("model of code :", ctx.run_model("parse", [l])[0])
    print("expected      :", expected(ctx.run_model("scanref", [rp["input_hex"]])[0]))
