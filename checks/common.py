"""Shared machinery of the /verif checks: building from /repo's working tree, regenerating the
Lean tables, re-checking proofs, running the Go harness and the Lean model driver over the same
cases, verdicts, replays, known findings, evidence."""
import fcntl, hashlib, json, os, random, re, subprocess, sys, time

V = os.path.dirname(os.path.dirname(os.path.abspath(__file__)))
REPO = os.environ.get("VERIF_REPO", "/repo")
BUILD = os.path.join(V, "build")
LEAN = os.path.join(V, "lean")
HARNESS = os.path.join(BUILD, "harness")
MODEL = os.path.join(LEAN, ".lake", "build", "bin", "model")
ALLOWED_AXIOMS = {"propext", "Classical.choice", "Quot.sound"}

GOENV = dict(os.environ, GOFLAGS="-mod=mod", GOPROXY="off", CGO_ENABLED=os.environ.get("CGO_ENABLED", "0"))
GOENV.pop("GOSUMDB", None)   # toolchain auto-switch to the cached go1.24.0 verifies against go.sum only with the default


def hx(b):
    if isinstance(b, str):
        b = b.encode("utf-8")
    return b.hex() if b else "-"


def unhx(s):
    return b"" if s == "-" else bytes.fromhex(s)


def sh(cmd, cwd=None, env=None, timeout=None, input=None):
    p = subprocess.run(cmd, cwd=cwd, env=env, stdout=subprocess.PIPE, stderr=subprocess.STDOUT,
                       timeout=timeout, input=input)
    return p.returncode, p.stdout.decode("utf-8", "replace")


class Lock:
    def __init__(self, name="build"):
        os.makedirs(BUILD, exist_ok=True)
        self.path = os.path.join(BUILD, "." + name + ".lock")
    def __enter__(self):
        self.f = open(self.path, "w")
        fcntl.flock(self.f, fcntl.LOCK_EX)
    def __exit__(self, *a):
        fcntl.flock(self.f, fcntl.LOCK_UN)
        self.f.close()


class Broken(Exception):
    """A tie between model and code (build, extraction, proof, correspondence) no longer checks."""
    def __init__(self, what, detail=""):
        super().__init__(what)
        self.what, self.detail = what, detail


class Ctx:
    def __init__(self, pid, tier, seed):
        self.pid, self.tier, self.seed = pid, tier, seed
        self.rng = random.Random(seed * 1000003 + int(pid[1:]))
        self.t0 = time.time()
        self.log = []
        self.broken = []          # list of (what, detail)
        self.violations = []      # list of replay dicts
        self.known_hits = []      # list of finding dicts that reproduced
        self.stale_model = False
        self.cov = {}
        self.obligations = []
        self.discharged = []
        self.assumptions = []

    def note(self, *a):
        s = " ".join(str(x) for x in a)
        self.log.append(s)
        print("[%s %6.1fs] %s" % (self.pid, time.time() - self.t0, s), flush=True)

    # ---------------------------------------------------------------- build steps
    def build_go(self):
        with Lock():
            rc, out = sh([sys.executable, os.path.join(V, "build_overlay.py")])
            if rc != 0:
                raise Broken("overlay", out)
            ov = out.strip().splitlines()[-1]
            rc, out = sh(["go", "build", "-tags", "verif", "-overlay", ov,
                          "-o", HARNESS, "./internal/zzverif/harness"], cwd=REPO, env=GOENV, timeout=900)
        if rc != 0:
            raise Broken("go build of /repo with the verification harness failed", out[-4000:])
        self.note("harness built from", REPO)

    def build_emerge(self):
        with Lock():
            rc, out = sh(["go", "build", "-o", os.path.join(BUILD, "emerge"), "./cmd/emerge"], cwd=REPO, env=GOENV, timeout=900)
        if rc != 0:
            raise Broken("go build ./cmd/emerge failed", out[-4000:])

    def extract(self, jobs):
        """Regenerates lean/Emerge/Gen/*.lean from the working tree (files whose extraction fails are removed)."""
        with Lock():
            ex = os.path.join(BUILD, "extract")
            env = dict(GOENV, GOTOOLCHAIN="local")
            rc, out = sh(["go", "build", "-o", ex, "."], cwd=os.path.join(V, "tools", "extract"), env=env, timeout=600)
            if rc != 0:
                raise Broken("translator build failed", out[-3000:])
            rc, out = sh([ex, REPO, os.path.join(LEAN, "Emerge", "Gen")] + list(jobs), timeout=300,
                         env=dict(os.environ, VERIF_SRCSNAP_JSON=os.path.join(BUILD, "srcsnap.json")))
        fails = [l for l in out.splitlines() if l.startswith("EXTRACT-FAIL")]
        if fails:
            raise Broken("translator: the source no longer has the shape the model was written for: " + "; ".join(fails), out)
        self.note("tables regenerated:", ", ".join(jobs))

    def lake(self, targets, timeout=3000):
        with Lock("lake"):
            rc, out = sh(["lake", "build"] + list(targets), cwd=LEAN, timeout=timeout)
        return rc == 0, out

    def prove(self, module, extra_targets=("model",)):
        """Re-checks the property module (and what it imports) with the Lean kernel; audits axioms."""
        src = os.path.join(LEAN, *module.split(".")) + ".lean"
        names = re.findall(r"^theorem\s+([A-Za-z0-9_'.]+)", open(src).read(), re.M)
        ns = re.search(r"^namespace\s+(\S+)", open(src).read(), re.M).group(1)
        self.obligations = [ns + "." + n for n in names]
        ok, out = self.lake([module] + list(extra_targets))
        self.checker_cmd = "cd /verif/lean && lake build %s   # Lean 4 kernel; then #print axioms on every property theorem" % module
        if not ok:
            errs = [l for l in out.splitlines() if "error" in l.lower()][:12]
            # which theorems fail? every theorem named in an error message or located at an error line
            raise Broken("proof obligation no longer checks: lake build %s failed" % module, "\n".join(errs) + "\n" + out[-3000:])
        # axiom audit
        audit = os.path.join(BUILD, "Audit_%s.lean" % self.pid)
        with open(audit, "w") as f:
            f.write("import %s\n" % module)
            for n in self.obligations:
                f.write("#print axioms %s\n" % n)
        with Lock("lake"):
            rc, out = sh(["lake", "env", "lean", audit], cwd=LEAN, timeout=1200)
        if rc != 0:
            raise Broken("axiom audit failed to run", out[-2000:])
        bad = {}
        cur = None
        text = out.replace("\n ", " ")
        for m in re.finditer(r"'([^']+)' (depends on axioms: \[([^\]]*)\]|does not depend on any axioms)", text):
            name, axs = m.group(1), m.group(3)
            axl = [a.strip() for a in axs.split(",")] if axs else []
            extra = [a for a in axl if a not in ALLOWED_AXIOMS]
            if extra:
                bad[name] = extra
            else:
                self.discharged.append(name)
        if bad:
            raise Broken("axiom audit: theorems depend on axioms outside {propext, Classical.choice, Quot.sound}", json.dumps(bad))
        missing = [n for n in self.obligations if n not in self.discharged]
        if missing:
            raise Broken("axiom audit: no report for " + ", ".join(missing), out[-2000:])
        # no sorry / admit / custom axioms in the sources of the library (comments stripped)
        hits = forbidden_constructs()
        if hits:
            raise Broken("forbidden construct in Lean sources", "\n".join(hits[:10]))
        self.note("proofs re-checked: %d theorems, axioms within {propext, Classical.choice, Quot.sound}" % len(self.discharged))
        self.check_sources()

    def check_sources(self):
        """Statement snapshot: the functions, action clauses, declarations and templates that this property's model
        transcribes (selection in tools/extract/srcsnap.go) still have the text the model was written against
        (kernel-checked equality of the regenerated digest with the recorded one; the names of what changed come from the
        per-function hashes)."""
        self.extract(["srcsnap"])
        ok, out = self.lake(["Emerge.Inst.Src." + self.pid])
        if ok:
            self.obligations.append("Emerge.Inst.Src.%s_sources" % self.pid)
            self.discharged.append("Emerge.Inst.Src.%s_sources" % self.pid)
            return
        changed = []
        try:
            now = dict(map(tuple, json.load(open(os.path.join(BUILD, "srcsnap.json")))[self.pid]))
            was = dict(map(tuple, json.load(open(os.path.join(V, "ref", "srcsnap_expected.json")))[self.pid]))
            for k in sorted(set(now) | set(was)):
                if now.get(k) != was.get(k):
                    changed.append(k + (" (new)" if k not in was else " (gone)" if k not in now or now.get(k) == "missing" else ""))
        except Exception as e:
            changed.append("(no per-function report: %s)" % e)
        raise Broken("the source text the model of %s transcribes has changed: %s" % (self.pid, ", ".join(changed[:12])), out[-1500:])

    def prepare(self, jobs, module, quick, extra_targets=("model",)):
        """Regenerates the tables, re-checks the property module, audits the axioms. A failure is recorded (the tie is
        broken) and the check goes on looking for a failing input: with the rebuilt model driver if it still builds, else
        with the driver built by the last run that succeeded (its reference oracles - hand transcriptions of the
        documentation - do not depend on the regenerated tables; its model of the code is the code as it was). Returns
        False only if there is no driver at all."""
        try:
            if jobs:
                self.extract(jobs)
            self.prove(module, extra_targets=extra_targets)
            if not quick:
                self.leanchecker(module)
            return True
        except Broken as b:
            self.add_broken(b.what, b.detail)
        ok, out = self.lake(["model"])
        if ok:
            return True
        if os.path.exists(MODEL):
            self.stale_model = True
            self.note("the model driver cannot be rebuilt; searching with the driver built before")
            return True
        self.add_broken("model driver no longer builds", out[-2000:])
        return False

    def leanchecker(self, module):
        with Lock("lake"):
            rc, out = sh(["lake", "env", "leanchecker", module], cwd=LEAN, timeout=3000)
        if rc != 0:
            raise Broken("leanchecker rejected " + module, out[-2000:])
        self.note("leanchecker accepted", module)

    # ---------------------------------------------------------------- running cases
    def run_impl(self, cmd, lines, timeout=1200, isolate=False):
        """One harness process over all lines. With isolate=True a crash (or time-out, or memory blow-up) of the process is
        attributed to single cases: the lines are re-run in halves and finally alone, and a case that kills the
        process yields the line `CRASH <reason>` instead of aborting the check."""
        data = ("\n".join(lines) + "\n").encode()
        env = dict(os.environ, GOMEMLIMIT="3GiB")
        def limits():
            import resource
            resource.setrlimit(resource.RLIMIT_AS, (12 << 30, 12 << 30))
        try:
            p = subprocess.run([HARNESS, cmd], input=data, stdout=subprocess.PIPE, stderr=subprocess.PIPE, timeout=timeout, env=env,
                               preexec_fn=limits if isolate else None)
            rc, so, se = p.returncode, p.stdout, p.stderr
        except subprocess.TimeoutExpired as e:
            rc, so, se = "timeout", e.stdout or b"", e.stderr or b""
        out = so.decode("utf-8", "replace").split("\n")
        if out and out[-1] == "":
            out.pop()
        if rc != 0 or len(out) != len(lines):
            if not isolate:
                raise Broken("harness %s crashed or lost lines (rc=%s, %d of %d lines)" % (cmd, rc, len(out), len(lines)),
                             se.decode("utf-8", "replace")[-2000:])
            if len(lines) == 1:
                why = "timeout" if rc == "timeout" else ("rc=%s " % rc) + se.decode("utf-8", "replace").strip().split("\n")[0][:200]
                return ["CRASH " + hx(why)]
            mid = len(lines) // 2
            t2 = 20 if len(lines) <= 4 else max(30, min(timeout // 2, 20 + len(lines) // 4))
            return self.run_impl(cmd, lines[:mid], t2, True) + self.run_impl(cmd, lines[mid:], t2, True)
        return out

    def run_impl_par(self, cmd, lines, nproc=14, timeout=3000, isolate=False):
        """Same as run_impl, the lines dealt round-robin to nproc harness processes."""
        from concurrent.futures import ThreadPoolExecutor
        if len(lines) < 2 * nproc:
            return self.run_impl(cmd, lines, timeout, isolate)
        chunks = [lines[i::nproc] for i in range(nproc)]
        with ThreadPoolExecutor(nproc) as ex:
            outs = list(ex.map(lambda c: self.run_impl(cmd, c, timeout, isolate), chunks))
        res = [None] * len(lines)
        for i, o in enumerate(outs):
            res[i::nproc] = o
        return res

    def run_model(self, cmd, lines, timeout=1200):
        data = ("\n".join(lines) + "\n").encode()
        for _ in range(120):       # the driver binary is replaced (not updated in place) when another check relinks it
            if os.path.exists(MODEL):
                break
            time.sleep(1)
        p = subprocess.run([MODEL, cmd], input=data, stdout=subprocess.PIPE, stderr=subprocess.PIPE, timeout=timeout)
        out = p.stdout.decode("utf-8", "replace").split("\n")
        if out and out[-1] == "":
            out.pop()
        if p.returncode != 0 or len(out) != len(lines):
            raise Broken("model driver %s crashed or lost lines (rc=%s, %d of %d lines)" % (cmd, p.returncode, len(out), len(lines)),
                         p.stderr.decode("utf-8", "replace")[-2000:])
        return out

    def run_model_par(self, cmd, lines, nproc=14, timeout=3000):
        from concurrent.futures import ThreadPoolExecutor
        if len(lines) < 2 * nproc:
            return self.run_model(cmd, lines, timeout)
        chunks = [lines[i::nproc] for i in range(nproc)]
        with ThreadPoolExecutor(nproc) as ex:
            outs = list(ex.map(lambda c: self.run_model(cmd, c, timeout), chunks))
        res = [None] * len(lines)
        for i, o in enumerate(outs):
            res[i::nproc] = o
        return res

    def run_model_budget(self, cmd, lines, chunk=120, timeout=150, single_timeout=40, nproc=14, too_big="TOOBIG"):
        """run_model_par for inputs where a few lines may take the (list-based, unoptimised) model very long: chunks that
        exceed their budget are halved; a single line that exceeds `single_timeout` yields `too_big` (the caller counts it)."""
        from concurrent.futures import ThreadPoolExecutor
        self.model_timeouts = getattr(self, "model_timeouts", 0)

        def go(ls, budget):
            try:
                return self.run_model(cmd, ls, budget)
            except subprocess.TimeoutExpired:
                if len(ls) == 1:
                    self.model_timeouts += 1
                    return [too_big]
                h = len(ls) // 2
                b = max(single_timeout, budget // 2)
                return go(ls[:h], b) + go(ls[h:], b)
        chunks = [lines[i:i + chunk] for i in range(0, len(lines), chunk)]
        with ThreadPoolExecutor(nproc) as ex:
            outs = list(ex.map(lambda c: go(c, timeout), chunks))
        return [x for o in outs for x in o]

    def witness_hits(self):
        """KNOWN-FINDING lines: every recorded, unrepaired finding of this property whose witness input still
        makes the implementation behave as recorded (`reproduces_if`: substrings of the decoded harness output)."""
        for f in known_for(self.pid):
            w = f.get("witness", {})
            if "reproduces_if" not in w:
                continue
            if "input_gen" in w:          # a large input described instead of stored
                g = w["input_gen"]
                w = dict(w, input=g.get("head", "") + g["repeat"] * g["times"] + g.get("then", ""))
            arg = w.get("args", "") + (" " if w.get("args") else "") + hx(w["input"]) if "input" in w and "input_hex" not in w else w.get("args", "") + (" " if w.get("args") else "") + w.get("input_hex", "")
            try:
                out = self.run_impl(w["cmd"], [arg.strip()], timeout=w.get("timeout", 120), isolate=bool(w.get("isolate")))[0]
            except Broken:
                continue
            dec = decode_hex_fields(out)
            if all(x in dec for x in w["reproduces_if"]) and f not in self.known_hits:
                self.known_hits.append(f)

    # ---------------------------------------------------------------- verdicts
    def add_violation(self, what, replay):
        replay = dict(replay, property=self.pid, what=what, seed=self.seed, tier=self.tier)
        self.violations.append(replay)

    def add_broken(self, what, detail=""):
        self.broken.append((what, detail))
        self.note("TIE BROKEN:", what)

    def finish(self, level, coverage, assumptions):
        try:
            self.witness_hits()          # every recorded finding of this property whose witness still fails is printed
        except Exception:
            pass
        os.makedirs(os.path.join(V, "replays"), exist_ok=True)
        os.makedirs(os.path.join(V, "evidence"), exist_ok=True)
        lines = []
        rc = 0
        known = load_known()
        for f in self.known_hits:
            lines.append("KNOWN-FINDING: property=%s %s" % (self.pid, f["what"]))
        nviol = 0
        seen = set()
        for v in self.violations:
            key = hashlib.sha256(json.dumps(v, sort_keys=True).encode()).hexdigest()[:12]
            if key in seen:
                continue
            seen.add(key)
            path = os.path.join(V, "replays", "%s-%s.json" % (self.pid, key))
            json.dump(v, open(path, "w"), indent=1)
            lines.append("VIOLATION property=%s replay=%s" % (self.pid, path))
            nviol += 1
            rc = 1
            if nviol >= 5:
                break
        if self.broken and not self.violations:
            v = {"property": self.pid, "no_failing_input_found": True, "seed": self.seed, "tier": self.tier,
                 "no_longer_checks": [{"what": w, "detail": d[-3000:]} for w, d in self.broken],
                 "note": "a proof obligation, the translator or the correspondence between model and code no longer checks; "
                         "the search of model and implementation found no concrete input on which the property fails, "
                         "so the property is no longer shown to hold"}
            key = hashlib.sha256(json.dumps(v, sort_keys=True).encode()).hexdigest()[:12]
            path = os.path.join(V, "replays", "%s-%s.json" % (self.pid, key))
            json.dump(v, open(path, "w"), indent=1)
            lines.append("VIOLATION property=%s replay=%s no-failing-input-found" % (self.pid, path))
            nviol += 1
            rc = 1
        cov = dict(coverage)
        cov.setdefault("obligations", len(self.obligations))
        cov.setdefault("discharged", len(self.discharged))
        cov.setdefault("checker_cmd", getattr(self, "checker_cmd", ""))
        cov.setdefault("theorems", self.discharged)
        cov.setdefault("ties_broken", [w for w, _ in self.broken])
        cov.setdefault("known_findings_reproduced", [f["id"] for f in self.known_hits])
        ev = {"property_id": self.pid, "tier": self.tier, "seed": self.seed, "level": level,
              "coverage": cov, "assumptions": assumptions, "wall_s": round(time.time() - self.t0, 2),
              "violations": nviol}
        json.dump(ev, open(os.path.join(V, "evidence", self.pid + ".json"), "w"), indent=1)
        for l in lines:
            print(l, flush=True)
        print("%s: %s (%.1fs)" % (self.pid, "OK" if rc == 0 else "FAILED", time.time() - self.t0), flush=True)
        return rc


def strip_lean_comments(src):
    out, i, depth, n = [], 0, 0, len(src)
    while i < n:
        if src.startswith("/-", i):
            depth += 1; i += 2
        elif depth and src.startswith("-/", i):
            depth -= 1; i += 2
        elif depth:
            if src[i] == "\n":
                out.append("\n")
            i += 1
        elif src.startswith("--", i):
            while i < n and src[i] != "\n":
                i += 1
        elif src[i] == '"':
            j = i + 1
            while j < n and src[j] != '"':
                j += 2 if src[j] == "\\" else 1
            out.append('""'); i = j + 1
        else:
            out.append(src[i]); i += 1
    return "".join(out)


FORBIDDEN = re.compile(r"\bsorry\b|\badmit\b|^\s*axiom\s|native_decide|bv_decide|implemented_by|\bunsafe\s|maxHeartbeats\s+0\b", re.M)


def forbidden_constructs():
    hits = []
    for root, _, files in os.walk(os.path.join(LEAN, "Emerge")):
        for f in files:
            if f.endswith(".lean"):
                p = os.path.join(root, f)
                code = strip_lean_comments(open(p).read())
                for ln, line in enumerate(code.split("\n"), 1):
                    if FORBIDDEN.search(line):
                        hits.append("%s:%d: %s" % (p, ln, line.strip()))
    return hits


def decode_hex_fields(line):
    def d(m):
        try:
            return bytes.fromhex(m.group(0)).decode("utf-8")
        except Exception:
            return m.group(0)
    return re.sub(r"(?<![0-9a-f])(?:[0-9a-f]{2})+(?![0-9a-f])", d, line)


def load_known():
    p = os.path.join(V, "known_findings.json")
    if not os.path.exists(p):
        return []
    return json.load(open(p))["findings"]


def known_for(pid):
    return [f for f in load_known() if pid in f["properties"] and f["status"] == "known"]


TRUSTED_BASE = [
    "Lean 4.33.0 kernel (lake build; leanchecker in the thorough tier)",
    "axioms: propext, Classical.choice, Quot.sound only (audited with #print axioms on every property theorem); no native_decide, no bv_decide, no axioms of our own, no sorry",
    "translator /verif/tools/extract (go/ast): the Lean tables mean what the Go literals mean",
    "correspondence check: Go harness (real packages in-process, build tag verif via overlay) vs compiled Lean model driver on generated cases",
    "Lean compiler/runtime for the model driver (oracles are proved as Lean functions; compiled evaluation is trusted)",
]
