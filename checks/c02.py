"""C02 — token patterns compile to automata that accept exactly the pattern's language."""
from .regexcommon import *

LEVEL = "proof"


def run(ctx):
    quick = ctx.tier == "quick"
    if not prepare_regex(ctx, "Emerge.Props.C02", quick):
        return ctx.finish(LEVEL, {"evaluations": 0, "distinct_nontrivial": 0, "samples": [], "explanation": "aborted"}, [])
    rng = ctx.rng
    corpus = construct_corpus()
    predefs = []
    try:
        src = open(os.path.join(LEAN, "Emerge", "Gen", "SpecMaps.lean")).read()
    except OSError:
        src = ""
    ctx.extract(["specmaps"])
    src = open(os.path.join(LEAN, "Emerge", "Gen", "SpecMaps.lean")).read()
    block = src[src.index("def predefs"):src.index("def terminalNames")]
    for m in re.finditer(r'\("((?:[^"\\]|\\.)*)", "((?:[^"\\]|\\.)*)"\)', block):
        predefs.append(bytes(m.group(2), "utf-8").decode("unicode_escape"))
    rnd = [gen_pattern(rng) for _ in range(900 if quick else 15000)]
    pats = corpus + predefs + rnd
    sw = Sweep(ctx, pats, want=("nfa", "spec"))
    known = {f["id"]: f for f in known_for("C02")}
    stats = {"accepted": 0, "rejected": 0, "crash": 0, "oracle_too_big": 0, "explained_F3": 0, "compared": 0}
    ncorr = 0
    distinct = set()
    f3_hit = False
    for p, i, m, mf, s in zip(pats, sw.impl_nfa, sw.model_nfa, sw.model_fixed, sw.spec):
        oi, om = outcome_of(i), outcome_of(m)
        if oi[0] in ("CRASH", "PANIC", "NILNIL"):
            stats["crash"] += 1
            if crash_explained(ctx, i):
                stats["crashes_explained_by_known_findings"] = stats.get("crashes_explained_by_known_findings", 0) + 1
                continue
            ctx.add_broken("correspondence: a pattern crashed the pattern-to-automaton pipeline (see C14): %r" % p, i[:300])
            continue
        if oi[0] != "OK":
            stats["rejected"] += 1
            if oi != om:
                ncorr += 1
                if ncorr <= 3:
                    ctx.add_broken("correspondence: model and nfa.Parse disagree on the outcome for %r" % p, "impl=%s model=%s" % (oi, om))
            continue
        stats["accepted"] += 1
        if "TOOBIG" in (m, mf, s) or om[0] != "OK":
            if om[0] != "OK" and m != "TOOBIG":
                ncorr += 1
                if ncorr <= 3:
                    ctx.add_broken("correspondence: model and nfa.Parse disagree on the outcome for %r" % p, "impl=%s model=%s" % (oi, om))
            else:
                stats["oracle_too_big"] += 1
            continue
        distinct.add(p)
        stats["compared"] += 1
        # tie: the model of the code (contract semantics of the NFA operations, NUL = ε) has the language of the real automaton
        d = lang_diff(i, m)
        if d is not None:
            ncorr += 1
            if ncorr <= 3:
                ctx.add_broken("correspondence: the automaton of spec.regexToDFA and the model of the construction differ for %r" % p,
                               "distinguishing string %r\nimpl=%s\nmodel=%s" % (show_runes(d), i[:500], m[:500]))
        # property: the real automaton against the documented meaning (derivative automaton of the pattern, proved oracle)
        w = lang_diff(i, s)
        if w is not None:
            explained = "F3" in known and lang_diff(i, m) is None and lang_diff(mf, s) is None
            if explained:
                stats["explained_F3"] += 1
                f3_hit = True
            else:
                ctx.add_violation("the automaton built for a pattern does not accept exactly the pattern's documented language",
                                  {"pattern": p, "pattern_hex": hx(p.encode()), "distinguishing_string": show_runes(w), "distinguishing_runes": w,
                                   "in_automaton": dfa_accepts(parse_dfa(i[3:]), w), "in_documented_language": dfa_accepts(parse_dfa(s[3:]), w),
                                   "implementation": i[:1500], "documented": s[:1500], "model_of_code": m[:1500], "model_with_findings_repaired": mf[:1500]})
    # the automaton of a *token*: the same pattern written as the only token definition of a specification and taken through
    # spec.Parse and Spec.DFA() must have the language of the pattern's automaton (Spec.DFA has its own loop around the
    # pattern pipeline; a short cut there is invisible to the calls above)
    from .c03 import parse_specdfa
    writable = [(k, p) for k, p in enumerate(pats) if p and "/" not in p and all(32 <= ord(c) < 127 for c in p) and sw.impl_nfa[k].startswith("OK ")]
    if quick and len(writable) > 700:
        writable = writable[:400] + [writable[k] for k in sorted(rng.sample(range(400, len(writable)), 300))]
    tok_lines = [hx(("grammar g;\nstart = TK;\nTK = /%s/;\n" % p).encode()) for _, p in writable]
    tok_out = ctx.run_impl_par("specdfa", tok_lines, timeout=900, isolate=True)
    stats["token_automata_compared"] = 0
    for (k, p), o in zip(writable, tok_out):
        g = parse_specdfa(o)
        if g["kind"] == "PARSEERR":
            continue        # not writable as a REGEX lexeme after all (the scanner's business: C05)
        if g["kind"] != "OK":
            ctx.add_violation("a pattern that the pattern pipeline accepts is rejected (or crashes) as a token definition",
                              {"pattern": p, "pattern_hex": hx(p.encode()), "as_token": decode_hex_fields(o)[:600]})
            continue
        if [d for d in g["defs"] if d[0] == "TK"] != [("TK", p, True)]:
            continue        # the scanner delivered another text than the one written (C05's subject)
        stats["token_automata_compared"] += 1
        w = dfa_diff(parse_dfa(sw.impl_nfa[k][3:]), g["dfa"])
        if w is not None:
            ctx.add_violation("the automaton Spec.DFA builds for a token is not the automaton of its pattern",
                              {"pattern": p, "pattern_hex": hx(p.encode()), "distinguishing_string": show_runes(w), "distinguishing_runes": w,
                               "pattern_automaton": sw.impl_nfa[k][:800], "token_automaton": o[:800]})
    ctx.witness_hits()
    cov = {"evaluations": len(pats), "distinct_nontrivial": len(distinct),
           "rule": "a corpus of every construct, class, escape and quantifier form individually, every predefined $NAME pattern, and seeded random patterns (nested groups, alternation, all quantifier forms lazy or not, bracket groups with ranges/classes/negation, \\xHH and \\xHHHH escapes; quantifier-expanded size <= 24); for each accepted pattern the automaton of spec.regexToDFA (parse, NFA, ToDFA, Minimize, EliminateDeadStates, ReindexStates) is compared for full language equality (product exploration, NUL excluded) with (a) the model of the construction and (b) the derivative automaton of the documented meaning; non-trivial = distinct accepted pattern compared",
           "samples": [rnd[0], rnd[1], predefs[0] if predefs else corpus[0]], "outcomes": stats, "correspondence_disagreements": ncorr,
           "predefined_patterns": len(predefs),
           "trusted_base": TRUSTED_BASE + ["contract of the dependency's NFA algebra (Emerge.Regex.NExp.lang): validated per pattern by language comparison, not proved",
                                         "the dependency's ToDFA/Minimize/EliminateDeadStates/ReindexStates: validated per pattern against the proved derivative oracle (C02_oracle), not proved",
                                         "checks/regexcommon.py dfa_diff: product exploration of two DFAs"]}
    return ctx.finish(LEVEL, cov, ["strings containing NUL are outside the property's quantifier and excluded from the comparison",
                                   "patterns whose derivative automaton exceeds 1500 states are skipped (counted as oracle_too_big)"])


def dfa_accepts(d, w):
    s = d[0]
    for c in w:
        s = dfa_next(d[2], s, c)
    return s in d[1]


def replay(ctx, rp):
    ctx.build_go(); ctx.extract(["regex"]); ctx.lake(["model"])
    l = [rp["pattern_hex"]]
    print("pattern          :", rp["pattern"])
    print("implementation   :", ctx.run_impl("renfa", l, isolate=True)[0][:600])
    print("model of code    :", ctx.run_model("renfa", l)[0][:600])
    print("model, F3 fixed  :", ctx.run_model("renfafixed", l)[0][:600])
    print("documented       :", ctx.run_model("respec", l)[0][:600])
