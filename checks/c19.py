"""C19 — compiled and run, the emitted lexer tokenises input exactly as the token automaton says."""
import shutil, tempfile
from .regexcommon import *
from . import c03

LEVEL = "proof"

DRIVER = '''package main

import (
	"bufio"
	"bytes"
	"encoding/hex"
	"fmt"
	"io"
	"os"
	"strings"

	lx "emitted/%s"
)

func hx(s string) string {
	if s == "" {
		return "-"
	}
	return hex.EncodeToString([]byte(s))
}

func main() {
	in := bufio.NewReaderSize(os.Stdin, 1<<20)
	out := bufio.NewWriterSize(os.Stdout, 1<<20)
	defer out.Flush()
	for {
		line, err := in.ReadString('\\n')
		line = strings.TrimSpace(line)
		if line != "" {
			var data []byte
			if line != "-" {
				data, _ = hex.DecodeString(line)
			}
			out.WriteString(run(data) + "\\n")
		}
		if err != nil {
			break
		}
	}
}

func run(data []byte) (res string) {
	defer func() {
		if r := recover(); r != nil {
			res = "PANIC " + hx(fmt.Sprint(r))
		}
	}()
	l, err := lx.New("f", bytes.NewReader(data))
	if err != nil {
		return "|NEWERR " + hx(err.Error())
	}
	var toks []string
	for n := 0; ; n++ {
		if n > 100000 {
			return strings.Join(toks[:5], ";") + "|STUCK"
		}
		t, err := l.NextToken()
		if err == io.EOF {
			return strings.Join(toks, ";") + "|EOF"
		}
		if err != nil {
			return strings.Join(toks, ";") + "|ERR " + hx(err.Error())
		}
		toks = append(toks, fmt.Sprintf("%%s %%s %%d %%d %%d", hx(t.Terminal.Name()), hx(t.Lexeme), t.Pos.Offset, t.Pos.Line, t.Pos.Column))
	}
}
'''

READER_HOOK = '''package %s

import (
	"bytes"
	"fmt"
	"io"
	"strconv"
	"strings"
)

type verifChunked struct {
	r io.Reader
	c int
}

func (v *verifChunked) Read(p []byte) (int, error) {
	if len(p) > v.c {
		p = p[:v.c]
	}
	return v.r.Read(p)
}

// VerifReader drives the emitted two-half reader call by call: n = next, r<size> = Retract of size bytes,
// l = Lexeme, s = Skip. half = size of a buffer half, chunk = most bytes the source hands out per Read (0: no limit).
func VerifReader(half, chunk int, data []byte, ops string) (res string) {
	defer func() {
		if r := recover(); r != nil {
			res = "PANIC " + fmt.Sprint(r)
		}
	}()
	var src io.Reader = bytes.NewReader(data)
	if chunk > 0 {
		src = &verifChunked{src, chunk}
	}
	in, err := newInput("f", src, half)
	if err != nil {
		return "NEWERR " + err.Error()
	}
	var out []string
	for _, op := range strings.Split(ops, ",") {
		switch {
		case op == "N":
			r, err := in.Next()
			if err == io.EOF {
				out = append(out, "E")
			} else if err != nil {
				out = append(out, "I")
			} else {
				out = append(out, "U"+strconv.Itoa(int(r)))
			}
		case op == "R":
			in.Retract()
			out = append(out, "-")
		case op == "n":
			b, err := in.next()
			if err == io.EOF {
				out = append(out, "E")
			} else if err != nil {
				out = append(out, "X")
			} else {
				out = append(out, strconv.Itoa(int(b)))
			}
		case op == "l":
			lex, _ := in.Lexeme()
			bs := make([]string, len(lex))
			for i := 0; i < len(lex); i++ {
				bs[i] = strconv.Itoa(int(lex[i]))
			}
			out = append(out, "L"+strings.Join(bs, "."))
		case op == "s":
			in.Skip()
			out = append(out, "-")
		case strings.HasPrefix(op, "r"):
			size, _ := strconv.Atoi(op[1:])
			in.runeSizes.Push(size)
			in.Retract()
			out = append(out, "-")
		}
	}
	return strings.Join(out, ",")
}
'''

READER_MAIN = '''package main

import (
	"bufio"
	"encoding/hex"
	"os"
	"strconv"
	"strings"

	lx "emitted/%s"
)

func main() {
	in := bufio.NewReaderSize(os.Stdin, 1<<22)
	out := bufio.NewWriterSize(os.Stdout, 1<<20)
	defer out.Flush()
	for {
		line, err := in.ReadString('\\n')
		f := strings.Fields(line)
		if len(f) == 4 {
			half, _ := strconv.Atoi(f[0])
			chunk, _ := strconv.Atoi(f[1])
			var data []byte
			if f[2] != "-" {
				data, _ = hex.DecodeString(f[2])
			}
			out.WriteString(lx.VerifReader(half, chunk, data, f[3]) + "\\n")
		}
		if err != nil {
			break
		}
	}
}
'''


def reader_case(rng, n):
    """(source bytes, ops) - a call sequence within the reader's contract: any bytes, zero bytes included (the end of the
    input is told apart by its index); a Retract gives back bytes of the pending lexeme and leaves at most one half
    outstanding. Lexemes may be much longer than the buffer."""
    ln = rng.choice([0, 1, n - 1, n, n + 1, 2 * n - 1, 2 * n, 2 * n + 1, 3 * n, 4 * n + 1, rng.randrange(0, 6 * n + 2)])
    ln = max(0, ln)
    zeros = rng.choice([0.0, 0.0, 0.02, 0.3, 1.0])        # none, a few, many, only zero bytes
    data = bytes((0 if rng.random() < zeros else rng.choice([10, 32, 97, 98, 255, 128]) if rng.random() < 0.5 else rng.randrange(0, 256)) for _ in range(ln))
    k = p = kb = 0
    ops = []
    steps = rng.choice([ln + 3, 2 * ln + 5, 3 * ln + 8])
    long_lexemes = rng.random() < 0.4        # this run seldom takes its lexeme: they grow past one half, past the whole buffer
    for _ in range(min(steps, 40000)):
        c = rng.random()
        if c < 0.62:
            ops.append("n")
            if k < ln:
                k += 1; p = max(0, p - 1)
        elif c < 0.80 and min(k - kb, n - p) >= 1:
            size = rng.randint(1, min(k - kb, n - p, 4 if rng.random() < 0.7 else n))
            ops.append("r%d" % size); k -= size; p += size
        elif c < (0.82 if long_lexemes else 0.93):
            ops.append("l"); kb = k
        elif not long_lexemes or c > 0.98:
            ops.append("s"); kb = k
    return data, ops


BOUNDARY_RUNES = [0x7f, 0x80, 0x7ff, 0x800, 0xd7ff, 0xe000, 0xfffd, 0xffff, 0x10000, 0x10ffff, 0x20ac, 0x3b1, 0x1f600]


def rune_case(rng, n):
    """(text, ops, expected outputs) for the rune-level calls: N = Next, R = Retract of the last rune, l = Lexeme, s = Skip.
    The expectation is computed here from the text alone (a cursor over its runes). Contract: a Retract gives back a rune
    read since the last Lexeme/Skip, and the bytes given back and not yet read again fit into one half (4 bytes per rune
    at most: at most n // 4 runes outstanding)."""
    k = rng.choice([0, 1, 2, n, 2 * n, 3 * n + 1, rng.randrange(0, 5 * n + 3)])
    runes = [rng.choice(BOUNDARY_RUNES) if rng.random() < 0.45 else rng.choice([97, 98, 10, 32, 0, rng.randrange(0, 128)]) for _ in range(k)]
    ops, exp = [], []
    cur, begin, back, outst = 0, 0, 0, 0
    for _ in range(rng.choice([k + 2, 2 * k + 4, 3 * k + 6])):
        c = rng.random()
        if c < 0.6:
            ops.append("N")
            if cur < len(runes):
                exp.append("U%d" % runes[cur]); cur += 1; back += 1; outst = max(0, outst - 1)
            else:
                exp.append("E")
        elif c < 0.8:
            if back > 0 and cur > begin and (outst + 1) * 4 <= n:
                ops.append("R"); exp.append("-"); cur -= 1; back -= 1; outst += 1
        elif c < 0.92:
            ops.append("l"); exp.append("L" + ".".join(str(b) for b in "".join(chr(r) for r in runes[begin:cur]).encode())); begin = cur; back = 0
        else:
            ops.append("s"); exp.append("-"); begin = cur; back = 0
    return "".join(chr(r) for r in runes), ops, exp


def reader_correspondence(ctx, d, pkg, env, stats, quick):
    """the reader model (Emerge.Reader, about which C19_reader is proved) against the emitted input.go"""
    rd = os.path.join(d, pkg + "rd")
    shutil.copytree(os.path.join(d, pkg), rd)
    open(os.path.join(rd, "zz_verif_reader.go"), "w").write(READER_HOOK % pkg)
    md = os.path.join(d, "cmdreader"); os.makedirs(md)
    open(os.path.join(md, "main.go"), "w").write(READER_MAIN % (pkg + "rd"))
    rc, out = sh(["go", "build", "-o", os.path.join(d, "bin_reader"), "./cmdreader"], cwd=d, env=env, timeout=600)
    if rc != 0:
        ctx.add_broken("the reader driver no longer compiles against the emitted input.go (newInput / next / Retract / Lexeme / Skip / runeSizes)", out[-1500:])
        return
    rng = ctx.rng
    lines = []
    for n in [1, 2, 3, 4, 5, 8, 16]:
        for _ in range(60 if quick else 600):
            data, ops = reader_case(rng, n)
            lines.append("%d %d %s %s" % (n, rng.choice([0, 0, 1, 2, 3, n + 1]), hx(data), ",".join(ops) or "s"))
    for _ in range(4 if quick else 40):
        data, ops = reader_case(rng, 4096)
        lines.append("4096 %d %s %s" % (rng.choice([0, 1000, 4095]), hx(data), ",".join(ops) or "s"))
    p = subprocess.run([os.path.join(d, "bin_reader")], input=("\n".join(lines) + "\n").encode(), stdout=subprocess.PIPE, stderr=subprocess.PIPE, timeout=600)
    got = p.stdout.decode().split("\n")[:-1]
    if p.returncode != 0 or len(got) != len(lines):
        ctx.add_violation("the emitted reader crashed under a call sequence within its contract", {"stderr": p.stderr.decode()[-1500:]})
        return
    want = ctx.run_model_par("reader", [" ".join([l.split(" ")[0]] + l.split(" ")[2:]) for l in lines])
    nc = 0
    for l, g, w in zip(lines, got, want):
        stats["reader_sequences"] = stats.get("reader_sequences", 0) + 1
        stats["reader_calls"] = stats.get("reader_calls", 0) + l.count(",") + 1
        conc, _, abst = w.partition(" | ")
        n, chunk, hexd, ops = l.split(" ")
        rec = {"half_size": int(n), "source_read_chunk": int(chunk), "source_hex": hexd if len(hexd) < 400 else hexd[:400] + "…", "source_length": 0 if hexd == "-" else len(hexd) // 2,
               "calls": ops if len(ops) < 600 else ops[:600] + "…", "emitted_reader": g[:600], "reader_model": conc[:600], "plain_stream": abst[:600]}
        if abst == "CONTRACT":
            ctx.add_broken("the reader-case generator left the reader's contract (generator and model disagree about the contract)", json.dumps(rec)[:1500])
            break
        if g != abst:
            ctx.add_violation("the emitted two-half reader does not return what a cursor over the whole source returns (next/Retract/Lexeme/Skip within the contract)", rec)
            break
        if g != conc:
            nc += 1
            if nc <= 2:
                ctx.add_broken("correspondence: the reader model (Emerge.Reader) and the emitted input.go disagree", json.dumps(rec)[:1500])
    stats["reader_disagreements"] = stats.get("reader_disagreements", 0) + nc
    # rune level: Next / Retract / Lexeme / Skip against the model of Next (Reader.nextRune) and against the text itself
    rlines, rexp = [], []
    for n in [4, 5, 8, 16, 4096]:
        for _ in range((40 if quick else 400) if n != 4096 else (3 if quick else 30)):
            text, ops, exp = rune_case(rng, n)
            if not ops:
                continue
            rlines.append("%d %d %s %s" % (n, rng.choice([0, 1, 3, n + 1]), hx(text.encode()), ",".join(ops)))
            rexp.append(",".join(exp))
    p = subprocess.run([os.path.join(d, "bin_reader")], input=("\n".join(rlines) + "\n").encode(), stdout=subprocess.PIPE, stderr=subprocess.PIPE, timeout=600)
    got = p.stdout.decode().split("\n")[:-1]
    if p.returncode != 0 or len(got) != len(rlines):
        ctx.add_violation("the emitted reader crashed under rune-level calls within its contract", {"stderr": p.stderr.decode()[-1500:]})
        return
    want = ctx.run_model_par("readernext", [" ".join([l.split(" ")[0]] + l.split(" ")[2:]) for l in rlines])
    nr = 0
    for l, g, w, e in zip(rlines, got, want, rexp):
        stats["reader_rune_sequences"] = stats.get("reader_rune_sequences", 0) + 1
        n, chunk, hexd, ops = l.split(" ")
        rec = {"half_size": int(n), "source_read_chunk": int(chunk), "text_hex": hexd if len(hexd) < 400 else hexd[:400] + "…", "calls": ops if len(ops) < 600 else ops[:600] + "…",
               "emitted_reader": g[:600], "model_of_Next": w[:600], "runes_of_the_text": e[:600]}
        if g != e:
            ctx.add_violation("Next/Retract/Lexeme/Skip of the emitted reader do not deliver the runes of the text (and the lexemes between them)", rec)
            break
        if g != w:
            nr += 1
            if nr <= 2:
                ctx.add_broken("correspondence: the model of Next (Reader.nextRune) and the emitted input.go disagree", json.dumps(rec)[:1500])
    stats["reader_rune_disagreements"] = stats.get("reader_rune_disagreements", 0) + nr


# ERR: the name of the emitted package's own error marker - a terminal like any other for the property
TOKNAMES = ["ID", "NUM", "KW", "OP", "WS", "EOL", "COMMENT", "STR", "AB", "ERR"]
PATTERNS = {"ID": ["[a-z]+", "[a-z][a-z0-9_]*", "[a-zA-Z_]+", "[a-z\\x00E0-\\x00FF]+"], "NUM": ["[0-9]+", "[0-9]+(\\.[0-9]+)?", "-?[0-9]+", "[0-9]*"],
            "KW": ["if|in|int", "while"], "OP": ["=+", "<=?", "\\+\\+?|-"], "WS": ["[ \\x09]+", " +", "[ \\x09]*"], "EOL": ["\\x0A", "\\x0D?\\x0A"],
            "COMMENT": ["#[a-z ]*", "//[a-z]*", "#[^\\x0A]*", "//.*"], "STR": ["'[a-z ]*'", "\\x22[a-z]*\\x22", "\\x22[^\\x22]*\\x22", "'[^']*'", "<.*>"], "ERR": ["!+", "err|[0-9]+"], "AB": ["(ab)*c", "(ab)+", "a(bc)*d", "\\x03B1+", "[\\x03B1\\xFFFD]+", "\\x10FFFF|\\x0080+"]}
LITERALS = ["if", "else", "=", "==", "(", ")", ";", "+", "in", "\\\\", "'", "ERR"]


def gen_spec(rng):
    names = rng.sample(TOKNAMES, rng.choice([2, 3, 4, 5]))
    decls = ["%s = /%s/;" % (t, rng.choice(PATTERNS[t])) for t in names]
    lits = rng.sample(LITERALS, rng.choice([0, 1, 2, 3]))
    uses = names + ['"%s"' % l for l in lits]
    rng.shuffle(uses)
    return "grammar lx;\nstart = %s;\n%s\n" % (" ".join(uses), "\n".join(decls))


def random_lexeme(rng, dfa, maxlen):
    """a random walk from the start state to an accepting state"""
    start, finals, trans = dfa
    for _ in range(20):
        s, out = start, []
        while len(out) < maxlen:
            rows = trans.get(s, [])
            if not rows or (s in finals and out and rng.random() < 0.35):
                break
            lo, hi, t = rng.choice(rows)
            c = rng.randint(lo, min(hi, lo + 30))
            if c == 0:
                break
            out.append(c); s = t
        if s in finals and out and len("".join(chr(c) for c in out).encode()) <= maxlen:
            return "".join(chr(c) for c in out)
    return None


def grow_lexeme(dfa, lx, length):
    """lx with one of its characters repeated until it is `length` long, if the automaton loops there (e.g. inside [a-z]+)"""
    start, finals, trans = dfa
    def step(s, c):
        for lo, hi, t in trans.get(s, []):
            if lo <= c <= hi:
                return t
        return None
    s = start
    for i, ch in enumerate(lx):
        t = step(s, ord(ch))
        if t is None:
            return None
        if step(t, ord(ch)) == t:          # a self-loop on this character
            out = lx[:i + 1] + ch * max(0, length - len(lx)) + lx[i + 1:]
            q = start
            for c2 in out:
                q = step(q, ord(c2))
                if q is None:
                    return None
            return out if q in finals else None
        s = t
    return None


def gen_text(rng, dfa, maxtok, short):
    parts = []
    for _ in range(rng.choice([0, 1, 2, 3, 5, 8])):
        k = rng.random()
        if k < 0.7:
            lx = random_lexeme(rng, dfa, maxtok)
            if lx:
                parts.append(lx)
        elif k < 0.78:
            # a lexeme with a character from outside the automaton's alphabet in the middle of it: states that have a
            # transition on every ASCII character (inside `[^"]*`, `.*`) still have none on these
            lx = random_lexeme(rng, dfa, maxtok)
            if lx and len(lx) >= 2:
                i = rng.randrange(1, len(lx))
                parts.append(lx[:i] + rng.choice(["é", "€", "世", "\u0080", "\U00010000", "\ufffd", "\u00a0", "\u2028", "\x00"]) + lx[i:])
        elif k < 0.86:
            parts.append(rng.choice(["?", "@", "é", "€", "x9", "=", "a", "ab", "abab", "~", "\x00", "\x00", "a\x00b",
                                     # the first and last code point of every UTF-8 length, the neighbours of the surrogates, U+FFFD (what
                                     # decoders return for garbage - here a character like any other)
                                     # characters Unicode calls white space that the documentation does not list as discarded
                                     "\x0b", "\x0c", "\u0085", "\u00a0", "\u1680", "\u2003", "\u2028", "\u2029", "\u202f", "\u205f", "\u3000", "\ufeff", "\x1f", "\x1c",
                                     "\x7f", "\u0080", "\u07ff", "\u0800", "\ud7ff", "\ue000", "\ufffd", "\ufffc", "\uffff", "\U00010000", "\U0010ffff"]))      # near-misses / strays
        parts.append(rng.choice([" ", " ", "\n", "\t", "", "  ", "\r\n", " \n "]))
    t = "".join(parts)
    if rng.random() < 0.3:
        t = t.rstrip()          # no final newline / blank
    return t


def long_run_of_skipped_tokens(ctx, rng, dfa, auto_line, spec, binary, stats, enabled):
    """`The token stream does not depend on the input's length`: a token, then millions of skipped tokens (blank lines where
    WS/EOL are declared, otherwise discarded characters), then a token - expected: what the model says for the same text with three
    such lines, the second token moved by the difference."""
    if not enabled:
        return
    K = 2400000
    unit = " \n"
    for _ in range(12):
        lx = random_lexeme(rng, dfa, 6)
        if not lx or "\n" in lx or "\x00" in lx:
            continue
        short, long_ = lx + unit * 3 + lx, lx + unit * K + lx
        w = ctx.run_model_par("emitscan", [auto_line + " " + hx(short.encode())])[0]
        if w.endswith("|EOF") and w.count(";") == 1:
            break           # the short text is `token, skipped run, token` for this automaton
    else:
        return
    first, second = w[:-4].split(";")
    f = second.split(" ")
    f[2] = str(int(f[2]) + len(unit) * (K - 3)); f[3] = str(int(f[3]) + (K - 3))
    expected = first + ";" + " ".join(f) + "|EOF"
    try:
        p = subprocess.run([binary], input=(hx(long_.encode()) + "\n").encode(), stdout=subprocess.PIPE, stderr=subprocess.PIPE, timeout=300)
    except subprocess.TimeoutExpired:
        ctx.add_violation("the compiled emitted lexer does not terminate on a long run of skipped tokens",
                          {"input": spec, "input_hex": hx(spec.encode()), "text": "%r + %r * %d + %r" % (lx, unit, K, lx)})
        return
    got = p.stdout.decode().strip()
    stats["texts_with_millions_of_skipped_tokens"] = stats.get("texts_with_millions_of_skipped_tokens", 0) + 1
    if p.returncode != 0 or got != expected:
        ctx.add_violation("the token stream of the compiled emitted lexer depends on the input's length: a run of %d blank lines between two tokens" % K,
                          {"input": spec, "input_hex": hx(spec.encode()), "text": "%r + %r * %d + %r" % (lx, unit, K, lx), "text_gen": {"head": lx, "repeat": unit, "times": K, "tail": lx},
                           "emitted_lexer": (decode_hex_fields(got)[:600] if p.returncode == 0 else "exit status %d: %s" % (p.returncode, p.stderr.decode()[:600])),
                           "expected": decode_hex_fields(expected)[:600], "automaton": auto_line[:1500]})


def parse_emit(line):
    f = dict(x.split("=", 1) for x in line.split(" ")[1:] if "=" in x)
    return unhx(f["name"]).decode(), line.split(" ", 2)[2]


def run(ctx):
    quick = ctx.tier == "quick"
    ctx.build_go()
    try:
        ctx.extract(["readertmpl", "lexertmpl"])
        ctx.prove("Emerge.Props.C19")
        if not quick:
            ctx.leanchecker("Emerge.Props.C19")
    except Broken as b:
        ctx.add_broken(b.what, b.detail)
        ok, out = ctx.lake(["model"])
        if not ok:
            ctx.add_broken("model driver no longer builds", out[-2000:])
            return ctx.finish(LEVEL, {"evaluations": 0, "distinct_nontrivial": 0, "samples": [], "explanation": "aborted"}, [])
    rng = ctx.rng
    root = tempfile.mkdtemp(prefix="verif-c19-")
    nspec = 10 if quick else 120
    stats = {"packages_compiled": 0, "rejected_spec": 0, "texts": 0, "texts_small_buffer": 0, "texts_at_4096_boundary": 0, "tokens": 0, "lexical_errors": 0}
    distinct = set()
    samples = []
    env = dict(GOENV, GOTOOLCHAIN="local", GOFLAGS="-mod=mod")
    try:
        made = 0
        tries = 0
        # always among the packages: blanks, tabs, newlines and comments as tokens of their own that are skipped (a blank line is
        # two skipped tokens), and a terminal called like the emitted package's error marker
        # ... and terminals that match the empty string (the start state is accepting: a character no token starts with is still an error)
        forced = ['grammar lx;\nstart = ID NUM KW;\nWS = /[ \\x09]*/;\nNUM = /[0-9]*/;\nID = /[a-z]+/;\nKW = /(if)?/;\n',
                  'grammar lx;\nstart = ID NUM;\nNUM = /[0-9]*/;\nID = /[a-z]+/;\n']
        forced += ['grammar lx;\nstart = ID ERR NUM;\nWS = /[ \\x09]/;\nEOL = /\\x0A/;\nCOMMENT = /#[a-z]*/;\nID = /[a-z]+/;\nERR = /!+/;\nNUM = /[0-9]+/;\n']
        while made < nspec and tries < nspec * 6:
            tries += 1
            text = forced.pop(0) if forced else gen_spec(rng)
            d = os.path.join(root, "m%d" % made)
            os.makedirs(d)
            o = ctx.run_impl("emit", [hx(text.encode()) + " " + hx(d.encode())], isolate=True)[0]
            if not o.startswith("OK"):
                stats["rejected_spec"] += 1
                shutil.rmtree(d)
                continue
            pkg, auto_line = parse_emit(o)
            dfa = parse_dfa(auto_line.split(" ", 1)[1])
            open(os.path.join(d, "go.mod"), "w").write("module emitted\n\ngo 1.23\n")
            # variant with a tiny reader buffer: every token crosses buffer-half boundaries
            small = os.path.join(d, pkg + "small")
            shutil.copytree(os.path.join(d, pkg), small)
            lsrc = open(os.path.join(small, "lexer.go")).read()
            if "bufferSize = 4096" not in lsrc:
                ctx.add_broken("the emitted lexer.go no longer declares bufferSize = 4096 (the small-buffer variant cannot be built)")
                break
            open(os.path.join(small, "lexer.go"), "w").write(lsrc.replace("bufferSize = 4096", "bufferSize = 8"))
            bins = {}
            for variant, p in (("std", pkg), ("small", pkg + "small")):
                md = os.path.join(d, "cmd" + variant)
                os.makedirs(md)
                open(os.path.join(md, "main.go"), "w").write(DRIVER % p)
                rc, out = sh(["go", "build", "-o", os.path.join(d, "bin_" + variant), "./cmd" + variant], cwd=d, env=env, timeout=600)
                if rc != 0:
                    ctx.add_violation("the emitted package does not compile", {"input": text, "input_hex": hx(text.encode()), "compiler": out[-1500:]})
                    break
                bins[variant] = os.path.join(d, "bin_" + variant)
            if len(bins) < 2:
                made += 1
                continue
            stats["packages_compiled"] += 1
            made += 1
            if made <= (1 if quick else 3):
                reader_correspondence(ctx, d, pkg, env, stats, quick)
            ntext = 300 if quick else 1500
            small_texts = [gen_text(rng, dfa, rng.choice([5, 5, 12, 40]), True) for _ in range(ntext)]     # lexemes shorter and (much) longer than the 8-byte halves
            std_texts = [gen_text(rng, dfa, 12, False) for _ in range(ntext // 2)]
            # paddings that move tokens across the 4096-byte buffer halves (and the end of the input onto them)
            base = [gen_text(rng, dfa, 8, False) for _ in range(6)]
            for b in base:
                for pad in [4096 - len(b.encode()) + k for k in range(-3, 4)] + [4090, 4095, 4096, 4097, 8190, 8192, 8193]:
                    if pad > 0:
                        std_texts.append(" " * pad + b)
                        std_texts.append(b + "\n" * pad + b)
                        stats["texts_at_4096_boundary"] += 2
            # tokens longer than a half, than the whole buffer, than several buffers (4096-byte halves)
            for _ in range(3 if quick else 12):
                lx = random_lexeme(rng, dfa, 40)
                if lx:
                    for L in (4090, 4097, 8190, 8193, 9000, 20000):
                        grown = grow_lexeme(dfa, lx, L)
                        if grown:
                            std_texts.append("a " + grown + " " + lx)
                            stats["texts_with_tokens_longer_than_the_buffer"] = stats.get("texts_with_tokens_longer_than_the_buffer", 0) + 1
            long_run_of_skipped_tokens(ctx, rng, dfa, auto_line, text, bins["std"], stats, "COMMENT = /#[a-z]*/;\nID = /[a-z]+/;\nERR" in text or (not quick and made <= 20))
            for variant, texts in (("small", small_texts), ("std", std_texts)):
                lines = [hx(t.encode()) for t in texts]
                try:
                    p = subprocess.run([bins[variant]], input=("\n".join(lines) + "\n").encode(), stdout=subprocess.PIPE, stderr=subprocess.PIPE, timeout=120)
                except subprocess.TimeoutExpired as e:
                    done = (e.stdout or b"").decode().count("\n")
                    ctx.add_violation("the compiled emitted lexer does not terminate on an input (buffer size %s)" % ("8" if variant == "small" else "4096"),
                                      {"input": text, "input_hex": hx(text.encode()), "text_hex": lines[min(done, len(lines) - 1)], "variant": variant})
                    continue
                got = p.stdout.decode().split("\n")[:-1]
                if p.returncode != 0 or len(got) != len(lines):
                    ctx.add_violation("the compiled emitted lexer crashed", {"input": text, "input_hex": hx(text.encode()), "stderr": p.stderr.decode()[-1500:]})
                    continue
                want = ctx.run_model_par("emitscan", [auto_line + " " + l for l in lines])
                stats["texts"] += len(texts)
                if variant == "small":
                    stats["texts_small_buffer"] += len(texts)
                for t, g, w in zip(texts, got, want):
                    distinct.add((made, t))
                    stats["tokens"] += g.count(";") + (1 if g and not g.startswith("|") else 0)
                    if "|ERR" in g:
                        stats["lexical_errors"] += 1
                    if g != w:
                        ctx.add_violation("the compiled emitted lexer does not tokenise the input as the token automaton prescribes (buffer size %s)" % ("8" if variant == "small" else "4096"),
                                          {"input": text, "input_hex": hx(text.encode()), "text": t if len(t) < 300 else t[:100] + "…(%d bytes)" % len(t.encode()), "text_hex": hx(t.encode()),
                                           "variant": variant, "emitted_lexer": decode_hex_fields(g)[:1200], "maximal_munch_over_the_automaton": decode_hex_fields(w)[:1200], "automaton": auto_line[:1500]})
                        break
            if len(samples) < 2:
                samples.append({"specification": text, "text": small_texts[0], "tokens": decode_hex_fields(want[0])[:300] if want else ""})
            shutil.rmtree(d)
    finally:
        shutil.rmtree(root, ignore_errors=True)
    cov = {"evaluations": stats["texts"], "distinct_nontrivial": len(distinct), "programs": stats["packages_compiled"], "disagreements_checked": stats["texts"],
           "rule": "seeded random specifications (identifier/number/keyword/operator/string/comment patterns incl. non-ASCII ranges and automata that re-enter their start state, skipped terminals WS/EOL/COMMENT, literals); each emitted package is compiled twice - as emitted (buffer 4096) and with the reader's buffer constant set to 8 - with a small driver that prints terminal, lexeme, offset, line, column per token and the final error; texts: random walks through the automaton joined by blanks/newlines/nothing, near-misses and stray characters, multi-byte characters, with and without final newline, plus paddings placing tokens and the end of input on and around both 4096-byte buffer boundaries; expected output = maximal munch over Spec.DFA()'s automaton (Emerge.Emitted.scan); reader: random call sequences within the contract (next / Retract of 1..n bytes / Lexeme / Skip) on arbitrary byte sources (zero bytes included) of lengths around every multiple of the half size, source delivered in chunks of 1..n+1 bytes, compared with Emerge.Reader.cRun and with the plain stream aRun; non-trivial = distinct (package, text)",
           "samples": samples or ["-"], "outcomes": stats,
           "explanation": "proof: for every automaton the model of the emitted NextToken is maximal munch with exact partition and positions (Emerge/Props/C19.lean); translation validation: the compiled artefact is run against that model per text; the reader (input.go.tmpl) is proved to be the plain byte stream for every half size, length and alignment (C19_reader, model Emerge.Reader) and that model is driven call by call against the emitted input.go (half sizes 1..16 and 4096, chunked sources); the UTF-8 assembly of Next from next is exercised, not proved",
           "trusted_base": TRUSTED_BASE + ["Go compiler/runtime for the emitted package", "hand model of the reader (Emerge.Reader) validated against the emitted input.go by the call-by-call correspondence"]}
    return ctx.finish(LEVEL, cov, ["inputs are valid UTF-8 without NUL (the reader reserves NUL as its end-of-input sentinel)"])


def replay(ctx, rp):
    print("specification:\n" + rp["input"])
    print("text (hex):", rp.get("text_hex"))
    print("expected  :", rp.get("maximal_munch_over_the_automaton"))
    print("emitted   :", rp.get("emitted_lexer"))
