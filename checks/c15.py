"""C15 — the same specification and options give byte-identical output and diagnostics."""
import shutil, tempfile
from .common import *
from . import c03, c08, speccommon as sc, specgen as sg

LEVEL = "other"

MANY = '''grammar g;
start = A1 B1 C1 D1 "if" "else" "while" e;
e = e "+" e | e "*" e | e "-" e | ID2;
A1 = /[a-c]+x?|[d-f]+y?|[g-i]+z?/;
B1 = /[0-9]+(\\.[0-9]+)?([eE][0-9]+)?/;
C1 = /(ab|cd|ef)+|(gh|ij)+/;
D1 = /"[a-z]*"|'[a-z]*'/;
ID2 = /[j-z][a-z0-9_]*/;
'''
DIAG = '''grammar g;
start = T1 T2 T3 T4 u1 u2 u3 "x" "y";
T5 = "x"; T6 = "y"; T7 = "x";
T8 = $NOPE1; T9 = $NOPE2; T10 = $NOPE3;
@left T1 T2; @right T1 T2 T3;
'''
CONFLICT = '''grammar g;
start = AA BB CC DD;
AA = /[a-z]+/; BB = /[a-m]+/; CC = /[k-z]+/; DD = /[a-z][a-z]/;
'''
LALRCONF = '''grammar g;
start = e;
e = e "+" e | e "*" e | e "-" e | "(" e ")" | NUM | e e;
NUM = /[0-9]+/;
'''
# several token definitions that are rejected only when the lexer automaton is built: one diagnostic each, in the order of
# the definitions - whatever order the conversions finish in
BADPATS = '''grammar g;
start = AA BBB CC DDDD EE FF GG;
AA = /[a-z]{3,1}/;
BBB = /[z-a]+/;
CC = /[0-9]+/;
DDDD = /x{5,2}y/;
EE = /[9-0]/;
FF = /(a|b){2,1}/;
GG = /[z-a][9-0]a{3,1}x{8,7}/;
'''


def bad_patterns(rng):
    bad = ["/[a-z]{3,1}/", "/[z-a]+/", "/x{5,2}y/", "/[9-0]/", "/(a|b){2,1}/", "/[b-a][d-c]/", "/a{9,8}/",
           # several different problems in one pattern: one diagnostic line each, in the order they occur in the pattern
           "/[9-0]+(x{4,2})?/", "/[z-a][9-0]a{3,1}/",
           # a recorded problem followed by a syntax failure: the pattern is rejected as a whole, nothing of it may linger
           "/[z-a/", "/a{3,1}(/", "/[9-0]+(x/", "/x{5,2}[/", "/(a{2,1}|[d-c]|[f-e]{7,6})/", "/[b-a][d-c][f-e][h-g]/"]
    good = ["/[0-9]+/", "/[a-z]+/", "/if|else/", "/==?/"]
    names = ["AA", "BBB", "CC", "DDDD", "EE", "FF", "GG", "HH"]
    k = rng.choice([3, 4, 5, 6])
    pats = [rng.choice(bad) if rng.random() < 0.7 else rng.choice(good) for _ in range(k)]
    rng.shuffle(names)
    return "grammar g;\nstart = %s;\n" % " ".join(names[:k]) + "".join("%s = %s;\n" % (n, p) for n, p in zip(names, pats))


# conflicts whose report names synthesised non-terminals (gen<N>_group, gen_<x>_opt, _star, _plus)
LALRSYN = '''grammar g;
start = e;
e = e ("+" | "-") e | e [ "?" ] e | {{ "x" }} | { e } "y" | NUM;
NUM = /[0-9]+/;
'''


def synth_conflict(rng):
    """an ambiguous grammar whose conflicting items run through synthesised non-terminals"""
    ops = ['("+" | "-")', '("*" | "/" | "%")', '[ "?" ]', '{ "," }', '{{ ";" }}', '( "<" "=" | ">" )', '[ "a" | "b" ]']
    alts = ['e %s e' % o for o in rng.sample(ops, rng.choice([1, 2, 3]))]
    if rng.random() < 0.5:
        alts.append('"(" e ")"')
    alts.append("NUM")
    rng.shuffle(alts)
    return 'grammar g;\nstart = e;\ne = %s;\nNUM = /[0-9]+/;\n' % " | ".join(alts)


def multiway_conflict(rng):
    """table entries holding three or more actions (a shift and several reductions), with directives that rank some of the
    actions and not others: whether such an entry is settled must not depend on the order in which its actions are visited"""
    if rng.random() < 0.5:
        z, op = rng.sample(['"z"', '"+"', '"q"', '"-"', '"if"'], 2)
        n = rng.choice([2, 2, 3])
        nts = ["a", "b", "c"][:n]
        alts = ['%s %s "x%d"' % (nt, op, i) for i, nt in enumerate(nts)] + ['%s %s "w"' % (z, op)]
        rng.shuffle(alts)
        dirs = rng.choice([[op, z], [op, z], [op, z], [z, op], [op], [z], [op + " " + z], []])
        return "grammar g;\n%sstart = %s;\n%s" % ("".join("%s %s;\n" % (rng.choice(["@left", "@right", "@none"]), d) for d in dirs),
                                                  " | ".join(alts), "".join("%s = %s;\n" % (nt, z) for nt in nts))
    handles = ['"+"', '"*"', '"-"', '<e = e e>', 'NUM', '"("']
    rng.shuffle(handles)
    k = rng.randrange(1, len(handles) + 1)
    levels, i = [], 0
    while i < k:
        j = min(k, i + rng.choice([1, 1, 2, 3]))
        levels.append("%s %s;\n" % (rng.choice(["@left", "@right", "@left", "@none"]), " ".join(handles[i:j])))
        i = j
    alts = ['e "+" e', 'e "*" e', 'e "-" e', '"(" e ")"', "NUM", "e e"]
    rng.shuffle(alts)
    return "grammar g;\n%sstart = e;\ne = %s;\nNUM = /[0-9]+/;\n" % ("".join(levels), " | ".join(alts[:rng.choice([3, 4, 5, 6])] + ([] if "NUM" in alts[:3] else ["NUM"])))


def grammar_defects(rng):
    """several diagnostics of the grammar verification at once (non-terminals without a production), and nothing the symbol
    table verification - which runs first and alone - objects to: their order must not depend on the run"""
    names = rng.sample(["aa", "bb", "cc", "dd", "ee", "ff", "gg", "hh", "expr", "stmt", "x_1"], rng.choice([2, 3, 4, 6]))
    uses = names + ['"x"', '"y"'][:rng.choice([0, 1, 2])]
    rng.shuffle(uses)
    k = rng.choice([1, 2])
    rules = ["start = %s;" % " ".join(uses[:len(uses) // k or 1])]
    if k == 2:
        rules.append("other = %s;" % " ".join(uses[len(uses) // 2:] or ['"z"']))
        rules[0] = rules[0][:-1] + " other;"
    return "grammar g;\n" + "\n".join(rules) + "\n"


MULTIWAY = '''grammar g;
@left "+";
@left "z";
start = a "+" "x" | b "+" "y" | "z" "+" "w";
a = "z";
b = "z";
'''

ANSI = re.compile(r"\x1b\[[0-9;]*m")


def strip_decor(s):
    s = ANSI.sub("", s)
    # the decorative emoji: every character outside the Basic Multilingual Plane or in the symbol blocks
    return "".join(c for c in s if ord(c) < 0x2000 or c in "•")


def run(ctx):
    quick = ctx.tier == "quick"
    ctx.build_go()
    ctx.build_emerge()
    try:
        ctx.extract(["unordered"])
        ctx.prove("Emerge.Props.C15", extra_targets=())
        if not quick:
            ctx.leanchecker("Emerge.Props.C15")
    except Broken as b:
        ctx.add_broken(b.what, b.detail)
    rng = ctx.rng
    texts = [MANY, DIAG, CONFLICT, LALRCONF, LALRSYN, BADPATS, MULTIWAY]
    multi = [MULTIWAY] + [multiway_conflict(rng) for _ in range(24 if quick else 300)]
    texts += multi[1:]
    gdef = [grammar_defects(rng) for _ in range(10 if quick else 120)]
    texts += gdef
    texts += [bad_patterns(rng) for _ in range(8 if quick else 100)]
    synth = [LALRSYN] + [synth_conflict(rng) for _ in range(20 if quick else 150)]
    texts += synth[1:]
    texts += [c03.gen_defs(rng) for _ in range(40 if quick else 600)]
    texts += [c08.gen_spec(rng) for _ in range(30 if quick else 400)]
    for tree, text, defects in sc.gen_cases(ctx, 60 if quick else 800, defect_rate=0.6):
        if len(text) < 600:
            texts.append(text.decode())
    nin = 6
    # specifications that fail fast are repeated more often: an order that depends on scheduling shows up rarely per run
    def reps(t):
        if t in multi:
            return 40
        if t in gdef:
            return 12
        if t in synth:
            return 24          # state that survives a run only sometimes (a pool emptied by the collector) needs more tries
        return 60 if ("[z-a/" in t or "(/" in t or "[/" in t or "{3,1}" in t or "[z-a]" in t or "{5,2}" in t or "[9-0]" in t or "{2,1}" in t or "[b-a]" in t or "{9,8}" in t) else nin
    res = ctx.run_impl_par("det", ["%s %d" % (hx(t.encode()), reps(t)) for t in texts], nproc=8, timeout=1500, isolate=True)
    stats = {"specifications": len(texts), "in_process_runs": len(texts) * nin, "process_runs": 0, "generated": 0, "rejected": 0, "skipped_known_crash": 0}
    distinct = set()
    for t, r in zip(texts, res):
        f = r.split(" ")
        distinct.add(t)
        if f[0] == "SAME":
            stats["generated" if f[2] == "FILE" else "rejected"] += 1
        elif f[0] in ("PANIC", "CRASH"):
            stats["skipped_known_crash"] += 1        # crashes are C14's subject
        else:
            ctx.add_violation("repeated in-process runs on the same specification gave different results (%s distinct among %d runs)" % (f[1] if len(f) > 1 else "?", nin),
                              {"input": t, "input_hex": hx(t.encode()), "first_difference": decode_hex_fields(r)[:800]})
    # fresh processes: each has its own map-iteration seed
    emerge = os.path.join(BUILD, "emerge")
    root = tempfile.mkdtemp(prefix="verif-c15-")
    try:
        nproc_specs = texts[:(30 if quick else 300)]
        for k, t in enumerate(nproc_specs):
            fp = os.path.join(root, "s%d.ebnf" % k)
            open(fp, "w").write(t)
            outs = []
            for j in range(5):
                od = os.path.join(root, "o%d_%d" % (k, j)); os.makedirs(od)
                p = subprocess.run([emerge, "-out", od, "-verbose", fp], stdout=subprocess.PIPE, stderr=subprocess.STDOUT, timeout=120, cwd=root)
                stats["process_runs"] += 1
                files = {}
                for dp, _, fns in os.walk(od):
                    for fn in fns:
                        files[os.path.relpath(os.path.join(dp, fn), od)] = hashlib.sha256(open(os.path.join(dp, fn), "rb").read()).hexdigest()
                text_out = strip_decor(p.stdout.decode("utf-8", "replace")).replace(od, "<out>")
                if "goroutine " in text_out:
                    text_out = "CRASH"
                outs.append((p.returncode, text_out, tuple(sorted(files.items()))))
                shutil.rmtree(od)
            if len(set(outs)) != 1:
                a, b = outs[0], next(o for o in outs if o != outs[0])
                what = "exit status" if a[0] != b[0] else ("diagnostics" if a[1] != b[1] else "emitted files")
                ctx.add_violation("runs of the tool in fresh processes on the same specification differ in their %s" % what,
                                  {"input": t, "input_hex": hx(t.encode()), "run_a": [a[0], a[1][-800:], a[2]], "run_b": [b[0], b[1][-800:], b[2]]})
    finally:
        shutil.rmtree(root, ignore_errors=True)
    cov = {"evaluations": stats["in_process_runs"] + stats["process_runs"], "distinct_nontrivial": len(distinct),
           "rule": "specifications with many accepting states per terminal, several diagnostics of each kind, token conflicts, several invalid patterns at once (60 in-process runs each) and LALR conflicts (also conflicts whose report names synthesised non-terminals), plus seeded random definition sets, escape-heavy specifications and defect-seeded specifications; each run 6 times in one process (whole pipeline; error text or the bytes of the six files compared) and 5 times in fresh processes of the real binary with -verbose (exit status, diagnostics without colour codes and emoji, SHA-256 of every emitted file); Go randomises map iteration per loop and the dependency shuffles its hash tables per call, so repeated runs see different orders; non-trivial = distinct specification",
           "samples": [texts[0][:200], texts[5][:200]], "outcomes": stats,
           "explanation": "proof of the principle (sorting erases collection order; the accepting-state lists are independent of the map order) and of the tie (the unordered loops of the source are exactly the classified ones, re-extracted on every run); byte-identity of whole runs is explored by repetition, not proved",
           "trusted_base": TRUSTED_BASE + ["translator fact `unordered` (syntactic: range over map-typed locals and over .All()/.Transitions() of dependency collections in the anchored files)",
                                         "the dependency's red-black trees iterate in key order; its hash tables and sets iterate in shuffled order"]}
    return ctx.finish(LEVEL, cov, ["determinism across runs is sampled (6 + 5 runs per specification); the theorem covers the sorted-after-collection sites only"])


def replay(ctx, rp):
    ctx.build_go()
    print("input:\n" + rp["input"])
    print(decode_hex_fields(ctx.run_impl("det", ["%s 12" % rp["input_hex"]], isolate=True)[0])[:1500])
