//go:build verif

package lexer

// VerifAdvanceDFA exposes the scanner's transition function to the verification harness.
func VerifAdvanceDFA(state int, r rune) int { return advanceDFA(state, r) }
