//go:build verif

package parser

import (
	"fmt"
	"sort"
	"strings"
)

// VerifSharedState prints the package-level tables of the regular-expression parsers (read-only by convention): the
// members of every rune class as stored (not as aggregated), and the escapable characters.
func VerifSharedState() string {
	keys := make([]string, 0, len(RuneClasses))
	for k := range RuneClasses {
		keys = append(keys, k)
	}
	sort.Strings(keys)
	var b strings.Builder
	for _, k := range keys {
		fmt.Fprintf(&b, "%q:", k)
		for _, m := range RuneClasses[k] {
			fmt.Fprintf(&b, "%T%v", m, m)
		}
		b.WriteString(";")
	}
	fmt.Fprintf(&b, " escapedChars=%v", escapedChars)
	return b.String()
}
