//go:build verif

package spec

import (
	"fmt"

	auto "github.com/moorara/algo/automata"
)

// VerifRegexToDFA exposes the pattern-to-automaton pipeline (parse, determinise, minimise, prune, renumber).
func VerifRegexToDFA(regex string) (*auto.DFA, error) { return regexToDFA(regex) }

// VerifStringToDFA exposes the automaton of a string-literal definition.
func VerifStringToDFA(value string) *auto.DFA { return stringToDFA(value) }

// VerifSharedState prints the package-level tables of this package (read-only by convention).
func VerifSharedState() string {
	return fmt.Sprintf("terminalNames=%v", terminalNames)
}
