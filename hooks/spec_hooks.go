//go:build verif

package spec

import auto "github.com/moorara/algo/automata"

// VerifRegexToDFA exposes the pattern-to-automaton pipeline (parse, determinise, minimise, prune, renumber).
func VerifRegexToDFA(regex string) (*auto.DFA, error) { return regexToDFA(regex) }

// VerifStringToDFA exposes the automaton of a string-literal definition.
func VerifStringToDFA(value string) *auto.DFA { return stringToDFA(value) }
