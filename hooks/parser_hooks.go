//go:build verif

package parser

import (
	"fmt"

	"github.com/moorara/algo/grammar"
)

// VerifTerminals exposes the ordered terminal list of the EBNF grammar to the verification harness.
func VerifTerminals() []grammar.Terminal { return terminals }

// VerifProductions exposes the ordered production list of the EBNF grammar to the verification harness.
func VerifProductions() []*grammar.Production { return productions }

// VerifSharedState prints the package-level tables that every parse reads (read-only by convention).
func VerifSharedState() string {
	return fmt.Sprintf("Predefs=%v terminals=%v nonTerminals=%v productions=%v precedences=%v", Predefs, terminals, nonTerminals, productions, precedences)
}
