//go:build verif

package parser

import "github.com/moorara/algo/grammar"

// VerifTerminals exposes the ordered terminal list of the EBNF grammar to the verification harness.
func VerifTerminals() []grammar.Terminal { return terminals }

// VerifProductions exposes the ordered production list of the EBNF grammar to the verification harness.
func VerifProductions() []*grammar.Production { return productions }
