/-
  Context-free grammars with terminals and non-terminals numbered by their index in an ordered
  list (as in `parsing_table.go`), parse trees, derivations.
-/
namespace Emerge

inductive Sym where
  | t (i : Nat)
  | nt (i : Nat)
  deriving DecidableEq, Repr, Inhabited

/-- A production: head non-terminal index and body. -/
abbrev Prod := Nat × List Sym

inductive Assoc where
  | none | left | right
  deriving DecidableEq, Repr, Inhabited

inductive Handle where
  | term (i : Nat)
  | prod (p : Prod)
  deriving DecidableEq, Repr, Inhabited

/-- One textual copy of a grammar with its precedence levels, as extracted from the Go source. -/
structure GrammarCopy where
  terminals : List String
  nonTerminals : List String
  prods : List Prod
  start : Nat
  levels : List (Assoc × List Handle)
  deriving DecidableEq, Repr, Inhabited

end Emerge
