import Emerge.Scanner
/-
  Model of the emitted lexer's `NextToken` (`templates/lexer.go.tmpl`, after the `fix:` commits):

    curr, n := 0, 0                                              (scanToken)
    loop: r, err := in.Next()
          err: EOF && n > 0 → evalToken(curr); otherwise return err
          next := advanceDFA(curr, r)
          next == errorState:
             n == 0: r ∈ {' ', '\t', '\n', '\r'} → in.Skip(); continue      (unmatched whitespace is discarded)
                     otherwise → evalToken(errorState)                       (lexical error naming the character)
             n > 0 : in.Retract(); evalToken(curr)
          curr, n = next, n+1
    evalToken: evalDFA(state) → invalid final state (second result) ⇒ error; a terminal named WS/EOL/COMMENT ⇒ skipped,
               NextToken scans on (a loop over scanToken, the loop above); otherwise the token - a terminal named ERR included.

  over the rune stream the (repaired) reader delivers. Core Lean only.
-/
namespace Emerge.Emitted
open Emerge Emerge.Scanner

def isSpace (r : Rune) : Bool := r == 32 || r == 9 || r == 10 || r == 13

/-- Segmentation of the input by the emitted lexer. Fuel: one unit per segment or discarded character. -/
def segments (S : Spec) : Nat → Pos → List Rune → List Seg × End
  | 0, _, _ => ([], .stuck)
  | _ + 1, _, [] => ([], .eof)
  | n + 1, p, r :: rs =>
    match S.adv 0 r with
    | none => if isSpace r then segments S n (advPos p r) rs else ([], .lexErr p [r])
    | some _ =>
      let m := munch S.adv 0 (r :: rs)
      match S.eval m.1 with
      | none => ([], .lexErr p m.2.1)
      | some _ =>
        let res := segments S n (advPosList p m.2.1) m.2.2
        (⟨m.1, m.2.1, p⟩ :: res.1, res.2)

/-- The token stream `NextToken` yields when called until it returns an error (EOF or lexical). -/
def scan (S : Spec) (rs : List Rune) : List Token × End :=
  let r := segments S (rs.length + 1) Pos.start rs
  (r.1.filterMap (tokenOf S), r.2)

/-- the automaton of a specification as the emitted tables encode it: transitions as (from, lo, hi, to) ranges,
    accepting states with their terminal; terminals named WS, EOL, COMMENT are skipped -/
def specOf (trans : List (Nat × Nat × Nat × Nat)) (finals : List (Nat × String)) : Spec where
  adv := fun s r => (trans.find? (fun e => e.1 == s && e.2.1 ≤ r && r ≤ e.2.2.1)).map (·.2.2.2)
  eval := fun s => (finals.find? (fun f => f.1 == s)).map (fun f => (f.2, Mode.text))
  skipped := fun k => k == "WS" || k == "EOL" || k == "COMMENT"

end Emerge.Emitted
