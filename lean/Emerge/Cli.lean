import Emerge.Base
/-
  Model of the command-line tool (`cmd/emerge/main.go`, `internal/command/command.go`) and of the
  generator's file-system behaviour (`internal/generate/golang/golang.go`: prepare, renderTemplate):
  which system calls that can change the file system are issued, in which order, on which paths,
  and what exit status and final message result — over an abstract file system and with an oracle
  that decides which calls fail.

  The only mutating calls in the non-test code of /repo are `os.Mkdir(<out>/<name>)` in `prepare`
  and `os.OpenFile(<out>/<name>/<file>, O_CREATE|O_WRONLY|O_EXCL)` followed by writes to the
  descriptor it returned, in `renderTemplate`. Core Lean only.
-/
namespace Emerge.Cli

inductive Node where
  | file (content : String)
  | dir
  | symlink (target : String)
  deriving DecidableEq, Repr

/-- an abstract file system: path ↦ node -/
abbrev FS := List (String × Node)

def FS.get (fs : FS) (p : String) : Option Node :=
  match fs with
  | [] => none
  | (k, v) :: rest => if k = p then some v else FS.get rest p

/-- what a mutating call does when it is reached -/
inductive Fault where
  | none          -- the call succeeds (if the file system allows it)
  | fail          -- the call fails before changing anything (EACCES, ENOSPC at creation, EROFS …)
  | half          -- (file creation only) the file is created, a later write fails: it stays incomplete
  deriving DecidableEq, Repr

inductive Op where
  | mkdir (p : String)
  | create (p : String) (content : String)      -- O_CREATE|O_WRONLY|O_EXCL, then the template is written
  deriving DecidableEq, Repr

/-- `mkdir` and `open(O_CREAT|O_EXCL)` fail with EEXIST when the path exists (file, directory or
    symbolic link, dangling or not) and never touch it. Returns the new file system and success. -/
def applyOp (fs : FS) (op : Op) (f : Fault) : FS × Bool :=
  match op with
  | .mkdir p =>
    match fs.get p, f with
    | some _, _ => (fs, false)
    | none, .none => (fs ++ [(p, .dir)], true)
    | none, _ => (fs, false)
  | .create p c =>
    match fs.get p, f with
    | some _, _ => (fs, false)
    | none, .none => (fs ++ [(p, .file c)], true)
    | none, .half => (fs ++ [(p, .file (String.ofList (c.toList.take (c.length / 2))))], false)
    | none, .fail => (fs, false)

/-- what reading and checking the specification gives (computed by the rest of emerge) -/
structure SpecResult where
  parseOk : Bool          -- spec.Parse succeeded
  grammarName : String
  lexerOk : Bool          -- Spec.DFA() succeeded (no conflict, patterns valid)
  parserOk : Bool         -- LALRParsingTable() succeeded
  deriving DecidableEq, Repr

inductive InputState where
  | missing | unreadable | directory | readable
  deriving DecidableEq, Repr

structure Flags where
  parseError : Bool := false     -- unknown flag / missing value
  usage : Bool := false          -- -h
  help : Bool := false
  version : Bool := false
  out : String                   -- -out, default: the working directory
  name : String := ""
  args : List String := []       -- what the flag set leaves over: everything from the first argument that is not a flag
  deriving DecidableEq, Repr

/-- `Command.Run`: the input file is the first remaining argument not starting with '-' -/
def Flags.file (fl : Flags) : Option String := fl.args.find? (fun a => !a.startsWith "-")

structure Result where
  fs : FS
  exit : Nat
  success : Bool                 -- the final "Successful!" line was printed
  message : Bool                 -- something was printed to explain a failure
  deriving DecidableEq, Repr

def coreFiles : List String := ["errors.go", "types.go", "stack.go"]
def lexerFiles : List String := ["input.go", "lexer.go"]
def parserFiles : List String := ["parser.go"]
def allFiles : List String := coreFiles ++ lexerFiles ++ parserFiles

/-- render the listed files one after the other; every failure is remembered, rendering goes on -/
def renderAll (dir : String) (render : String → String) : List String → FS → List Fault → FS × Bool × List Fault
  | [], fs, faults => (fs, true, faults)
  | f :: rest, fs, faults =>
    let r := applyOp fs (.create (dir ++ "/" ++ f) (render f)) (faults.headD .none)
    let r' := renderAll dir render rest r.1 faults.tail
    (r'.1, r.2 && r'.2.1, r'.2.2)

/-- `golang.Generate` (prepare, generateCore, generateLexer, generateParser) -/
def generate (fs : FS) (out name : String) (idValid : String → Bool) (sr : SpecResult) (render : String → String)
    (faults : List Fault) : FS × Bool :=
  match fs.get out with
  | some .dir =>
    if !idValid name then (fs, false)
    else
      let dir := out ++ "/" ++ name
      let m := applyOp fs (.mkdir dir) (faults.headD .none)
      if !m.2 then (m.1, false)
      else
        let c := renderAll dir render coreFiles m.1 faults.tail
        let l := if sr.lexerOk then renderAll dir render lexerFiles c.1 c.2.2 else (c.1, false, c.2.2)
        let p := if sr.parserOk then renderAll dir render parserFiles l.1 l.2.2 else (l.1, false, l.2.2)
        (p.1, c.2.1 && l.2.1 && p.2.1)
  | _ => (fs, false)       -- missing, a file, or a symbolic link that does not lead to a directory

/-- `-name` replaces the grammar's name -/
def chosenName (fl : Flags) (sr : SpecResult) : String := if fl.name ≠ "" then fl.name else sr.grammarName

/-- `main` + `Command.Run`. `input`: state of the file argument; `sr`: result of reading it. -/
def run (fl : Flags) (fs : FS) (input : InputState) (sr : SpecResult) (idValid : String → Bool)
    (render : String → String) (faults : List Fault) : Result :=
  if fl.parseError then ⟨fs, 2, false, true⟩
  else if fl.usage then ⟨fs, 0, false, true⟩
  else if fl.help then ⟨fs, 0, false, true⟩
  else if fl.version then ⟨fs, 0, false, true⟩
  else match fl.file with
    | none => ⟨fs, 1, false, true⟩
    | some _ =>
      -- arguments besides the input file (flags written after it, a second file) are an error, not ignored
      if 1 < fl.args.length then ⟨fs, 1, false, true⟩ else
      match input with
      | .readable =>
        if !sr.parseOk then ⟨fs, 1, false, true⟩
        else
          let g := generate fs fl.out (chosenName fl sr) idValid sr render faults
          if g.2 then ⟨g.1, 0, true, false⟩ else ⟨g.1, 1, false, true⟩
      | _ => ⟨fs, 1, false, true⟩

end Emerge.Cli
