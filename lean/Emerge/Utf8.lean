import Emerge.Base
/-
  UTF-8 decoding as performed by `Input.Next` of moorara/algo `lexer/input` (a copy of Go's
  `unicode/utf8` tables) and encoding (Go `string(rune)` for valid runes).
-/
namespace Emerge.Utf8

inductive Tail where
  | eof        -- the bytes ended (possibly inside a multi-byte sequence: `next()` returns io.EOF)
  | invalid    -- "invalid utf-8 character"
  deriving DecidableEq, Repr, Inhabited

def cont (b : Nat) : Bool := 0x80 ≤ b && b ≤ 0xBF

/-- Decode as many runes as possible. Fuel = number of bytes. -/
def decode : Nat → List Nat → List Rune × Tail
  | 0, _ => ([], .eof)
  | _, [] => ([], .eof)
  | n + 1, b0 :: rest =>
    if b0 < 0x80 then
      let r := decode n rest; (b0 :: r.1, r.2)
    else if 0xC2 ≤ b0 && b0 ≤ 0xDF then
      match rest with
      | [] => ([], .eof)
      | b1 :: rest1 =>
        if cont b1 then
          let r := decode n rest1; (((b0 % 32) * 64 + (b1 % 64)) :: r.1, r.2)
        else ([], .invalid)
    else if 0xE0 ≤ b0 && b0 ≤ 0xEF then
      match rest with
      | [] => ([], .eof)
      | b1 :: rest1 =>
        let lo := if b0 = 0xE0 then 0xA0 else 0x80
        let hi := if b0 = 0xED then 0x9F else 0xBF
        if lo ≤ b1 && b1 ≤ hi then
          match rest1 with
          | [] => ([], .eof)
          | b2 :: rest2 =>
            if cont b2 then
              let r := decode n rest2
              (((b0 % 16) * 4096 + (b1 % 64) * 64 + (b2 % 64)) :: r.1, r.2)
            else ([], .invalid)
        else ([], .invalid)
    else if 0xF0 ≤ b0 && b0 ≤ 0xF4 then
      match rest with
      | [] => ([], .eof)
      | b1 :: rest1 =>
        let lo := if b0 = 0xF0 then 0x90 else 0x80
        let hi := if b0 = 0xF4 then 0x8F else 0xBF
        if lo ≤ b1 && b1 ≤ hi then
          match rest1 with
          | [] => ([], .eof)
          | b2 :: rest2 =>
            if cont b2 then
              match rest2 with
              | [] => ([], .eof)
              | b3 :: rest3 =>
                if cont b3 then
                  let r := decode n rest3
                  (((b0 % 8) * 262144 + (b1 % 64) * 4096 + (b2 % 64) * 64 + (b3 % 64)) :: r.1, r.2)
                else ([], .invalid)
            else ([], .invalid)
        else ([], .invalid)
    else ([], .invalid)

def encodeRune (r : Rune) : List Nat :=
  if r < 0x80 then [r]
  else if r < 0x800 then [0xC0 + r / 64, 0x80 + r % 64]
  else if r < 0x10000 then [0xE0 + r / 4096, 0x80 + (r / 64) % 64, 0x80 + r % 64]
  else [0xF0 + r / 262144, 0x80 + (r / 4096) % 64, 0x80 + (r / 64) % 64, 0x80 + r % 64]

def encode (rs : List Rune) : List Nat := rs.flatMap encodeRune

end Emerge.Utf8
