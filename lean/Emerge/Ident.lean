/-
  Model of `isIDValid` (`internal/generate/golang/code.go`): the rule for a usable package name.

    idRegex.MatchString(name) && name != "_" && !generic.AnyMatch(builtin, func(s string) bool { return s == name })
    idRegex = ^[\p{L}_][\p{L}\p{Nd}_]*$

  The two Unicode classes are parameters (`isL`: category L*, `isNd`: category Nd): what the model fixes is the shape
  of an identifier over them, the blank identifier, and the reserved names. The reference lists are the Go
  specification's keywords and predeclared identifiers. Core Lean only.
-/
namespace Emerge.Ident

/-- The Go Programming Language Specification, “Keywords” -/
def goKeywords : List String :=
  ["break", "default", "func", "interface", "select", "case", "defer", "go", "map", "struct", "chan", "else", "goto",
   "package", "switch", "const", "fallthrough", "if", "range", "type", "continue", "for", "import", "return", "var"]

/-- The Go Programming Language Specification, “Predeclared identifiers” (types, constants, zero value, functions) -/
def goPredeclared : List String :=
  ["any", "bool", "byte", "comparable", "complex64", "complex128", "error", "float32", "float64", "int", "int8", "int16",
   "int32", "int64", "rune", "string", "uint", "uint8", "uint16", "uint32", "uint64", "uintptr",
   "true", "false", "iota", "nil",
   "append", "cap", "clear", "close", "complex", "copy", "delete", "imag", "len", "make", "max", "min", "new", "panic",
   "print", "println", "real", "recover"]

/-- `^[\p{L}_][\p{L}\p{Nd}_]*$` -/
def shape (isL isNd : Char → Bool) : List Char → Bool
  | [] => false
  | c :: cs => (isL c || c == '_') && cs.all (fun d => isL d || isNd d || d == '_')

def isIDValid (isL isNd : Char → Bool) (builtin : List String) (name : String) : Bool :=
  shape isL isNd name.toList && name != "_" && !builtin.contains name

end Emerge.Ident
