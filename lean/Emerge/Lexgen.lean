import Emerge.Base
/-
  The decision logic of `Spec.DFA()` (`/repo/internal/ebnf/parser/spec/spec.go`): which terminal an accepting
  state of the combined automaton is attributed to, and when a conflict is reported; and `stringToDFA`.
  Core Lean only.
-/
namespace Emerge.Lexgen

/-- One definition that owns a state: its index in `Spec.Definitions` and whether it is a pattern. -/
structure Owner where
  idx : Nat
  isRegex : Bool
  deriving DecidableEq, Repr

inductive Win where
  | none                          -- `case 0`
  | term (i : Nat)                -- the state is appended to termMap[defs[i].Terminal]
  | conflict (is : List Nat)      -- "conflicting definitions capture the same string"
  deriving DecidableEq, Repr

/-- `switch len(defs)`: 0, 1, default (prefer the string definition if there is exactly one). -/
def winner (owners : List Owner) : Win :=
  match owners with
  | [] => .none
  | [o] => .term o.idx
  | os =>
    match os.filter (fun o => !o.isRegex) with
    | [s] => .term s.idx
    | _ => .conflict (os.map (·.idx))

/-- `stringToDFA(value)`: the chain `0 -v[0]-> 1 -v[1]-> … -> |v|`, accepting in `|v|`. -/
def strNext (v : List Rune) (s : Nat) (c : Rune) : Option Nat :=
  if v[s]? = some c then some (s + 1) else none

def strRun (v : List Rune) : Nat → List Rune → Option Nat
  | s, [] => some s
  | s, c :: w => match strNext v s c with
    | some s' => strRun v s' w
    | none => none

def strAccepts (v w : List Rune) : Bool := strRun v 0 w == some v.length

end Emerge.Lexgen
