import Emerge.Base
/-
  The decision logic of `Spec.DFA()` (`/repo/internal/ebnf/parser/spec/spec.go`): which terminal an accepting
  state of the combined automaton is attributed to, and when a conflict is reported; and `stringToDFA`.
  Core Lean only.
-/
namespace Emerge.Lexgen

/-- One definition that owns a state: its index in `Spec.Definitions` and whether it is a pattern. -/
structure Owner where
  idx : Nat
  isRegex : Bool
  deriving DecidableEq, Repr

inductive Win where
  | none                          -- `case 0`
  | term (i : Nat)                -- the state is appended to termMap[defs[i].Terminal]
  | conflict (is : List Nat)      -- "conflicting definitions capture the same string"
  deriving DecidableEq, Repr

/-- `switch len(defs)`: 0, 1, default (prefer the string definition if there is exactly one). -/
def winner (owners : List Owner) : Win :=
  match owners with
  | [] => .none
  | [o] => .term o.idx
  | os =>
    match os.filter (fun o => !o.isRegex) with
    | [s] => .term s.idx
    | _ => .conflict (os.map (·.idx))

/-- `stringToDFA(value)`: the chain `0 -v[0]-> 1 -v[1]-> … -> |v|`, accepting in `|v|`. -/
def strNext (v : List Rune) (s : Nat) (c : Rune) : Option Nat :=
  if v[s]? = some c then some (s + 1) else none

def strRun (v : List Rune) : Nat → List Rune → Option Nat
  | s, [] => some s
  | s, c :: w => match strNext v s c with
    | some s' => strRun v s' w
    | none => none

def strAccepts (v w : List Rune) : Bool := strRun v 0 w == some v.length

end Emerge.Lexgen

namespace Emerge.Lexgen

/-! ### `groupDFAStates` and the emitted `advanceDFA` / `evalDFA` switches -/

abbrev Trans := List (Nat × Rune × Nat)

/-- the automaton's transition function, given as a list of (from, symbol, to) -/
def next (t : Trans) (s : Nat) (r : Rune) : Option Nat :=
  (t.find? (fun e => e.1 == s && e.2.1 == r)).map (·.2.2)

/-- no two transitions from one state on one symbol -/
def Deterministic (t : Trans) : Prop :=
  ∀ s r n m, (s, r, n) ∈ t → (s, r, m) ∈ t → n = m

/-- `groups[from][to] = symbols`: what `groupDFAStates` builds (as association lists) -/
abbrev Groups := List (Nat × List (Nat × List Rune))

def addRow (rows : List (Nat × List Rune)) (to : Nat) (r : Rune) : List (Nat × List Rune) :=
  match rows with
  | [] => [(to, [r])]
  | (n, rs) :: rest => if n = to then (n, rs ++ [r]) :: rest else (n, rs) :: addRow rest to r

def addTrans (g : Groups) (s : Nat) (r : Rune) (to : Nat) : Groups :=
  match g with
  | [] => [(s, [(to, [r])])]
  | (f, rows) :: rest => if f = s then (f, addRow rows to r) :: rest else (f, rows) :: addTrans rest s r to

def group (t : Trans) : Groups := t.foldl (fun g e => addTrans g e.1 e.2.1 e.2.2) []

/-- the emitted `switch state { case from: switch r { case symbols…: return to } }` -/
def evalRows (rows : List (Nat × List Rune)) (r : Rune) : Option Nat :=
  (rows.find? (fun row => row.2.contains r)).map (·.1)

def evalSwitch (g : Groups) (s : Nat) (r : Rune) : Option Nat :=
  match g.find? (fun e => e.1 == s) with
  | none => none
  | some (_, rows) => evalRows rows r

/-- the emitted `evalDFA`: one `case states…: return terminal` per definition that owns states -/
def evalFinals (fs : List (String × List Nat)) (s : Nat) : Option String :=
  (fs.find? (fun f => f.2.contains s)).map (·.1)

end Emerge.Lexgen
