def hello := "world"
