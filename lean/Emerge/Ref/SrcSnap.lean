-- Recorded by tools/snap_accept.sh from /repo at 054c69f: the digests of the statements the models were written against
namespace Emerge.Ref.SrcSnap

def digest_C01 : Nat := 0x93e9b3c64391f96f3683de11fbd96709
def count_C01 : Nat := 35

def digest_C02 : Nat := 0xe62aa32e97c8f485b240c0d59562636e
def count_C02 : Nat := 68

def digest_C03 : Nat := 0xc298bba11c2f9eaaf7e1a790496724b9
def count_C03 : Nat := 9

def digest_C04 : Nat := 0xb7295ad77636e1a79227c1cbd8405034
def count_C04 : Nat := 12

def digest_C05 : Nat := 0xc645fcb1a5bcb334e037ad27420cd31f
def count_C05 : Nat := 17

def digest_C06 : Nat := 0xfcc70ba3121db6884582b37fec3dbc3a
def count_C06 : Nat := 16

def digest_C07 : Nat := 0xecdb4deb51f905c75cf6ff69b73906c7
def count_C07 : Nat := 19

def digest_C08 : Nat := 0x0183b72940fe9a5fea1d124c89904be6
def count_C08 : Nat := 20

def digest_C09 : Nat := 0xa70da57fe43b5cf275324e42b83d13e1
def count_C09 : Nat := 91

def digest_C10 : Nat := 0x6e7ed75e1bbfaf2bddfd49f49af04605
def count_C10 : Nat := 74

def digest_C11 : Nat := 0xb395026e4ed347441188611c23c4f0e7
def count_C11 : Nat := 37

def digest_C12 : Nat := 0x4f596da4ac9b5de0efeff0c63f981774
def count_C12 : Nat := 10

def digest_C13 : Nat := 0xb732922a40ef79e81c26ca6053f5a1cc
def count_C13 : Nat := 7

def digest_C14 : Nat := 0x176abf2b62ad552af982a448a04db69c
def count_C14 : Nat := 11

def digest_C15 : Nat := 0xc8bef28408cbbd0b8f82c2344578479d
def count_C15 : Nat := 12

def digest_C16 : Nat := 0x9272f4aed1f602d69d3dabf84bbd1a9f
def count_C16 : Nat := 11

def digest_C17 : Nat := 0xc0ec932b33336b2e5c84471939fcc3ef
def count_C17 : Nat := 15

def digest_C18 : Nat := 0xf458a7b7da143ebac954bb4c25dd6188
def count_C18 : Nat := 9

def digest_C19 : Nat := 0xf588a8781d41fb35c4cd17b7cba1be68
def count_C19 : Nat := 8

def digest_C20 : Nat := 0x317cf3149b0a48ea220939b33d831cc5
def count_C20 : Nat := 8

end Emerge.Ref.SrcSnap
