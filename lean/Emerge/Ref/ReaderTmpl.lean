/-
  The statements of the byte-level methods of the emitted reader (templates/input.go.tmpl) that the model
  `Emerge.Reader` follows, as the translator prints them (go/printer, one line, comments dropped). Hand-written
  expectation: `Emerge.Inst.ReaderTmpl` proves that the regenerated strings are these, so any edit of those methods
  breaks a proof obligation and sends the check looking for a failing input.

    load / loadFirst / loadSecond  ~ Reader.load (n bytes or fewer + sentinel; ReadFull's two end-of-input errors)
    next                           ~ Reader.next
    Next                           ~ ReaderNext.nextRune (a rune from 1-4 calls of next; first-byte tables; the column/line
                                     bookkeeping and the rune-size stack are not modelled)
    next                           ~ … and appends the byte it returns to `pending`
    Retract                        ~ Reader.retract, drops the given-back bytes from `pending` (the rune-size stack and the
                                     column bookkeeping are not modelled)
    Lexeme / Skip                  ~ Reader.lexeme / Reader.skip: return / clear `pending` (position bookkeeping not modelled)
-/
namespace Emerge.Ref.ReaderTmpl

def body_load : String := "{ n, err := io.ReadFull(i.src, i.buff[low:high]) if err == io.EOF || err == io.ErrUnexpectedEOF { i.buff[low+n] = eof i.end = low + n return nil } return err }"

def body_loadFirst : String := "{ return i.load(0, len(i.buff)/2) }"

def body_loadSecond : String := "{ return i.load(len(i.buff)/2, len(i.buff)) }"

def body_next : String := "{ if i.err != nil { return 0, i.err } b := i.buff[i.forward] if b == eof && i.forward == i.end { return 0, io.EOF } i.forward++ i.pending = append(i.pending, b) if i.retracted > 0 { i.retracted-- if i.forward == len(i.buff) { i.forward = 0 } } else if i.forward == len(i.buff)/2 { i.err = i.loadSecond() } else if i.forward == len(i.buff) { if i.err = i.loadFirst(); i.err == nil { i.forward = 0 } } return b, nil }"

def body_Next : String := "{ b0, err := i.next() if err != nil { return 0, err } x := first[b0] if x >= as { if x == xx { return 0, &InputError{ Description: \"invalid utf-8 character\", Pos: i.forwardPos(), } } if b0 == '\\n' { i.lastColumns.Push(i.nextColumn) i.nextColumn = 1 } else { i.nextColumn++ } i.runeSizes.Push(1) return rune(b0), nil } size := int(x & 0b0111) b1, err := i.next() if err != nil { return 0, err } accept := acceptRanges[x>>4] if b1 < accept.lo || accept.hi < b1 { return 0, &InputError{ Description: \"invalid utf-8 character\", Pos: i.forwardPos(), } } if size == 2 { i.runeSizes.Push(size) i.nextColumn++ return rune(b0&mask2)<<6 | rune(b1&maskx), nil } b2, err := i.next() if err != nil { return 0, err } if b2 < locb || hicb < b2 { return 0, &InputError{ Description: \"invalid utf-8 character\", Pos: i.forwardPos(), } } if size == 3 { i.runeSizes.Push(size) i.nextColumn++ return rune(b0&mask3)<<12 | rune(b1&maskx)<<6 | rune(b2&maskx), nil } b3, err := i.next() if err != nil { return 0, err } if b3 < locb || hicb < b3 { return 0, &InputError{ Description: \"invalid utf-8 character\", Pos: i.forwardPos(), } } i.runeSizes.Push(size) i.nextColumn++ return rune(b0&mask4)<<18 | rune(b1&maskx)<<12 | rune(b2&maskx)<<6 | rune(b3&maskx), nil }"

def body_Retract : String := "{ if size, ok := i.runeSizes.Pop(); ok { i.forward -= size if i.forward < 0 { i.forward += len(i.buff) } i.retracted += size i.pending = i.pending[:len(i.pending)-size] if i.buff[i.forward] == '\\n' { if lastColumn, ok := i.lastColumns.Pop(); ok { i.nextColumn = lastColumn } } else { i.nextColumn-- } } }"

def body_Lexeme : String := "{ pos := i.pos() lexeme := string(i.pending) i.pending = i.pending[:0] i.lexemeBegin = i.forward for !i.runeSizes.IsEmpty() { i.runeSizes.Pop() i.offset++ } for !i.lastColumns.IsEmpty() { i.lastColumns.Pop() i.line++ } i.column = i.nextColumn return lexeme, pos }"

def body_Skip : String := "{ pos := i.pos() i.lexemeBegin = i.forward i.pending = i.pending[:0] for !i.runeSizes.IsEmpty() { i.runeSizes.Pop() i.offset++ } for !i.lastColumns.IsEmpty() { i.lastColumns.Pop() i.line++ } i.column = i.nextColumn return pos }"

end Emerge.Ref.ReaderTmpl
