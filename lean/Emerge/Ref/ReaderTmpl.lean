/-
  The statements of the byte-level methods of the emitted reader (templates/input.go.tmpl) that the model
  `Emerge.Reader` follows, as the translator prints them (go/printer, one line, comments dropped). Hand-written
  expectation: `Emerge.Inst.ReaderTmpl` proves that the regenerated strings are these, so any edit of those methods
  breaks a proof obligation and sends the check looking for a failing input.

    load / loadFirst / loadSecond  ~ Reader.load (n bytes or fewer + sentinel; ReadFull's two end-of-input errors)
    next                           ~ Reader.next
    next                           ~ … and appends the byte it returns to `pending`
    Retract                        ~ Reader.retract, drops the given-back bytes from `pending` (the rune-size stack and the
                                     column bookkeeping are not modelled)
    Lexeme / Skip                  ~ Reader.lexeme / Reader.skip: return / clear `pending` (position bookkeeping not modelled)
-/
namespace Emerge.Ref.ReaderTmpl

def body_load : String := "{ n, err := io.ReadFull(i.src, i.buff[low:high]) if err == io.EOF || err == io.ErrUnexpectedEOF { i.buff[low+n] = eof return nil } return err }"

def body_loadFirst : String := "{ return i.load(0, len(i.buff)/2) }"

def body_loadSecond : String := "{ return i.load(len(i.buff)/2, len(i.buff)) }"

def body_next : String := "{ if i.err != nil { return 0, i.err } b := i.buff[i.forward] if b == eof { return 0, io.EOF } i.forward++ i.pending = append(i.pending, b) if i.retracted > 0 { i.retracted-- if i.forward == len(i.buff) { i.forward = 0 } } else if i.forward == len(i.buff)/2 { i.err = i.loadSecond() } else if i.forward == len(i.buff) { if i.err = i.loadFirst(); i.err == nil { i.forward = 0 } } return b, nil }"

def body_Retract : String := "{ if size, ok := i.runeSizes.Pop(); ok { i.forward -= size if i.forward < 0 { i.forward += len(i.buff) } i.retracted += size i.pending = i.pending[:len(i.pending)-size] if i.buff[i.forward] == '\\n' { if lastColumn, ok := i.lastColumns.Pop(); ok { i.nextColumn = lastColumn } } else { i.nextColumn-- } } }"

def body_Lexeme : String := "{ pos := i.pos() lexeme := string(i.pending) i.pending = i.pending[:0] i.lexemeBegin = i.forward for !i.runeSizes.IsEmpty() { i.runeSizes.Pop() i.offset++ } for !i.lastColumns.IsEmpty() { i.lastColumns.Pop() i.line++ } i.column = i.nextColumn return lexeme, pos }"

def body_Skip : String := "{ pos := i.pos() i.lexemeBegin = i.forward i.pending = i.pending[:0] for !i.runeSizes.IsEmpty() { i.runeSizes.Pop() i.offset++ } for !i.lastColumns.IsEmpty() { i.lastColumns.Pop() i.line++ } i.column = i.nextColumn return pos }"

end Emerge.Ref.ReaderTmpl
