import Emerge.Regex.Comb
/-
  The pattern grammar as documented in `docs/5-definitions.md` ("Regular Expression / Grammar"),
  transcribed by hand, rule by rule, into the combinator vocabulary (`[x]` = `.opt`, `{{x}}` = `.rep1`,
  `|` = `.alt`, juxtaposition = `.cat`). Each entry quotes the documented rule. Deviations from the
  text of the documentation, kept because they do not change the language:
    * every rule is wrapped in the name of the mapper attached to it (`.map name`), which has no
      effect on the language (`Matches.map`);
    * `repetition = "?" | "*" | "+" | range` is split into `repOp` and `range_` as in the code;
    * `hex_digit{2}` / `hex_digit{4,8}` are written out;
    * `unescaped_char` ("all characters excluding the escaped ones") and `char` ("all characters")
      are the printable ASCII range 0x20–0x7E, the escaped ones being the thirteen listed in `escaped_char`.
  `Emerge.Inst.Regex` proves by `rfl` that the term regenerated from parser.go equals this one.
-/
namespace Emerge.Ref.Regex
open Emerge.Regex

def s (x : String) : Comb := .str (x.toList.map Char.toNat)
def c (x : Char) : Comb := .rune x.toNat
def r (lo hi : Char) : Comb := .range lo.toNat hi.toNat

/-- `"\" | "|" | "." | "?" | "*" | "+" | "(" | ")" | "[" | "]" | "{" | "}" | "$"` -/
def escaped : List Nat := ['\\', '|', '.', '?', '*', '+', '(', ')', '[', ']', '{', '}', '$'].map Char.toNat

def top : String := "regex"

def rules : Rules := [
  -- digit = "0" | … | "9"
  ("digit", .map "toDigit" (r '0' '9')),
  -- hex_digit = "0" | … | "9" | "A" | … | "F"
  ("hexDigit", .map "toHexDigit" (.alt [r '0' '9', r 'A' 'F'])),
  -- letter = "A" | … | "Z" | "a" | … | "z"
  ("letter", .alt [r 'A' 'Z', r 'a' 'z']),
  -- num = {{ digit }}
  ("num", .map "toNum" (.rep1 (.nt "digit"))),
  -- letters = {{ letter }}
  ("letters", .map "toLetters" (.rep1 (.nt "letter"))),
  -- char = # all characters
  ("char", .range 0x20 0x7E),
  -- unescaped_char = # all characters excluding the escaped ones
  ("unescapedChar", .rangeExcl 0x20 0x7E escaped),
  -- escaped_char = "\" ( "\" | "|" | "." | "?" | "*" | "+" | "(" | ")" | "[" | "]" | "{" | "}" | "$" )
  ("escapedChar", .map "toEscapedChar" (.cat [c '\\', .runeIn escaped])),
  -- ascii_char = "\x" hex_digit{2}
  ("asciiChar", .map "toASCIIChar" (.cat [s "\\x", .nt "hexDigit", .nt "hexDigit"])),
  -- unicode_char = "\x" hex_digit{4,8}
  ("unicodeChar", .map "toUnicodeChar" (.cat [s "\\x", .nt "hexDigit", .nt "hexDigit", .nt "hexDigit", .nt "hexDigit",
      .opt (.nt "hexDigit"), .opt (.nt "hexDigit"), .opt (.nt "hexDigit"), .opt (.nt "hexDigit")])),
  -- any_char = "."
  ("anyChar", .map "ToAnyChar" (c '.')),
  -- single_char = unicode_char | ascii_char | escaped_char | unescaped_char
  ("singleChar", .map "ToSingleChar" (.alt [.nt "unicodeChar", .nt "asciiChar", .nt "escapedChar", .nt "unescapedChar"])),
  -- char_class = "\s" | "\S" | "\d" | "\D" | "\w" | "\W"
  ("charClass", .map "ToCharClass" (.alt [s "\\s", s "\\S", s "\\d", s "\\D", s "\\w", s "\\W"])),
  -- ascii_char_class = "[:blank:]" | "[:space:]" | "[:digit:]" | "[:xdigit:]" | "[:upper:]" | "[:lower:]" | "[:alpha:]" | "[:alnum:]" | "[:word:]" | "[:ascii:]"
  ("asciiCharClass", .map "ToASCIICharClass" (.alt [s "[:blank:]", s "[:space:]", s "[:digit:]", s "[:xdigit:]", s "[:upper:]",
      s "[:lower:]", s "[:alpha:]", s "[:alnum:]", s "[:word:]", s "[:ascii:]"])),
  -- unicode_category = "Math" | "Emoji" | "Latin" | … (the alternatives are tried in the order of the code, longest spellings
  -- of a common prefix first, e.g. "Letter" before "L"; as a grammar the order is immaterial)
  ("unicodeCategory", .map "ToUnicodeCategory" (.alt [s "Letter", s "Math", s "Emoji",
      s "Latin", s "Greek", s "Cyrillic", s "Han", s "Persian",
      s "Lu", s "Ll", s "Lt", s "Lm", s "Lo", s "L",
      s "Mark", s "Mn", s "Mc", s "Me", s "M",
      s "Number", s "Nd", s "Nl", s "No", s "N",
      s "Punctuation", s "Pc", s "Pd", s "Ps", s "Pe", s "Pi", s "Pf", s "Po", s "P",
      s "Separator", s "Zs", s "Zl", s "Zp", s "Z",
      s "Symbol", s "Sm", s "Sc", s "Sk", s "So", s "S"])),
  -- unicode_char_class = ( "\p" | "\P" ) "{" unicode_category "}"
  ("unicodeCharClass", .map "ToUnicodeCharClass" (.cat [.alt [s "\\p", s "\\P"], c '{', .nt "unicodeCategory", c '}'])),
  -- repetition = "?" | "*" | "+" | range        (first three)
  ("repOp", .map "ToRepOp" (.alt [c '?', c '*', c '+'])),
  -- upper_bound = "," [ num ]
  ("upperBound", .map "ToUpperBound" (.cat [c ',', .opt (.nt "num")])),
  -- range = "{" num [ upper_bound ] "}"
  ("range_", .map "ToRange" (.cat [c '{', .nt "num", .opt (.nt "upperBound"), c '}'])),
  -- repetition = "?" | "*" | "+" | range
  ("repetition", .map "ToRepetition" (.alt [.nt "repOp", .nt "range_"])),
  -- quantifier = repetition [ "?" ]
  ("quantifier", .map "ToQuantifier" (.cat [.nt "repetition", .opt (c '?')])),
  -- char_in_range = unicode_char | ascii_char | char
  ("charInRange", .map "ToCharInRange" (.alt [.nt "unicodeChar", .nt "asciiChar", .nt "char"])),
  -- char_range = char_in_range "-" char_in_range
  ("charRange", .map "ToCharRange" (.cat [.nt "charInRange", c '-', .nt "charInRange"])),
  -- char_group_item = unicode_char_class | ascii_char_class | char_class | char_range | single_char
  ("charGroupItem", .map "ToCharGroupItem" (.alt [.nt "unicodeCharClass", .nt "asciiCharClass", .nt "charClass", .nt "charRange", .nt "singleChar"])),
  -- char_group = "[" [ "^" ] {{ char_group_item }} "]"
  ("charGroup", .map "ToCharGroup" (.cat [c '[', .opt (c '^'), .rep1 (.nt "charGroupItem"), c ']'])),
  -- match_item = any_char | single_char | char_class | ascii_char_class | unicode_char_class | char_group
  ("matchItem", .map "ToMatchItem" (.alt [.nt "anyChar", .nt "singleChar", .nt "charClass", .nt "asciiCharClass", .nt "unicodeCharClass", .nt "charGroup"])),
  -- match = match_item [ quantifier ]
  ("match", .map "ToMatch" (.cat [.nt "matchItem", .opt (.nt "quantifier")])),
  -- anchor = "$"
  ("anchor", .map "ToAnchor" (c '$')),
  -- regex = [ "^" ] expr
  ("regex", .map "ToRegex" (.cat [.opt (c '^'), .nt "expr"])),
  -- group = "(" expr ")" [ quantifier ]
  ("group", .map "ToGroup" (.cat [c '(', .nt "expr", c ')', .opt (.nt "quantifier")])),
  -- subexpr_item = anchor | group | match
  ("subexprItem", .map "ToSubexprItem" (.alt [.nt "anchor", .nt "group", .nt "match"])),
  -- subexpr = {{ subexpr_item }}
  ("subexpr", .map "ToSubexpr" (.rep1 (.nt "subexprItem"))),
  -- expr = subexpr [ "|" expr ]
  ("expr", .map "ToExpr" (.cat [.nt "subexpr", .opt (.cat [c '|', .nt "expr"])]))
]

/-- The documented pattern language: sentences of the grammar above from `regex`. -/
def DocRegex (u : List Rune) : Prop := Matches rules (.nt top) u

end Emerge.Ref.Regex
