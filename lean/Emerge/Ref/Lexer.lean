import Emerge.Scanner
/-
  Reference scanner automaton, written with range predicates from the token table of
  `docs/5-definitions.md` and the automaton listing of `docs/6-design.md`, with the two points
  where the property text overrides the listing:
    * a `/* */` comment ends at the FIRST `*/` (the listing sends state 53 back to 52 on `*`);
    * the token table gives TOKEN = /[A-Z][0-9A-Z_]*/, so a single capital letter is a TOKEN
      (the listing has state 41 non-accepting).
-/
namespace Emerge.Ref.Lexer
open Emerge Emerge.Scanner

def inR (lo hi r : Nat) : Bool := lo ≤ r && r ≤ hi

def lower (r : Nat) := inR 97 122 r
def upper (r : Nat) := inR 65 90 r
def digit (r : Nat) := inR 48 57 r
def identTail (r : Nat) := lower r || digit r || r == 95
def tokTail (r : Nat) := upper r || digit r || r == 95
/-- `all` of the design document: 0x21–0x7E -/
def vis (r : Nat) := inR 0x21 0x7E r
def spvis (r : Nat) := inR 0x20 0x7E r

/-- inside the keyword `grammar`: the expected letter continues the keyword, any other
    identifier character makes it a plain identifier -/
def kw (r : Nat) (c : Nat) (nx : Nat) : Option Nat :=
  if r == c then some nx else if identTail r then some 40 else none

/-- transitions on 7-bit characters -/
def advance7 (s r : Nat) : Option Nat :=
  match s with
  | 0 =>
    if r == 9 || r == 32 then some 1 else
    if r == 10 || r == 13 then some 2 else
    if r == 61 then some 3 else if r == 59 then some 4 else if r == 124 then some 5 else
    if r == 40 then some 6 else if r == 41 then some 7 else if r == 91 then some 8 else
    if r == 93 then some 9 else if r == 123 then some 10 else if r == 125 then some 11 else
    if r == 60 then some 14 else if r == 62 then some 15 else if r == 36 then some 16 else
    if r == 64 then some 18 else if r == 103 then some 32 else
    if lower r then some 39 else if upper r then some 41 else
    if r == 34 then some 43 else if r == 47 then some 47 else none
  | 1 => if r == 9 || r == 32 then some 1 else none
  | 2 => if r == 10 || r == 13 then some 2 else none
  | 10 => if r == 123 then some 12 else none
  | 11 => if r == 125 then some 13 else none
  | 16 => if upper r then some 17 else none
  | 17 => if tokTail r then some 17 else none
  | 18 => if r == 108 then some 19 else if r == 114 then some 23 else if r == 110 then some 28 else none
  | 19 => if r == 101 then some 20 else none
  | 20 => if r == 102 then some 21 else none
  | 21 => if r == 116 then some 22 else none
  | 23 => if r == 105 then some 24 else none
  | 24 => if r == 103 then some 25 else none
  | 25 => if r == 104 then some 26 else none
  | 26 => if r == 116 then some 27 else none
  | 28 => if r == 111 then some 29 else none
  | 29 => if r == 110 then some 30 else none
  | 30 => if r == 101 then some 31 else none
  | 32 => kw r 114 33
  | 33 => kw r 97 34
  | 34 => kw r 109 35
  | 35 => kw r 109 36
  | 36 => kw r 97 37
  | 37 => kw r 114 38
  | 38 => if identTail r then some 40 else none
  | 39 => if identTail r then some 40 else none
  | 40 => if identTail r then some 40 else none
  | 41 => if tokTail r then some 42 else none
  | 42 => if tokTail r then some 42 else none
  | 43 => if r == 92 then some 44 else if vis r && r != 34 then some 45 else none
  | 44 => if vis r then some 45 else none
  | 45 => if r == 92 then some 44 else if r == 34 then some 46 else if vis r then some 45 else none
  | 47 => if r == 92 then some 48 else if r == 47 then some 51 else if r == 42 then some 52 else
          if spvis r then some 49 else none
  | 48 => if spvis r then some 49 else none
  | 49 => if r == 92 then some 48 else if r == 47 then some 50 else if spvis r then some 49 else none
  | 51 => if r == 9 || spvis r then some 51 else none
  | 52 => if r == 42 then some 53 else if r == 9 || r == 10 || r == 13 || spvis r then some 52 else none
  | 53 => if r == 47 then some 54 else if r == 42 then some 53 else
          if r == 9 || r == 10 || r == 13 || spvis r then some 52 else none
  | _ => none

/-- The documented alphabet is 7-bit ASCII: no state has a transition on any other code point. -/
def advance (s r : Nat) : Option Nat := if r < 128 then advance7 s r else none

def chars (s : String) : List Rune := s.toList.map Char.toNat

/-- Accepting states: token kind and how the lexeme is obtained (token table of 5-definitions.md). -/
def eval (s : Nat) : Option (String × Mode) :=
  match s with
  | 1 => some ("WS", .lit [])
  | 2 => some ("EOL", .lit [])
  | 3 => some ("=", .lit (chars "="))
  | 4 => some (";", .lit (chars ";"))
  | 5 => some ("|", .lit (chars "|"))
  | 6 => some ("(", .lit (chars "("))
  | 7 => some (")", .lit (chars ")"))
  | 8 => some ("[", .lit (chars "["))
  | 9 => some ("]", .lit (chars "]"))
  | 10 => some ("{", .lit (chars "{"))
  | 11 => some ("}", .lit (chars "}"))
  | 12 => some ("{{", .lit (chars "{{"))
  | 13 => some ("}}", .lit (chars "}}"))
  | 14 => some ("<", .lit (chars "<"))
  | 15 => some (">", .lit (chars ">"))
  | 17 => some ("PREDEF", .text)
  | 22 => some ("@left", .lit (chars "@left"))
  | 27 => some ("@right", .lit (chars "@right"))
  | 31 => some ("@none", .lit (chars "@none"))
  | 38 => some ("grammar", .lit (chars "grammar"))
  | 32 | 33 | 34 | 35 | 36 | 37 | 39 | 40 => some ("IDENT", .text)
  | 41 | 42 => some ("TOKEN", .text)
  | 46 => some ("STRING", .inner)
  | 50 => some ("REGEX", .inner)
  | 51 => some ("COMMENT", .lit [])
  | 54 => some ("COMMENT", .lit [])
  | _ => none

def skipped (k : String) : Bool := k == "WS" || k == "EOL" || k == "COMMENT"

def spec : Scanner.Spec := ⟨advance, eval, skipped⟩

end Emerge.Ref.Lexer
