import Emerge.CFG
/-
  The documented EBNF grammar of emerge (docs/5-definitions.md), transcribed by hand.

      grammar   = name {decl}
      name      = "grammar" IDENT [";"]
      decl      = token [";"] | directive [";"] | rule ";"
      token     = TOKEN "=" (STRING | REGEX | PREDEF)
      directive = ("@left" | "@right" | "@none") {{term | "<" rule ">"}}
      rule      = lhs "=" [rhs]
      lhs       = nonterm
      rhs       = rhs rhs | "(" rhs ")" | "[" rhs "]" | "{" rhs "}" | "{{" rhs "}}" | rhs "|" rhs | rhs "|" | nonterm | term
      nonterm   = IDENT
      term      = TOKEN | STRING

  with `{decl}` written as the left-recursive list `decls`, `[";"]` as `semi_opt`, the `{{…}}` of
  `directive` as the left-recursive list `handles` and `"<" rule ">"` as `rule_handle`; and the
  published precedence list

      @left  <rhs = rhs rhs>
      @left  "(" "[" "{" "{{" IDENT TOKEN STRING
      @right "|"
      @none  "="
      @none  "@left" "@right" "@none"
-/
namespace Emerge.Ref.Ebnf
open Emerge

def terminals : List String :=
  ["=", ";", "|", "(", ")", "[", "]", "{", "}", "{{", "}}", "<", ">",
   "grammar", "@left", "@right", "@none", "IDENT", "TOKEN", "STRING", "REGEX", "PREDEF"]

def nonTerminals : List String :=
  ["grammar", "name", "decls", "decl", "semi_opt", "token", "directive", "handles", "rule_handle",
   "rule", "lhs", "rhs", "nonterm", "term"]

-- terminal indices
def tDEF := 0
def tSEMI := 1
def tALT := 2
def tLP := 3
def tRP := 4
def tLB := 5
def tRB := 6
def tLC := 7
def tRC := 8
def tLLC := 9
def tRRC := 10
def tLA := 11
def tRA := 12
def tGRAMMAR := 13
def tLEFT := 14
def tRIGHT := 15
def tNONE := 16
def tIDENT := 17
def tTOKEN := 18
def tSTRING := 19
def tREGEX := 20
def tPREDEF := 21
-- non-terminal indices
def nGrammar := 0
def nName := 1
def nDecls := 2
def nDecl := 3
def nSemiOpt := 4
def nToken := 5
def nDirective := 6
def nHandles := 7
def nRuleHandle := 8
def nRule := 9
def nLhs := 10
def nRhs := 11
def nNonterm := 12
def nTerm := 13

def T := Sym.t
def N := Sym.nt

def prods : List Prod := [
  (nGrammar, [N nName, N nDecls]),                    --  0
  (nName, [T tGRAMMAR, T tIDENT, N nSemiOpt]),        --  1
  (nDecls, [N nDecls, N nDecl]),                      --  2
  (nDecls, []),                                       --  3
  (nDecl, [N nToken, N nSemiOpt]),                    --  4
  (nDecl, [N nDirective, N nSemiOpt]),                --  5
  (nDecl, [N nRule, T tSEMI]),                        --  6
  (nSemiOpt, [T tSEMI]),                              --  7
  (nSemiOpt, []),                                     --  8
  (nToken, [T tTOKEN, T tDEF, T tSTRING]),            --  9
  (nToken, [T tTOKEN, T tDEF, T tREGEX]),             -- 10
  (nToken, [T tTOKEN, T tDEF, T tPREDEF]),            -- 11
  (nDirective, [T tLEFT, N nHandles]),                -- 12
  (nDirective, [T tRIGHT, N nHandles]),               -- 13
  (nDirective, [T tNONE, N nHandles]),                -- 14
  (nHandles, [N nHandles, N nTerm]),                  -- 15
  (nHandles, [N nHandles, N nRuleHandle]),            -- 16
  (nHandles, [N nTerm]),                              -- 17
  (nHandles, [N nRuleHandle]),                        -- 18
  (nRuleHandle, [T tLA, N nRule, T tRA]),             -- 19
  (nRule, [N nLhs, T tDEF, N nRhs]),                  -- 20
  (nRule, [N nLhs, T tDEF]),                          -- 21
  (nLhs, [N nNonterm]),                               -- 22
  (nRhs, [N nRhs, N nRhs]),                           -- 23
  (nRhs, [T tLP, N nRhs, T tRP]),                     -- 24
  (nRhs, [T tLB, N nRhs, T tRB]),                     -- 25
  (nRhs, [T tLC, N nRhs, T tRC]),                     -- 26
  (nRhs, [T tLLC, N nRhs, T tRRC]),                   -- 27
  (nRhs, [N nRhs, T tALT, N nRhs]),                   -- 28
  (nRhs, [N nRhs, T tALT]),                           -- 29
  (nRhs, [N nNonterm]),                               -- 30
  (nRhs, [N nTerm]),                                  -- 31
  (nNonterm, [T tIDENT]),                             -- 32
  (nTerm, [T tTOKEN]),                                -- 33
  (nTerm, [T tSTRING]) ]                              -- 34

def levels : List (Assoc × List Handle) := [
  (.left, [.prod (nRhs, [N nRhs, N nRhs])]),
  (.left, [.term tLP, .term tLB, .term tLC, .term tLLC, .term tIDENT, .term tTOKEN, .term tSTRING]),
  (.right, [.term tALT]),
  (.none, [.term tDEF]),
  (.none, [.term tLEFT, .term tRIGHT, .term tNONE]) ]

def grammar : GrammarCopy := ⟨terminals, nonTerminals, prods, nGrammar, levels⟩

end Emerge.Ref.Ebnf
