/-
  The constants and statements of the emitted lexer (templates/lexer.go.tmpl) that the models follow, as the translator
  prints them. Hand-written expectation: `Emerge.Inst.LexerTmpl` proves the regenerated strings are these.

    NextToken / scanToken /        ~ Emerge.Emitted.segments / scan (count-based end-of-input evaluation, blanks not
    evalToken                        matched by any token discarded through Skip, stray character = lexical error,
                                     Retract of one rune; scanToken reports a token of a terminal named WS/EOL/COMMENT as
                                     skipped and NextToken scans on, in a loop; an invalid final state is the second
                                     result of evalDFA, whatever the terminals are called)
    New                            ~ the reader is created with bufferSize (Emerge.Reader.init with n = 4096)
    evalDFA / advanceDFA templates ~ Emerge.Lexgen.evalRows / evalSwitch (C08): one `case` per final-state group /
                                     per source state and symbol group, default errorState / ERR token
-/
namespace Emerge.Ref.LexerTmpl

def const_errorState : String := "-1"

def const_bufferSize : String := "4096"

def const_ERR : String := "Terminal(\"ERR\")"

def const_WS : String := "Terminal(\"WS\")"

def const_EOL : String := "Terminal(\"EOL\")"

def const_COMMENT : String := "Terminal(\"COMMENT\")"

def body_New : String := "{ in, err := newInput(filename, src, bufferSize) if err != nil { return nil, err } return &Lexer{ in: in, }, nil }"

def body_NextToken : String := "{ for { if token, skipped, err := l.scanToken(); !skipped { return token, err } } }"

def body_scanToken : String := "{ curr, n := 0, 0 for { r, err := l.in.Next() if err != nil { if errors.Is(err, io.EOF) && n > 0 { return l.evalToken(curr) } return Token{}, false, err } next := advanceDFA(curr, r) if next == errorState { if n == 0 { if r == ' ' || r == '\\t' || r == '\\n' || r == '\\r' { l.in.Skip() continue } return l.evalToken(errorState) } l.in.Retract() return l.evalToken(curr) } curr = next n++ } }"

def body_evalToken : String := "{ token, ok := l.evalDFA(state) if !ok { return Token{}, false, errors.New(token.Lexeme) } switch token.Terminal { case WS, EOL, COMMENT: return Token{}, true, nil default: return token, false, nil } }"

def tmpl_evalDFA : String := "func (l *Lexer) evalDFA(state int) (Token, bool) { switch state { {{- range .DFA.FinalStates }} {{- if .States }} case {{formatInts .States}}: lexeme, pos := l.in.Lexeme() return Token{Terminal: Terminal({{printf \"%q\" .Terminal}}), Lexeme: lexeme, Pos: pos}, true {{ end }} {{- end }} } val, pos := l.in.Lexeme() return Token{ Terminal: ERR, Lexeme: fmt.Sprintf(\"lexical error at %s:%s\", pos, val), Pos: pos, }, false }"

def tmpl_advanceDFA : String := "func advanceDFA(state int, r rune) int { switch state { {{- range .DFA.Transitions }} case {{.From}}: switch r { {{- range .Trans }} case {{formatRunes .Symbols}}: return {{.Next}} {{- end }} } {{ end }} } return errorState }"

end Emerge.Ref.LexerTmpl
