/-
  The statements of the LR driver of the EBNF parser (internal/ebnf/parser/parser.go) as the translator prints them.
  Hand-written expectation: `Emerge.Inst.ParserDrv` proves the regenerated strings are these.

    nextToken         ~ the token source of LR.parse (io.EOF becomes the end marker)
    Parse             ~ LR.parse / LR.run / LR.step (shift: token callback, push; reduce: pop |body|, GOTO, production
                        callback; accept; error entry: "unexpected string"; a callback error ends the parse)
    ParseAndBuildAST  ~ LREval.astEvents (leaf per token, interior node per reduction with the popped children in order)
    ParseAndEvaluate  ~ LREval.evalEvents (values of the body left to right, position of the first, error ends the parse)
-/
namespace Emerge.Ref.ParserDrv

def body_nextToken : String := "{ token, err := p.L.NextToken() if err != nil && errors.Is(err, io.EOF) { token.Terminal, token.Lexeme = grammar.Endmarker, \"\" return token, nil } return token, err }"

def body_Parse : String := "{ stack := list.NewStack[int](1024, generic.NewEqualFunc[int]()) stack.Push(0) token, err := p.nextToken() if err != nil { return &parser.ParseError{Cause: err} } for { s, _ := stack.Peek() a := token.Terminal action, param, err := ACTION(s, a) if err != nil { return &parser.ParseError{ Description: fmt.Sprintf(\"unexpected string %q\", token.Lexeme), Cause: err, Pos: token.Pos, } } switch action { case lr.SHIFT: stack.Push(param) if tokenF != nil { if err := tokenF(&token); err != nil { return &parser.ParseError{ Cause: err, Pos: token.Pos, } } } token, err = p.nextToken() if err != nil { return &parser.ParseError{Cause: err} } case lr.REDUCE: A, β := productions[param].Head, productions[param].Body for range len(β) { stack.Pop() } t, _ := stack.Peek() next := GOTO(t, A) stack.Push(next) if prodF != nil { if err := prodF(param); err != nil { return &parser.ParseError{Cause: err} } } case lr.ACCEPT: return nil case lr.ERROR: } } }"

def body_ParseAndBuildAST : String := "{ nodes := list.NewStack[parser.Node](1024, parser.EqNode) err := p.Parse( func(token *lexer.Token) error { nodes.Push(&parser.LeafNode{ Terminal: token.Terminal, Lexeme: token.Lexeme, Position: token.Pos, }) return nil }, func(i int) error { prod := productions[i] in := &parser.InternalNode{ NonTerminal: prod.Head, Production: prod, } for range len(prod.Body) { child, _ := nodes.Pop() in.Children = append([]parser.Node{child}, in.Children...) } nodes.Push(in) return nil }, ) if err != nil { return nil, err } root, _ := nodes.Pop() return root, nil }"

def body_ParseAndEvaluate : String := "{ nodes := list.NewStack[*lr.Value](1024, nil) err := p.Parse( func(token *lexer.Token) error { copy := token.Pos nodes.Push(&lr.Value{ Val: token.Lexeme, Pos: &copy, }) return nil }, func(i int) error { l := len(productions[i].Body) rhs := make([]*lr.Value, l) for i := l - 1; i >= 0; i-- { v, _ := nodes.Pop() rhs[i] = v } lhs, err := eval(i, rhs) if err != nil { return err } v := &lr.Value{Val: lhs} if l > 0 { v.Pos = rhs[0].Pos } nodes.Push(v) return nil }, ) if err != nil { return nil, err } root, _ := nodes.Pop() return root, nil }"

end Emerge.Ref.ParserDrv
