import Emerge.Proofs.GrammarLang
/-
  The invariant of the symbol table across the semantic actions: every name in the memo table of the
  operators (`{ }`, `{{ }}`, `[ ]`, `( )`) has exactly the productions of its operator's shape for the
  recorded operand - whatever operators and rules were processed before and after.  Preserved by the
  operator actions (`closureAction`), by adding a rule whose name is not a synthesised one, and by
  everything that leaves productions and memo alone.
-/
namespace Emerge.Props.C01
open Emerge Emerge.Ebnf

theorem MemoEntry.get_set_same (e : MemoEntry) (k : Kind) (n : String) : (e.set k n).get k = n := by
  cases k <;> rfl

theorem MemoEntry.get_set_other (e : MemoEntry) {k k' : Kind} (n : String) (h : k' ≠ k) : (e.set k n).get k' = e.get k' := by
  cases k <;> cases k' <;> first | rfl | exact absurd rfl h

theorem MemoEntry.get_default (k : Kind) : ({} : MemoEntry).get k = "" := by cases k <;> rfl

/-- set-equal operands give the same shape -/
theorem ShapeMem_congr {k : Kind} {n : String} {s s' : Strings} (h : eqStrings s s' = true) (β : GString) :
    ShapeMem k n s β ↔ ShapeMem k n s' β := by
  have hm : ∀ α, α ∈ s ↔ α ∈ s' := by
    simp only [eqStrings, Bool.and_eq_true, List.all_eq_true, stringsContains, List.any_eq_true, beq_iff_eq] at h
    intro α
    constructor
    · intro ha; obtain ⟨b, hb, rfl⟩ := h.1 α ha; exact hb
    · intro ha; obtain ⟨b, hb, rfl⟩ := h.2 α ha; exact hb
  cases k <;> simp only [ShapeMem, hm]

theorem keyEq_set (s1 s2 : Strings) (h : keyEq s1 s2 = true) : eqStrings s1 s2 = true := by
  simp only [keyEq, Bool.and_eq_true] at h
  exact h.2

theorem eqStrings_symm {s s' : Strings} (h : eqStrings s s' = true) : eqStrings s' s = true := by
  simp only [eqStrings, Bool.and_eq_true] at h ⊢; exact ⟨h.2, h.1⟩

/-- the invariant -/
structure TableOk (t : SymTab) : Prop where
  /-- every production's head is a registered non-terminal -/
  heads : ∀ p ∈ t.prods, p.head ∈ t.nonTerminals
  /-- a memoised name is a registered non-terminal and has exactly its operator's productions -/
  shape : ∀ s e, (s, e) ∈ t.memo → ∀ k, e.get k ≠ "" →
    e.get k ∈ t.nonTerminals ∧ ∀ β, ⟨e.get k, β⟩ ∈ t.prods ↔ ShapeMem k (e.get k) s β
  /-- a name stands for one operator occurrence class only -/
  uniq : ∀ s e s' e', (s, e) ∈ t.memo → (s', e') ∈ t.memo → ∀ k k', e.get k ≠ "" → e.get k = e'.get k' →
    k = k' ∧ eqStrings s s' = true

theorem TableOk.empty : TableOk {} :=
  ⟨fun _ h => by simp at h, fun _ _ h => by simp at h, fun _ _ _ _ h => by simp at h⟩

/-! ### `getName`: a memoised name, or a new one recorded under a set-equal key -/

theorem mapStringToNonTerminal_nts (cfg : Cfg) (names : List (String × String)) (t : SymTab) (s : Strings) (suffix : String) :
    (mapStringToNonTerminal cfg names t s suffix).1.nonTerminals = t.nonTerminals ∧
    (mapStringToNonTerminal cfg names t s suffix).1.memo = t.memo := by
  unfold mapStringToNonTerminal
  simp only []
  repeat' split
  all_goals exact ⟨rfl, rfl⟩

theorem mem_updateMemo {m : List (Strings × MemoEntry)} {s : Strings} {k : Kind} {n : String} {s'' : Strings} {e'' : MemoEntry}
    (h : (s'', e'') ∈ updateMemo m s k n) :
    (s'', e'') ∈ m ∨ (∃ e0, m.find? (fun x => keyEq x.1 s) = some (s'', e0) ∧ e'' = e0.set k n) ∨
      (s'' = s ∧ e'' = ({} : MemoEntry).set k n) := by
  induction m with
  | nil =>
    simp only [updateMemo, List.mem_singleton, Prod.mk.injEq] at h
    exact Or.inr (Or.inr h)
  | cons x m ih =>
    obtain ⟨s', e⟩ := x
    simp only [updateMemo] at h
    split at h
    · rename_i hk
      rcases List.mem_cons.mp h with h | h
      · simp only [Prod.mk.injEq] at h
        obtain ⟨rfl, rfl⟩ := h
        exact Or.inr (Or.inl ⟨e, by simp [List.find?, hk], rfl⟩)
      · exact Or.inl (List.mem_cons_of_mem _ h)
    · rename_i hk
      rcases List.mem_cons.mp h with h | h
      · exact Or.inl (h ▸ List.mem_cons_self)
      · rcases ih h with h | ⟨e0, h0, he⟩ | h
        · exact Or.inl (List.mem_cons_of_mem _ h)
        · exact Or.inr (Or.inl ⟨e0, by simp [List.find?, hk, h0], he⟩)
        · exact Or.inr (Or.inr h)

/-- what `getName` returns and leaves behind -/
theorem getName_spec (cfg : Cfg) (names : List (String × String)) (t : SymTab) (s : Strings) (k : Kind) :
    (getName cfg names t s k).1.prods = t.prods ∧ (getName cfg names t s k).1.nonTerminals = t.nonTerminals ∧
    ((∃ s' e, (s', e) ∈ t.memo ∧ keyEq s' s = true ∧ e.get k ≠ "" ∧ (getName cfg names t s k).2 = e.get k ∧
        (getName cfg names t s k).1.memo = t.memo) ∨
     ((getName cfg names t s k).2 = (mapStringToNonTerminal cfg names t s k.suffix).2 ∧
      ∀ s'' e'', (s'', e'') ∈ (getName cfg names t s k).1.memo →
        (s'', e'') ∈ t.memo ∨
        (∃ e0, ((s'', e0) ∈ t.memo ∨ e0 = {}) ∧ eqStrings s'' s = true ∧ e0.get k = "" ∧
          e'' = e0.set k (getName cfg names t s k).2))) := by
  refine ⟨getName_prods cfg names t s k, ?_, ?_⟩
  · unfold getName
    split
    · split
      · rfl
      · exact (mapStringToNonTerminal_nts cfg names t s k.suffix).1
    · exact (mapStringToNonTerminal_nts cfg names t s k.suffix).1
  · unfold getName
    split
    · rename_i s' e hfind
      have hmem : (s', e) ∈ t.memo := List.mem_of_find?_eq_some hfind
      have hkey : keyEq s' s = true := by have := List.find?_some hfind; simpa using this
      split
      · rename_i hne
        left
        exact ⟨s', e, hmem, hkey, by simpa using hne, rfl, rfl⟩
      · rename_i hne
        have hempty : e.get k = "" := by simpa using hne
        right
        refine ⟨rfl, ?_⟩
        intro s'' e'' h
        simp only at h
        rw [(mapStringToNonTerminal_nts cfg names t s k.suffix).2] at h
        rcases mem_updateMemo h with h | ⟨e0, h0, he⟩ | ⟨rfl, he⟩
        · exact Or.inl h
        · -- `updateMemo` rewrites the first entry with an equal key: the one `find?` returned
          rw [hfind] at h0
          simp only [Option.some.injEq, Prod.mk.injEq] at h0
          obtain ⟨rfl, rfl⟩ := h0
          exact Or.inr ⟨e, Or.inl hmem, keyEq_set _ _ hkey, hempty, he⟩
        · exact Or.inr ⟨{}, Or.inr rfl, by simp [eqStrings, stringsContains], MemoEntry.get_default k, he⟩
    · rename_i hfind
      right
      refine ⟨rfl, ?_⟩
      intro s'' e'' h
      simp only at h
      rw [(mapStringToNonTerminal_nts cfg names t s k.suffix).2] at h
      rcases List.mem_append.mp h with h | h
      · exact Or.inl h
      · simp only [List.mem_singleton, Prod.mk.injEq] at h
        obtain ⟨rfl, rfl⟩ := h
        exact Or.inr ⟨{}, Or.inr rfl, by simp [eqStrings, stringsContains], MemoEntry.get_default k, rfl⟩

/-! ### the table after an operator action -/

theorem addProduction_nts (t : SymTab) (p : GProd) :
    (addProduction t p).nonTerminals = t.nonTerminals ∧ (addProduction t p).memo = t.memo := by
  unfold addProduction; split <;> exact ⟨rfl, rfl⟩

theorem foldl_add_nts (f : GString → GProd) : ∀ (s : Strings) (t : SymTab),
    (s.foldl (fun t α => addProduction t (f α)) t).nonTerminals = t.nonTerminals ∧
    (s.foldl (fun t α => addProduction t (f α)) t).memo = t.memo := by
  intro s
  induction s with
  | nil => intro t; exact ⟨rfl, rfl⟩
  | cons a s ih =>
    intro t
    rw [List.foldl_cons]
    exact ⟨(ih _).1.trans (addProduction_nts t _).1, (ih _).2.trans (addProduction_nts t _).2⟩

theorem foldl_add2_nts (f g : GString → GProd) : ∀ (s : Strings) (t : SymTab),
    (s.foldl (fun t α => addProduction (addProduction t (f α)) (g α)) t).nonTerminals = t.nonTerminals ∧
    (s.foldl (fun t α => addProduction (addProduction t (f α)) (g α)) t).memo = t.memo := by
  intro s
  induction s with
  | nil => intro t; exact ⟨rfl, rfl⟩
  | cons a s ih =>
    intro t
    rw [List.foldl_cons]
    exact ⟨(ih _).1.trans ((addProduction_nts _ _).1.trans (addProduction_nts t _).1),
           (ih _).2.trans ((addProduction_nts _ _).2.trans (addProduction_nts t _).2)⟩

theorem addNonTerminal_spec (t : SymTab) (A : String) :
    (∀ x, x ∈ (addNonTerminal t A).nonTerminals ↔ x ∈ t.nonTerminals ∨ x = A) ∧ (addNonTerminal t A).memo = t.memo := by
  unfold addNonTerminal
  split
  · rename_i h
    have hA : A ∈ t.nonTerminals := by simpa using h
    refine ⟨fun x => ⟨Or.inl, ?_⟩, rfl⟩
    rintro (h | rfl)
    · exact h
    · exact hA
  · exact ⟨fun x => by simp [List.mem_append], rfl⟩

/-- name, non-terminals and memo table after an operator action -/
theorem closureAction_frame (cfg : Cfg) (names : List (String × String)) (t : SymTab) (s : Strings) (k : Kind) :
    (closureAction cfg names t s k).2 = (getName cfg names t s k).2 ∧
    (∀ x, x ∈ (closureAction cfg names t s k).1.nonTerminals ↔ x ∈ t.nonTerminals ∨ x = (getName cfg names t s k).2) ∧
    (closureAction cfg names t s k).1.memo = (getName cfg names t s k).1.memo := by
  have hn := (getName_spec cfg names t s k).2.1
  unfold closureAction
  simp only []
  generalize getName cfg names t s k = r at hn ⊢
  obtain ⟨t1, n⟩ := r
  simp only at hn ⊢
  have ha := addNonTerminal_spec t1 n
  refine ⟨trivial, ?_, ?_⟩
  · cases k with
    | plus => simp only []; intro y; rw [(foldl_add2_nts _ _ s _).1, ha.1 y, hn]
    | star => simp only []; intro y; rw [(addProduction_nts _ _).1, (foldl_add_nts _ s _).1, ha.1 y, hn]
    | opt => simp only []; intro y; rw [(addProduction_nts _ _).1, (foldl_add_nts _ s _).1, ha.1 y, hn]
    | group => simp only []; intro y; rw [(foldl_add_nts _ s _).1, ha.1 y, hn]
  · cases k with
    | plus => simp only []; rw [(foldl_add2_nts _ _ s _).2, ha.2]
    | star => simp only []; rw [(addProduction_nts _ _).2, (foldl_add_nts _ s _).2, ha.2]
    | opt => simp only []; rw [(addProduction_nts _ _).2, (foldl_add_nts _ s _).2, ha.2]
    | group => simp only []; rw [(foldl_add_nts _ s _).2, ha.2]

theorem eqStrings_trans {a b c : Strings} (h1 : eqStrings a b = true) (h2 : eqStrings b c = true) : eqStrings a c = true := by
  simp only [eqStrings, Bool.and_eq_true, List.all_eq_true, stringsContains, List.any_eq_true, beq_iff_eq] at h1 h2 ⊢
  constructor
  · intro x hx
    obtain ⟨y, hy, rfl⟩ := h1.1 x hx
    exact h2.1 _ hy
  · intro x hx
    obtain ⟨y, hy, rfl⟩ := h2.2 x hx
    exact h1.2 _ hy

theorem eqStrings_refl (a : Strings) : eqStrings a a = true := by
  simp only [eqStrings, Bool.and_eq_true, List.all_eq_true, stringsContains, List.any_eq_true, beq_iff_eq]
  exact ⟨fun x hx => ⟨x, hx, rfl⟩, fun x hx => ⟨x, hx, rfl⟩⟩

/-- **The operator actions keep the table well-formed** - provided a newly synthesised name is unused (the code tries
    |NT| + 1 numbered candidates; that one of them is unused rests on decimal printing being injective, not proved). -/
theorem TableOk.closure {t : SymTab} (h : TableOk t) (cfg : Cfg) (names : List (String × String)) (s : Strings) (k : Kind)
    (hfresh : (mapStringToNonTerminal cfg names t s k.suffix).2 ∉ t.nonTerminals) :
    TableOk (closureAction cfg names t s k).1 := by
  obtain ⟨hname, hnts, hmemo⟩ := closureAction_frame cfg names t s k
  have hprods := closureAction_prods cfg names t s k
  obtain ⟨_, _, hcases⟩ := getName_spec cfg names t s k
  rw [hname] at hprods
  generalize (closureAction cfg names t s k).1 = t3 at hnts hmemo hprods ⊢
  generalize hn : (getName cfg names t s k).2 = n at hnts hprods hcases
  -- every memoised name of the new table is an old name of an old entry with the same key, or the new name
  have view : ∀ s'' e'', (s'', e'') ∈ t3.memo → ∀ k'', e''.get k'' ≠ "" →
      (∃ e0, (s'', e0) ∈ t.memo ∧ e0.get k'' = e''.get k'') ∨
      (k'' = k ∧ e''.get k'' = n ∧ eqStrings s'' s = true ∧ n ∉ t.nonTerminals) := by
    intro s'' e'' hm k'' hne
    rw [hmemo] at hm
    rcases hcases with ⟨s', e, hme, hkey, hnz, hnn, hmm⟩ | ⟨hnew, hall⟩
    · rw [hmm] at hm; exact Or.inl ⟨e'', hm, rfl⟩
    · rcases hall s'' e'' hm with hold | ⟨e0, he0, heq, hz, hset⟩
      · exact Or.inl ⟨e'', hold, rfl⟩
      · by_cases hk : k'' = k
        · subst hk
          right
          refine ⟨rfl, ?_, heq, ?_⟩
          · rw [hset, MemoEntry.get_set_same]
          · rw [hnew]; exact hfresh
        · left
          have hg : e''.get k'' = e0.get k'' := by rw [hset, MemoEntry.get_set_other _ _ hk]
          rcases he0 with he0 | rfl
          · exact ⟨e0, he0, hg.symm⟩
          · exact absurd (hg.trans (MemoEntry.get_default k'')) hne
  -- in the memo-hit case the name returned is an old name whose key is set-equal to the operand
  have hit : n ∈ t.nonTerminals → ∃ s' e, (s', e) ∈ t.memo ∧ eqStrings s' s = true ∧ e.get k ≠ "" ∧ e.get k = n := by
    intro hin
    rcases hcases with ⟨s', e, hme, hkey, hnz, hnn, _⟩ | ⟨hnew, _⟩
    · exact ⟨s', e, hme, keyEq_set _ _ hkey, hnz, hnn.symm⟩
    · exact absurd hin (by rw [hnew]; exact hfresh)
  refine ⟨?_, ?_, ?_⟩
  · intro q hq
    rcases (hprods q).mp hq with hq | ⟨hh, _⟩
    · exact (hnts _).mpr (Or.inl (h.heads q hq))
    · exact (hnts _).mpr (Or.inr hh)
  · intro s'' e'' hm k'' hne
    rcases view s'' e'' hm k'' hne with ⟨e0, he0, hg⟩ | ⟨rfl, hg, heq, hnotin⟩
    · have hne0 : e0.get k'' ≠ "" := by rw [hg]; exact hne
      obtain ⟨hin, hsh⟩ := h.shape s'' e0 he0 k'' hne0
      rw [← hg]
      refine ⟨(hnts _).mpr (Or.inl hin), fun β => ?_⟩
      rw [hprods ⟨e0.get k'', β⟩]
      by_cases hmn : e0.get k'' = n
      · -- the name returned by a memo hit: same kind, set-equal key, same shape
        obtain ⟨s', e, hme, hse, hnz, hen⟩ := hit (hmn ▸ hin)
        obtain ⟨hkk, hss⟩ := h.uniq s' e s'' e0 hme he0 k k'' hnz (hen.trans hmn.symm)
        subst hkk
        have hs's : eqStrings s'' s = true := eqStrings_trans (eqStrings_symm hss) hse
        constructor
        · rintro (hold | ⟨_, hsm⟩)
          · exact (hsh β).mp hold
          · simp only at hsm
            rw [hmn]; exact (ShapeMem_congr (eqStrings_symm hs's) β).mp hsm
        · intro hsm
          exact Or.inl ((hsh β).mpr hsm)
      · constructor
        · rintro (hold | ⟨hh, _⟩)
          · exact (hsh β).mp hold
          · exact absurd hh hmn
        · intro hsm; exact Or.inl ((hsh β).mpr hsm)
    · rw [hg]
      refine ⟨(hnts _).mpr (Or.inr rfl), fun β => ?_⟩
      rw [hprods ⟨n, β⟩]
      constructor
      · rintro (hold | ⟨_, hsm⟩)
        · exact absurd (h.heads _ hold) hnotin
        · exact (ShapeMem_congr (eqStrings_symm heq) β).mp hsm
      · intro hsm
        exact Or.inr ⟨rfl, (ShapeMem_congr heq β).mp hsm⟩
  · intro s1 e1 s2 e2 hm1 hm2 k1 k2 hne heq
    have hne2 : e2.get k2 ≠ "" := by rw [← heq]; exact hne
    rcases view s1 e1 hm1 k1 hne with ⟨a1, ha1, hg1⟩ | ⟨rfl, hg1, hq1, hn1⟩
    · rcases view s2 e2 hm2 k2 hne2 with ⟨a2, ha2, hg2⟩ | ⟨rfl, hg2, hq2, hn2⟩
      · exact h.uniq s1 a1 s2 a2 ha1 ha2 k1 k2 (by rw [hg1]; exact hne) (by rw [hg1, hg2]; exact heq)
      · have : e1.get k1 ∈ t.nonTerminals := by rw [← hg1]; exact (h.shape s1 a1 ha1 k1 (by rw [hg1]; exact hne)).1
        exact absurd (by rw [heq, hg2] at this; exact this) hn2
    · rcases view s2 e2 hm2 k2 hne2 with ⟨a2, ha2, hg2⟩ | ⟨rfl, hg2, hq2, hn2⟩
      · have : e2.get k2 ∈ t.nonTerminals := by rw [← hg2]; exact (h.shape s2 a2 ha2 k2 (by rw [hg2]; exact hne2)).1
        exact absurd (by rw [← heq, hg1] at this; exact this) hn1
      · exact ⟨rfl, eqStrings_trans hq1 (eqStrings_symm hq2)⟩

/-- **Adding a rule keeps the table well-formed** if its name is a registered non-terminal and not a synthesised name
    (the second condition is what finding F2b violates in the code as it is; `Cfg.fixed` reserves the prefix). -/
theorem TableOk.addRule {t : SymTab} (h : TableOk t) (A : String) (α : GString) (hA : A ∈ t.nonTerminals)
    (hclash : ∀ s e, (s, e) ∈ t.memo → ∀ k, e.get k ≠ A) : TableOk (addProduction t ⟨A, α⟩) := by
  have hn := addProduction_nts t ⟨A, α⟩
  refine ⟨?_, ?_, ?_⟩
  · intro q hq
    rw [hn.1]
    rcases (mem_addProduction t _ q).mp hq with hq | rfl
    · exact h.heads q hq
    · exact hA
  · intro s e hm k hne
    rw [hn.2] at hm
    obtain ⟨hin, hsh⟩ := h.shape s e hm k hne
    rw [hn.1]
    refine ⟨hin, fun β => ?_⟩
    rw [mem_addProduction]
    constructor
    · rintro (hold | heq)
      · exact (hsh β).mp hold
      · exact absurd (congrArg GProd.head heq) (hclash s e hm k)
    · intro hsm; exact Or.inl ((hsh β).mpr hsm)
  · intro s1 e1 s2 e2 hm1 hm2
    rw [hn.2] at hm1 hm2
    exact h.uniq s1 e1 s2 e2 hm1 hm2

/-- … and so does whatever leaves productions and memo table alone and only registers more non-terminals
    (terminals, directives, the `grammar` line, registering a rule's name). -/
theorem TableOk.frame {t t' : SymTab} (h : TableOk t) (hp : t'.prods = t.prods) (hm : t'.memo = t.memo)
    (hn : ∀ x, x ∈ t.nonTerminals → x ∈ t'.nonTerminals) : TableOk t' := by
  refine ⟨?_, ?_, ?_⟩
  · intro q hq; rw [hp] at hq; exact hn _ (h.heads q hq)
  · intro s e hme k hne
    rw [hm] at hme
    obtain ⟨hin, hsh⟩ := h.shape s e hme k hne
    exact ⟨hn _ hin, fun β => by rw [hp]; exact hsh β⟩
  · intro s1 e1 s2 e2 h1 h2; rw [hm] at h1 h2; exact h.uniq s1 e1 s2 e2 h1 h2

end Emerge.Props.C01
