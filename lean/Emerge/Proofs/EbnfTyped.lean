import Emerge.EbnfTyped
import Emerge.Proofs.EbnfEval
/-
  The typed right-hand side that `ast.Parse` builds for a source right-hand side, and its meaning: flattening
  juxtapositions and alternations into n-ary nodes and dropping parentheses keeps the operands in order and
  the meaning intact.
-/
namespace Emerge.Props.C11
open Emerge Emerge.Ebnf Emerge.EbnfTyped Emerge.Props.C01

/-- the typed actions 23–31 over the tree of a right-hand side -/
def build : Rhs → TRhs
  | .term a => .term a
  | .nonterm A => .nonterm A
  | .cat l r => .concat (opsC (build l) ++ opsC (build r))
  | .alt l r => .alt (opsA (build l) ++ opsA (build r))
  | .altEmpty l => .alt (opsA (build l) ++ [.empty])
  | .op .group x => build x
  | .op .opt x => .opt (build x)
  | .op .star x => .star (build x)
  | .op .plus x => .plus (build x)

mutual
/-- the meaning of a typed right-hand side -/
def denoteT (env : String → Lang) : TRhs → Lang
  | .term a => fun w => w = [a]
  | .nonterm A => env A
  | .empty => Lang.eps
  | .concat ops => denoteCat env ops
  | .alt ops => denoteAlt env ops
  | .opt x => fun w => denoteT env x w ∨ w = []
  | .star x => Star (denoteT env x)
  | .plus x => Plus (denoteT env x)
def denoteCat (env : String → Lang) : List TRhs → Lang
  | [] => Lang.eps
  | x :: xs => Lang.cat (denoteT env x) (denoteCat env xs)
def denoteAlt (env : String → Lang) : List TRhs → Lang
  | [] => fun _ => False
  | x :: xs => Lang.union (denoteT env x) (denoteAlt env xs)
end

theorem denoteCat_append (env : String → Lang) (a b : List TRhs) (w : List String) :
    denoteCat env (a ++ b) w ↔ Lang.cat (denoteCat env a) (denoteCat env b) w := by
  induction a generalizing w with
  | nil =>
    simp only [List.nil_append, denoteCat, Lang.cat, Lang.eps]
    constructor
    · intro h; exact ⟨[], w, rfl, rfl, h⟩
    · rintro ⟨u, v, rfl, rfl, h⟩; simpa using h
  | cons x a ih =>
    simp only [List.cons_append, denoteCat, Lang.cat]
    constructor
    · rintro ⟨u, v, rfl, hu, hv⟩
      obtain ⟨u', v', rfl, h1, h2⟩ := (ih v).mp hv
      exact ⟨u ++ u', v', by simp, ⟨u, u', rfl, hu, h1⟩, h2⟩
    · rintro ⟨u, v, rfl, ⟨u1, u2, rfl, h1, h2⟩, hv⟩
      exact ⟨u1, u2 ++ v, by simp, h1, (ih _).mpr ⟨u2, v, rfl, h2, hv⟩⟩

theorem denoteAlt_append (env : String → Lang) (a b : List TRhs) (w : List String) :
    denoteAlt env (a ++ b) w ↔ denoteAlt env a w ∨ denoteAlt env b w := by
  induction a with
  | nil => simp [denoteAlt]
  | cons x a ih => simp only [List.cons_append, denoteAlt, Lang.union, ih, or_assoc]

/-- splicing the operands of a concatenation keeps its meaning -/
theorem denoteCat_opsC (env : String → Lang) (t : TRhs) (w : List String) : denoteCat env (opsC t) w ↔ denoteT env t w := by
  cases t <;> simp only [opsC, denoteCat, denoteT]
  all_goals
    simp only [Lang.cat, Lang.eps]
    constructor
    · rintro ⟨u, v, rfl, hu, rfl⟩; simpa using hu
    · intro h; exact ⟨w, [], by simp, h, rfl⟩

theorem denoteAlt_opsA (env : String → Lang) (t : TRhs) (w : List String) : denoteAlt env (opsA t) w ↔ denoteT env t w := by
  cases t <;> simp only [opsA, denoteAlt, denoteT, Lang.union, or_false]

/-- **The typed tree means what the source means**: the right-hand side `ast.Parse` builds (flattened, parentheses
    dropped) has the documented meaning of the right-hand side as written. -/
theorem build_denote (env : String → Lang) : ∀ (r : Rhs) (w : List String), denoteT env (build r) w ↔ denote env r w := by
  intro r
  induction r with
  | term a => intro w; rfl
  | nonterm A => intro w; rfl
  | cat l r ihl ihr =>
    intro w
    simp only [build, denoteT, denote]
    rw [denoteCat_append]
    simp only [Lang.cat]
    constructor
    · rintro ⟨u, v, rfl, hu, hv⟩
      exact ⟨u, v, rfl, (ihl u).mp ((denoteCat_opsC env _ u).mp hu), (ihr v).mp ((denoteCat_opsC env _ v).mp hv)⟩
    · rintro ⟨u, v, rfl, hu, hv⟩
      exact ⟨u, v, rfl, (denoteCat_opsC env _ u).mpr ((ihl u).mpr hu), (denoteCat_opsC env _ v).mpr ((ihr v).mpr hv)⟩
  | alt l r ihl ihr =>
    intro w
    simp only [build, denoteT, denote, Lang.union]
    rw [denoteAlt_append, denoteAlt_opsA, denoteAlt_opsA, ihl w, ihr w]
  | altEmpty l ihl =>
    intro w
    simp only [build, denoteT, denote, Lang.union]
    rw [denoteAlt_append, denoteAlt_opsA, ihl w]
    simp [denoteAlt, denoteT, Lang.union]
  | op k x ihx =>
    intro w
    cases k with
    | group => simp only [build, denote, shapeLang]; exact ihx w
    | opt => simp only [build, denoteT, denote, shapeLang]; rw [ihx w]
    | star => simp only [build, denoteT, denote, shapeLang]; exact Star.congr ihx w
    | plus =>
      simp only [build, denoteT, denote, shapeLang]
      exact shapeLang_congr .plus ihx w

/-! ### `build` is `typedAction`, case by case -/

theorem typed_term (pd : List (String × String)) (a : String) : typedAction pd 31 [.str a] = .ok (.rhs (build (.term a))) := rfl
theorem typed_nonterm (pd : List (String × String)) (A : String) : typedAction pd 30 [.str A] = .ok (.rhs (build (.nonterm A))) := rfl
theorem typed_cat (pd : List (String × String)) (l r : Rhs) :
    typedAction pd 23 [.rhs (build l), .rhs (build r)] = .ok (.rhs (build (.cat l r))) := rfl
theorem typed_alt (pd : List (String × String)) (l r : Rhs) (x : TVal) :
    typedAction pd 28 [.rhs (build l), x, .rhs (build r)] = .ok (.rhs (build (.alt l r))) := rfl
theorem typed_altEmpty (pd : List (String × String)) (l : Rhs) (x : TVal) :
    typedAction pd 29 [.rhs (build l), x] = .ok (.rhs (build (.altEmpty l))) := rfl
theorem typed_group (pd : List (String × String)) (r : Rhs) (x y : TVal) :
    typedAction pd 24 [x, .rhs (build r), y] = .ok (.rhs (build (.op .group r))) := rfl
theorem typed_opt (pd : List (String × String)) (r : Rhs) (x y : TVal) :
    typedAction pd 25 [x, .rhs (build r), y] = .ok (.rhs (build (.op .opt r))) := rfl
theorem typed_star (pd : List (String × String)) (r : Rhs) (x y : TVal) :
    typedAction pd 26 [x, .rhs (build r), y] = .ok (.rhs (build (.op .star r))) := rfl
theorem typed_plus (pd : List (String × String)) (r : Rhs) (x y : TVal) :
    typedAction pd 27 [x, .rhs (build r), y] = .ok (.rhs (build (.op .plus r))) := rfl

/-! ### the atoms of the source, in source order -/

/-- terminals and non-terminals of a right-hand side as written, left to right (an empty alternative counts as `ε`) -/
def atoms : Rhs → List (Bool × String)
  | .term a => [(true, a)]
  | .nonterm A => [(false, A)]
  | .cat l r => atoms l ++ atoms r
  | .alt l r => atoms l ++ atoms r
  | .altEmpty l => atoms l ++ [(true, "")]
  | .op _ x => atoms x

mutual
def atomsT : TRhs → List (Bool × String)
  | .term a => [(true, a)]
  | .nonterm A => [(false, A)]
  | .empty => [(true, "")]
  | .concat ops => atomsList ops
  | .alt ops => atomsList ops
  | .opt x => atomsT x
  | .star x => atomsT x
  | .plus x => atomsT x
def atomsList : List TRhs → List (Bool × String)
  | [] => []
  | x :: xs => atomsT x ++ atomsList xs
end

theorem atomsList_append (a b : List TRhs) : atomsList (a ++ b) = atomsList a ++ atomsList b := by
  induction a with
  | nil => rfl
  | cons x a ih => simp [atomsList, ih]

theorem atomsList_opsC (t : TRhs) : atomsList (opsC t) = atomsT t := by
  cases t <;> simp [opsC, atomsList, atomsT]

theorem atomsList_opsA (t : TRhs) : atomsList (opsA t) = atomsT t := by
  cases t <;> simp [opsA, atomsList, atomsT]

/-- **Operand order**: the typed tree has the atoms of the source in the order of the source - flattening and dropping
    parentheses move nothing. -/
theorem build_atoms : ∀ r : Rhs, atomsT (build r) = atoms r := by
  intro r
  induction r with
  | term a => rfl
  | nonterm A => rfl
  | cat l r ihl ihr => simp only [build, atomsT, atoms, atomsList_append, atomsList_opsC, ihl, ihr]
  | alt l r ihl ihr => simp only [build, atomsT, atoms, atomsList_append, atomsList_opsA, ihl, ihr]
  | altEmpty l ihl => simp [build, atomsT, atoms, atomsList_append, atomsList_opsA, ihl, atomsList]
  | op k x ihx => cases k <;> simp only [build, atomsT, atoms, ihx]

end Emerge.Props.C11
