import Emerge.CliArgs
/-
  Facts about the model of the command line (`Emerge.CliArgs.parse`): what is left over is a suffix of the command
  line, and the flag set looks at nothing behind the first argument that is not a flag.
-/
namespace Emerge.CliArgs

/-- what `FlagSet.Args()` returns is the end of the command line: nothing is reordered, nothing invented -/
theorem parse_suffix (T : Table) (argv : List String) (acc : List (String × String)) (sets : List (String × String))
    (rest : List String) (h : parse T argv acc = .ok sets rest) : ∃ pre, argv = pre ++ rest := by
  fun_induction parse T argv acc generalizing sets rest with
  | case1 acc => simp [Outcome.ok.injEq] at h; exact ⟨[], by simp [h.2]⟩
  | case2 a rest' acc hc => simp at h; exact ⟨[], by simp [h.2]⟩
  | case3 a rest' acc hc => simp at h; exact ⟨[a], by simp [h.2]⟩
  | case4 a rest' acc hc => simp at h
  | case5 a rest' acc name v hc hl hn => simp at h
  | case6 a rest' acc name v hc hl hn => simp at h
  | case7 a rest' acc name hc hl ih => obtain ⟨pre, hp⟩ := ih sets rest h; exact ⟨a :: pre, by simp [hp]⟩
  | case8 a rest' acc name val hc hl b hb ih => obtain ⟨pre, hp⟩ := ih sets rest h; exact ⟨a :: pre, by simp [hp]⟩
  | case9 a rest' acc name val hc hl hb => simp at h
  | case10 a rest' acc name val hc hl ih => obtain ⟨pre, hp⟩ := ih sets rest h; exact ⟨a :: pre, by simp [hp]⟩
  | case11 a acc name hc hl => simp at h
  | case12 a acc name hl val rest'' hc ih => obtain ⟨pre, hp⟩ := ih sets rest h; exact ⟨a :: val :: pre, by simp [hp]⟩

/-- The flag set does not look behind the first argument that is not a flag: if the arguments `pre` are consumed
    completely as flags, then `pre` followed by a positional argument and anything else gives the same settings and leaves
    the positional argument and everything after it - untouched, whatever it looks like - to `Run`. -/
theorem parse_stops_at_positional (T : Table) (pre : List String) (acc sets : List (String × String)) (p : String)
    (post : List String) (hp : classify p = .positional) (h : parse T pre acc = .ok sets []) :
    parse T (pre ++ p :: post) acc = .ok sets (p :: post) := by
  fun_induction parse T pre acc generalizing sets <;> simp_all [parse]

end Emerge.CliArgs
