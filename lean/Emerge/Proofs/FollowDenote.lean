import Emerge.Proofs.FollowBase
/-
  The tree the second mapper set builds for a pattern (`ofPat`) has the documented language of the pattern, NUL aside
  (the direct route treats NUL as an ordinary character; the documented alphabet excludes it).
  Core Lean only.
-/
namespace Emerge.Props.C10
open Emerge Emerge.Regex Emerge.Regex.Follow

def NoNul (w : List Rune) : Prop := ∀ c ∈ w, c ≠ 0

/-- the words of a language that do not contain NUL -/
def nn (a : Lang) : Lang := fun w => a w ∧ NoNul w

theorem noNul_append {u v : List Rune} : NoNul (u ++ v) ↔ NoNul u ∧ NoNul v := by
  unfold NoNul
  simp only [List.mem_append]
  constructor
  · intro h; exact ⟨fun c hc => h c (Or.inl hc), fun c hc => h c (Or.inr hc)⟩
  · rintro ⟨h1, h2⟩ c (hc | hc); exact h1 c hc; exact h2 c hc

theorem nn_congr {a b : Lang} (h : a ≃ b) : nn a ≃ nn b := fun w => by simp only [nn, h w]

theorem nn_eps : nn Lang.eps ≃ Lang.eps := by
  intro w
  simp only [nn, Lang.eps]
  constructor
  · exact fun h => h.1
  · intro h; subst h; exact ⟨rfl, fun c hc => by cases hc⟩

theorem nn_empty : nn Lang.empty ≃ Lang.empty := fun w => by simp [nn, Lang.empty]

theorem nn_set (rs : List Rune) : nn (Lang.set rs) ≃ Lang.set (noNul rs) := by
  intro w
  simp only [nn, Lang.set, mem_noNul]
  constructor
  · rintro ⟨⟨r, hr, rfl⟩, hn⟩; exact ⟨r, ⟨hr, hn r (by simp)⟩, rfl⟩
  · rintro ⟨r, ⟨hr, h0⟩, rfl⟩
    exact ⟨⟨r, hr, rfl⟩, fun c hc => by simp only [List.mem_singleton] at hc; rw [hc]; exact h0⟩

theorem nn_union (a b : Lang) : nn (Lang.union a b) ≃ Lang.union (nn a) (nn b) := by
  intro w; simp only [nn, Lang.union]
  constructor
  · rintro ⟨h | h, hn⟩; exact Or.inl ⟨h, hn⟩; exact Or.inr ⟨h, hn⟩
  · rintro (⟨h, hn⟩ | ⟨h, hn⟩); exact ⟨Or.inl h, hn⟩; exact ⟨Or.inr h, hn⟩

theorem nn_cat (a b : Lang) : nn (Lang.cat a b) ≃ Lang.cat (nn a) (nn b) := by
  intro w; simp only [nn, Lang.cat]
  constructor
  · rintro ⟨⟨u, v, rfl, hu, hv⟩, hn⟩
    have := noNul_append.mp hn
    exact ⟨u, v, rfl, ⟨hu, this.1⟩, ⟨hv, this.2⟩⟩
  · rintro ⟨u, v, rfl, ⟨hu, h1⟩, ⟨hv, h2⟩⟩
    exact ⟨⟨u, v, rfl, hu, hv⟩, noNul_append.mpr ⟨h1, h2⟩⟩

theorem nn_star (a : Lang) : nn (Lang.star a) ≃ Lang.star (nn a) := by
  intro w
  constructor
  · rintro ⟨hs, hn⟩
    induction hs with
    | nil => exact .nil
    | app u v hu _ ih =>
      have := noNul_append.mp hn
      exact .app u v ⟨hu, this.1⟩ (ih this.2)
  · intro hs
    induction hs with
    | nil => exact ⟨.nil, fun c hc => by cases hc⟩
    | app u v hu _ ih => exact ⟨.app u v hu.1 ih.1, noNul_append.mpr ⟨hu.2, ih.2⟩⟩

theorem nn_pow (a : Lang) (n : Nat) : nn (Lang.pow a n) ≃ Lang.pow (nn a) n := by
  induction n with
  | zero => exact nn_eps
  | succ n ih => simp only [Lang.pow]; exact (nn_cat _ _).trans' (Lang.cat_congr Lang.Eqv.rfl' ih)

theorem nn_upto (a : Lang) (n : Nat) : nn (Lang.upto a n) ≃ Lang.upto (nn a) n := by
  induction n with
  | zero => exact nn_eps
  | succ n ih =>
    simp only [Lang.upto]
    exact (nn_cat _ _).trans' (Lang.cat_congr ((nn_union _ _).trans' (Lang.union_congr nn_eps Lang.Eqv.rfl')) ih)

theorem Lang.pow_congr' {a b : Lang} (h : a ≃ b) (n : Nat) : Lang.pow a n ≃ Lang.pow b n := by
  induction n with
  | zero => exact Lang.Eqv.rfl'
  | succ n ih => simp only [Lang.pow]; exact Lang.cat_congr h ih

theorem Lang.upto_congr' {a b : Lang} (h : a ≃ b) (n : Nat) : Lang.upto a n ≃ Lang.upto b n := by
  induction n with
  | zero => exact Lang.Eqv.rfl'
  | succ n ih => simp only [Lang.upto]; exact Lang.cat_congr (Lang.union_congr Lang.Eqv.rfl' h) ih

/-- an alternation of character leaves is the set of its characters -/
theorem charsAlt_lang (rs : List Rune) : Node.lang (charsAlt rs) ≃ Lang.set rs := by
  unfold charsAlt
  simp only [Node.lang]
  induction rs with
  | nil => intro w; simp [langAlt, Lang.empty, Lang.set]
  | cons r rs ih =>
    intro w
    simp only [List.map_cons, langAlt, Lang.union, Node.lang, Lang.set, List.mem_cons]
    rw [ih w]
    simp only [Lang.set, List.mem_cons, List.not_mem_nil, or_false]
    constructor
    · rintro (⟨x, rfl, h⟩ | ⟨x, hx, h⟩)
      · exact ⟨x, Or.inl rfl, h⟩
      · exact ⟨x, Or.inr hx, h⟩
    · rintro ⟨x, rfl | hx, h⟩
      · exact Or.inl ⟨x, rfl, h⟩
      · exact Or.inr ⟨x, hx, h⟩

theorem quantRe_lang (r : Re) (q : Quant) :
    (quantRe r q).lang ≃
      (match q with
       | .opt => Lang.union Lang.eps r.lang
       | .star => Lang.star r.lang
       | .plus => Lang.cat r.lang (Lang.star r.lang)
       | .rep lo none => Lang.cat (Lang.pow r.lang lo) (Lang.star r.lang)
       | .rep lo (some u) => Lang.cat (Lang.pow r.lang lo) (Lang.upto r.lang (u - lo))) := by
  cases q with
  | opt => exact Lang.Eqv.rfl'
  | star => exact Lang.Eqv.rfl'
  | plus => exact Lang.Eqv.rfl'
  | rep lo up =>
    cases up with
    | none => simp only [quantRe, Re.lang]; exact Lang.cat_congr (Re.pow_lang r lo) Lang.Eqv.rfl'
    | some u => simp only [quantRe, Re.lang]; exact Lang.cat_congr (Re.pow_lang r lo) (Re.upto_lang r _)

theorem quant_step (n : Node) (r : Re) (h : nn (Node.lang n) ≃ r.lang) (q : Quant) :
    nn (Node.lang (quantNode n q)) ≃ (quantRe r q).lang := by
  refine (nn_congr (quantify_lang n q)).trans' (Lang.Eqv.trans' ?_ (quantRe_lang r q).symm')
  cases q with
  | opt => exact (nn_union _ _).trans' (Lang.union_congr nn_eps h)
  | star => exact (nn_star _).trans' (Lang.star_congr h)
  | plus => exact (nn_cat _ _).trans' (Lang.cat_congr h ((nn_star _).trans' (Lang.star_congr h)))
  | rep lo up =>
    cases up with
    | none =>
      exact (nn_cat _ _).trans' (Lang.cat_congr ((nn_pow _ _).trans' (Lang.pow_congr' h lo)) ((nn_star _).trans' (Lang.star_congr h)))
    | some u =>
      exact (nn_cat _ _).trans' (Lang.cat_congr ((nn_pow _ _).trans' (Lang.pow_congr' h lo)) ((nn_upto _ _).trans' (Lang.upto_congr' h _)))

/-- **The tree of a pattern has the pattern's documented language** (strings without NUL), and so has the item list of
    a sub-expression. -/
theorem ofPat_lang (T : ClassTable) (hT : AsciiOk T) (p : Pat) :
    (spined p = true → nn (Node.lang (ofPat T p)) ≃ p.denote T) ∧
    (spined p = true → isSpine p = true → nn (langConcat (ofSpine T p)) ≃ p.denote T) := by
  induction p with
  | any =>
    refine ⟨fun _ => ?_, fun _ h => by cases h⟩
    simp only [ofPat, Pat.denote, Pat.toRe, Re.lang, univRunes]
    exact (nn_congr (charsAlt_lang _)).trans' (nn_set _)
  | char c =>
    refine ⟨fun _ => ?_, fun _ h => by cases h⟩
    simp only [ofPat, Pat.denote, Pat.toRe, Re.lang, Node.lang]
    exact nn_set _
  | cls neg rs =>
    refine ⟨fun _ => ?_, fun _ h => by cases h⟩
    cases neg with
    | false =>
      simp only [ofPat, Pat.denote, Pat.toRe, Re.lang, setOf]
      exact (nn_congr (charsAlt_lang _)).trans' (nn_set _)
    | true =>
      simp only [ofPat, Pat.denote, Pat.toRe, Re.lang, setOf, if_true]
      refine (nn_congr (charsAlt_lang _)).trans' ((nn_set _).trans' (Lang.set_congr ?_))
      intro r
      simp only [mem_noNul, univRunes, ascii, List.mem_filter]
      constructor
      · rintro ⟨⟨h1, h2⟩, h3⟩; exact ⟨⟨h1, by simpa using h3⟩, h2⟩
      · rintro ⟨⟨h1, h3⟩, h2⟩; exact ⟨⟨h1, h2⟩, by simpa using h3⟩
  | group neg items =>
    refine ⟨fun _ => ?_, fun _ h => by cases h⟩
    simp only [ofPat, Pat.denote, Pat.toRe, Re.lang]
    exact (nn_congr (charsAlt_lang _)).trans' ((nn_set _).trans' (Lang.set_congr (groupRunes_mem T hT neg items)))
  | quant p q lz ih =>
    refine ⟨fun hs => ?_, fun _ h => by cases h⟩
    simp only [spined] at hs
    simp only [ofPat, Pat.denote, Pat.toRe]
    exact quant_step _ _ (ih.1 hs) q
  | snil =>
    refine ⟨fun _ => ?_, fun _ _ => ?_⟩
    · simp only [ofPat, Pat.denote, Pat.toRe, Re.lang, Node.lang, langConcat]; exact nn_eps
    · simp only [ofSpine, Pat.denote, Pat.toRe, Re.lang, langConcat]; exact nn_eps
  | scons a r iha ihr =>
    have key : spined (.scons a r) = true → nn (langConcat (ofPat T a :: ofSpine T r)) ≃ (Pat.scons a r).denote T := by
      intro hs
      simp only [spined, Bool.and_eq_true] at hs
      simp only [langConcat, Pat.denote, Pat.toRe, Re.lang]
      exact (nn_cat _ _).trans' (Lang.cat_congr (iha.1 hs.1.1) (ihr.2 hs.1.2 hs.2))
    refine ⟨fun hs => ?_, fun hs _ => ?_⟩
    · simp only [ofPat, Node.lang]; exact key hs
    · simp only [ofSpine]; exact key hs
  | alt a b iha ihb =>
    refine ⟨fun hs => ?_, fun _ h => by cases h⟩
    simp only [spined, Bool.and_eq_true] at hs
    simp only [ofPat, Node.lang, langAlt, Pat.denote, Pat.toRe, Re.lang]
    refine (nn_union _ _).trans' (Lang.union_congr (iha.1 hs.1) ?_)
    refine (nn_union _ _).trans' (Lang.Eqv.trans' (Lang.union_congr (ihb.1 hs.2) nn_empty) ?_)
    intro w; simp [Lang.union, Lang.empty, Pat.denote]

end Emerge.Props.C10
