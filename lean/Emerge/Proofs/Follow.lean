import Emerge.Proofs.FollowBase
/-
  The followpos construction, one half of its correctness: every word of the pattern's language is a path through
  the position automaton that `firstPos`, `lastPos` and `computeFollows` describe (the direct route loses no sentence).
  Positions need not be distinct for this half.
-/
namespace Emerge.Props.C10
open Emerge Emerge.Regex Emerge.Regex.Follow

/-- a word with the position each character was matched at -/
abbrev MWord := List (Nat × Rune)
abbrev MLang := MWord → Prop

inductive MStar (a : MLang) : MLang
  | nil : MStar a []
  | app (u v : MWord) : a u → MStar a v → MStar a (u ++ v)

mutual
/-- the marked language of a syntax tree: the words of its language, every character paired with the position of the
    leaf it is matched by -/
def Node.mlang : Node → MLang
  | .concat xs => mlangCat xs
  | .alt xs => mlangAlt xs
  | .star x => MStar (Node.mlang x)
  | .empty => fun w => w = []
  | .char c p => fun w => w = [(p, c)]
def mlangCat : List Node → MLang
  | [] => fun w => w = []
  | x :: xs => fun w => ∃ u v, w = u ++ v ∧ Node.mlang x u ∧ mlangCat xs v
def mlangAlt : List Node → MLang
  | [] => fun _ => False
  | x :: xs => fun w => Node.mlang x w ∨ mlangAlt xs w
end

mutual
/-- erasing the positions of a marked word gives a word of the language … -/
theorem mlang_erase : (n : Node) → (m : MWord) → Node.mlang n m → Node.lang n (m.map (·.2))
  | .concat xs, m, h => by simp only [Node.mlang] at h; simp only [Node.lang]; exact mlangCat_erase xs m h
  | .alt xs, m, h => by simp only [Node.mlang] at h; simp only [Node.lang]; exact mlangAlt_erase xs m h
  | .star x, m, h => by
    simp only [Node.mlang] at h
    simp only [Node.lang]
    induction h with
    | nil => exact Lang.star.nil
    | app u v hu _ ih => rw [List.map_append]; exact Lang.star.app _ _ (mlang_erase x u hu) ih
  | .empty, m, h => by simp only [Node.mlang] at h; subst h; simp [Node.lang, Lang.eps]
  | .char c p, m, h => by simp only [Node.mlang] at h; subst h; simp [Node.lang, Lang.set]
theorem mlangCat_erase : (xs : List Node) → (m : MWord) → mlangCat xs m → langConcat xs (m.map (·.2))
  | [], m, h => by simp only [mlangCat] at h; subst h; simp [langConcat, Lang.eps]
  | x :: xs, m, h => by
    simp only [mlangCat] at h
    obtain ⟨u, v, rfl, hu, hv⟩ := h
    simp only [langConcat, List.map_append]
    exact ⟨_, _, rfl, mlang_erase x u hu, mlangCat_erase xs v hv⟩
theorem mlangAlt_erase : (xs : List Node) → (m : MWord) → mlangAlt xs m → langAlt xs (m.map (·.2))
  | [], m, h => by simp [mlangAlt] at h
  | x :: xs, m, h => by
    simp only [mlangAlt] at h
    simp only [langAlt, Lang.union]
    rcases h with h | h
    · exact Or.inl (mlang_erase x m h)
    · exact Or.inr (mlangAlt_erase xs m h)
end

mutual
/-- … and every word of the language has a marking -/
theorem mlang_lift : (n : Node) → (w : List Rune) → Node.lang n w → ∃ m, Node.mlang n m ∧ m.map (·.2) = w
  | .concat xs, w, h => by simp only [Node.lang] at h; simp only [Node.mlang]; exact mlangCat_lift xs w h
  | .alt xs, w, h => by simp only [Node.lang] at h; simp only [Node.mlang]; exact mlangAlt_lift xs w h
  | .star x, w, h => by
    simp only [Node.lang] at h
    simp only [Node.mlang]
    induction h with
    | nil => exact ⟨[], MStar.nil, rfl⟩
    | app u v hu _ ih =>
      obtain ⟨mu, hmu, eu⟩ := mlang_lift x u hu
      obtain ⟨mv, hmv, ev⟩ := ih
      exact ⟨mu ++ mv, MStar.app _ _ hmu hmv, by rw [List.map_append, eu, ev]⟩
  | .empty, w, h => by simp only [Node.lang, Lang.eps] at h; subst h; exact ⟨[], by simp [Node.mlang], rfl⟩
  | .char c p, w, h => by
    simp only [Node.lang, Lang.set, List.mem_singleton] at h
    obtain ⟨r, rfl, rfl⟩ := h
    exact ⟨[(p, r)], by simp [Node.mlang], rfl⟩
theorem mlangCat_lift : (xs : List Node) → (w : List Rune) → langConcat xs w → ∃ m, mlangCat xs m ∧ m.map (·.2) = w
  | [], w, h => by simp only [langConcat, Lang.eps] at h; subst h; exact ⟨[], by simp [mlangCat], rfl⟩
  | x :: xs, w, h => by
    simp only [langConcat] at h
    obtain ⟨u, v, rfl, hu, hv⟩ := h
    obtain ⟨mu, hmu, eu⟩ := mlang_lift x u hu
    obtain ⟨mv, hmv, ev⟩ := mlangCat_lift xs v hv
    exact ⟨mu ++ mv, by simp only [mlangCat]; exact ⟨mu, mv, rfl, hmu, hmv⟩, by rw [List.map_append, eu, ev]⟩
theorem mlangAlt_lift : (xs : List Node) → (w : List Rune) → langAlt xs w → ∃ m, mlangAlt xs m ∧ m.map (·.2) = w
  | [], w, h => by simp [langAlt, Lang.empty] at h
  | x :: xs, w, h => by
    simp only [langAlt, Lang.union] at h
    rcases h with h | h
    · obtain ⟨m, hm, e⟩ := mlang_lift x w h
      exact ⟨m, by simp only [mlangAlt]; exact Or.inl hm, e⟩
    · obtain ⟨m, hm, e⟩ := mlangAlt_lift xs w h
      exact ⟨m, by simp only [mlangAlt]; exact Or.inr hm, e⟩
end

/-- the empty marked word: exactly when `nullable` -/
theorem mlang_nil_iff (n : Node) : Node.mlang n [] ↔ n.nullable = true := by
  rw [nullable_iff_lang]
  constructor
  · intro h; simpa using mlang_erase n [] h
  · intro h
    obtain ⟨m, hm, e⟩ := mlang_lift n [] h
    have : m = [] := by simpa using e
    rw [this] at hm; exact hm

theorem mlangCat_nil_iff (xs : List Node) : mlangCat xs [] ↔ allNullable xs = true := by
  rw [allNullable_iff]
  constructor
  · intro h; simpa using mlangCat_erase xs [] h
  · intro h
    obtain ⟨m, hm, e⟩ := mlangCat_lift xs [] h
    have : m = [] := by simpa using e
    rw [this] at hm; exact hm

theorem append_eq_snoc {α} {u v m : List α} {a : α} (h : u ++ v = m ++ [a]) :
    (v = [] ∧ u = m ++ [a]) ∨ ∃ v', v = v' ++ [a] ∧ m = u ++ v' := by
  rcases List.eq_nil_or_concat v with rfl | ⟨v', b, hv⟩
  · left; exact ⟨rfl, by simpa using h⟩
  · right
    rw [List.concat_eq_append] at hv
    subst hv
    have h' : (u ++ v') ++ [b] = m ++ [a] := by simpa [List.append_assoc] using h
    have := List.append_inj' h' rfl
    obtain ⟨h1, h2⟩ := this
    have : b = a := by simpa using h2
    subst this
    exact ⟨v', rfl, h1.symm⟩

theorem mem_firstConcat_of_tail {x : Node} {xs : List Node} {p : Nat} (hx : x.nullable = true) (h : p ∈ firstConcat xs) :
    p ∈ firstConcat (x :: xs) := by
  simp only [firstConcat, hx, if_true, List.mem_append]; exact Or.inr h

theorem mem_firstConcat_of_head {x : Node} {xs : List Node} {p : Nat} (h : p ∈ x.firstPos) : p ∈ firstConcat (x :: xs) := by
  simp only [firstConcat]; split
  · exact List.mem_append_left _ h
  · exact h

theorem mem_lastConcat_of_tail {x : Node} {xs : List Node} {p : Nat} (h : p ∈ lastConcat xs) : p ∈ lastConcat (x :: xs) := by
  simp only [lastConcat]; split
  · exact List.mem_append_right _ h
  · exact h

theorem mem_lastConcat_of_head {x : Node} {xs : List Node} {p : Nat} (hn : allNullable xs = true) (h : p ∈ x.lastPos) :
    p ∈ lastConcat (x :: xs) := by
  simp only [lastConcat, hn, if_true]; exact List.mem_append_left _ h

mutual
/-- **firstPos is sound**: the first position of every non-empty marked word is in `firstPos` -/
theorem first_sound : (n : Node) → (a : Nat × Rune) → (m : MWord) → Node.mlang n (a :: m) → a.1 ∈ n.firstPos
  | .concat xs, a, m, h => by simp only [Node.mlang] at h; simp only [Node.firstPos]; exact firstCat_sound xs a m h
  | .alt xs, a, m, h => by simp only [Node.mlang] at h; simp only [Node.firstPos]; exact firstAlt_sound xs a m h
  | .star x, a, m, h => by
    simp only [Node.mlang] at h
    simp only [Node.firstPos]
    generalize hw : a :: m = w at h
    induction h with
    | nil => cases hw
    | app u v hu _ ih =>
      cases u with
      | nil => exact ih (by simpa using hw)
      | cons b u' =>
        have : b = a := by simp at hw; exact hw.1.symm
        subst this
        exact first_sound x b u' hu
  | .empty, a, m, h => by simp [Node.mlang] at h
  | .char c p, a, m, h => by
    simp only [Node.mlang, List.cons.injEq] at h
    simp only [Node.firstPos, List.mem_singleton]
    rw [h.1]
theorem firstCat_sound : (xs : List Node) → (a : Nat × Rune) → (m : MWord) → mlangCat xs (a :: m) → a.1 ∈ firstConcat xs
  | [], a, m, h => by simp [mlangCat] at h
  | x :: xs, a, m, h => by
    simp only [mlangCat] at h
    obtain ⟨u, v, huv, hu, hv⟩ := h
    cases u with
    | nil =>
      have hv' : mlangCat xs (a :: m) := by simpa using (show v = a :: m by simpa using huv.symm) ▸ hv
      exact mem_firstConcat_of_tail ((mlang_nil_iff x).mp hu) (firstCat_sound xs a m hv')
    | cons b u' =>
      have : b = a := by simp at huv; exact huv.1.symm
      subst this
      exact mem_firstConcat_of_head (first_sound x b u' hu)
theorem firstAlt_sound : (xs : List Node) → (a : Nat × Rune) → (m : MWord) → mlangAlt xs (a :: m) → a.1 ∈ firstAlt xs
  | [], a, m, h => by simp [mlangAlt] at h
  | x :: xs, a, m, h => by
    simp only [mlangAlt] at h
    simp only [firstAlt, List.mem_append]
    rcases h with h | h
    · exact Or.inl (first_sound x a m h)
    · exact Or.inr (firstAlt_sound xs a m h)
end

mutual
/-- **lastPos is sound**: the last position of every non-empty marked word is in `lastPos` -/
theorem last_sound : (n : Node) → (m : MWord) → (a : Nat × Rune) → Node.mlang n (m ++ [a]) → a.1 ∈ n.lastPos
  | .concat xs, m, a, h => by simp only [Node.mlang] at h; simp only [Node.lastPos]; exact lastCat_sound xs m a h
  | .alt xs, m, a, h => by simp only [Node.mlang] at h; simp only [Node.lastPos]; exact lastAlt_sound xs m a h
  | .star x, m, a, h => by
    simp only [Node.mlang] at h
    simp only [Node.lastPos]
    generalize hw : m ++ [a] = w at h
    induction h generalizing m with
    | nil => simp at hw
    | app u v hu _ ih =>
      rcases append_eq_snoc hw.symm with ⟨_, hu'⟩ | ⟨v', hv', _⟩
      · exact last_sound x m a (hu' ▸ hu)
      · exact ih v' hv'.symm
  | .empty, m, a, h => by simp [Node.mlang] at h
  | .char c p, m, a, h => by
    simp only [Node.mlang] at h
    simp only [Node.lastPos, List.mem_singleton]
    cases m with
    | nil => simp at h; rw [h]
    | cons b m' => simp at h
theorem lastCat_sound : (xs : List Node) → (m : MWord) → (a : Nat × Rune) → mlangCat xs (m ++ [a]) → a.1 ∈ lastConcat xs
  | [], m, a, h => by simp [mlangCat] at h
  | x :: xs, m, a, h => by
    simp only [mlangCat] at h
    obtain ⟨u, v, huv, hu, hv⟩ := h
    rcases append_eq_snoc huv.symm with ⟨hvn, hu'⟩ | ⟨v', hv', _⟩
    · subst hvn
      exact mem_lastConcat_of_head ((mlangCat_nil_iff xs).mp hv) (last_sound x m a (hu' ▸ hu))
    · exact mem_lastConcat_of_tail (lastCat_sound xs v' a (hv' ▸ hv))
theorem lastAlt_sound : (xs : List Node) → (m : MWord) → (a : Nat × Rune) → mlangAlt xs (m ++ [a]) → a.1 ∈ lastAlt xs
  | [], m, a, h => by simp [mlangAlt] at h
  | x :: xs, m, a, h => by
    simp only [mlangAlt] at h
    simp only [lastAlt, List.mem_append]
    rcases h with h | h
    · exact Or.inl (last_sound x m a h)
    · exact Or.inr (lastAlt_sound xs m a h)
end

/-! ### the follow map only grows, and gets the pairs it must get -/

theorem get_update (m : FollowMap) (p p' : Nat) (f : Poses → Poses) :
    (m.update p f).get p' = if p' = p then f (m.get p) else m.get p' := by
  induction m with
  | nil =>
    simp only [FollowMap.update, FollowMap.get]
    by_cases h : p' = p
    · subst h; simp
    · have : ¬ p = p' := fun e => h e.symm
      simp [h, this]
  | cons kv m ih =>
    obtain ⟨k, v⟩ := kv
    simp only [FollowMap.update]
    by_cases hk : k = p
    · subst hk
      simp only [if_true, FollowMap.get]
      by_cases h : p' = k
      · subst h; simp
      · have : ¬ k = p' := fun e => h e.symm
        simp [h, this]
    · simp only [hk, if_false, FollowMap.get]
      by_cases h : k = p'
      · subst h
        have : ¬ k = p := hk
        simp [this]
      · simp only [h, if_false]; exact ih

theorem mem_union (a b : Poses) (q : Nat) : q ∈ Poses.union a b ↔ q ∈ a ∨ q ∈ b := by
  unfold Poses.union
  induction b generalizing a with
  | nil => simp
  | cons x b ih =>
    rw [List.foldl_cons, ih]
    split
    · rename_i hc
      have hx : x ∈ a := by simpa using hc
      constructor
      · rintro (h | h)
        · exact Or.inl h
        · exact Or.inr (List.mem_cons_of_mem _ h)
      · rintro (h | h)
        · exact Or.inl h
        · rcases List.mem_cons.mp h with rfl | h
          · exact Or.inl hx
          · exact Or.inr h
    · constructor
      · rintro (h | h)
        · rcases List.mem_append.mp h with h | h
          · exact Or.inl h
          · exact Or.inr (by rw [List.mem_singleton.mp h]; exact List.mem_cons_self)
        · exact Or.inr (List.mem_cons_of_mem _ h)
      · rintro (h | h)
        · exact Or.inl (List.mem_append_left _ h)
        · rcases List.mem_cons.mp h with rfl | h
          · exact Or.inl (List.mem_append_right _ (List.mem_singleton.mpr rfl))
          · exact Or.inr h

/-- every entry of the first map is in the second -/
def Grows (m m' : FollowMap) : Prop := ∀ p q, q ∈ m.get p → q ∈ m'.get p

theorem Grows.refl (m : FollowMap) : Grows m m := fun _ _ h => h
theorem Grows.trans {a b c : FollowMap} (h1 : Grows a b) (h2 : Grows b c) : Grows a c := fun p q h => h2 p q (h1 p q h)

/-- adding a set `F` to the entries of the positions `ps` (the update keeping what was there) -/
theorem foldl_update_spec (g : Poses → Poses) (F : Poses) (hg : ∀ cur q, q ∈ cur ∨ q ∈ F → q ∈ g cur) :
    ∀ (ps : List Nat) (m : FollowMap),
      Grows m (ps.foldl (fun acc p => acc.update p g) m) ∧
      ∀ p, p ∈ ps → ∀ q, q ∈ F → q ∈ (ps.foldl (fun acc p => acc.update p g) m).get p := by
  intro ps
  induction ps with
  | nil => intro m; exact ⟨Grows.refl m, fun _ h => by simp at h⟩
  | cons a ps ih =>
    intro m
    rw [List.foldl_cons]
    have step : Grows m (m.update a g) := by
      intro p q h
      rw [get_update]
      split
      · rename_i e; subst e; exact hg _ _ (Or.inl h)
      · exact h
    obtain ⟨h1, h2⟩ := ih (m.update a g)
    refine ⟨step.trans h1, ?_⟩
    intro p hp q hq
    rcases List.mem_cons.mp hp with rfl | hp
    · apply h1
      rw [get_update]; simp only [if_true]
      exact hg _ _ (Or.inr hq)
    · exact h2 p hp q hq

theorem followsOfOperand_spec (x : Node) : ∀ (ys : List Node) (m : FollowMap),
    Grows m (followsOfOperand m x ys) ∧
    ∀ pre y post, ys = pre ++ y :: post → allNullable pre = true →
      ∀ p, p ∈ x.lastPos → ∀ q, q ∈ y.firstPos → q ∈ (followsOfOperand m x ys).get p := by
  intro ys
  induction ys with
  | nil => intro m; exact ⟨Grows.refl m, fun pre y post h => by simp at h⟩
  | cons y0 ys ih =>
    intro m
    simp only [followsOfOperand]
    obtain ⟨g1, g2⟩ := foldl_update_spec (fun cur => Poses.union cur y0.firstPos) y0.firstPos
      (fun cur q h => (mem_union cur y0.firstPos q).mpr h) x.lastPos m
    split
    · rename_i hn
      obtain ⟨i1, i2⟩ := ih (x.lastPos.foldl (fun acc p => acc.update p (fun cur => Poses.union cur y0.firstPos)) m)
      refine ⟨g1.trans i1, ?_⟩
      intro pre y post hsplit hpre p hp q hq
      cases pre with
      | nil =>
        simp only [List.nil_append, List.cons.injEq] at hsplit
        obtain ⟨rfl, _⟩ := hsplit
        exact i1 p q (g2 p hp q hq)
      | cons z pre' =>
        simp only [List.cons_append, List.cons.injEq] at hsplit
        obtain ⟨rfl, hrest⟩ := hsplit
        simp only [allNullable, Bool.and_eq_true] at hpre
        exact i2 pre' y post hrest hpre.2 p hp q hq
    · rename_i hn
      refine ⟨g1, ?_⟩
      intro pre y post hsplit hpre p hp q hq
      cases pre with
      | nil =>
        simp only [List.nil_append, List.cons.injEq] at hsplit
        obtain ⟨rfl, _⟩ := hsplit
        exact g2 p hp q hq
      | cons z pre' =>
        simp only [List.cons_append, List.cons.injEq] at hsplit
        obtain ⟨rfl, _⟩ := hsplit
        simp only [allNullable, Bool.and_eq_true] at hpre
        exact absurd hpre.1 hn

/-- all pairs that cross from an operand of a concatenation into a later one (the operands between being nullable) -/
def HasCross (M : FollowMap) (xs : List Node) : Prop :=
  ∀ a x pre y post, xs = a ++ x :: (pre ++ y :: post) → allNullable pre = true →
    ∀ p, p ∈ x.lastPos → ∀ q, q ∈ y.firstPos → q ∈ M.get p

theorem HasCross.grows {M M' : FollowMap} {xs : List Node} (h : HasCross M xs) (g : Grows M M') : HasCross M' xs :=
  fun a x pre y post e hn p hp q hq => g p q (h a x pre y post e hn p hp q hq)

theorem HasCross.tail {M : FollowMap} {x : Node} {xs : List Node} (h : HasCross M (x :: xs)) : HasCross M xs :=
  fun a x' pre y post e hn p hp q hq => h (x :: a) x' pre y post (by rw [e]; rfl) hn p hp q hq

theorem concatPairs_spec : ∀ (xs : List Node) (m : FollowMap), Grows m (concatPairs m xs) ∧ HasCross (concatPairs m xs) xs := by
  intro xs
  induction xs with
  | nil => intro m; exact ⟨Grows.refl m, fun a x pre y post e => by simp at e⟩
  | cons x xs ih =>
    intro m
    simp only [concatPairs]
    obtain ⟨f1, f2⟩ := followsOfOperand_spec x xs m
    obtain ⟨i1, i2⟩ := ih (followsOfOperand m x xs)
    refine ⟨f1.trans i1, ?_⟩
    intro a x' pre y post e hn p hp q hq
    cases a with
    | nil =>
      simp only [List.nil_append, List.cons.injEq] at e
      obtain ⟨rfl, e2⟩ := e
      exact i1 p q (f2 pre y post e2 hn p hp q hq)
    | cons z a' =>
      simp only [List.cons_append, List.cons.injEq] at e
      obtain ⟨rfl, e2⟩ := e
      exact i2 a' x' pre y post e2 hn p hp q hq

mutual
theorem computeFollows_grows : (n : Node) → (m : FollowMap) → Grows m (computeFollows m n)
  | .concat xs, m => by
    simp only [computeFollows]
    exact (concatPairs_spec xs m).1.trans (followsList_grows xs _)
  | .alt xs, m => by simp only [computeFollows]; exact followsList_grows xs m
  | .star x, m => by
    simp only [computeFollows]
    exact (foldl_update_spec (fun cur => cur ++ x.firstPos) x.firstPos
      (fun cur q h => List.mem_append.mpr h) x.lastPos m).1.trans (computeFollows_grows x _)
  | .empty, m => by simp only [computeFollows]; exact Grows.refl m
  | .char _ _, m => by simp only [computeFollows]; exact Grows.refl m
theorem followsList_grows : (xs : List Node) → (m : FollowMap) → Grows m (followsList m xs)
  | [], m => by simp only [followsList]; exact Grows.refl m
  | x :: xs, m => by
    simp only [followsList]
    exact (computeFollows_grows x m).trans (followsList_grows xs _)
end

/-! ### every adjacent pair of a marked word is in the follow map -/

/-- `q` comes directly after `p` somewhere in the marked word -/
def Adj (m : MWord) (p q : Nat) : Prop := ∃ u v c d, m = u ++ (p, c) :: (q, d) :: v

theorem adj_append {u v : MWord} {p q : Nat} (h : Adj (u ++ v) p q) :
    Adj u p q ∨ Adj v p q ∨ ∃ u' c v' d, u = u' ++ [(p, c)] ∧ v = (q, d) :: v' := by
  obtain ⟨a, b, c, d, e⟩ := h
  rcases List.append_eq_append_iff.mp e with ⟨a', ha, hv⟩ | ⟨c', hu, hrest⟩
  · exact Or.inr (Or.inl ⟨a', b, c, d, hv⟩)
  · cases c' with
    | nil =>
      simp only [List.nil_append] at hrest
      exact Or.inr (Or.inl ⟨[], b, c, d, by simpa using hrest.symm⟩)
    | cons z c'' =>
      simp only [List.cons_append, List.cons.injEq] at hrest
      obtain ⟨rfl, hrest⟩ := hrest
      cases c'' with
      | nil =>
        simp only [List.nil_append] at hrest
        exact Or.inr (Or.inr ⟨a, c, b, d, by simpa using hu, hrest.symm⟩)
      | cons z2 c3 =>
        simp only [List.cons_append, List.cons.injEq] at hrest
        obtain ⟨rfl, hrest⟩ := hrest
        exact Or.inl ⟨a, c3, c, d, hu⟩

/-- the operand a concatenation's word starts in -/
theorem first_split : ∀ (xs : List Node) (a : Nat × Rune) (m : MWord), mlangCat xs (a :: m) →
    ∃ pre y post, xs = pre ++ y :: post ∧ allNullable pre = true ∧ a.1 ∈ y.firstPos := by
  intro xs
  induction xs with
  | nil => intro a m h; simp [mlangCat] at h
  | cons x xs ih =>
    intro a m h
    simp only [mlangCat] at h
    obtain ⟨u, v, huv, hu, hv⟩ := h
    cases u with
    | nil =>
      have hv' : mlangCat xs (a :: m) := by simpa using (show v = a :: m by simpa using huv.symm) ▸ hv
      obtain ⟨pre, y, post, e, hn, hf⟩ := ih a m hv'
      exact ⟨x :: pre, y, post, by rw [e]; rfl, by simp [allNullable, hn, (mlang_nil_iff x).mp hu], hf⟩
    | cons b u' =>
      have : b = a := by simp at huv; exact huv.1.symm
      subst this
      exact ⟨[], x, xs, rfl, rfl, first_sound x b u' hu⟩

mutual
/-- **followpos is sound**: whenever `q` directly follows `p` in a marked word of the tree, `q` is in the follow set
    computed for `p` (whatever the map held before) -/
theorem follow_sound : (n : Node) → (m : MWord) → Node.mlang n m → ∀ p q, Adj m p q → ∀ M, q ∈ (computeFollows M n).get p
  | .concat xs, m, h => by
    intro p q ha M
    simp only [Node.mlang] at h
    simp only [computeFollows]
    exact followCat_sound xs m h p q ha _ (concatPairs_spec xs M).2
  | .alt xs, m, h => by
    intro p q ha M
    simp only [Node.mlang] at h
    simp only [computeFollows]
    exact followAlt_sound xs m h p q ha M
  | .star x, m, h => by
    intro p q ha M
    simp only [Node.mlang] at h
    simp only [computeFollows]
    obtain ⟨g1, g2⟩ := foldl_update_spec (fun cur => cur ++ x.firstPos) x.firstPos
      (fun cur q h => List.mem_append.mpr h) x.lastPos M
    generalize x.lastPos.foldl (fun acc p => acc.update p (fun cur => cur ++ x.firstPos)) M = M1 at g1 g2
    induction h with
    | nil => obtain ⟨u, v, c, d, e⟩ := ha; simp at e
    | app u v hu hv ih =>
      rcases adj_append ha with h1 | h2 | ⟨u', c, v', d, eu, ev⟩
      · exact follow_sound x u hu p q h1 M1
      · exact ih h2
      · have hp : p ∈ x.lastPos := last_sound x u' (p, c) (eu ▸ hu)
        have hq : q ∈ x.firstPos := by
          have : Node.mlang (.star x) ((q, d) :: v') := by simp only [Node.mlang]; exact ev ▸ hv
          simpa [Node.firstPos] using first_sound (.star x) (q, d) v' this
        exact computeFollows_grows x M1 p q (g2 p hp q hq)
  | .empty, m, h => by
    intro p q ha M
    simp only [Node.mlang] at h
    obtain ⟨u, v, c, d, e⟩ := ha
    rw [h] at e; simp at e
  | .char c0 p0, m, h => by
    intro p q ha M
    simp only [Node.mlang] at h
    obtain ⟨u, v, c, d, e⟩ := ha
    rw [h] at e
    cases u with
    | nil => simp at e
    | cons z u' => simp at e
theorem followCat_sound : (xs : List Node) → (m : MWord) → mlangCat xs m → ∀ p q, Adj m p q → ∀ M, HasCross M xs →
    q ∈ (followsList M xs).get p
  | [], m, h => by
    intro p q ha M _
    simp only [mlangCat] at h
    obtain ⟨u, v, c, d, e⟩ := ha
    rw [h] at e; simp at e
  | x :: xs, m, h => by
    intro p q ha M hc
    simp only [mlangCat] at h
    obtain ⟨u, v, rfl, hu, hv⟩ := h
    simp only [followsList]
    rcases adj_append ha with h1 | h2 | ⟨u', c, v', d, eu, ev⟩
    · exact followsList_grows xs _ p q (follow_sound x u hu p q h1 M)
    · exact followCat_sound xs v hv p q h2 _ (hc.tail.grows (computeFollows_grows x M))
    · have hp : p ∈ x.lastPos := last_sound x u' (p, c) (eu ▸ hu)
      obtain ⟨pre, y, post, e, hn, hf⟩ := first_split xs (q, d) v' (ev ▸ hv)
      have : q ∈ M.get p := hc [] x pre y post (by rw [e]; rfl) hn p hp q hf
      exact followsList_grows xs _ p q (computeFollows_grows x M p q this)
theorem followAlt_sound : (xs : List Node) → (m : MWord) → mlangAlt xs m → ∀ p q, Adj m p q → ∀ M,
    q ∈ (followsList M xs).get p
  | [], m, h => by simp [mlangAlt] at h
  | x :: xs, m, h => by
    intro p q ha M
    simp only [mlangAlt] at h
    simp only [followsList]
    rcases h with h | h
    · exact followsList_grows xs _ p q (follow_sound x m h p q ha M)
    · exact followAlt_sound xs m h p q ha _
end

end Emerge.Props.C10
