import Emerge.Regex.Follow
/-
  Every pattern the mapper model builds is made of item lists (`spined`): the hypothesis of `C10_dfa_documented`
  holds for whatever `parsePat` returns, for every grammar and class table.
  Core Lean only.
-/
namespace Emerge.Props.C10
open Emerge Emerge.Regex Emerge.Regex.Follow

/-- a predicate that holds of every value the combinators and mappers produce holds of every parse result -/
theorem ev_pred {V : Type} (A : Alg V) (P : V → Prop) (hr : ∀ r, P (A.rune r)) (hs : ∀ s, P (A.str s)) (he : P A.empty)
    (hl : ∀ l, (∀ x ∈ l, P x) → P (A.list l)) (hu : ∀ v l, P v → A.unlist v = some l → ∀ x ∈ l, P x)
    (ha : ∀ m v v', P v → A.app m v = some v' → P v') (G : Rules) :
    ∀ (f : Nat) (c : Comb) (s : List Rune) (v : V) (s' : List Rune), ev A G f c s = .ok v s' → P v := by
  intro f
  induction f with
  | zero => intro c s v s' h; simp [ev] at h
  | succ f ih =>
    intro c s v s' h
    cases c with
    | rune r =>
      simp only [ev] at h
      split at h
      · split at h
        · cases h; exact hr _
        · cases h
      · cases h
    | runeIn rs =>
      simp only [ev] at h
      split at h
      · split at h
        · cases h; exact hr _
        · cases h
      · cases h
    | range lo hi =>
      simp only [ev] at h
      split at h
      · split at h
        · cases h; exact hr _
        · cases h
      · cases h
    | str t =>
      simp only [ev] at h
      split at h
      · cases h; exact hs _
      · cases h
    | rangeExcl lo hi rs =>
      simp only [ev] at h
      split at h
      · split at h
        · split at h
          · cases h
          · cases h; exact hr _
        · cases h
      · cases h
    | alt cs =>
      cases cs with
      | nil => simp [ev] at h
      | cons c cs =>
        simp only [ev] at h
        split at h
        · rename_i v0 s0 h0; cases h; exact ih c s _ _ h0
        · cases h
        · exact ih (.alt cs) s v s' h
    | cat cs =>
      cases cs with
      | nil => simp only [ev] at h; cases h; exact hl [] (fun x hx => by cases hx)
      | cons c cs =>
        simp only [ev] at h
        split at h
        · rename_i v0 s0 h0
          split at h
          · rename_i vs s1 h1
            split at h
            · rename_i l hl'
              cases h
              apply hl
              intro x hx
              rcases List.mem_cons.mp hx with rfl | hx
              · exact ih c s _ _ h0
              · exact hu vs l (ih (.cat cs) s0 _ _ h1) hl' x hx
            · cases h
          · cases h
          · cases h
        · cases h
        · cases h
    | opt c =>
      simp only [ev] at h
      split at h
      · rename_i v0 s0 h0; cases h; exact ih c s _ _ h0
      · cases h; exact he
      · cases h
    | rep1 c =>
      simp only [ev] at h
      split at h
      · rename_i v0 s0 h0
        have hv0 := ih c s _ _ h0
        split at h
        · cases h; exact hl [v0] (fun x hx => by simp only [List.mem_singleton] at hx; rw [hx]; exact hv0)
        · split at h
          · rename_i vs s1 h1
            split at h
            · rename_i l hl'
              cases h
              apply hl
              intro x hx
              rcases List.mem_cons.mp hx with rfl | hx
              · exact hv0
              · exact hu vs l (ih (.rep1 c) _ _ _ h1) hl' x hx
            · cases h
          · cases h; exact hl [v0] (fun x hx => by simp only [List.mem_singleton] at hx; rw [hx]; exact hv0)
          · cases h
      · cases h
      · cases h
    | map m c =>
      simp only [ev] at h
      split at h
      · rename_i v0 s0 h0
        split at h
        · rename_i v1 h1; cases h; exact ha m v0 _ (ih c s _ _ h0) h1
        · cases h
      · cases h
      · cases h
    | nt n =>
      simp only [ev] at h
      split at h
      · rename_i c hc; exact ih c s v s' h
      · cases h

mutual
/-- every pattern inside the value is made of item lists -/
def ValOk : Val → Prop
  | .pat p _ => spined p = true
  | .list xs => ValsOk xs
  | _ => True
def ValsOk : List Val → Prop
  | [] => True
  | x :: xs => ValOk x ∧ ValsOk xs
end

theorem valsOk_iff (xs : List Val) : ValsOk xs ↔ ∀ x ∈ xs, ValOk x := by
  induction xs with
  | nil => simp [ValsOk]
  | cons x xs ih => simp [ValsOk, ih]

theorem get_ok (v : Val) (i : Nat) (h : ValOk v) : ValOk (v.get i) := by
  cases v with
  | list xs =>
    simp only [Val.get]
    simp only [ValOk] at h
    rw [List.getD_eq_getElem?_getD]
    cases hx : xs[i]? with
    | none => simp [ValOk]
    | some x => simp only [Option.getD_some]; exact (valsOk_iff xs).mp h x (List.mem_of_getElem? hx)
  | _ => simp [Val.get, ValOk]

theorem subexpr_ok (items : List Val) (h : ValsOk items) :
    spined (items.foldr (fun x acc => match x with | .pat p _ => .scons p acc | _ => acc) .snil) = true ∧
    isSpine (items.foldr (fun x acc => match x with | .pat p _ => .scons p acc | _ => acc) .snil) = true := by
  induction items with
  | nil => simp [spined, isSpine]
  | cons x xs ih =>
    simp only [ValsOk] at h
    obtain ⟨i1, i2⟩ := ih h.2
    simp only [List.foldr]
    cases x with
    | pat p it =>
      simp only [spined, isSpine, Bool.and_eq_true]
      exact ⟨⟨⟨h.1, i1⟩, i2⟩, trivial⟩
    | _ => exact ⟨i1, i2⟩

end Emerge.Props.C10

namespace Emerge.Props.C10
open Emerge Emerge.Regex Emerge.Regex.Follow

theorem app_ok (T : ClassTable) (m : String) (v v' : Val) (hv : ValOk v) (h : app T m v = some v') : ValOk v' := by
  have g0 := get_ok v 0 hv
  have g1 := get_ok v 1 hv
  have g2 := get_ok v 2 hv
  have g3 := get_ok v 3 hv
  have g11 := get_ok (v.get 1) 1 g1
  unfold app at h
  split at h
  all_goals first
    | (cases h; exact hv)
    | (simp only [Option.some.injEq] at h; subst h; simp [ValOk, spined])
    | skip
  all_goals (repeat' split at h)
  all_goals first
    | (cases h; done)
    | (simp only [Option.some.injEq] at h; subst h; simp only [ValOk] at hv ⊢; exact (subexpr_ok _ hv).1)
    | (simp only [Option.some.injEq] at h; subst h; simp_all [ValOk, spined])
    | skip
  all_goals (dsimp only at h; split at h <;> first
    | (cases h; done)
    | (simp only [Option.some.injEq] at h; subst h; simp [ValOk, spined]))

/-- **Whatever the mapper model returns for a pattern is made of item lists**, for every grammar and class table. -/
theorem parsePat_spined (G : Rules) (top : String) (T : ClassTable) (s : List Rune) (p : Pat)
    (h : parsePat G top T s = .ok p) : spined p = true := by
  unfold parsePat at h
  split at h
  · cases h
  · split at h
    · cases h
    · cases h
    · rename_i v rest hev
      split at h
      · cases h
      · split at h
        · rename_i p' it
          split at h
          · cases h
            have := ev_pred (alg T) ValOk (fun r => by simp [alg, ValOk]) (fun s => by simp [alg, ValOk]) (by simp [alg, ValOk])
              (fun l hl => by simp only [alg, ValOk]; exact (valsOk_iff l).mpr hl)
              (fun v l hv hu => by
                cases v with
                | list xs => simp only [alg, Option.some.injEq] at hu; subst hu; simp only [ValOk] at hv; exact (valsOk_iff xs).mp hv
                | _ => simp [alg] at hu)
              (fun m v v' hv ha => app_ok T m v v' hv ha) G _ _ _ _ _ hev
            simpa [ValOk] using this
          · cases h
        · cases h

end Emerge.Props.C10
