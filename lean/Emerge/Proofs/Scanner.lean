import Emerge.Scanner
/-
  General theorems about the table-driven scanner model (any transition function, any
  accepting table): maximal munch, partition of the input, positions.
-/
namespace Emerge.Scanner

/-- `c` is the longest prefix of `rs` along which the automaton can run from `s`; it reaches `q`. -/
def LongestRun (adv : Nat → Rune → Option Nat) (s : Nat) (rs c : List Rune) (q : Nat) : Prop :=
  c <+: rs ∧ run adv s c = some q ∧
    ∀ c', c' <+: rs → c.length < c'.length → run adv s c' = none

theorem munch_append (adv) : ∀ s rs, (munch adv s rs).2.1 ++ (munch adv s rs).2.2 = rs := by
  intro s rs
  induction rs generalizing s with
  | nil => simp [munch]
  | cons r rs ih =>
    unfold munch
    cases h : adv s r with
    | none => simp
    | some s' => simp [ih s']

theorem munch_run (adv) : ∀ s rs, run adv s (munch adv s rs).2.1 = some (munch adv s rs).1 := by
  intro s rs
  induction rs generalizing s with
  | nil => simp [munch, run]
  | cons r rs ih =>
    unfold munch
    cases h : adv s r with
    | none => simp [run]
    | some s' => simp [run, h, ih s']

/-- after the consumed run the automaton is stuck: the input ended or the next rune has no transition -/
theorem munch_stuck (adv) : ∀ s rs, (munch adv s rs).2.2 = [] ∨
    ∃ r rest, (munch adv s rs).2.2 = r :: rest ∧ adv (munch adv s rs).1 r = none := by
  intro s rs
  induction rs generalizing s with
  | nil => simp [munch]
  | cons r rs ih =>
    unfold munch
    cases h : adv s r with
    | none => right; exact ⟨r, rs, by simp, by simpa using h⟩
    | some s' => simpa using ih s'

theorem run_append (adv) : ∀ s a b, run adv s (a ++ b) = (run adv s a).bind (fun q => run adv q b) := by
  intro s a b
  induction a generalizing s with
  | nil => simp [run]
  | cons x a ih =>
    simp only [List.cons_append, run]
    cases adv s x with
    | none => simp
    | some s' => simpa using ih s'

theorem munch_longest (adv) (s : Nat) (rs : List Rune) :
    LongestRun adv s rs (munch adv s rs).2.1 (munch adv s rs).1 := by
  refine ⟨⟨(munch adv s rs).2.2, munch_append adv s rs⟩, munch_run adv s rs, ?_⟩
  intro c' hpre hlen
  obtain ⟨t, ht⟩ := hpre
  have happ := munch_append adv s rs
  -- c' extends the consumed run by at least one rune
  have hc : (munch adv s rs).2.1 <+: c' := by
    have h1 : (munch adv s rs).2.1 <+: rs := ⟨_, happ⟩
    have h2 : c' <+: rs := ⟨t, ht⟩
    exact (List.prefix_of_prefix_length_le h1 h2 (by omega))
  obtain ⟨u, hu⟩ := hc
  have hune : u ≠ [] := by
    intro h; subst h; simp at hu; rw [hu] at hlen; omega
  rcases munch_stuck adv s rs with hnil | ⟨r, rest, hrest, hdead⟩
  · -- nothing is left, so c' cannot be longer
    rw [hnil] at happ; simp at happ
    have : c'.length ≤ rs.length := by rw [← ht]; simp
    rw [← happ] at this; omega
  · -- the next rune is dead
    have : u.head? = some r := by
      have e : (munch adv s rs).2.1 ++ (u ++ t) = (munch adv s rs).2.1 ++ (r :: rest) := by
        rw [← List.append_assoc, hu, ht, ← hrest, happ]
      have := List.append_cancel_left e
      cases u with
      | nil => exact absurd rfl hune
      | cons x u' => simp at this; simp [this.1]
    rw [← hu, run_append, munch_run]
    cases u with
    | nil => exact absurd rfl hune
    | cons x u' =>
      simp at this; subst this
      simp [run, hdead]

/-- The longest run is unique. -/
theorem LongestRun.unique {adv s rs c q c' q'} (h : LongestRun adv s rs c q)
    (h' : LongestRun adv s rs c' q') : c = c' ∧ q = q' := by
  have hl : c.length = c'.length := by
    rcases Nat.lt_trichotomy c.length c'.length with hlt | heq | hgt
    · have := h.2.2 c' h'.1 hlt; rw [h'.2.1] at this; cases this
    · exact heq
    · have := h'.2.2 c h.1 hgt; rw [h.2.1] at this; cases this
  have hc : c = c' := by
    have := List.prefix_of_prefix_length_le h.1 h'.1 (by omega)
    exact this.eq_of_length hl
  subst hc
  have := h.2.1; rw [h'.2.1] at this
  exact ⟨rfl, (Option.some.inj this).symm⟩

/-- Declarative description of the segmentation of an input into maximal runs from state 0,
    for an automaton in which state 0 is never re-entered. -/
inductive Segmented (S : Spec) : Pos → List Rune → List Seg → End → Prop where
  | eof (p : Pos) : Segmented S p [] [] .eof
  | seg (p : Pos) (rs c rest : List Rune) (q : Nat) (segs : List Seg) (e : End) :
      rs ≠ [] → LongestRun S.adv 0 rs c q → rs = c ++ rest → c ≠ [] → (S.eval q).isSome = true →
      Segmented S (advPosList p c) rest segs e →
      Segmented S p rs (⟨q, c, p⟩ :: segs) e
  | err (p : Pos) (rs c : List Rune) (q : Nat) :
      rs ≠ [] → LongestRun S.adv 0 rs c q → S.eval q = none →
      Segmented S p rs [] (.lexErr p c)

/-- State 0 is only the start state. -/
def NoReentry (S : Spec) : Prop := ∀ s r, S.adv s r ≠ some 0

theorem run_ne_zero {adv} (h : ∀ s r, adv s r ≠ some 0) :
    ∀ s c, c ≠ [] → run adv s c ≠ some 0 := by
  intro s c
  induction c generalizing s with
  | nil => intro h; exact absurd rfl h
  | cons x c ih =>
    intro _
    simp only [run]
    cases hx : adv s x with
    | none => simp
    | some s' =>
      cases c with
      | nil => simp [run]; intro h0; exact h s x (by rw [hx, h0])
      | cons y c' => exact ih s' (by simp)

theorem munch_length_le (adv) (s rs) : (munch adv s rs).2.2.length ≤ rs.length := by
  have := congrArg List.length (munch_append adv s rs)
  simp at this; omega

theorem segments_segmented (S : Spec) (h0 : NoReentry S) (hz : S.eval 0 = none) :
    ∀ n p rs, rs.length < n →
      Segmented S p rs (segments S n p rs).1 (segments S n p rs).2 := by
  intro n
  induction n with
  | zero => intro p rs h; omega
  | succ n ih =>
    intro p rs hn
    cases rs with
    | nil => simp [segments]; exact .eof p
    | cons r rs =>
      have hL := munch_longest S.adv 0 (r :: rs)
      have happ := munch_append S.adv 0 (r :: rs)
      simp only [segments]
      split
      · -- input exhausted in state 0: impossible, the run is non-empty and cannot end in 0
        rename_i hcond
        obtain ⟨hrest, hq⟩ := hcond
        rw [hrest] at happ; simp at happ
        have := run_ne_zero h0 0 (munch S.adv 0 (r :: rs)).2.1 (by rw [happ]; simp)
        rw [munch_run] at this
        exact absurd (by rw [hq]) this
      · rename_i hcond
        cases hev : S.eval (munch S.adv 0 (r :: rs)).1 with
        | none => simp; exact .err p _ _ _ (by simp) hL hev
        | some km =>
          simp
          have hne : (munch S.adv 0 (r :: rs)).2.1 ≠ [] := by
            intro hnil
            have hr := munch_run S.adv 0 (r :: rs)
            rw [hnil] at hr; simp [run] at hr
            rw [← hr, hz] at hev; cases hev
          simp [hne]
          refine .seg p _ _ _ _ _ _ (by simp) hL happ.symm hne (by simp [hev]) ?_
          apply ih
          have hl := congrArg List.length happ
          simp at hl
          have : 0 < (munch S.adv 0 (r :: rs)).2.1.length := List.length_pos_iff.mpr hne
          simp at hn
          omega

/-- The segmentation is uniquely determined by the declarative description. -/
theorem Segmented.unique {S p rs segs e segs' e'} (h : Segmented S p rs segs e)
    (h' : Segmented S p rs segs' e') : segs = segs' ∧ e = e' := by
  induction h generalizing segs' e' with
  | eof p =>
    cases h' with
    | eof => exact ⟨rfl, rfl⟩
    | seg _ _ _ _ _ _ _ hne => exact absurd rfl hne
    | err _ _ _ _ hne => exact absurd rfl hne
  | seg p rs c rest q segs e hne hL hsplit hc hev _ ih =>
    cases h' with
    | eof => exact absurd rfl hne
    | seg _ _ c' rest' q' segs'' _ _ hL' hsplit' _ _ hrest' =>
      obtain ⟨hcc, hqq⟩ := hL.unique hL'
      subst hcc; subst hqq
      have : rest = rest' := List.append_cancel_left (hsplit.symm.trans hsplit')
      subst this
      obtain ⟨h1, h2⟩ := ih hrest'
      exact ⟨by rw [h1], h2⟩
    | err _ _ c' q' _ hL' hev' =>
      obtain ⟨_, hqq⟩ := hL.unique hL'
      subst hqq; rw [hev'] at hev; cases hev
  | err p rs c q hne hL hev =>
    cases h' with
    | eof => exact absurd rfl hne
    | seg _ _ c' rest' q' _ _ _ hL' _ _ hev' =>
      obtain ⟨_, hqq⟩ := hL.unique hL'
      subst hqq; rw [hev] at hev'; cases hev'
    | err _ _ c' q' _ hL' _ =>
      obtain ⟨hcc, _⟩ := hL.unique hL'
      subst hcc; exact ⟨rfl, rfl⟩

/-- Partition: the segments, followed by the offending text of a lexical error, are a prefix of the
    input, and the whole input when the scan ends with end-of-input. -/
theorem Segmented.partition {S p rs segs e} (h : Segmented S p rs segs e) :
    (e = .eof → (segs.map Seg.text).flatten = rs) ∧
    (∀ p' t, e = .lexErr p' t → ((segs.map Seg.text).flatten ++ t) <+: rs) ∧
    e ≠ .stuck := by
  induction h with
  | eof p => simp
  | seg p rs c rest q segs e _ _ hsplit _ _ _ ih =>
    refine ⟨?_, ?_, ih.2.2⟩
    · intro he; simp; rw [ih.1 he, hsplit]
    · intro p' t he
      simp
      rw [hsplit]
      exact (List.prefix_append_right_inj c).mpr (ih.2.1 p' t he)
  | err p rs c q _ hL _ =>
    refine ⟨by simp, ?_, by simp⟩
    intro p' t he
    cases he
    simpa using hL.1

/-- Positions: every segment starts where the text before it ends. -/
theorem Segmented.positions {S p rs segs e} (h : Segmented S p rs segs e) :
    ∀ i (hi : i < segs.length),
      (segs[i]).pos = advPosList p ((segs.take i).map Seg.text).flatten := by
  induction h with
  | eof p => intro i hi; simp at hi
  | seg p rs c rest q segs e _ _ _ _ _ _ ih =>
    intro i hi
    cases i with
    | zero => simp
    | succ j =>
      simp at hi
      simp [advPosList_append, ih j hi]
  | err p rs c q _ _ _ => intro i hi; simp at hi

end Emerge.Scanner

namespace Emerge.Scanner

/-! ### compositionality: scanning a concatenation at a token boundary -/

theorem munch_all_of_run {adv : Nat → Rune → Option Nat} :
    ∀ (a : List Rune) (s q : Nat) (b : List Rune), run adv s a = some q →
      (b = [] ∨ ∃ r rest, b = r :: rest ∧ adv q r = none) →
      munch adv s (a ++ b) = (q, a, b) := by
  intro a
  induction a with
  | nil =>
    intro s q b hr hb
    simp [run] at hr; subst hr
    rcases hb with rfl | ⟨r, rest, rfl, hd⟩
    · simp [munch]
    · simp [munch, hd]
  | cons x a ih =>
    intro s q b hr hb
    simp only [run] at hr
    cases hx : adv s x with
    | none => rw [hx] at hr; cases hr
    | some s' =>
      rw [hx] at hr
      simp only [List.cons_append, munch, hx]
      rw [ih s' q b hr hb]

/-- Fuel is irrelevant once it exceeds the length of the input. -/
theorem segments_fuel (S : Spec) :
    ∀ (n n' : Nat) (p : Pos) (rs : List Rune), rs.length < n → rs.length < n' →
      segments S n p rs = segments S n' p rs := by
  intro n
  induction n with
  | zero => intro n' p rs h; omega
  | succ n ih =>
    intro n' p rs h h'
    cases n' with
    | zero => omega
    | succ n' =>
      cases rs with
      | nil => simp [segments]
      | cons r rs =>
        simp only [segments]
        split
        · rfl
        · split
          · rfl
          · split
            · rfl
            · rename_i hc
              have hl := congrArg List.length (munch_append S.adv 0 (r :: rs))
              simp at hl
              have : 0 < (munch S.adv 0 (r :: rs)).2.1.length := List.length_pos_iff.mpr hc
              simp at h h'
              rw [ih n' _ _ (by omega) (by omega)]

/-- segmentation with canonical fuel -/
def seg (S : Spec) (p : Pos) (rs : List Rune) : List Seg × End := segments S (rs.length + 1) p rs

theorem seg_nil (S : Spec) (p : Pos) : seg S p [] = ([], .eof) := by simp [seg, segments]

/-- one-step unfolding of the segmentation -/
theorem seg_cons (S : Spec) (p : Pos) (x : Rune) (xs : List Rune) :
    seg S p (x :: xs) =
      (if (munch S.adv 0 (x :: xs)).2.2 = [] ∧ (munch S.adv 0 (x :: xs)).1 = 0 then ([], .eof)
       else match S.eval (munch S.adv 0 (x :: xs)).1 with
        | none => ([], .lexErr p (munch S.adv 0 (x :: xs)).2.1)
        | some _ =>
          if (munch S.adv 0 (x :: xs)).2.1 = [] then ([], .stuck)
          else
            (⟨(munch S.adv 0 (x :: xs)).1, (munch S.adv 0 (x :: xs)).2.1, p⟩ ::
              (seg S (advPosList p (munch S.adv 0 (x :: xs)).2.1) (munch S.adv 0 (x :: xs)).2.2).1,
             (seg S (advPosList p (munch S.adv 0 (x :: xs)).2.1) (munch S.adv 0 (x :: xs)).2.2).2)) := by
  simp only [seg, segments, List.length_cons]
  by_cases h1 : (munch S.adv 0 (x :: xs)).2.2 = [] ∧ (munch S.adv 0 (x :: xs)).1 = 0
  · simp only [h1, and_self, if_true]
  · simp only [h1, if_false]
    cases hev : S.eval (munch S.adv 0 (x :: xs)).1 with
    | none => rfl
    | some km =>
      simp only
      by_cases hc : (munch S.adv 0 (x :: xs)).2.1 = []
      · simp only [hc, if_true]
      · simp only [hc, if_false]
        have hl := congrArg List.length (munch_append S.adv 0 (x :: xs))
        simp at hl
        have : 0 < (munch S.adv 0 (x :: xs)).2.1.length := List.length_pos_iff.mpr hc
        rw [segments_fuel S (xs.length + 1) ((munch S.adv 0 (x :: xs)).2.2.length + 1) _ _ (by omega) (by omega)]

theorem scan_eq_seg (S : Spec) (rs : List Rune) :
    scan S rs = ((seg S Pos.start rs).1.filterMap (tokenOf S), (seg S Pos.start rs).2) := rfl

/-- state in which the last segment ended (0 if there is none) -/
def lastState (segs : List Seg) : Nat := (segs.getLast?.map Seg.state).getD 0

/-- **Compositionality at a token boundary.** If `a` is segmented completely (ending with
    end-of-input) and the automaton cannot continue the last segment of `a` with the first rune of
    `b`, then the segmentation of `a ++ b` is that of `a` followed by that of `b` started at the
    position after `a`. -/
theorem seg_append (S : Spec) (h0 : NoReentry S) (hz : S.eval 0 = none) :
    ∀ (k : Nat) (p : Pos) (a b : List Rune) (segsA : List Seg),
      a.length ≤ k → a ≠ [] → seg S p a = (segsA, .eof) →
      (b = [] ∨ ∃ r rest, b = r :: rest ∧ S.adv (lastState segsA) r = none) →
      seg S p (a ++ b) = (segsA ++ (seg S (advPosList p a) b).1, (seg S (advPosList p a) b).2) := by
  intro k
  induction k with
  | zero => intro p a b segsA hk hne; cases a <;> simp at hk hne
  | succ k ih =>
    intro p a b segsA hk hne hseg hb
    cases a with
    | nil => exact absurd rfl hne
    | cons x a' =>
      have happ := munch_append S.adv 0 (x :: a')
      have hrun := munch_run S.adv 0 (x :: a')
      rw [seg_cons] at hseg
      generalize hc : (munch S.adv 0 (x :: a')).2.1 = c at *
      generalize hrr : (munch S.adv 0 (x :: a')).2.2 = rest at *
      generalize hqq : (munch S.adv 0 (x :: a')).1 = q at *
      have hq0 : c ≠ [] → q ≠ 0 := by
        intro hcne hq
        have := run_ne_zero h0 0 c hcne
        rw [hrun, hq] at this; exact this rfl
      split at hseg
      · -- exhausted in state 0: impossible
        rename_i hcond
        obtain ⟨hrest, hq⟩ := hcond
        rw [hrest] at happ; simp at happ
        exact absurd hq (hq0 (by rw [happ]; simp))
      · cases hev : S.eval q with
        | none => rw [hev] at hseg; simp at hseg
        | some km =>
          rw [hev] at hseg
          have hcne : c ≠ [] := by
            intro hnil
            rw [hnil] at hrun; simp [run] at hrun
            rw [← hrun, hz] at hev; cases hev
          simp only [hcne, if_false] at hseg
          have hsegs : ⟨q, c, p⟩ :: (seg S (advPosList p c) rest).1 = segsA := (Prod.mk.inj hseg).1
          have hend : (seg S (advPosList p c) rest).2 = .eof := (Prod.mk.inj hseg).2
          have hlen : c.length + rest.length = a'.length + 1 := by
            have := congrArg List.length happ; simpa using this
          have hcpos : 0 < c.length := List.length_pos_iff.mpr hcne
          by_cases hrest : rest = []
          · -- the first segment is all of `a`
            subst hrest
            simp at happ
            rw [seg_nil] at hsegs
            subst hsegs
            simp [lastState] at hb
            have hm1 : munch S.adv 0 (x :: a' ++ b) = (q, x :: a', b) := by
              apply munch_all_of_run
              · rw [← happ]; exact hrun
              · rcases hb with h | ⟨r, ⟨rs, h1⟩, h2⟩
                · left; exact h
                · right; exact ⟨r, rs, h1, h2⟩
            have e1 : (x :: a') ++ b = x :: (a' ++ b) := rfl
            rw [e1, seg_cons]
            rw [← e1, hm1]
            have hnot : ¬ (b = [] ∧ q = 0) := fun ⟨_, hq⟩ => hq0 hcne hq
            simp [hnot, hev, happ]
          · -- more segments follow inside `a`
            have hm1 : munch S.adv 0 (x :: a' ++ b) = (q, c, rest ++ b) := by
              have : x :: a' ++ b = c ++ (rest ++ b) := by rw [← List.append_assoc, happ]
              rw [this]
              apply munch_all_of_run _ _ _ _ hrun
              right
              rcases munch_stuck S.adv 0 (x :: a') with hnil | ⟨r, rs, hr1, hr2⟩
              · rw [hrr] at hnil; exact absurd hnil hrest
              · rw [hrr] at hr1; rw [hqq] at hr2
                exact ⟨r, rs ++ b, by rw [hr1]; rfl, hr2⟩
            have e1 : (x :: a') ++ b = x :: (a' ++ b) := rfl
            rw [e1, seg_cons]
            rw [← e1, hm1]
            have hnot : ¬ (rest ++ b = [] ∧ q = 0) := by
              intro ⟨hh, _⟩; simp at hh; exact hrest hh.1
            simp only [hnot, if_false, hev, hcne]
            -- recursive call on the rest of `a`
            generalize hres : seg S (advPosList p c) rest = res at hsegs hend
            obtain ⟨segsR, eR⟩ := res
            simp only at hsegs hend
            subst hend
            have hsegsR : segsR ≠ [] := by
              intro hnil; subst hnil
              cases rest with
              | nil => exact hrest rfl
              | cons y ys =>
                rw [seg_cons] at hres
                split at hres
                · rename_i hcond2
                  obtain ⟨hr2, hq2⟩ := hcond2
                  have happ2 := munch_append S.adv 0 (y :: ys)
                  rw [hr2] at happ2; simp at happ2
                  have := run_ne_zero h0 0 (munch S.adv 0 (y :: ys)).2.1 (by rw [happ2]; simp)
                  rw [munch_run] at this
                  exact this (by rw [hq2])
                · split at hres
                  · simp at hres
                  · split at hres <;> simp at hres
            have hlast : lastState segsA = lastState segsR := by
              rw [← hsegs]
              simp only [lastState]
              rw [List.getLast?_cons_of_ne_nil hsegsR]
            rw [hlast] at hb
            have ihr := ih (advPosList p c) rest b segsR (by simp at hk; omega) hrest hres hb
            rw [ihr]
            subst hsegs
            simp [advPosList_append, ← happ]

end Emerge.Scanner

namespace Emerge.Scanner

/-! ### positions only depend on the start position; blanks only move the start position -/

def End.strip : End → End
  | .eof => .eof
  | .lexErr _ t => .lexErr ⟨0, 0, 0⟩ t
  | .stuck => .stuck

/-- Changing the start position changes nothing but positions. -/
theorem seg_shift (S : Spec) : ∀ (k : Nat) (p p' : Pos) (rs : List Rune), rs.length ≤ k →
    (seg S p rs).1.map (fun g => (g.state, g.text)) = (seg S p' rs).1.map (fun g => (g.state, g.text)) ∧
    (seg S p rs).2.strip = (seg S p' rs).2.strip := by
  intro k
  induction k with
  | zero =>
    intro p p' rs h
    cases rs with
    | nil => simp [seg_nil]
    | cons x xs => simp at h
  | succ k ih =>
    intro p p' rs h
    cases rs with
    | nil => simp [seg_nil]
    | cons x xs =>
      rw [seg_cons, seg_cons]
      split
      · simp
      · cases hev : S.eval (munch S.adv 0 (x :: xs)).1 with
        | none => simp [End.strip]
        | some km =>
          simp only
          split
          · simp
          · rename_i hc
            have hl := congrArg List.length (munch_append S.adv 0 (x :: xs))
            simp at hl
            have : 0 < (munch S.adv 0 (x :: xs)).2.1.length := List.length_pos_iff.mpr hc
            simp at h
            have := ih (advPosList p (munch S.adv 0 (x :: xs)).2.1) (advPosList p' (munch S.adv 0 (x :: xs)).2.1)
              (munch S.adv 0 (x :: xs)).2.2 (by omega)
            simp [this.1, this.2]

/-- A class of "blank" runes: from the start state they lead to a skipped, accepting state that
    loops exactly on the runes of the same class. -/
structure BlankRune (S : Spec) (r : Rune) (s1 : Nat) : Prop where
  start : S.adv 0 r = some s1
  skipped : ∃ k m, S.eval s1 = some (k, m) ∧ S.skipped k = true
  /-- whatever continues in `s1` stays in `s1` and is also how the start state reaches `s1` -/
  loop : ∀ x s', S.adv s1 x = some s' → s' = s1 ∧ S.adv 0 x = some s1
  ne0 : s1 ≠ 0

theorem tokenOf_skipped {S : Spec} {g : Seg} {k m} (he : S.eval g.state = some (k, m)) (hs : S.skipped k = true) :
    tokenOf S g = none := by
  simp [tokenOf, he, hs]

/-- **A leading blank only moves the start position**: the tokens (with their positions) and the
    ending of `r :: b` scanned from `p` are those of `b` scanned from the position after `r`. -/
theorem seg_leading_blank (S : Spec) {r : Rune} {s1 : Nat} (hb : BlankRune S r s1) (p : Pos) (b : List Rune) :
    (seg S p (r :: b)).1.filterMap (tokenOf S) = (seg S (advPos p r) b).1.filterMap (tokenOf S) ∧
    (seg S p (r :: b)).2 = (seg S (advPos p r) b).2 := by
  obtain ⟨k, m, hev, hsk⟩ := hb.skipped
  have hm0 : munch S.adv 0 (r :: b) = ((munch S.adv s1 b).1, r :: (munch S.adv s1 b).2.1, (munch S.adv s1 b).2.2) := by
    simp [munch, hb.start]
  -- the state reached by the blank run is `s1`
  have hstay : ∀ (l : List Rune) , (munch S.adv s1 l).1 = s1 := by
    intro l
    induction l with
    | nil => simp [munch]
    | cons y l ih =>
      simp only [munch]
      cases hy : S.adv s1 y with
      | none => rfl
      | some s' =>
        obtain ⟨h1, _⟩ := hb.loop y s' hy
        subst h1; simpa using ih
  rw [seg_cons, hm0]
  simp only [hstay]
  have hnot : ¬ ((munch S.adv s1 b).2.2 = [] ∧ s1 = 0) := fun ⟨_, h⟩ => hb.ne0 h
  simp only [hnot, if_false, hev]
  simp only [List.cons_ne_nil, if_false]
  rw [List.filterMap_cons, tokenOf_skipped (g := ⟨s1, r :: (munch S.adv s1 b).2.1, p⟩) hev hsk]
  -- now compare with the scan of `b` itself
  cases b with
  | nil => simp [munch, seg_nil]
  | cons x b' =>
    cases hx : S.adv s1 x with
    | none =>
      -- the blank segment is just `r`
      simp [munch, hx]
    | some s' =>
      obtain ⟨h1, h0x⟩ := hb.loop x s' hx
      subst h1
      -- `b` itself starts with the same blank run
      have hmb : munch S.adv 0 (x :: b') = munch S.adv s' (x :: b') := by
        simp [munch, h0x, hx]
      rw [seg_cons (p := advPos p r), hmb]
      simp only [hstay]
      have hnot2 : ¬ ((munch S.adv s' (x :: b')).2.2 = [] ∧ s' = 0) := fun ⟨_, h⟩ => hb.ne0 h
      simp only [hnot2, if_false, hev]
      have hne : (munch S.adv s' (x :: b')).2.1 ≠ [] := by simp [munch, hx]
      simp only [hne, if_false]
      rw [List.filterMap_cons, tokenOf_skipped (g := ⟨s', (munch S.adv s' (x :: b')).2.1, advPos p r⟩) hev hsk]
      simp [advPosList]

end Emerge.Scanner
