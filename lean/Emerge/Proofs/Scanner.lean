import Emerge.Scanner
/-
  General theorems about the table-driven scanner model (any transition function, any
  accepting table): maximal munch, partition of the input, positions.
-/
namespace Emerge.Scanner

/-- `c` is the longest prefix of `rs` along which the automaton can run from `s`; it reaches `q`. -/
def LongestRun (adv : Nat → Rune → Option Nat) (s : Nat) (rs c : List Rune) (q : Nat) : Prop :=
  c <+: rs ∧ run adv s c = some q ∧
    ∀ c', c' <+: rs → c.length < c'.length → run adv s c' = none

theorem munch_append (adv) : ∀ s rs, (munch adv s rs).2.1 ++ (munch adv s rs).2.2 = rs := by
  intro s rs
  induction rs generalizing s with
  | nil => simp [munch]
  | cons r rs ih =>
    unfold munch
    cases h : adv s r with
    | none => simp
    | some s' => simp [ih s']

theorem munch_run (adv) : ∀ s rs, run adv s (munch adv s rs).2.1 = some (munch adv s rs).1 := by
  intro s rs
  induction rs generalizing s with
  | nil => simp [munch, run]
  | cons r rs ih =>
    unfold munch
    cases h : adv s r with
    | none => simp [run]
    | some s' => simp [run, h, ih s']

/-- after the consumed run the automaton is stuck: the input ended or the next rune has no transition -/
theorem munch_stuck (adv) : ∀ s rs, (munch adv s rs).2.2 = [] ∨
    ∃ r rest, (munch adv s rs).2.2 = r :: rest ∧ adv (munch adv s rs).1 r = none := by
  intro s rs
  induction rs generalizing s with
  | nil => simp [munch]
  | cons r rs ih =>
    unfold munch
    cases h : adv s r with
    | none => right; exact ⟨r, rs, by simp, by simpa using h⟩
    | some s' => simpa using ih s'

theorem run_append (adv) : ∀ s a b, run adv s (a ++ b) = (run adv s a).bind (fun q => run adv q b) := by
  intro s a b
  induction a generalizing s with
  | nil => simp [run]
  | cons x a ih =>
    simp only [List.cons_append, run]
    cases adv s x with
    | none => simp
    | some s' => simpa using ih s'

theorem munch_longest (adv) (s : Nat) (rs : List Rune) :
    LongestRun adv s rs (munch adv s rs).2.1 (munch adv s rs).1 := by
  refine ⟨⟨(munch adv s rs).2.2, munch_append adv s rs⟩, munch_run adv s rs, ?_⟩
  intro c' hpre hlen
  obtain ⟨t, ht⟩ := hpre
  have happ := munch_append adv s rs
  -- c' extends the consumed run by at least one rune
  have hc : (munch adv s rs).2.1 <+: c' := by
    have h1 : (munch adv s rs).2.1 <+: rs := ⟨_, happ⟩
    have h2 : c' <+: rs := ⟨t, ht⟩
    exact (List.prefix_of_prefix_length_le h1 h2 (by omega))
  obtain ⟨u, hu⟩ := hc
  have hune : u ≠ [] := by
    intro h; subst h; simp at hu; rw [hu] at hlen; omega
  rcases munch_stuck adv s rs with hnil | ⟨r, rest, hrest, hdead⟩
  · -- nothing is left, so c' cannot be longer
    rw [hnil] at happ; simp at happ
    have : c'.length ≤ rs.length := by rw [← ht]; simp
    rw [← happ] at this; omega
  · -- the next rune is dead
    have : u.head? = some r := by
      have e : (munch adv s rs).2.1 ++ (u ++ t) = (munch adv s rs).2.1 ++ (r :: rest) := by
        rw [← List.append_assoc, hu, ht, ← hrest, happ]
      have := List.append_cancel_left e
      cases u with
      | nil => exact absurd rfl hune
      | cons x u' => simp at this; simp [this.1]
    rw [← hu, run_append, munch_run]
    cases u with
    | nil => exact absurd rfl hune
    | cons x u' =>
      simp at this; subst this
      simp [run, hdead]

/-- The longest run is unique. -/
theorem LongestRun.unique {adv s rs c q c' q'} (h : LongestRun adv s rs c q)
    (h' : LongestRun adv s rs c' q') : c = c' ∧ q = q' := by
  have hl : c.length = c'.length := by
    rcases Nat.lt_trichotomy c.length c'.length with hlt | heq | hgt
    · have := h.2.2 c' h'.1 hlt; rw [h'.2.1] at this; cases this
    · exact heq
    · have := h'.2.2 c h.1 hgt; rw [h.2.1] at this; cases this
  have hc : c = c' := by
    have := List.prefix_of_prefix_length_le h.1 h'.1 (by omega)
    exact this.eq_of_length hl
  subst hc
  have := h.2.1; rw [h'.2.1] at this
  exact ⟨rfl, (Option.some.inj this).symm⟩

/-- Declarative description of the segmentation of an input into maximal runs from state 0,
    for an automaton in which state 0 is never re-entered. -/
inductive Segmented (S : Spec) : Pos → List Rune → List Seg → End → Prop where
  | eof (p : Pos) : Segmented S p [] [] .eof
  | seg (p : Pos) (rs c rest : List Rune) (q : Nat) (segs : List Seg) (e : End) :
      rs ≠ [] → LongestRun S.adv 0 rs c q → rs = c ++ rest → c ≠ [] → (S.eval q).isSome = true →
      Segmented S (advPosList p c) rest segs e →
      Segmented S p rs (⟨q, c, p⟩ :: segs) e
  | err (p : Pos) (rs c : List Rune) (q : Nat) :
      rs ≠ [] → LongestRun S.adv 0 rs c q → S.eval q = none →
      Segmented S p rs [] (.lexErr p c)

/-- State 0 is only the start state. -/
def NoReentry (S : Spec) : Prop := ∀ s r, S.adv s r ≠ some 0

theorem run_ne_zero {adv} (h : ∀ s r, adv s r ≠ some 0) :
    ∀ s c, c ≠ [] → run adv s c ≠ some 0 := by
  intro s c
  induction c generalizing s with
  | nil => intro h; exact absurd rfl h
  | cons x c ih =>
    intro _
    simp only [run]
    cases hx : adv s x with
    | none => simp
    | some s' =>
      cases c with
      | nil => simp [run]; intro h0; exact h s x (by rw [hx, h0])
      | cons y c' => exact ih s' (by simp)

theorem munch_length_le (adv) (s rs) : (munch adv s rs).2.2.length ≤ rs.length := by
  have := congrArg List.length (munch_append adv s rs)
  simp at this; omega

theorem segments_segmented (S : Spec) (h0 : NoReentry S) (hz : S.eval 0 = none) :
    ∀ n p rs, rs.length < n →
      Segmented S p rs (segments S n p rs).1 (segments S n p rs).2 := by
  intro n
  induction n with
  | zero => intro p rs h; omega
  | succ n ih =>
    intro p rs hn
    cases rs with
    | nil => simp [segments]; exact .eof p
    | cons r rs =>
      have hL := munch_longest S.adv 0 (r :: rs)
      have happ := munch_append S.adv 0 (r :: rs)
      simp only [segments]
      split
      · -- input exhausted in state 0: impossible, the run is non-empty and cannot end in 0
        rename_i hcond
        obtain ⟨hrest, hq⟩ := hcond
        rw [hrest] at happ; simp at happ
        have := run_ne_zero h0 0 (munch S.adv 0 (r :: rs)).2.1 (by rw [happ]; simp)
        rw [munch_run] at this
        exact absurd (by rw [hq]) this
      · rename_i hcond
        cases hev : S.eval (munch S.adv 0 (r :: rs)).1 with
        | none => simp; exact .err p _ _ _ (by simp) hL hev
        | some km =>
          simp
          have hne : (munch S.adv 0 (r :: rs)).2.1 ≠ [] := by
            intro hnil
            have hr := munch_run S.adv 0 (r :: rs)
            rw [hnil] at hr; simp [run] at hr
            rw [← hr, hz] at hev; cases hev
          simp [hne]
          refine .seg p _ _ _ _ _ _ (by simp) hL happ.symm hne (by simp [hev]) ?_
          apply ih
          have hl := congrArg List.length happ
          simp at hl
          have : 0 < (munch S.adv 0 (r :: rs)).2.1.length := List.length_pos_iff.mpr hne
          simp at hn
          omega

/-- The segmentation is uniquely determined by the declarative description. -/
theorem Segmented.unique {S p rs segs e segs' e'} (h : Segmented S p rs segs e)
    (h' : Segmented S p rs segs' e') : segs = segs' ∧ e = e' := by
  induction h generalizing segs' e' with
  | eof p =>
    cases h' with
    | eof => exact ⟨rfl, rfl⟩
    | seg _ _ _ _ _ _ _ hne => exact absurd rfl hne
    | err _ _ _ _ hne => exact absurd rfl hne
  | seg p rs c rest q segs e hne hL hsplit hc hev _ ih =>
    cases h' with
    | eof => exact absurd rfl hne
    | seg _ _ c' rest' q' segs'' _ _ hL' hsplit' _ _ hrest' =>
      obtain ⟨hcc, hqq⟩ := hL.unique hL'
      subst hcc; subst hqq
      have : rest = rest' := List.append_cancel_left (hsplit.symm.trans hsplit')
      subst this
      obtain ⟨h1, h2⟩ := ih hrest'
      exact ⟨by rw [h1], h2⟩
    | err _ _ c' q' _ hL' hev' =>
      obtain ⟨_, hqq⟩ := hL.unique hL'
      subst hqq; rw [hev'] at hev; cases hev
  | err p rs c q hne hL hev =>
    cases h' with
    | eof => exact absurd rfl hne
    | seg _ _ c' rest' q' _ _ _ hL' _ _ hev' =>
      obtain ⟨_, hqq⟩ := hL.unique hL'
      subst hqq; rw [hev] at hev'; cases hev'
    | err _ _ c' q' _ hL' _ =>
      obtain ⟨hcc, _⟩ := hL.unique hL'
      subst hcc; exact ⟨rfl, rfl⟩

/-- Partition: the segments, followed by the offending text of a lexical error, are a prefix of the
    input, and the whole input when the scan ends with end-of-input. -/
theorem Segmented.partition {S p rs segs e} (h : Segmented S p rs segs e) :
    (e = .eof → (segs.map Seg.text).flatten = rs) ∧
    (∀ p' t, e = .lexErr p' t → ((segs.map Seg.text).flatten ++ t) <+: rs) ∧
    e ≠ .stuck := by
  induction h with
  | eof p => simp
  | seg p rs c rest q segs e _ _ hsplit _ _ _ ih =>
    refine ⟨?_, ?_, ih.2.2⟩
    · intro he; simp; rw [ih.1 he, hsplit]
    · intro p' t he
      simp
      rw [hsplit]
      exact (List.prefix_append_right_inj c).mpr (ih.2.1 p' t he)
  | err p rs c q _ hL _ =>
    refine ⟨by simp, ?_, by simp⟩
    intro p' t he
    cases he
    simpa using hL.1

/-- Positions: every segment starts where the text before it ends. -/
theorem Segmented.positions {S p rs segs e} (h : Segmented S p rs segs e) :
    ∀ i (hi : i < segs.length),
      (segs[i]).pos = advPosList p ((segs.take i).map Seg.text).flatten := by
  induction h with
  | eof p => intro i hi; simp at hi
  | seg p rs c rest q segs e _ _ _ _ _ _ ih =>
    intro i hi
    cases i with
    | zero => simp
    | succ j =>
      simp at hi
      simp [advPosList_append, ih j hi]
  | err p rs c q _ _ _ => intro i hi; simp at hi

end Emerge.Scanner
