import Emerge.LR
/-
  Table-independent facts about the LR driver loop: the error position never moves backwards,
  behaviour up to an error depends only on the input up to and including the offending token,
  and a failing callback stops the run exactly there.
-/
namespace Emerge.LR

theorem step_pos_le (T : Tables) (w : List Nat) (f e : Option Nat) (c : Config) :
    c.pos ≤ (step T w f e c).1.pos := by
  unfold step
  split
  · simp
  · simp
  · split <;> try simp
    split <;> simp

theorem step_syntaxError_pos {T : Tables} {w : List Nat} {f e : Option Nat} {c c' : Config} {i : Nat} {st}
    (h : step T w f e c = (c', some (.syntaxError i st))) : i = c.pos := by
  unfold step at h
  repeat' split at h
  all_goals (simp at h)
  all_goals (try (exact h.2.1.symm))
  all_goals (try (obtain ⟨_, h2⟩ := h; repeat' split at h2))
  all_goals (try simp at h2)

/-- The reported error index is never before the current look-ahead. -/
theorem run_syntaxError_pos (T : Tables) (w : List Nat) (f e : Option Nat) :
    ∀ n c ev i st, run T w f e n c = (ev, .syntaxError i st) → c.pos ≤ i := by
  intro n
  induction n with
  | zero => intro c ev i st h; simp [run] at h
  | succ n ih =>
    intro c ev i st h
    simp only [run] at h
    cases hs : step T w f e c with
    | mk c' r =>
      rw [hs] at h
      cases r with
      | none =>
        have := ih c' ev i st h
        have h2 := step_pos_le T w f e c
        rw [hs] at h2
        exact Nat.le_trans h2 this
      | some res =>
        simp at h
        obtain ⟨_, hres⟩ := h
        subst hres
        exact Nat.le_of_eq (step_syntaxError_pos hs).symm

/-- `step` only looks at the input through the look-ahead at the current position. -/
theorem step_congr (T : Tables) (w w' : List Nat) (f e : Option Nat) (c : Config)
    (h : lookahead T w c.pos = lookahead T w' c.pos) : step T w f e c = step T w' f e c := by
  unfold step
  rw [h]

/-- **Nothing after the offending token influences a syntax error**: if two inputs agree up to
    and including position `i` and the run on the first reports a syntax error at `i`, the run on
    the second is identical (same callbacks, same error, same state). -/
theorem run_prefix_deterministic (T : Tables) (w w' : List Nat) (f e : Option Nat) (i : Nat)
    (hagree : ∀ j, j ≤ i → lookahead T w j = lookahead T w' j) :
    ∀ n c ev st, run T w f e n c = (ev, .syntaxError i st) → run T w' f e n c = (ev, .syntaxError i st) := by
  intro n
  induction n with
  | zero => intro c ev st h; simp [run] at h
  | succ n ih =>
    intro c ev st h
    have hpos := run_syntaxError_pos T w f e (n + 1) c ev i st h
    simp only [run] at h ⊢
    rw [← step_congr T w w' f e c (hagree c.pos hpos)]
    cases hs : step T w f e c with
    | mk c' r =>
      rw [hs] at h
      cases r with
      | none => exact ih c' ev st h
      | some res => exact h

theorem lookahead_append_left (T : Tables) (u : List Nat) (a : Nat) (v : List Nat) (j : Nat) (hj : j ≤ u.length) :
    lookahead T (u ++ a :: v) j = lookahead T (u ++ [a]) j := by
  unfold lookahead
  by_cases hlt : j < u.length
  · simp [List.getElem?_append_left hlt]
  · have : j = u.length := by omega
    subst this
    simp

/-! ### events only grow; a failing callback cuts the run -/

theorem step_events (T : Tables) (w : List Nat) (f e : Option Nat) (c : Config) :
    (step T w f e c).1.events = c.events ∨ ∃ x, (step T w f e c).1.events = x :: c.events := by
  unfold step
  split
  · left; rfl
  · left; rfl
  · split
    · left; rfl
    · right; exact ⟨_, rfl⟩
    · split
      · left; rfl
      · right; exact ⟨_, rfl⟩
    · left; rfl

theorem run_events_prefix (T : Tables) (w : List Nat) (f e : Option Nat) :
    ∀ n c, c.events.reverse <+: (run T w f e n c).1 := by
  intro n
  induction n with
  | zero => intro c; simp [run]
  | succ n ih =>
    intro c
    simp only [run]
    have hev := step_events T w f e c
    cases hs : step T w f e c with
    | mk c' r =>
      rw [hs] at hev
      have hpre : c.events.reverse <+: c'.events.reverse := by
        rcases hev with h | ⟨x, h⟩
        · simp at h; rw [h]; exact List.prefix_refl _
        · simp at h; rw [h]; simp
      cases r with
      | none => exact List.IsPrefix.trans hpre (ih c')
      | some res => exact hpre

theorem step_fail_fst (T : Tables) (w : List Nat) (k : Nat) (e : Option Nat) (c : Config) :
    (step T w (some k) e c).1 = (step T w none e c).1 := by
  unfold step
  repeat' split
  all_goals rfl

theorem step_fail_ne (T : Tables) (w : List Nat) (k : Nat) (e : Option Nat) (c : Config)
    (h : c.events.length ≠ k) : step T w (some k) e c = step T w none e c := by
  unfold step
  have : ¬ (k = c.events.length) := fun hh => h hh.symm
  simp [this]

theorem step_fail_eq (T : Tables) (w : List Nat) (k : Nat) (e : Option Nat) (c : Config)
    (h : c.events.length = k) :
    (step T w (some k) e c = step T w none e c ∧ (step T w none e c).1.events = c.events) ∨
    ((step T w (some k) e c).2 = some (.callbackError k) ∧ ∃ x, (step T w none e c).1.events = x :: c.events) := by
  unfold step
  subst h
  simp only [↓reduceIte, reduceCtorEq]
  repeat' split
  all_goals simp

theorem run_succ_none {T : Tables} {w : List Nat} {f e : Option Nat} {n : Nat} {c c' : Config}
    (h : step T w f e c = (c', none)) : run T w f e (n + 1) c = run T w f e n c' := by
  simp only [run, h]

theorem run_succ_some {T : Tables} {w : List Nat} {f e : Option Nat} {n : Nat} {c c' : Config} {r : Result}
    (h : step T w f e c = (c', some r)) : run T w f e (n + 1) c = (c'.events.reverse, r) := by
  simp only [run, h]

/-- **An error returned by a callback stops the parse at that point**: the run in which callback
    invocation `k` fails makes exactly the first `k+1` invocations of the unfailing run and returns
    the callback's error; if the unfailing run makes fewer invocations nothing changes. -/
theorem run_abort (T : Tables) (w : List Nat) (k : Nat) (e : Option Nat) :
    ∀ n c, c.events.length ≤ k →
      run T w (some k) e n c =
        if k < (run T w none e n c).1.length then ((run T w none e n c).1.take (k + 1), .callbackError k)
        else run T w none e n c := by
  intro n
  induction n with
  | zero =>
    intro c hc
    simp only [run, List.length_reverse]
    have : ¬ k < c.events.length := by omega
    simp [this]
  | succ n ih =>
    intro c hc
    obtain ⟨c', r, hs⟩ : ∃ c' r, step T w none e c = (c', r) := ⟨_, _, rfl⟩
    have hev := step_events T w none e c
    rw [hs] at hev; simp only at hev
    by_cases hlt : c.events.length = k
    · rcases step_fail_eq T w k e c hlt with ⟨heq, hev'⟩ | ⟨hfail, x, hev'⟩
      · rw [hs] at heq hev'; simp only at hev'
        cases r with
        | none =>
          rw [run_succ_none heq, run_succ_none hs]
          exact ih c' (by rw [hev']; omega)
        | some res =>
          rw [run_succ_some heq, run_succ_some hs]
          simp only [List.length_reverse, hev']
          have : ¬ k < c.events.length := by omega
          simp [this]
      · rw [hs] at hev'; simp only at hev'
        have hfst := step_fail_fst T w k e c
        rw [hs] at hfst; simp only at hfst
        have hs' : step T w (some k) e c = (c', some (.callbackError k)) := by
          rw [← hfst, ← hfail]
        rw [run_succ_some hs']
        have hlen : c'.events.reverse.length = k + 1 := by simp [hev', hlt]
        have hpre : c'.events.reverse <+: (run T w none e (n + 1) c).1 := by
          cases r with
          | none => rw [run_succ_none hs]; exact run_events_prefix T w none e n c'
          | some res => rw [run_succ_some hs]; exact List.prefix_refl _
        obtain ⟨t, ht⟩ := hpre
        have hl2 : k < (run T w none e (n + 1) c).1.length := by
          rw [← ht]; simp [hev', hlt]
        simp only [hl2, if_true]
        rw [← ht, ← hlen, List.take_left']
        rfl
    · have heq := step_fail_ne T w k e c hlt
      rw [hs] at heq
      have hc' : c'.events.length ≤ k := by
        rcases hev with h | ⟨x, h⟩
        · rw [h]; omega
        · rw [h]; simp only [List.length_cons]; omega
      cases r with
      | none =>
        rw [run_succ_none heq, run_succ_none hs]
        exact ih c' hc'
      | some res =>
        rw [run_succ_some heq, run_succ_some hs]
        simp only [List.length_reverse]
        have : ¬ k < c'.events.length := by omega
        simp [this]

end Emerge.LR
