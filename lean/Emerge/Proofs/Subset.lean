import Emerge.Proofs.Follow2
/-
  `ToDFA` (before `Minimize`): the worklist loop is the subset construction of the position automaton.

  * `mem_stepSet`: the set `U` computed for a state and a symbol, as a set;
  * `explore_spec`: whatever the loop returns is closed - state 0 is `firstPos(root)`, and every state has, for every
    input symbol, a transition to a state that is `U` as a set (and no transition on anything else);
  * `run_spec`: the automaton's run on a word ends in the state that is the set reached by the set-level run;
  * `enters_iff`: the set-level run holds exactly the positions that can be entered after a marked word spelling the input;
  * `dfa_accepts_iff`: the automaton accepts `w` iff `w` followed by the end marker is in the language of the tree.
  Core Lean only.
-/
namespace Emerge.Props.C10
open Emerge Emerge.Regex Emerge.Regex.Follow

/-! ### sets of positions -/

def SetEq (a b : Poses) : Prop := ∀ x, x ∈ a ↔ x ∈ b

theorem SetEq.refl (a : Poses) : SetEq a a := fun _ => Iff.rfl
theorem SetEq.symm {a b : Poses} (h : SetEq a b) : SetEq b a := fun x => (h x).symm
theorem SetEq.trans {a b c : Poses} (h1 : SetEq a b) (h2 : SetEq b c) : SetEq a c := fun x => (h1 x).trans (h2 x)

theorem equal_iff (a b : Poses) : Poses.equal a b = true ↔ SetEq a b := by
  unfold Poses.equal SetEq
  simp only [Bool.and_eq_true, List.all_eq_true, List.contains_iff_mem]
  constructor
  · rintro ⟨h1, h2⟩ x; exact ⟨h1 x, h2 x⟩
  · intro h; exact ⟨fun x hx => (h x).mp hx, fun x hx => (h x).mpr hx⟩

theorem mem_stepSet_aux (t : Tree) (c : Rune) (S : Poses) (acc : Poses) (q : Nat) :
    q ∈ S.foldl (fun u p => if t.charAt p = some c then Poses.union u (t.follows.get p) else u) acc ↔
      q ∈ acc ∨ ∃ p ∈ S, t.charAt p = some c ∧ q ∈ t.follows.get p := by
  induction S generalizing acc with
  | nil => simp
  | cons p S ih =>
    rw [List.foldl_cons, ih]
    by_cases hc : t.charAt p = some c
    · simp only [hc, if_true, mem_union, List.mem_cons]
      constructor
      · rintro ((h | h) | ⟨p', hp', h1, h2⟩)
        · exact Or.inl h
        · exact Or.inr ⟨p, Or.inl rfl, hc, h⟩
        · exact Or.inr ⟨p', Or.inr hp', h1, h2⟩
      · rintro (h | ⟨p', hp' | hp', h1, h2⟩)
        · exact Or.inl (Or.inl h)
        · subst hp'; exact Or.inl (Or.inr h2)
        · exact Or.inr ⟨p', hp', h1, h2⟩
    · simp only [hc, if_false, List.mem_cons]
      constructor
      · rintro (h | ⟨p', hp', h1, h2⟩)
        · exact Or.inl h
        · exact Or.inr ⟨p', Or.inr hp', h1, h2⟩
      · rintro (h | ⟨p', hp' | hp', h1, h2⟩)
        · exact Or.inl h
        · subst hp'; exact absurd h1 hc
        · exact Or.inr ⟨p', hp', h1, h2⟩

/-- **`U` as a set**: the followers of the positions of `S` that carry `c`. -/
theorem mem_stepSet (t : Tree) (S : Poses) (c : Rune) (q : Nat) :
    q ∈ stepSet t S c ↔ ∃ p ∈ S, t.charAt p = some c ∧ q ∈ t.follows.get p := by
  unfold stepSet
  rw [mem_stepSet_aux]
  simp

theorem stepSet_congr (t : Tree) {S S' : Poses} (h : SetEq S S') (c : Rune) : SetEq (stepSet t S c) (stepSet t S' c) := by
  intro q
  rw [mem_stepSet, mem_stepSet]
  constructor
  · rintro ⟨p, hp, h1, h2⟩; exact ⟨p, (h p).mp hp, h1, h2⟩
  · rintro ⟨p, hp, h1, h2⟩; exact ⟨p, (h p).mpr hp, h1, h2⟩

/-! ### `findState`, `lookup` -/

theorem findState_some {states : List Poses} {U : Poses} {j : Nat} (h : findState states U = some j) :
    ∃ S, states[j]? = some S ∧ SetEq S U := by
  induction states generalizing j with
  | nil => simp [findState] at h
  | cons S rest ih =>
    simp only [findState] at h
    split at h
    · rename_i he
      simp only [Option.some.injEq] at h
      subst h
      exact ⟨S, rfl, (equal_iff S U).mp he⟩
    · cases hr : findState rest U with
      | none => rw [hr] at h; cases h
      | some k =>
        rw [hr] at h
        simp only [Option.map_some, Option.some.injEq] at h
        subst h
        obtain ⟨S', h1, h2⟩ := ih hr
        exact ⟨S', by simpa using h1, h2⟩

theorem lookup_append (tr : Trans) (e : Nat × Rune × Nat) (k : Nat) (d : Rune) :
    lookup (tr ++ [e]) k d = match lookup tr k d with
      | some x => some x
      | none => if e.1 = k ∧ e.2.1 = d then some e.2.2 else none := by
  unfold lookup
  rw [List.find?_append]
  cases h : tr.find? (fun e => e.1 = k ∧ e.2.1 = d) with
  | some x => simp
  | none =>
    simp only [Option.none_or, Option.map_none, List.find?_cons, List.find?_nil]
    by_cases hc : e.1 = k ∧ e.2.1 = d
    · simp [hc]
    · simp [hc]

theorem lookup_sym {tr : Trans} {k : Nat} {d : Rune} {j : Nat} (h : lookup tr k d = some j) : ∃ e ∈ tr, e.1 = k ∧ e.2.1 = d ∧ e.2.2 = j := by
  unfold lookup at h
  cases hf : tr.find? (fun e => e.1 = k ∧ e.2.1 = d) with
  | none => rw [hf] at h; cases h
  | some e =>
    rw [hf] at h
    simp only [Option.map_some, Option.some.injEq] at h
    have hm := List.mem_of_find?_eq_some hf
    have hp := List.find?_some hf
    simp only [decide_eq_true_eq] at hp
    exact ⟨e, hm, hp.1, hp.2, h⟩

/-! ### the invariant of the loop -/

/-- the state `k` has its transition on `c`: to a state that is `U` as a set -/
def Covered (t : Tree) (states : List Poses) (tr : Trans) (k : Nat) (c : Rune) : Prop :=
  ∃ S j S', states[k]? = some S ∧ lookup tr k c = some j ∧ states[j]? = some S' ∧ SetEq S' (stepSet t S c)

theorem Covered.mono {t : Tree} {states : List Poses} {tr : Trans} {k : Nat} {c : Rune}
    (h : Covered t states tr k c) (more : List Poses) (e : Nat × Rune × Nat) :
    Covered t (states ++ more) (tr ++ [e]) k c := by
  obtain ⟨S, j, S', h1, h2, h3, h4⟩ := h
  refine ⟨S, j, S', ?_, ?_, ?_, h4⟩
  · rw [List.getElem?_append_left]; exact h1
    exact (List.getElem?_eq_some_iff.mp h1).1
  · rw [lookup_append, h2]
  · rw [List.getElem?_append_left]; exact h3
    exact (List.getElem?_eq_some_iff.mp h3).1

theorem Covered.mono_states {t : Tree} {states : List Poses} {tr : Trans} {k : Nat} {c : Rune}
    (h : Covered t states tr k c) (more : List Poses) : Covered t (states ++ more) tr k c := by
  obtain ⟨S, j, S', h1, h2, h3, h4⟩ := h
  refine ⟨S, j, S', ?_, h2, ?_, h4⟩
  · rw [List.getElem?_append_left]; exact h1
    exact (List.getElem?_eq_some_iff.mp h1).1
  · rw [List.getElem?_append_left]; exact h3
    exact (List.getElem?_eq_some_iff.mp h3).1

/-- the invariant while the symbols of state `i` are being processed: `done` are the symbols already seen -/
structure Inner (t : Tree) (symbols : List Rune) (i : Nat) (S : Poses) (done : List Rune) (states : List Poses) (tr : Trans) : Prop where
  first : states[0]? = some t.root.firstPos
  cur : states[i]? = some S
  old : ∀ k, k < i → ∀ c ∈ symbols, Covered t states tr k c
  now : ∀ c ∈ done, Covered t states tr i c
  syms : ∀ e ∈ tr, e.2.1 ∈ symbols
  src : ∀ e ∈ tr, e.1 < i ∨ (e.1 = i ∧ e.2.1 ∈ done)

theorem Inner.step {t : Tree} {symbols : List Rune} {i : Nat} {S : Poses} {done : List Rune} {states : List Poses} {tr : Trans}
    (h : Inner t symbols i S done states tr) (c : Rune) (hc : c ∈ symbols) :
    Inner t symbols i S (done ++ [c]) (addSym t S i (states, tr) c).1 (addSym t S i (states, tr) c).2 := by
  unfold addSym
  simp only
  cases hf : findState states (stepSet t S c) with
  | some j =>
    simp only
    obtain ⟨S', hj, heq⟩ := findState_some hf
    refine ⟨h.first, h.cur, ?_, ?_, ?_, ?_⟩
    · intro k hk d hd
      have := (h.old k hk d hd).mono [] (i, c, j)
      simpa using this
    · intro d hd
      rcases List.mem_append.mp hd with hd | hd
      · have := (h.now d hd).mono [] (i, c, j)
        simpa using this
      · simp only [List.mem_singleton] at hd
        subst hd
        refine ⟨S, ?_⟩
        cases hl : lookup tr i d with
        | some j0 =>
          -- the symbol was seen before (it occurs twice in the list): the earlier transition stays in force
          obtain ⟨e, he, h1, h2, _⟩ := lookup_sym hl
          rcases h.src e he with hlt | ⟨_, hdone⟩
          · omega
          · rw [h2] at hdone
            obtain ⟨S0, j1, S1, a1, a2, a3, a4⟩ := h.now d hdone
            rw [h.cur] at a1
            simp only [Option.some.injEq] at a1
            subst a1
            exact ⟨j1, S1, h.cur, by rw [lookup_append, a2], a3, a4⟩
        | none =>
          exact ⟨j, S', h.cur, by rw [lookup_append, hl]; simp, hj, heq⟩
    · intro e he
      rcases List.mem_append.mp he with he | he
      · exact h.syms e he
      · simp only [List.mem_singleton] at he; subst he; exact hc
    · intro e he
      rcases List.mem_append.mp he with he | he
      · rcases h.src e he with h1 | ⟨h1, h2⟩
        · exact Or.inl h1
        · exact Or.inr ⟨h1, List.mem_append.mpr (Or.inl h2)⟩
      · simp only [List.mem_singleton] at he; subst he
        exact Or.inr ⟨rfl, by simp⟩
  | none =>
    simp only
    have hlen : ∀ {k : Nat} {X : Poses}, states[k]? = some X → (states ++ [stepSet t S c])[k]? = some X := by
      intro k X hk
      rw [List.getElem?_append_left]; exact hk
      exact (List.getElem?_eq_some_iff.mp hk).1
    refine ⟨hlen h.first, hlen h.cur, ?_, ?_, ?_, ?_⟩
    · intro k hk d hd
      exact (h.old k hk d hd).mono [stepSet t S c] (i, c, states.length)
    · intro d hd
      rcases List.mem_append.mp hd with hd | hd
      · exact (h.now d hd).mono [stepSet t S c] (i, c, states.length)
      · simp only [List.mem_singleton] at hd
        subst hd
        cases hl : lookup tr i d with
        | some j0 =>
          obtain ⟨e, he, h1, h2, _⟩ := lookup_sym hl
          rcases h.src e he with hlt | ⟨_, hdone⟩
          · omega
          · rw [h2] at hdone
            exact (h.now d hdone).mono [stepSet t S d] (i, d, states.length)
        | none =>
          refine ⟨S, states.length, stepSet t S d, hlen h.cur, by rw [lookup_append, hl]; simp, ?_, SetEq.refl _⟩
          simp
    · intro e he
      rcases List.mem_append.mp he with he | he
      · exact h.syms e he
      · simp only [List.mem_singleton] at he; subst he; exact hc
    · intro e he
      rcases List.mem_append.mp he with he | he
      · rcases h.src e he with h1 | ⟨h1, h2⟩
        · exact Or.inl h1
        · exact Or.inr ⟨h1, List.mem_append.mpr (Or.inl h2)⟩
      · simp only [List.mem_singleton] at he; subst he
        exact Or.inr ⟨rfl, by simp⟩

theorem Inner.fold {t : Tree} {symbols : List Rune} {i : Nat} {S : Poses} :
    ∀ (todo done : List Rune) (states : List Poses) (tr : Trans), (∀ c ∈ todo, c ∈ symbols) →
      Inner t symbols i S done states tr →
      Inner t symbols i S (done ++ todo) (todo.foldl (addSym t S i) (states, tr)).1 (todo.foldl (addSym t S i) (states, tr)).2 := by
  intro todo
  induction todo with
  | nil => intro done states tr _ h; simpa using h
  | cons c todo ih =>
    intro done states tr hs h
    rw [List.foldl_cons]
    have h1 := h.step c (hs c List.mem_cons_self)
    have := ih (done ++ [c]) _ _ (fun d hd => hs d (List.mem_cons_of_mem _ hd)) h1
    simpa using this

/-- the invariant between two states -/
structure Outer (t : Tree) (symbols : List Rune) (i : Nat) (states : List Poses) (tr : Trans) : Prop where
  first : states[0]? = some t.root.firstPos
  old : ∀ k, k < i → ∀ c ∈ symbols, Covered t states tr k c
  syms : ∀ e ∈ tr, e.2.1 ∈ symbols
  src : ∀ e ∈ tr, e.1 < i

/-- **The loop returns a closed automaton**: every state has its transition on every input symbol, to the state that is
    `U` as a set; there are no other transitions; state 0 is `firstPos(root)`. -/
theorem explore_spec (t : Tree) (symbols : List Rune) :
    ∀ (fuel i : Nat) (states : List Poses) (tr : Trans), Outer t symbols i states tr →
      ∀ r, explore t symbols fuel i states tr = some r →
        r.1[0]? = some t.root.firstPos ∧ (∀ k, k < r.1.length → ∀ c ∈ symbols, Covered t r.1 r.2 k c) ∧ (∀ e ∈ r.2, e.2.1 ∈ symbols) := by
  intro fuel
  induction fuel with
  | zero => intro i states tr _ r h; simp [explore] at h
  | succ fuel ih =>
    intro i states tr ho r h
    simp only [explore] at h
    cases hS : states[i]? with
    | none =>
      rw [hS] at h
      simp only [Option.some.injEq] at h
      subst h
      refine ⟨ho.first, ?_, ho.syms⟩
      intro k hk c hc
      have : states.length ≤ i := List.getElem?_eq_none_iff.mp hS
      simp only at hk
      exact ho.old k (by omega) c hc
    | some S =>
      rw [hS] at h
      simp only at h
      have hin : Inner t symbols i S [] states tr :=
        ⟨ho.first, hS, ho.old, (fun c hc => by cases hc), ho.syms, fun e he => Or.inl (ho.src e he)⟩
      have hf := Inner.fold symbols [] states tr (fun c hc => hc) hin
      simp only [List.nil_append] at hf
      refine ih (i + 1) _ _ ⟨hf.first, ?_, hf.syms, ?_⟩ r h
      · intro k hk c hc
        by_cases hki : k < i
        · exact hf.old k hki c hc
        · have : k = i := by omega
          subst this
          exact hf.now c hc
      · intro e he
        rcases hf.src e he with h1 | ⟨h1, _⟩ <;> omega

/-! ### runs -/

/-- the set-level run: `U` after `U` -/
def runS (t : Tree) : Poses → List Rune → Poses
  | S, [] => S
  | S, c :: w => runS t (stepSet t S c) w

theorem runS_congr (t : Tree) : ∀ (w : List Rune) {S S' : Poses}, SetEq S S' → SetEq (runS t S w) (runS t S' w) := by
  intro w
  induction w with
  | nil => intro S S' h; exact h
  | cons c w ih => intro S S' h; exact ih (stepSet_congr t h c)

/-- **The automaton's run follows the set-level run** on words over the input symbols … -/
theorem run_spec (t : Tree) (symbols : List Rune) (states : List Poses) (tr : Trans)
    (hcov : ∀ k, k < states.length → ∀ c ∈ symbols, Covered t states tr k c) :
    ∀ (w : List Rune) (i : Nat) (S : Poses), states[i]? = some S → (∀ c ∈ w, c ∈ symbols) →
      ∃ j S', runD tr i w = some j ∧ states[j]? = some S' ∧ SetEq S' (runS t S w) := by
  intro w
  induction w with
  | nil => intro i S hi _; exact ⟨i, S, rfl, hi, SetEq.refl _⟩
  | cons c w ih =>
    intro i S hi hw
    obtain ⟨S0, j, S', h1, h2, h3, h4⟩ := hcov i (List.getElem?_eq_some_iff.mp hi).1 c (hw c List.mem_cons_self)
    rw [hi] at h1
    simp only [Option.some.injEq] at h1
    subst h1
    obtain ⟨j', S'', a1, a2, a3⟩ := ih j S' h3 (fun d hd => hw d (List.mem_cons_of_mem _ hd))
    refine ⟨j', S'', ?_, a2, a3.trans (runS_congr t w h4)⟩
    simp only [runD, h2]
    exact a1

/-- … and stops on a character that is not an input symbol. -/
theorem run_none (symbols : List Rune) (tr : Trans) (hsym : ∀ e ∈ tr, e.2.1 ∈ symbols) :
    ∀ (w : List Rune) (i : Nat), (∃ c ∈ w, c ∉ symbols) → runD tr i w = none := by
  intro w
  induction w with
  | nil => intro i ⟨c, hc, _⟩; cases hc
  | cons d w ih =>
    intro i ⟨c, hc, hn⟩
    simp only [runD]
    cases hl : lookup tr i d with
    | none => rfl
    | some j =>
      simp only
      obtain ⟨e, he, _, h2, _⟩ := lookup_sym hl
      have hd : d ∈ symbols := h2 ▸ hsym e he
      rcases List.mem_cons.mp hc with rfl | hc'
      · exact absurd hd hn
      · exact ih j ⟨c, hc', hn⟩

/-! ### the set-level run and the position automaton -/

/-- position `q` can be entered after the marked word `m`, whose first position is taken from `S` -/
def Enters (t : Tree) : Poses → MWord → Nat → Prop
  | S, [], q => q ∈ S
  | S, a :: m, q => a.1 ∈ S ∧ t.charAt a.1 = some a.2 ∧ Enters t (t.follows.get a.1) m q

/-- `Enters` looks at the set only through one membership -/
theorem enters_of_step (t : Tree) (S : Poses) (c : Rune) (m : MWord) (q : Nat) :
    Enters t (stepSet t S c) m q ↔ ∃ p ∈ S, t.charAt p = some c ∧ Enters t (t.follows.get p) m q := by
  cases m with
  | nil => simp only [Enters]; exact mem_stepSet t S c q
  | cons a m =>
    simp only [Enters, mem_stepSet]
    constructor
    · rintro ⟨⟨p, hp, h1, h2⟩, h3, h4⟩; exact ⟨p, hp, h1, h2, h3, h4⟩
    · rintro ⟨p, hp, h1, h2, h3, h4⟩; exact ⟨⟨p, hp, h1, h2⟩, h3, h4⟩

/-- **The set-level run holds exactly the positions that can be entered** after a marked word spelling the input. -/
theorem enters_iff (t : Tree) : ∀ (w : List Rune) (S : Poses) (q : Nat),
    q ∈ runS t S w ↔ ∃ m : MWord, m.map (·.2) = w ∧ Enters t S m q := by
  intro w
  induction w with
  | nil =>
    intro S q
    simp only [runS]
    constructor
    · intro h; exact ⟨[], rfl, h⟩
    · rintro ⟨m, hm, he⟩
      have : m = [] := by simpa using hm
      subst this; exact he
  | cons c w ih =>
    intro S q
    simp only [runS]
    rw [ih]
    constructor
    · rintro ⟨m, hm, he⟩
      obtain ⟨p, hp, h1, h2⟩ := (enters_of_step t S c m q).mp he
      exact ⟨(p, c) :: m, by simp [hm], hp, h1, h2⟩
    · rintro ⟨m, hm, he⟩
      cases m with
      | nil => simp at hm
      | cons a m =>
        simp only [List.map_cons, List.cons.injEq] at hm
        obtain ⟨ha, hm⟩ := hm
        obtain ⟨h1, h2, h3⟩ := he
        exact ⟨m, hm, (enters_of_step t S c m q).mpr ⟨a.1, h1, by rw [h2, ha], h3⟩⟩

theorem adj_cons_cons (a b : Nat × Rune) (l : MWord) (p q : Nat) :
    Adj (a :: b :: l) p q ↔ (p = a.1 ∧ q = b.1) ∨ Adj (b :: l) p q := by
  constructor
  · rintro ⟨u, v, c, d, e⟩
    cases u with
    | nil =>
      simp only [List.nil_append, List.cons.injEq] at e
      left; exact ⟨by rw [e.1], by rw [e.2.1]⟩
    | cons z u =>
      simp only [List.cons_append, List.cons.injEq] at e
      right; exact ⟨u, v, c, d, e.2⟩
  · rintro (⟨rfl, rfl⟩ | ⟨u, v, c, d, e⟩)
    · exact ⟨[], l, a.2, b.2, rfl⟩
    · exact ⟨a :: u, v, c, d, by rw [e]; rfl⟩

/-- `Enters` spelled out on the word extended by the entered position: the first position is in the set, neighbours
    follow one another, and every position but the entered one carries its character. -/
theorem enters_path (t : Tree) : ∀ (m : MWord) (S : Poses) (q : Nat) (d : Rune),
    Enters t S m q ↔ ((∀ a rest, m ++ [(q, d)] = a :: rest → a.1 ∈ S) ∧
      (∀ p q', Adj (m ++ [(q, d)]) p q' → q' ∈ t.follows.get p) ∧ (∀ a ∈ m, t.charAt a.1 = some a.2)) := by
  intro m
  induction m with
  | nil =>
    intro S q d
    simp only [Enters, List.nil_append]
    constructor
    · intro h
      refine ⟨?_, ?_, ?_⟩
      · intro a rest e; simp only [List.cons.injEq] at e; rw [← e.1]; exact h
      · intro p q' ha; exact absurd ha (not_adj_single _ p q')
      · intro a ha; cases ha
    · rintro ⟨h, _, _⟩; exact h (q, d) [] rfl
  | cons a m ih =>
    intro S q d
    simp only [Enters]
    rw [ih (t.follows.get a.1) q d]
    constructor
    · rintro ⟨h1, h2, h3, h4, h5⟩
      refine ⟨?_, ?_, ?_⟩
      · intro b rest e; simp only [List.cons_append, List.cons.injEq] at e; rw [← e.1]; exact h1
      · intro p q' ha
        cases hm : m ++ [(q, d)] with
        | nil => simp at hm
        | cons b l =>
          rw [List.cons_append, hm] at ha
          rcases (adj_cons_cons a b l p q').mp ha with ⟨rfl, rfl⟩ | ha'
          · exact h3 b l hm
          · exact h4 p q' (hm ▸ ha')
      · intro b hb
        rcases List.mem_cons.mp hb with rfl | hb
        · exact h2
        · exact h5 b hb
    · rintro ⟨h1, h2, h3⟩
      refine ⟨h1 a _ rfl, h3 a List.mem_cons_self, ?_, ?_, fun b hb => h3 b (List.mem_cons_of_mem _ hb)⟩
      · intro b rest e
        apply h2 a.1 b.1
        rw [List.cons_append, e]
        exact (adj_cons_cons a b rest a.1 b.1).mpr (Or.inl ⟨rfl, rfl⟩)
      · intro p q' ha
        apply h2 p q'
        cases hm : m ++ [(q, d)] with
        | nil => simp at hm
        | cons b l =>
          rw [List.cons_append, hm]
          exact (adj_cons_cons a b l p q').mpr (Or.inr (hm ▸ ha))

/-! ### positions carry one character -/

mutual
theorem leaves_fun : (n : Node) → Lin n → ∀ (p : Nat) (c c' : Rune), (p, c) ∈ leaves n → (p, c') ∈ leaves n → c = c'
  | .concat xs, hl, p, c, c', h, h' => by
    simp only [leaves] at h h'; simp only [Lin] at hl; exact leavesList_fun xs hl p c c' h h'
  | .alt xs, hl, p, c, c', h, h' => by
    simp only [leaves] at h h'; simp only [Lin] at hl; exact leavesList_fun xs hl p c c' h h'
  | .star x, hl, p, c, c', h, h' => by
    simp only [leaves] at h h'; simp only [Lin] at hl; exact leaves_fun x hl p c c' h h'
  | .empty, _, p, c, c', h, _ => by simp [leaves] at h
  | .char d q, _, p, c, c', h, h' => by
    simp only [leaves, List.mem_singleton, Prod.mk.injEq] at h h'
    rw [h.2, h'.2]
theorem leavesList_fun : (xs : List Node) → LinList xs → ∀ (p : Nat) (c c' : Rune), (p, c) ∈ leavesList xs → (p, c') ∈ leavesList xs → c = c'
  | [], _, p, c, c', h, _ => by simp [leavesList] at h
  | x :: xs, hl, p, c, c', h, h' => by
    simp only [leavesList, List.mem_append] at h h'
    simp only [LinList] at hl
    obtain ⟨hx, hd, hxs⟩ := hl
    rcases h with h | h <;> rcases h' with h' | h'
    · exact leaves_fun x hx p c c' h h'
    · exact absurd (leavesList_poses xs _ h') (hd p (leaves_poses x _ h))
    · exact absurd (leavesList_poses xs _ h) (hd p (leaves_poses x _ h'))
    · exact leavesList_fun xs hxs p c c' h h'
end

/-- what `ast.Parse` establishes about the tree it hands to `ToDFA` -/
structure Marked (t : Tree) (r : Node) (mk : Rune) : Prop where
  shape : t.root = .concat [r, .char mk t.last]
  lin : Lin t.root
  fresh : t.last ∉ poses r
  pc : t.posChar = leaves t.root
  fol : t.follows = computeFollows [] t.root

theorem Marked.charAt_iff {t : Tree} {r : Node} {mk : Rune} (h : Marked t r mk) (a : Nat × Rune) :
    t.charAt a.1 = some a.2 ↔ a ∈ leaves t.root := by
  unfold Tree.charAt
  rw [h.pc]
  constructor
  · intro hc
    cases hf : (leaves t.root).find? (·.1 = a.1) with
    | none => rw [hf] at hc; cases hc
    | some e =>
      rw [hf] at hc
      simp only [Option.map_some, Option.some.injEq] at hc
      have hm := List.mem_of_find?_eq_some hf
      have hp := List.find?_some hf
      simp only [decide_eq_true_eq] at hp
      have : e = a := Prod.ext hp hc
      rw [← this]; exact hm
  · intro hm
    cases hf : (leaves t.root).find? (·.1 = a.1) with
    | none =>
      have := (List.find?_eq_none.mp hf) a hm
      simp at this
    | some e =>
      have hm' := List.mem_of_find?_eq_some hf
      have hp := List.find?_some hf
      simp only [decide_eq_true_eq] at hp
      simp only [Option.map_some, Option.some.injEq]
      have he : e = (a.1, e.2) := Prod.ext hp rfl
      rw [he] at hm'
      exact leaves_fun t.root h.lin a.1 e.2 a.2 hm' hm

theorem Marked.lastPos {t : Tree} {r : Node} {mk : Rune} (h : Marked t r mk) : t.root.lastPos = [t.last] := by
  rw [h.shape]
  simp [Node.lastPos, lastConcat, allNullable, Node.nullable]

theorem Marked.marker_leaf {t : Tree} {r : Node} {mk : Rune} (h : Marked t r mk) : (t.last, mk) ∈ leaves t.root := by
  rw [h.shape]
  simp [leaves, leavesList]

/-- the marked words of the tree are those of the pattern followed by the marker -/
theorem Marked.mlang_iff {t : Tree} {r : Node} {mk : Rune} (h : Marked t r mk) (m : MWord) :
    Node.mlang t.root (m ++ [(t.last, mk)]) ↔ Node.mlang r m := by
  rw [h.shape]
  simp only [Node.mlang, mlangCat]
  constructor
  · rintro ⟨u, v, e, hu, u', v', e', hu', hv'⟩
    subst hv' hu'
    simp only [List.append_nil] at e'
    subst e'
    have := List.append_inj' e rfl
    rw [this.1]; exact hu
  · intro hm
    exact ⟨m, [(t.last, mk)], rfl, hm, [(t.last, mk)], [], by simp, rfl, rfl⟩

/-- **Entering the marker = an accepting run of the position automaton = a marked word of the pattern.** -/
theorem Marked.enters_last {t : Tree} {r : Node} {mk : Rune} (h : Marked t r mk) (m : MWord) :
    Enters t t.root.firstPos m t.last ↔ Node.mlang r m := by
  rw [← h.mlang_iff m, ← position_automaton t.root h.lin (m ++ [(t.last, mk)]) (by simp)]
  rw [enters_path t m t.root.firstPos t.last mk]
  unfold Accepting
  constructor
  · rintro ⟨h1, h2, h3⟩
    refine ⟨by simp, h1, ?_, ?_, ?_⟩
    · intro init a e
      have := List.append_inj' e rfl
      have ha : a = (t.last, mk) := by simpa using this.2.symm
      rw [h.lastPos, ha]
      simp
    · intro p q ha
      rw [← h.fol]; exact h2 p q ha
    · intro a ha
      rcases List.mem_append.mp ha with ha | ha
      · exact (h.charAt_iff a).mp (h3 a ha)
      · simp only [List.mem_singleton] at ha; rw [ha]; exact h.marker_leaf
  · intro hp
    refine ⟨hp.hd, ?_, ?_⟩
    · intro p q ha
      rw [h.fol]; exact hp.adj p q ha
    · intro a ha
      exact (h.charAt_iff a).mpr (hp.lvs a (List.mem_append.mpr (Or.inl ha)))

/-! ### the automaton `ToDFA` builds -/

theorem mem_insertNat (x y : Nat) (l : List Nat) : y ∈ insertNat x l ↔ y = x ∨ y ∈ l := by
  induction l with
  | nil => simp [insertNat]
  | cons z l ih =>
    simp only [insertNat]
    split
    · simp
    · split
      · rename_i h; subst h; simp
      · simp only [List.mem_cons, ih]
        constructor
        · rintro (h | h | h)
          · exact Or.inr (Or.inl h)
          · exact Or.inl h
          · exact Or.inr (Or.inr h)
        · rintro (h | h | h)
          · exact Or.inr (Or.inl h)
          · exact Or.inl h
          · exact Or.inr (Or.inr h)

theorem mem_sortDedup_aux (l acc : List Nat) (y : Nat) : y ∈ l.foldl (fun acc x => insertNat x acc) acc ↔ y ∈ acc ∨ y ∈ l := by
  induction l generalizing acc with
  | nil => simp
  | cons x l ih =>
    rw [List.foldl_cons, ih, mem_insertNat]
    simp only [List.mem_cons]
    constructor
    · rintro ((h | h) | h)
      · exact Or.inr (Or.inl h)
      · exact Or.inl h
      · exact Or.inr (Or.inr h)
    · rintro (h | h | h)
      · exact Or.inl (Or.inr h)
      · exact Or.inl (Or.inl h)
      · exact Or.inr h

theorem mem_sortDedup (l : List Nat) (y : Nat) : y ∈ sortDedup l ↔ y ∈ l := by
  unfold sortDedup
  rw [mem_sortDedup_aux]
  simp

/-- every character of a marked word of the pattern is an input symbol -/
theorem Marked.symbols {t : Tree} {r : Node} {mk : Rune} (h : Marked t r mk) (m : MWord) (hm : Node.mlang r m) :
    ∀ a ∈ m, a.2 ∈ symbolsOf t := by
  intro a ha
  have hl := mlang_leaves r m hm a ha
  unfold symbolsOf
  rw [mem_sortDedup, h.pc, h.shape]
  simp only [List.mem_map, List.mem_filter, leaves, leavesList, List.append_nil, List.mem_append, List.mem_singleton]
  refine ⟨a, ⟨Or.inl hl, ?_⟩, rfl⟩
  simp only [ne_eq, decide_eq_true_eq]
  intro e
  exact h.fresh (e ▸ leaves_poses r a hl)

/-- **The automaton of the direct route accepts exactly the language of the pattern's tree**: whatever automaton the
    worklist loop of `ToDFA` returns (before `Minimize`), it accepts a string iff the string is in the language of the
    tree of the pattern - every string, also over characters the pattern does not mention. -/
theorem dfa_language {t : Tree} {r : Node} {mk : Rune} (h : Marked t r mk) (d : DFA) (hd : toDFA? t = some d) (w : List Rune) :
    d.accepts t w = true ↔ Node.lang r w := by
  unfold toDFA? at hd
  cases hr : explore t (symbolsOf t) (dfaFuel t) 0 [t.root.firstPos] [] with
  | none => rw [hr] at hd; cases hd
  | some res =>
    rw [hr] at hd
    simp only [Option.map_some, Option.some.injEq] at hd
    subst hd
    obtain ⟨h0, hcov, hsym⟩ := explore_spec t (symbolsOf t) (dfaFuel t) 0 [t.root.firstPos] []
      ⟨rfl, (fun k hk => by omega), (fun e he => by cases he), (fun e he => by cases he)⟩ res hr
    by_cases hall : ∀ c ∈ w, c ∈ symbolsOf t
    · obtain ⟨j, S', h1, h2, h3⟩ := run_spec t (symbolsOf t) res.1 res.2 hcov w 0 t.root.firstPos h0 hall
      unfold DFA.accepts
      simp only [h1]
      have hg : res.1.getD j [] = S' := by rw [List.getD_eq_getElem?_getD, h2]; rfl
      rw [hg, List.contains_iff_mem, h3 t.last, enters_iff]
      constructor
      · rintro ⟨m, hm, he⟩
        rw [← hm]
        exact mlang_erase r m ((h.enters_last m).mp he)
      · intro hl
        obtain ⟨m, hm, e⟩ := mlang_lift r w hl
        exact ⟨m, e, (h.enters_last m).mpr hm⟩
    · have hex : ∃ c ∈ w, c ∉ symbolsOf t := by
        apply Classical.byContradiction
        intro hne
        apply hall
        intro c hc
        apply Classical.byContradiction
        intro hn
        exact hne ⟨c, hc, hn⟩
      unfold DFA.accepts
      rw [run_none (symbolsOf t) res.2 hsym w 0 hex]
      simp only [Bool.false_eq_true, false_iff]
      intro hl
      obtain ⟨m, hm, e⟩ := mlang_lift r w hl
      obtain ⟨c, hc, hn⟩ := hex
      rw [← e] at hc
      obtain ⟨a, ha, rfl⟩ := List.mem_map.mp hc
      exact hn (h.symbols m hm a ha)

/-- the tree `ast.Parse` builds: the pattern's tree indexed from 1, followed by the end marker at the last position -/
theorem build_marked (T : ClassTable) (p : Pat) :
    Marked (build T p) (index 1 (ofPat T p)).1 endMarker := by
  refine ⟨?_, build_lin T p, ?_, rfl, rfl⟩
  · simp [build, index, indexList]
  · have := (index_range (ofPat T p) 1).2.1
    intro hp
    have := this _ hp
    simp [build, index, indexList] at this

/-! ### numbering the leaves does not change the language -/

mutual
theorem lang_index : (n : Node) → (k : Nat) → Node.lang (index k n).1 = Node.lang n
  | .concat xs, k => by simp only [index, Node.lang]; exact langConcat_index xs k
  | .alt xs, k => by simp only [index, Node.lang]; exact langAlt_index xs k
  | .star x, k => by simp only [index, Node.lang]; rw [lang_index x k]
  | .empty, k => by simp only [index]
  | .char c p, k => by simp only [index, Node.lang]
theorem langConcat_index : (xs : List Node) → (k : Nat) → langConcat (indexList k xs).1 = langConcat xs
  | [], k => by simp only [indexList]
  | x :: xs, k => by simp only [indexList, langConcat]; rw [lang_index x k, langConcat_index xs _]
theorem langAlt_index : (xs : List Node) → (k : Nat) → langAlt (indexList k xs).1 = langAlt xs
  | [], k => by simp only [indexList]
  | x :: xs, k => by simp only [indexList, langAlt]; rw [lang_index x k, langAlt_index xs _]
end

end Emerge.Props.C10
