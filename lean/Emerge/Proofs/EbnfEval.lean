import Emerge.Proofs.EbnfTable
/-
  The right-hand side of a rule as a tree, its EBNF meaning, and its evaluation by the semantic actions
  (actions 23–31 of `Ebnf.action`, children first, left to right, the symbol table threaded through).
  Main result: the alternatives the evaluation returns denote, in the least fixed point of ANY later
  well-formed table that extends the one reached, exactly the EBNF meaning of the tree.
-/
namespace Emerge.Props.C01
open Emerge Emerge.Ebnf

/-- a right-hand side -/
inductive Rhs where
  | term (a : String)          -- a terminal (string literal or token), action 31
  | nonterm (A : String)       -- a non-terminal, action 30
  | cat (l r : Rhs)            -- juxtaposition, action 23
  | alt (l r : Rhs)            -- `l | r`, action 28
  | altEmpty (l : Rhs)         -- `l |`, action 29
  | op (k : Kind) (x : Rhs)    -- `( x )`, `[ x ]`, `{ x }`, `{{ x }}`, actions 24–27
  deriving Repr

/-- the documented meaning, given the languages of the non-terminals -/
def denote (env : String → Lang) : Rhs → Lang
  | .term a => fun w => w = [a]
  | .nonterm A => env A
  | .cat l r => Lang.cat (denote env l) (denote env r)
  | .alt l r => Lang.union (denote env l) (denote env r)
  | .altEmpty l => Lang.union (denote env l) Lang.eps
  | .op k x => shapeLang k (denote env x)

/-- the semantic actions over the tree -/
def evalRhs (cfg : Cfg) (names : List (String × String)) : SymTab → Rhs → SymTab × Strings
  | t, .term a => (t, [[.t a]])
  | t, .nonterm A => (t, [[.nt A]])
  | t, .cat l r =>
    let r1 := evalRhs cfg names t l
    let r2 := evalRhs cfg names r1.1 r
    (r2.1, r1.2.flatMap fun α => r2.2.map fun β => α ++ β)
  | t, .alt l r =>
    let r1 := evalRhs cfg names t l
    let r2 := evalRhs cfg names r1.1 r
    (r2.1, r1.2 ++ r2.2)
  | t, .altEmpty l =>
    let r1 := evalRhs cfg names t l
    (r1.1, r1.2 ++ [[]])
  | t, .op k x =>
    let r1 := evalRhs cfg names t x
    let c := closureAction cfg names r1.1 r1.2 k
    (c.1, [[.nt c.2]])

/-- every name the operators of the tree synthesise is unused and not empty at the moment it is made -/
def FreshNames (cfg : Cfg) (names : List (String × String)) : SymTab → Rhs → Prop
  | _, .term _ => True
  | _, .nonterm _ => True
  | t, .cat l r => FreshNames cfg names t l ∧ FreshNames cfg names (evalRhs cfg names t l).1 r
  | t, .alt l r => FreshNames cfg names t l ∧ FreshNames cfg names (evalRhs cfg names t l).1 r
  | t, .altEmpty l => FreshNames cfg names t l
  | t, .op k x =>
    FreshNames cfg names t x ∧
    (mapStringToNonTerminal cfg names (evalRhs cfg names t x).1 (evalRhs cfg names t x).2 k.suffix).2 ∉
        (evalRhs cfg names t x).1.nonTerminals ∧
    (mapStringToNonTerminal cfg names (evalRhs cfg names t x).1 (evalRhs cfg names t x).2 k.suffix).2 ≠ ""

/-- a later table keeps the registered names and the memoised names -/
structure Ext (t t' : SymTab) : Prop where
  nts : ∀ x, x ∈ t.nonTerminals → x ∈ t'.nonTerminals
  memo : ∀ s e k, (s, e) ∈ t.memo → e.get k ≠ "" → ∃ e', (s, e') ∈ t'.memo ∧ e'.get k = e.get k

theorem Ext.refl (t : SymTab) : Ext t t := ⟨fun _ h => h, fun s e _ h _ => ⟨e, h, rfl⟩⟩

theorem Ext.trans {a b c : SymTab} (h1 : Ext a b) (h2 : Ext b c) : Ext a c := by
  refine ⟨fun x hx => h2.nts x (h1.nts x hx), ?_⟩
  intro s e k hm hne
  obtain ⟨e', hm', hg⟩ := h1.memo s e k hm hne
  obtain ⟨e'', hm'', hg'⟩ := h2.memo s e' k hm' (by rw [hg]; exact hne)
  exact ⟨e'', hm'', hg'.trans hg⟩

/-- old entries survive `updateMemo`, possibly with one more name -/
theorem updateMemo_keeps {m : List (Strings × MemoEntry)} {s : Strings} {k : Kind} {n : String} {s' : Strings} {e : MemoEntry}
    (h : (s', e) ∈ m) : (s', e) ∈ updateMemo m s k n ∨
      (m.find? (fun x => keyEq x.1 s) = some (s', e) ∧ (s', e.set k n) ∈ updateMemo m s k n) := by
  induction m with
  | nil => simp at h
  | cons x m ih =>
    obtain ⟨s0, e0⟩ := x
    simp only [updateMemo]
    split
    · rename_i hk
      rcases List.mem_cons.mp h with h | h
      · simp only [Prod.mk.injEq] at h
        obtain ⟨rfl, rfl⟩ := h
        exact Or.inr ⟨by simp [List.find?, hk], List.mem_cons_self⟩
      · exact Or.inl (List.mem_cons_of_mem _ h)
    · rename_i hk
      rcases List.mem_cons.mp h with h | h
      · exact Or.inl (h ▸ List.mem_cons_self)
      · rcases ih h with h | ⟨hf, hm⟩
        · exact Or.inl (List.mem_cons_of_mem _ h)
        · exact Or.inr ⟨by simp [List.find?, hk, hf], List.mem_cons_of_mem _ hm⟩

theorem updateMemo_found {m : List (Strings × MemoEntry)} {s : Strings} {k : Kind} {n : String} {s0 : Strings} {e0 : MemoEntry}
    (h : m.find? (fun x => keyEq x.1 s) = some (s0, e0)) : (s0, e0.set k n) ∈ updateMemo m s k n := by
  induction m with
  | nil => simp at h
  | cons x m ih =>
    obtain ⟨s1, e1⟩ := x
    simp only [updateMemo]
    by_cases hk : keyEq s1 s = true
    · simp only [List.find?, hk, Option.some.injEq, Prod.mk.injEq] at h
      obtain ⟨rfl, rfl⟩ := h
      simp [hk]
    · have hk' : keyEq s1 s = false := by simpa using hk
      simp only [List.find?, hk'] at h
      simp only [hk', Bool.false_eq_true, if_false]
      exact List.mem_cons_of_mem _ (ih h)

/-- the memo table only grows under `getName`; the name returned is memoised under a key set-equal to the operand -/
theorem getName_ext (cfg : Cfg) (names : List (String × String)) (t : SymTab) (s : Strings) (k : Kind) :
    (∀ s' e k', (s', e) ∈ t.memo → e.get k' ≠ "" →
      ∃ e', (s', e') ∈ (getName cfg names t s k).1.memo ∧ e'.get k' = e.get k') ∧
    (∃ s' e', (s', e') ∈ (getName cfg names t s k).1.memo ∧ eqStrings s' s = true ∧
      e'.get k = (getName cfg names t s k).2) := by
  unfold getName
  split
  · rename_i s0 e0 hfind
    have hmem : (s0, e0) ∈ t.memo := List.mem_of_find?_eq_some hfind
    have hkey : keyEq s0 s = true := by have := List.find?_some hfind; simpa using this
    split
    · exact ⟨fun s' e k' hm _ => ⟨e, hm, rfl⟩, s0, e0, hmem, keyEq_set _ _ hkey, rfl⟩
    · rename_i hne
      have hempty : e0.get k = "" := by simpa using hne
      have hm2 := (mapStringToNonTerminal_nts cfg names t s k.suffix).2
      refine ⟨?_, ?_⟩
      · intro s' e k' hm hk'
        simp only
        rw [hm2]
        rcases updateMemo_keeps (s := s) (k := k) (n := (mapStringToNonTerminal cfg names t s k.suffix).2) hm with h | ⟨hf, hset⟩
        · exact ⟨e, h, rfl⟩
        · rw [hfind] at hf
          simp only [Option.some.injEq, Prod.mk.injEq] at hf
          obtain ⟨rfl, rfl⟩ := hf
          refine ⟨_, hset, ?_⟩
          by_cases hkk : k' = k
          · subst hkk; exact absurd hempty hk'
          · exact MemoEntry.get_set_other _ _ hkk
      · simp only
        rw [hm2]
        exact ⟨s0, _, updateMemo_found hfind, keyEq_set _ _ hkey, MemoEntry.get_set_same _ _ _⟩
  · have hm2 := (mapStringToNonTerminal_nts cfg names t s k.suffix).2
    refine ⟨?_, ?_⟩
    · intro s' e k' hm _
      simp only
      rw [hm2]
      exact ⟨e, List.mem_append_left _ hm, rfl⟩
    · simp only
      rw [hm2]
      exact ⟨s, _, List.mem_append_right _ (List.mem_singleton.mpr rfl), eqStrings_refl s, MemoEntry.get_set_same _ _ _⟩

/-- an operator action only extends the table, and its result is memoised under a key set-equal to its operand -/
theorem closureAction_ext (cfg : Cfg) (names : List (String × String)) (t : SymTab) (s : Strings) (k : Kind) :
    Ext t (closureAction cfg names t s k).1 ∧
    ∃ s' e', (s', e') ∈ (closureAction cfg names t s k).1.memo ∧ eqStrings s' s = true ∧
      e'.get k = (closureAction cfg names t s k).2 := by
  obtain ⟨hname, hnts, hmemo⟩ := closureAction_frame cfg names t s k
  obtain ⟨hkeep, s', e', hm, hq, hg⟩ := getName_ext cfg names t s k
  refine ⟨⟨fun x hx => (hnts x).mpr (Or.inl hx), ?_⟩, s', e', ?_, hq, ?_⟩
  · intro s0 e0 k0 hm0 hne
    rw [hmemo]; exact hkeep s0 e0 k0 hm0 hne
  · rw [hmemo]; exact hm
  · rw [hname]; exact hg

theorem Star.congr {A B : Lang} (h : ∀ w, A w ↔ B w) : ∀ w, Star A w ↔ Star B w := by
  intro w
  constructor
  · intro hs
    induction hs with
    | nil => exact Star.nil
    | cons u v hu _ ih => exact Star.cons u v ((h u).mp hu) ih
  · intro hs
    induction hs with
    | nil => exact Star.nil
    | cons u v hu _ ih => exact Star.cons u v ((h u).mpr hu) ih

theorem shapeLang_congr (k : Kind) {A B : Lang} (h : ∀ w, A w ↔ B w) (w : List String) : shapeLang k A w ↔ shapeLang k B w := by
  cases k with
  | group => exact h w
  | opt => simp only [shapeLang]; rw [h w]
  | star => exact Star.congr h w
  | plus =>
    simp only [shapeLang, Plus]
    constructor
    · rintro ⟨u, v, rfl, hu, hv⟩; exact ⟨u, v, rfl, (h u).mp hu, (Star.congr h v).mp hv⟩
    · rintro ⟨u, v, rfl, hu, hv⟩; exact ⟨u, v, rfl, (h u).mpr hu, (Star.congr h v).mpr hv⟩

/-- **The actions compute the EBNF meaning.** Evaluating a right-hand side from a well-formed table (every synthesised
    name being unused when it is made) leaves a well-formed table that extends it, and the alternatives returned
    denote - in the least fixed point of ANY well-formed table that extends the one reached, in particular the final
    table of the specification - exactly the documented meaning of the right-hand side: juxtaposition is concatenation,
    `|` union, a trailing `|` adds the empty string, `( )` groups, `[ ]` adds the empty string, `{ }` is zero or more and
    `{{ }}` one or more repetitions. -/
theorem evalRhs_sound (cfg : Cfg) (names : List (String × String)) : ∀ (r : Rhs) (t : SymTab),
    TableOk t → FreshNames cfg names t r →
    TableOk (evalRhs cfg names t r).1 ∧ Ext t (evalRhs cfg names t r).1 ∧
    ∀ t'', TableOk t'' → Ext (evalRhs cfg names t r).1 t'' →
      ∀ w, langStrings (L t''.prods) (evalRhs cfg names t r).2 w ↔ denote (L t''.prods) r w := by
  intro r
  induction r with
  | term a =>
    intro t ht _
    refine ⟨ht, Ext.refl t, fun t'' _ _ w => ?_⟩
    exact (langStrings_atoms (L t''.prods) a a w).1
  | nonterm A =>
    intro t ht _
    refine ⟨ht, Ext.refl t, fun t'' _ _ w => ?_⟩
    exact (langStrings_atoms (L t''.prods) A A w).2
  | cat l r ihl ihr =>
    intro t ht hf
    obtain ⟨h1, e1, m1⟩ := ihl t ht hf.1
    obtain ⟨h2, e2, m2⟩ := ihr _ h1 hf.2
    refine ⟨h2, e1.trans e2, fun t'' ht'' hext w => ?_⟩
    simp only [evalRhs, denote]
    rw [langStrings_juxtapose]
    simp only [Lang.cat]
    constructor
    · rintro ⟨u, v, rfl, hu, hv⟩
      exact ⟨u, v, rfl, (m1 t'' ht'' (e2.trans hext) u).mp hu, (m2 t'' ht'' hext v).mp hv⟩
    · rintro ⟨u, v, rfl, hu, hv⟩
      exact ⟨u, v, rfl, (m1 t'' ht'' (e2.trans hext) u).mpr hu, (m2 t'' ht'' hext v).mpr hv⟩
  | alt l r ihl ihr =>
    intro t ht hf
    obtain ⟨h1, e1, m1⟩ := ihl t ht hf.1
    obtain ⟨h2, e2, m2⟩ := ihr _ h1 hf.2
    refine ⟨h2, e1.trans e2, fun t'' ht'' hext w => ?_⟩
    simp only [evalRhs, denote]
    rw [langStrings_append]
    simp only [Lang.union]
    rw [m1 t'' ht'' (e2.trans hext) w, m2 t'' ht'' hext w]
  | altEmpty l ihl =>
    intro t ht hf
    obtain ⟨h1, e1, m1⟩ := ihl t ht hf
    refine ⟨h1, e1, fun t'' ht'' hext w => ?_⟩
    simp only [evalRhs, denote]
    rw [langStrings_append_nil]
    simp only [Lang.union]
    rw [m1 t'' ht'' hext w]
  | op k x ihx =>
    intro t ht hf
    obtain ⟨h1, e1, m1⟩ := ihx t ht hf.1
    have h2 := h1.closure cfg names (evalRhs cfg names t x).2 k hf.2.1
    obtain ⟨e2, s', e', hm, hq, hg⟩ := closureAction_ext cfg names (evalRhs cfg names t x).1 (evalRhs cfg names t x).2 k
    refine ⟨h2, e1.trans e2, fun t'' ht'' hext w => ?_⟩
    simp only [evalRhs, denote]
    -- the name returned is not empty
    have hne : e'.get k ≠ "" := by
      rw [hg, (closureAction_frame cfg names _ _ k).1]
      obtain ⟨_, _, hcases⟩ := getName_spec cfg names (evalRhs cfg names t x).1 (evalRhs cfg names t x).2 k
      rcases hcases with ⟨_, e0, _, _, hnz, hnn, _⟩ | ⟨hnew, _⟩
      · rw [hnn]; exact hnz
      · rw [hnew]; exact hf.2.2
    -- it is still memoised, with its operator's productions, in the later table
    obtain ⟨e'', hm'', hg''⟩ := hext.memo s' e' k hm hne
    have hop := lang_operator t''.prods k (e''.get k) s' (ht''.shape s' e'' hm'' k (by rw [hg'']; exact hne)).2
    rw [(langStrings_atoms (L t''.prods) (closureAction cfg names (evalRhs cfg names t x).1 (evalRhs cfg names t x).2 k).2
          (closureAction cfg names (evalRhs cfg names t x).1 (evalRhs cfg names t x).2 k).2 w).2]
    rw [← hg, ← hg'', hop w]
    apply shapeLang_congr
    intro u
    rw [langStrings_key (L t''.prods) s' _ hq u]
    exact m1 t'' ht'' (e2.trans hext) u

/-! ### the evaluation is what the semantic actions do, production by production -/

section actions
variable (cfg : Cfg) (file : String) (names predefs : List (String × String)) (t : SymTab) (p0 p1 p2 : Option Pos) (x y : Val)

theorem action_term (a : String) :
    action cfg file names predefs t 31 [⟨.term a, p0⟩] = .ok (t, .strings [[.t a]]) := rfl
theorem action_nonterm (A : String) :
    action cfg file names predefs t 30 [⟨.nonterm A, p0⟩] = .ok (t, .strings [[.nt A]]) := rfl
theorem action_cat (s1 s2 : Strings) :
    action cfg file names predefs t 23 [⟨.strings s1, p0⟩, ⟨.strings s2, p1⟩] =
      .ok (t, .strings (s1.flatMap fun α => s2.map fun β => α ++ β)) := rfl
theorem action_alt (s1 s2 : Strings) :
    action cfg file names predefs t 28 [⟨.strings s1, p0⟩, ⟨x, p1⟩, ⟨.strings s2, p2⟩] = .ok (t, .strings (s1 ++ s2)) := rfl
theorem action_altEmpty (s1 : Strings) :
    action cfg file names predefs t 29 [⟨.strings s1, p0⟩, ⟨x, p1⟩] = .ok (t, .strings (s1 ++ [[]])) := rfl
theorem action_group (s : Strings) :
    action cfg file names predefs t 24 [⟨x, p0⟩, ⟨.strings s, p1⟩, ⟨y, p2⟩] =
      .ok ((closureAction cfg names t s .group).1, .strings [[.nt (closureAction cfg names t s .group).2]]) := rfl
theorem action_opt (s : Strings) :
    action cfg file names predefs t 25 [⟨x, p0⟩, ⟨.strings s, p1⟩, ⟨y, p2⟩] =
      .ok ((closureAction cfg names t s .opt).1, .strings [[.nt (closureAction cfg names t s .opt).2]]) := rfl
theorem action_star (s : Strings) :
    action cfg file names predefs t 26 [⟨x, p0⟩, ⟨.strings s, p1⟩, ⟨y, p2⟩] =
      .ok ((closureAction cfg names t s .star).1, .strings [[.nt (closureAction cfg names t s .star).2]]) := rfl
theorem action_plus (s : Strings) :
    action cfg file names predefs t 27 [⟨x, p0⟩, ⟨.strings s, p1⟩, ⟨y, p2⟩] =
      .ok ((closureAction cfg names t s .plus).1, .strings [[.nt (closureAction cfg names t s .plus).2]]) := rfl
theorem action_rule (A : String) (s : Strings) :
    action cfg file names predefs t 20 [⟨.nonterm A, p0⟩, ⟨x, p1⟩, ⟨.strings s, p2⟩] =
      .ok ((s.map fun α => (⟨A, α⟩ : GProd)).foldl addProduction t, .prods (s.map fun α => (⟨A, α⟩ : GProd))) := rfl

end actions

/-! ### a rule: its productions and its language -/

/-- **The language of a rule's name is the union of the meanings of its right-hand sides** - in any production list in
    which the bodies of `A` are exactly the alternatives the actions computed for `A`'s rules, and those alternatives
    denote the meanings (which `evalRhs_sound` provides for the final table). -/
theorem rule_lang (P : List GProd) (A : String) (rules : List (Rhs × Strings))
    (hmean : ∀ rs, rs ∈ rules → ∀ w, langStrings (L P) rs.2 w ↔ denote (L P) rs.1 w)
    (hprods : ∀ α, ⟨A, α⟩ ∈ P ↔ ∃ rs, rs ∈ rules ∧ α ∈ rs.2) (w : List String) :
    L P A w ↔ ∃ rs, rs ∈ rules ∧ denote (L P) rs.1 w := by
  rw [L_fix]
  constructor
  · rintro ⟨α, hα, hw⟩
    obtain ⟨rs, hrs, hin⟩ := (hprods α).mp (mem_alts.mp hα)
    exact ⟨rs, hrs, (hmean rs hrs w).mp ⟨α, hin, hw⟩⟩
  · rintro ⟨rs, hrs, hw⟩
    obtain ⟨α, hin, hα⟩ := (hmean rs hrs w).mpr hw
    exact ⟨α, mem_alts.mpr ((hprods α).mpr ⟨rs, hrs, hin⟩), hα⟩

/-- adding the productions of a rule keeps the table well-formed and only extends it -/
theorem TableOk.addRules {t : SymTab} (h : TableOk t) (A : String) (hA : A ∈ t.nonTerminals)
    (hclash : ∀ s e, (s, e) ∈ t.memo → ∀ k, e.get k ≠ A) : ∀ (s : Strings),
    TableOk ((s.map fun α => (⟨A, α⟩ : GProd)).foldl addProduction t) ∧
    Ext t ((s.map fun α => (⟨A, α⟩ : GProd)).foldl addProduction t) ∧
    (∀ q, q ∈ ((s.map fun α => (⟨A, α⟩ : GProd)).foldl addProduction t).prods ↔ q ∈ t.prods ∨ ∃ α ∈ s, q = ⟨A, α⟩) := by
  intro s
  induction s generalizing t with
  | nil => exact ⟨h, Ext.refl t, fun q => by simp⟩
  | cons a s ih =>
    simp only [List.map_cons, List.foldl_cons]
    have h1 := h.addRule A a hA hclash
    have hn := addProduction_nts t ⟨A, a⟩
    obtain ⟨i1, i2, i3⟩ := ih h1 (by rw [hn.1]; exact hA) (by rw [hn.2]; exact hclash)
    refine ⟨i1, ?_, ?_⟩
    · refine Ext.trans ⟨fun x hx => by rw [hn.1]; exact hx, fun s0 e0 k0 hm hne => ⟨e0, by rw [hn.2]; exact hm, rfl⟩⟩ i2
    · intro q
      rw [i3 q, mem_addProduction]
      constructor
      · rintro ((hq | rfl) | ⟨α, hα, rfl⟩)
        · exact Or.inl hq
        · exact Or.inr ⟨a, List.mem_cons_self, rfl⟩
        · exact Or.inr ⟨α, List.mem_cons_of_mem _ hα, rfl⟩
      · rintro (hq | ⟨α, hα, rfl⟩)
        · exact Or.inl (Or.inl hq)
        · rcases List.mem_cons.mp hα with rfl | hα
          · exact Or.inl (Or.inr rfl)
          · exact Or.inr ⟨α, hα, rfl⟩

end Emerge.Props.C01
