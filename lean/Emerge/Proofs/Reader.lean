import Emerge.Reader
/-
  Refinement: the two-half reader is the plain byte stream.

  Ghost state: `b0`/`b1` are the source offsets of the blocks that sit in the first/second half
  (`sv` = the second half has been loaded at all). All arithmetic is linear in these, so `omega`
  carries it; no `%`/`/` by the (variable) half size appears anywhere.
-/
namespace Emerge.Reader

structure Ghost where
  b0 : Nat
  b1 : Nat
  sv : Nat      -- 1 once the second half has been loaded
  nw : Nat      -- offset of the newest loaded block

structure Inv (src : Nat → Nat) (len n : Nat) (s : RState) (k : Nat) (g : Ghost) : Prop where
  npos : 0 < n
  fwdlt : s.fwd < 2 * n
  hw : k + s.pend ≤ len
  pendle : s.pend ≤ n
  pos0 : s.fwd < n → k = g.b0 + s.fwd
  pos1 : n ≤ s.fwd → g.sv = 1 ∧ k = g.b1 + (s.fwd - n)
  dat0 : ∀ i, i < n → g.b0 + i < len → s.buf i = src (g.b0 + i)
  sen0 : g.b0 ≤ len → len < g.b0 + n → s.buf (len - g.b0) = 0
  dat1 : g.sv = 1 → ∀ i, i < n → g.b1 + i < len → s.buf (n + i) = src (g.b1 + i)
  sen1 : g.sv = 1 → g.b1 ≤ len → len < g.b1 + n → s.buf (n + (len - g.b1)) = 0
  adj : g.sv = 1 → g.b1 = g.b0 + n ∨ g.b0 = g.b1 + n
  first : g.sv ≠ 1 → g.b0 = 0
  nwdef : (g.nw = g.b0 ∧ (g.sv = 1 → g.b1 ≤ g.b0)) ∨ (g.sv = 1 ∧ g.nw = g.b1 ∧ g.b0 < g.b1)
  newLo : g.nw ≤ k + s.pend
  newHi : k + s.pend < g.nw + n
  ld : s.loaded = min len (g.nw + n)
  old : g.nw ≤ k + n

def NulFree (src : Nat → Nat) (len : Nat) : Prop := ∀ j, j < len → src j ≠ 0

def cnt (len n : Nat) (s : RState) : Nat := min n (len - s.loaded)

theorem load_in (src : Nat → Nat) (len n : Nat) (s : RState) (low i : Nat)
    (h1 : low ≤ i) (h2 : i < low + cnt len n s) : (load src len n s low).buf i = src (s.loaded + (i - low)) := by
  show (if low ≤ i ∧ i < low + min n (len - s.loaded) then _ else _) = _
  rw [if_pos ⟨h1, h2⟩]

theorem load_sentinel (src : Nat → Nat) (len n : Nat) (s : RState) (low : Nat)
    (h : cnt len n s < n) : (load src len n s low).buf (low + cnt len n s) = 0 := by
  show (if low ≤ low + min n (len - s.loaded) ∧ low + min n (len - s.loaded) < low + min n (len - s.loaded) then _
        else if low + min n (len - s.loaded) = low + min n (len - s.loaded) ∧ min n (len - s.loaded) < n then 0 else _) = _
  rw [if_neg (by omega), if_pos ⟨rfl, h⟩]

theorem load_out (src : Nat → Nat) (len n : Nat) (s : RState) (low i : Nat)
    (h : i < low ∨ low + n ≤ i) : (load src len n s low).buf i = s.buf i := by
  show (if low ≤ i ∧ i < low + min n (len - s.loaded) then _
        else if i = low + min n (len - s.loaded) ∧ min n (len - s.loaded) < n then 0 else _) = _
  rw [if_neg (by omega), if_neg (by omega)]

@[simp] theorem load_fwd (src : Nat → Nat) (len n : Nat) (s : RState) (low : Nat) : (load src len n s low).fwd = s.fwd := rfl
@[simp] theorem load_pend (src : Nat → Nat) (len n : Nat) (s : RState) (low : Nat) : (load src len n s low).pend = s.pend := rfl
theorem load_loaded (src : Nat → Nat) (len n : Nat) (s : RState) (low : Nat) :
    (load src len n s low).loaded = s.loaded + cnt len n s := rfl

theorem init_inv (src : Nat → Nat) (len n : Nat) (buf0 : Nat → Nat) (hn : 0 < n) :
    Inv src len n (init src len n buf0) 0 ⟨0, 0, 0, 0⟩ := by
  have hc : cnt len n ⟨buf0, 0, 0, 0⟩ = min n len := by simp [cnt]
  refine { npos := hn, fwdlt := ?_, hw := ?_, pendle := ?_, pos0 := ?_, pos1 := ?_, dat0 := ?_, sen0 := ?_,
           dat1 := ?_, sen1 := ?_, adj := ?_, first := ?_, nwdef := ?_, newLo := ?_, newHi := ?_, ld := ?_, old := ?_ }
  · show 0 < 2 * n; omega
  · show 0 + 0 ≤ len; omega
  · show 0 ≤ n; omega
  · intro _; rfl
  · intro (h : n ≤ 0); omega
  · intro i hi (hl : 0 + i < len)
    show (load src len n ⟨buf0, 0, 0, 0⟩ 0).buf i = src (0 + i)
    rw [load_in _ _ _ _ _ _ (by omega) (by rw [hc]; omega)]
    simp
  · intro (_ : (0 : Nat) ≤ len) (hl : len < 0 + n)
    show (load src len n ⟨buf0, 0, 0, 0⟩ 0).buf (len - 0) = 0
    have := load_sentinel src len n ⟨buf0, 0, 0, 0⟩ 0 (by rw [hc]; omega)
    rw [hc] at this
    have e : len - 0 = 0 + min n len := by omega
    rw [e]; exact this
  · intro (h : (0 : Nat) = 1); omega
  · intro (h : (0 : Nat) = 1); omega
  · intro (h : (0 : Nat) = 1); omega
  · intro _; rfl
  · left; exact ⟨rfl, fun (h : (0 : Nat) = 1) => by omega⟩
  · show (0 : Nat) ≤ 0 + 0; omega
  · show 0 + 0 < 0 + n; omega
  · show (load src len n ⟨buf0, 0, 0, 0⟩ 0).loaded = min len (0 + n)
    rw [load_loaded, hc]; show 0 + min n len = _; omega
  · show (0 : Nat) ≤ 0 + n; omega

/-- the byte under `forward` is the source byte at the cursor, or the sentinel at the end -/
theorem cur_byte {src len n s k g} (h : Inv src len n s k g) :
    (k < len → s.buf s.fwd = src k) ∧ (k = len → s.buf s.fwd = 0) := by
  have ⟨npos, fwdlt, hw, pendle, pos0, pos1, dat0, sen0, dat1, sen1, adj, first, nwdef, newLo, newHi, ld, old⟩ := h
  by_cases hf : s.fwd < n
  · have e := pos0 hf
    constructor
    · intro hk
      have := dat0 s.fwd hf (by omega)
      rw [this, e]
    · intro hk
      have := sen0 (by omega) (by omega)
      have e2 : len - g.b0 = s.fwd := by omega
      rw [e2] at this; exact this
  · have ⟨hsv, e⟩ := pos1 (by omega)
    constructor
    · intro hk
      have := dat1 hsv (s.fwd - n) (by omega) (by omega)
      have e2 : n + (s.fwd - n) = s.fwd := by omega
      rw [e2] at this
      rw [this, e]
    · intro hk
      have := sen1 hsv (by omega) (by omega)
      have e2 : n + (len - g.b1) = s.fwd := by omega
      rw [e2] at this; exact this

/-- re-reading a byte that `Retract` gave back: no load, the halves stay as they are -/
theorem step_reread {src len n s k g} (h : Inv src len n s k g) (hk : k < len) (hp : 0 < s.pend) :
    Inv src len n { s with fwd := if s.fwd + 1 = 2 * n then 0 else s.fwd + 1, pend := s.pend - 1 } (k + 1) g := by
  have ⟨npos, fwdlt, hw, pendle, pos0, pos1, dat0, sen0, dat1, sen1, adj, first, nwdef, newLo, newHi, ld, old⟩ := h
  refine { npos := npos, fwdlt := ?_, hw := ?_, pendle := ?_, pos0 := ?_, pos1 := ?_, dat0 := dat0, sen0 := sen0,
           dat1 := dat1, sen1 := sen1, adj := adj, first := first, nwdef := nwdef, newLo := ?_, newHi := ?_, ld := ld, old := ?_ }
  all_goals clear dat0 dat1 sen0 sen1 ld first
  all_goals try dsimp only
  all_goals (try split) <;> omega

/-- an ordinary step inside a half -/
theorem step_plain {src len n s k g} (h : Inv src len n s k g) (hk : k < len) (hp : s.pend = 0)
    (h1 : s.fwd + 1 ≠ n) (h2 : s.fwd + 1 ≠ 2 * n) :
    Inv src len n { s with fwd := s.fwd + 1 } (k + 1) g := by
  have ⟨npos, fwdlt, hw, pendle, pos0, pos1, dat0, sen0, dat1, sen1, adj, first, nwdef, newLo, newHi, ld, old⟩ := h
  refine { npos := npos, fwdlt := ?_, hw := ?_, pendle := pendle, pos0 := ?_, pos1 := ?_, dat0 := dat0, sen0 := sen0,
           dat1 := dat1, sen1 := sen1, adj := adj, first := first, nwdef := nwdef, newLo := ?_, newHi := ?_, ld := ld, old := ?_ }
  all_goals clear dat0 dat1 sen0 sen1 ld first
  all_goals try dsimp only
  all_goals omega

/-- `forward` reaches the end of the first half: the next block goes into the second half -/
theorem step_load_second {src len n s k g} (h : Inv src len n s k g) (hk : k < len) (hp : s.pend = 0)
    (h1 : s.fwd + 1 = n) :
    Inv src len n (load src len n { s with fwd := s.fwd + 1 } n) (k + 1) ⟨g.b0, g.b0 + n, 1, g.b0 + n⟩ := by
  have ⟨npos, fwdlt, hw, pendle, pos0, pos1, dat0, sen0, dat1, sen1, adj, first, nwdef, newLo, newHi, ld, old⟩ := h
  have ek : k + 1 = g.b0 + n := by have := pos0 (by omega); omega
  have enw : g.nw = g.b0 := by clear dat0 dat1 sen0 sen1 ld first; omega
  have eld : s.loaded = g.b0 + n := by rw [ld, enw]; omega
  have ec : cnt len n { s with fwd := s.fwd + 1 } = min n (len - (g.b0 + n)) := by
    show min n (len - s.loaded) = _; rw [eld]
  refine { npos := npos, fwdlt := ?_, hw := ?_, pendle := ?_, pos0 := ?_, pos1 := ?_, dat0 := ?_, sen0 := ?_,
           dat1 := ?_, sen1 := ?_, adj := ?_, first := ?_, nwdef := ?_, newLo := ?_, newHi := ?_, ld := ?_, old := ?_ }
  · show s.fwd + 1 < 2 * n; omega
  · show k + 1 + s.pend ≤ len; omega
  · exact pendle
  · intro (hh : s.fwd + 1 < n); omega
  · intro (_ : n ≤ s.fwd + 1); exact ⟨rfl, by show k + 1 = g.b0 + n + (s.fwd + 1 - n); omega⟩
  · intro i hi (hl : g.b0 + i < len)
    rw [load_out _ _ _ _ _ _ (Or.inl hi)]
    exact dat0 i hi hl
  · intro (_ : g.b0 ≤ len) (hl : len < g.b0 + n); omega
  · intro _ i hi (hl : g.b0 + n + i < len)
    rw [load_in _ _ _ _ _ _ (by omega) (by rw [ec]; omega)]
    show src (s.loaded + (n + i - n)) = src (g.b0 + n + i)
    rw [eld]; congr 1; omega
  · intro _ (hl1 : g.b0 + n ≤ len) (hl2 : len < g.b0 + n + n)
    have := load_sentinel src len n { s with fwd := s.fwd + 1 } n (by rw [ec]; omega)
    rw [ec] at this
    have e : n + (len - (g.b0 + n)) = n + min n (len - (g.b0 + n)) := by omega
    show (load src len n { s with fwd := s.fwd + 1 } n).buf (n + (len - (g.b0 + n))) = 0
    rw [e]; exact this
  · intro _; left; rfl
  · intro (hh : (1 : Nat) ≠ 1); omega
  · right; exact ⟨rfl, rfl, by show g.b0 < g.b0 + n; omega⟩
  · show g.b0 + n ≤ k + 1 + s.pend; omega
  · show k + 1 + s.pend < g.b0 + n + n; omega
  · show (load src len n { s with fwd := s.fwd + 1 } n).loaded = min len (g.b0 + n + n)
    rw [load_loaded, ec]; show s.loaded + _ = _; rw [eld]; omega
  · show g.b0 + n ≤ k + 1 + n; omega

/-- `forward` reaches the end of the second half: the next block goes into the first half, `forward` wraps -/
theorem step_load_first {src len n s k g} (h : Inv src len n s k g) (hk : k < len) (hp : s.pend = 0)
    (h1 : s.fwd + 1 = 2 * n) :
    Inv src len n { load src len n s 0 with fwd := 0 } (k + 1) ⟨g.b1 + n, g.b1, 1, g.b1 + n⟩ := by
  have ⟨npos, fwdlt, hw, pendle, pos0, pos1, dat0, sen0, dat1, sen1, adj, first, nwdef, newLo, newHi, ld, old⟩ := h
  have ⟨hsv, ek0⟩ := pos1 (by omega)
  have ek : k + 1 = g.b1 + n := by omega
  have enw : g.nw = g.b1 := by clear dat0 dat1 sen0 sen1 ld first; omega
  have eld : s.loaded = g.b1 + n := by rw [ld, enw]; omega
  have ec : cnt len n s = min n (len - (g.b1 + n)) := by
    show min n (len - s.loaded) = _; rw [eld]
  refine { npos := npos, fwdlt := ?_, hw := ?_, pendle := ?_, pos0 := ?_, pos1 := ?_, dat0 := ?_, sen0 := ?_,
           dat1 := ?_, sen1 := ?_, adj := ?_, first := ?_, nwdef := ?_, newLo := ?_, newHi := ?_, ld := ?_, old := ?_ }
  · show 0 < 2 * n; omega
  · show k + 1 + s.pend ≤ len; omega
  · exact pendle
  · intro _; show k + 1 = g.b1 + n + 0; omega
  · intro (hh : n ≤ 0); omega
  · intro i hi (hl : g.b1 + n + i < len)
    show (load src len n s 0).buf i = src (g.b1 + n + i)
    rw [load_in _ _ _ _ _ _ (by omega) (by rw [ec]; omega)]
    rw [eld]; congr 1
  · intro (hl1 : g.b1 + n ≤ len) (hl2 : len < g.b1 + n + n)
    have := load_sentinel src len n s 0 (by rw [ec]; omega)
    rw [ec] at this
    have e : len - (g.b1 + n) = 0 + min n (len - (g.b1 + n)) := by omega
    show (load src len n s 0).buf (len - (g.b1 + n)) = 0
    rw [e]; exact this
  · intro _ i hi (hl : g.b1 + i < len)
    show (load src len n s 0).buf (n + i) = src (g.b1 + i)
    rw [load_out _ _ _ _ _ _ (Or.inr (by omega))]
    exact dat1 hsv i hi hl
  · intro _ (hl1 : g.b1 ≤ len) (hl2 : len < g.b1 + n); omega
  · intro _; right; rfl
  · intro (hh : (1 : Nat) ≠ 1); omega
  · left; exact ⟨rfl, fun _ => by show g.b1 ≤ g.b1 + n; omega⟩
  · show g.b1 + n ≤ k + 1 + s.pend; omega
  · show k + 1 + s.pend < g.b1 + n + n; omega
  · show (load src len n s 0).loaded = min len (g.b1 + n + n)
    rw [load_loaded, ec, eld]; omega
  · show g.b1 + n ≤ k + 1 + n; omega

/-- **`next` is the stream's `next`** (for a source without NUL bytes): below the end it returns the source byte at
    the cursor and the invariant holds at the advanced cursor; at the end it returns EOF and changes nothing -/
theorem next_refines {src len n s k g} (h : Inv src len n s k g) (hnf : NulFree src len) :
    (k < len → (next src len n s).1 = some (src k) ∧ ∃ g', Inv src len n (next src len n s).2 (k + 1) g') ∧
    (¬ k < len → next src len n s = (none, s)) := by
  have hb := cur_byte h
  constructor
  · intro hk
    have e := hb.1 hk
    have nz : src k ≠ 0 := hnf k hk
    unfold next
    simp only [e, nz, if_false]
    by_cases hp : 0 < s.pend
    · simp only [hp, if_true]
      exact ⟨trivial, g, step_reread h hk hp⟩
    · simp only [hp, if_false]
      have hp0 : s.pend = 0 := by omega
      by_cases h1 : s.fwd + 1 = n
      · simp only [h1, if_true]
        refine ⟨trivial, ⟨g.b0, g.b0 + n, 1, g.b0 + n⟩, ?_⟩
        have := step_load_second h hk hp0 h1
        simpa [h1] using this
      · simp only [h1, if_false]
        by_cases h2 : s.fwd + 1 = 2 * n
        · simp only [h2, if_true]
          exact ⟨trivial, _, step_load_first h hk hp0 h2⟩
        · simp only [h2, if_false]
          exact ⟨trivial, g, step_plain h hk hp0 h1 h2⟩
  · intro hk
    have : k = len := by have := h.hw; omega
    have e := hb.2 this
    unfold next
    simp [e]

/-- **`Retract` moves the cursor back**: giving back `size` bytes that were read (and keeping the total given back
    within one half) leaves the reader at cursor `k - size` -/
theorem retract_refines {src len n s k g} (h : Inv src len n s k g) (size : Nat) (hs : size ≤ k)
    (hp : s.pend + size ≤ n) : Inv src len n (retract n s size) (k - size) g := by
  have ⟨npos, fwdlt, hw, pendle, pos0, pos1, dat0, sen0, dat1, sen1, adj, first, nwdef, newLo, newHi, ld, old⟩ := h
  refine { npos := npos, fwdlt := ?_, hw := ?_, pendle := ?_, pos0 := ?_, pos1 := ?_, dat0 := dat0, sen0 := sen0,
           dat1 := dat1, sen1 := sen1, adj := adj, first := first, nwdef := nwdef, newLo := ?_, newHi := ?_, ld := ld, old := ?_ }
  all_goals clear dat0 dat1 sen0 sen1 ld
  all_goals try simp only [retract]
  all_goals (try split) <;> omega

/-! ### runs: any interleaving of `next` and `Retract` that respects the reader's contract -/

inductive Op where
  | next
  | retract (size : Nat)

/-- the stream the reader is meant to be: a cursor, and the number of bytes currently given back -/
def aStep (src : Nat → Nat) (len n : Nat) : Nat × Nat → Op → Option (Option Nat × (Nat × Nat))
  | (k, p), .next => if k < len then some (some (src k), (k + 1, p - 1)) else some (none, (k, p))
  | (k, p), .retract size => if size ≤ k ∧ p + size ≤ n then some (none, (k - size, p + size)) else none

def aRun (src : Nat → Nat) (len n : Nat) : Nat × Nat → List Op → Option (List (Option Nat))
  | _, [] => some []
  | st, op :: ops =>
    match aStep src len n st op with
    | none => none
    | some (o, st') => (aRun src len n st' ops).map (o :: ·)

def cStep (src : Nat → Nat) (len n : Nat) (s : RState) : Op → Option Nat × RState
  | .next => next src len n s
  | .retract size => (none, retract n s size)

def cRun (src : Nat → Nat) (len n : Nat) : RState → List Op → List (Option Nat)
  | _, [] => []
  | s, op :: ops => (cStep src len n s op).1 :: cRun src len n (cStep src len n s op).2 ops

theorem next_pend {src len n s k g} (h : Inv src len n s k g) (hnf : NulFree src len) (hk : k < len) :
    (next src len n s).2.pend = s.pend - 1 := by
  have e := (cur_byte h).1 hk
  have nz : src k ≠ 0 := hnf k hk
  unfold next
  simp only [e, nz, if_false]
  by_cases hp : 0 < s.pend
  · simp [hp]
  · simp only [hp, if_false]
    have : s.pend = 0 := by omega
    split
    · simp [this]
    · split <;> simp [this]

/-- **Refinement for runs**: whatever sequence of `next`/`Retract` calls the lexer makes within the contract (a
    `Retract` gives back bytes that were read, never more than one half's worth outstanding), the bytes the two-half
    reader returns are exactly the bytes of the plain stream — for every source length, half size and block
    alignment. -/
theorem run_refines {src len n} (hnf : NulFree src len) :
    ∀ (ops : List Op) (s : RState) (k : Nat) (g : Ghost) (outs : List (Option Nat)),
      Inv src len n s k g → aRun src len n (k, s.pend) ops = some outs → cRun src len n s ops = outs := by
  intro ops
  induction ops with
  | nil => intro s k g outs _ h; simp [aRun] at h; simp [cRun, h]
  | cons op ops ih =>
    intro s k g outs hinv h
    cases op with
    | next =>
      have hr := next_refines hinv hnf
      simp only [aRun, aStep] at h
      by_cases hk : k < len
      · obtain ⟨e1, g', hinv'⟩ := hr.1 hk
        simp only [hk, if_true] at h
        cases hrec : aRun src len n (k + 1, s.pend - 1) ops with
        | none => simp [hrec] at h
        | some outs' =>
          simp [hrec] at h
          have hp := next_pend hinv hnf hk
          have := ih (next src len n s).2 (k + 1) g' outs' hinv' (by rw [hp]; exact hrec)
          simp only [cRun, cStep, this, e1, ← h]
      · have e := hr.2 hk
        simp only [hk, if_false] at h
        cases hrec : aRun src len n (k, s.pend) ops with
        | none => simp [hrec] at h
        | some outs' =>
          simp [hrec] at h
          have := ih s k g outs' hinv hrec
          simp only [cRun, cStep, e, this, ← h]
    | retract size =>
      simp only [aRun, aStep] at h
      by_cases hc : size ≤ k ∧ s.pend + size ≤ n
      · simp only [hc, and_self, if_true] at h
        cases hrec : aRun src len n (k - size, s.pend + size) ops with
        | none => simp [hrec] at h
        | some outs' =>
          simp [hrec] at h
          have hinv' := retract_refines hinv size hc.1 hc.2
          have := ih (retract n s size) (k - size) g outs' hinv' (by simpa [retract] using hrec)
          simp only [cRun, cStep, this, ← h]
      · simp [hc] at h

end Emerge.Reader
