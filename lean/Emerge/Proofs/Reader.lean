import Emerge.Reader
/-
  Refinement: the two-half reader is the plain byte stream.

  Ghost state: `b0`/`b1` are the source offsets of the blocks that sit in the first/second half
  (`sv` = the second half has been loaded at all). All arithmetic is linear in these, so `omega`
  carries it; no `%`/`/` by the (variable) half size appears anywhere.
-/
namespace Emerge.Reader

structure Ghost where
  b0 : Nat
  b1 : Nat
  sv : Nat      -- 1 once the second half has been loaded
  nw : Nat      -- offset of the newest loaded block

structure Inv (src : Nat → Nat) (len n : Nat) (s : RState) (k : Nat) (g : Ghost) : Prop where
  npos : 0 < n
  fwdlt : s.fwd < 2 * n
  hw : k + s.pend ≤ len
  pendle : s.pend ≤ n
  pos0 : s.fwd < n → k = g.b0 + s.fwd
  pos1 : n ≤ s.fwd → g.sv = 1 ∧ k = g.b1 + (s.fwd - n)
  dat0 : ∀ i, i < n → g.b0 + i < len → s.buf i = src (g.b0 + i)
  sen0 : g.b0 ≤ len → len < g.b0 + n → s.buf (len - g.b0) = 0
  dat1 : g.sv = 1 → ∀ i, i < n → g.b1 + i < len → s.buf (n + i) = src (g.b1 + i)
  sen1 : g.sv = 1 → g.b1 ≤ len → len < g.b1 + n → s.buf (n + (len - g.b1)) = 0
  adj : g.sv = 1 → g.b1 = g.b0 + n ∨ g.b0 = g.b1 + n
  first : g.sv ≠ 1 → g.b0 = 0
  nwdef : (g.nw = g.b0 ∧ (g.sv = 1 → g.b1 ≤ g.b0)) ∨ (g.sv = 1 ∧ g.nw = g.b1 ∧ g.b0 < g.b1)
  newLo : g.nw ≤ k + s.pend
  newHi : k + s.pend < g.nw + n
  ld : s.loaded = min len (g.nw + n)
  old : g.nw ≤ k + n
  stop0 : (g.nw = g.b0 ∧ (g.sv = 1 → g.b1 ≤ g.b0)) → len < g.b0 + n → s.stop = some (len - g.b0)
  stop1 : (g.sv = 1 ∧ g.nw = g.b1 ∧ g.b0 < g.b1) → len < g.b1 + n → s.stop = some (n + (len - g.b1))
  stopN : g.nw + n ≤ len → s.stop = none

def NulFree (src : Nat → Nat) (len : Nat) : Prop := ∀ j, j < len → src j ≠ 0

def cnt (len n : Nat) (s : RState) : Nat := min n (len - s.loaded)

theorem load_in (src : Nat → Nat) (len n : Nat) (s : RState) (low i : Nat)
    (h1 : low ≤ i) (h2 : i < low + cnt len n s) : (load src len n s low).buf i = src (s.loaded + (i - low)) := by
  show (if low ≤ i ∧ i < low + min n (len - s.loaded) then _ else _) = _
  rw [if_pos ⟨h1, h2⟩]

theorem load_sentinel (src : Nat → Nat) (len n : Nat) (s : RState) (low : Nat)
    (h : cnt len n s < n) : (load src len n s low).buf (low + cnt len n s) = 0 := by
  show (if low ≤ low + min n (len - s.loaded) ∧ low + min n (len - s.loaded) < low + min n (len - s.loaded) then _
        else if low + min n (len - s.loaded) = low + min n (len - s.loaded) ∧ min n (len - s.loaded) < n then 0 else _) = _
  rw [if_neg (by omega), if_pos ⟨rfl, h⟩]

theorem load_out (src : Nat → Nat) (len n : Nat) (s : RState) (low i : Nat)
    (h : i < low ∨ low + n ≤ i) : (load src len n s low).buf i = s.buf i := by
  show (if low ≤ i ∧ i < low + min n (len - s.loaded) then _
        else if i = low + min n (len - s.loaded) ∧ min n (len - s.loaded) < n then 0 else _) = _
  rw [if_neg (by omega), if_neg (by omega)]

@[simp] theorem load_fwd (src : Nat → Nat) (len n : Nat) (s : RState) (low : Nat) : (load src len n s low).fwd = s.fwd := rfl
@[simp] theorem load_pend (src : Nat → Nat) (len n : Nat) (s : RState) (low : Nat) : (load src len n s low).pend = s.pend := rfl
theorem load_loaded (src : Nat → Nat) (len n : Nat) (s : RState) (low : Nat) :
    (load src len n s low).loaded = s.loaded + cnt len n s := rfl
theorem load_stop (src : Nat → Nat) (len n : Nat) (s : RState) (low : Nat) :
    (load src len n s low).stop = if cnt len n s < n then some (low + cnt len n s) else s.stop := rfl

theorem init_inv (src : Nat → Nat) (len n : Nat) (buf0 : Nat → Nat) (hn : 0 < n) :
    Inv src len n (init src len n buf0) 0 ⟨0, 0, 0, 0⟩ := by
  have hc : cnt len n ⟨buf0, 0, 0, 0, [], none⟩ = min n len := by simp [cnt]
  refine { npos := hn, fwdlt := ?_, hw := ?_, pendle := ?_, pos0 := ?_, pos1 := ?_, dat0 := ?_, sen0 := ?_,
           dat1 := ?_, sen1 := ?_, adj := ?_, first := ?_, nwdef := ?_, newLo := ?_, newHi := ?_, ld := ?_, old := ?_, stop0 := ?_, stop1 := ?_, stopN := ?_ }
  · show 0 < 2 * n; omega
  · show 0 + 0 ≤ len; omega
  · show 0 ≤ n; omega
  · intro _; rfl
  · intro (h : n ≤ 0); omega
  · intro i hi (hl : 0 + i < len)
    show (load src len n ⟨buf0, 0, 0, 0, [], none⟩ 0).buf i = src (0 + i)
    rw [load_in _ _ _ _ _ _ (by omega) (by rw [hc]; omega)]
    simp
  · intro (_ : (0 : Nat) ≤ len) (hl : len < 0 + n)
    show (load src len n ⟨buf0, 0, 0, 0, [], none⟩ 0).buf (len - 0) = 0
    have := load_sentinel src len n ⟨buf0, 0, 0, 0, [], none⟩ 0 (by rw [hc]; omega)
    rw [hc] at this
    have e : len - 0 = 0 + min n len := by omega
    rw [e]; exact this
  · intro (h : (0 : Nat) = 1); omega
  · intro (h : (0 : Nat) = 1); omega
  · intro (h : (0 : Nat) = 1); omega
  · intro _; rfl
  · left; exact ⟨rfl, fun (h : (0 : Nat) = 1) => by omega⟩
  · show (0 : Nat) ≤ 0 + 0; omega
  · show 0 + 0 < 0 + n; omega
  · show (load src len n ⟨buf0, 0, 0, 0, [], none⟩ 0).loaded = min len (0 + n)
    rw [load_loaded, hc]; show 0 + min n len = _; omega
  · show (0 : Nat) ≤ 0 + n; omega
  · intro _ (hl : len < 0 + n)
    show (load src len n ⟨buf0, 0, 0, 0, [], none⟩ 0).stop = some (len - 0)
    rw [load_stop, hc, if_pos (by omega)]; congr 1; omega
  · intro (hh : (0 : Nat) = 1 ∧ _); omega
  · intro (hl : 0 + n ≤ len)
    show (load src len n ⟨buf0, 0, 0, 0, [], none⟩ 0).stop = none
    rw [load_stop, hc, if_neg (by omega)]

/-- the byte under `forward` is the source byte at the cursor, or the sentinel at the end -/
theorem cur_byte {src len n s k g} (h : Inv src len n s k g) :
    (k < len → s.buf s.fwd = src k) ∧ (k = len → s.buf s.fwd = 0) := by
  have ⟨npos, fwdlt, hw, pendle, pos0, pos1, dat0, sen0, dat1, sen1, adj, first, nwdef, newLo, newHi, ld, old, stop0, stop1, stopN⟩ := h
  by_cases hf : s.fwd < n
  · have e := pos0 hf
    constructor
    · intro hk
      have := dat0 s.fwd hf (by omega)
      rw [this, e]
    · intro hk
      have := sen0 (by omega) (by omega)
      have e2 : len - g.b0 = s.fwd := by omega
      rw [e2] at this; exact this
  · have ⟨hsv, e⟩ := pos1 (by omega)
    constructor
    · intro hk
      have := dat1 hsv (s.fwd - n) (by omega) (by omega)
      have e2 : n + (s.fwd - n) = s.fwd := by omega
      rw [e2] at this
      rw [this, e]
    · intro hk
      have := sen1 hsv (by omega) (by omega)
      have e2 : n + (len - g.b1) = s.fwd := by omega
      rw [e2] at this; exact this

/-- `forward` stands on the recorded end exactly when the cursor is at the end of the source -/
theorem at_stop {src len n s k g} (h : Inv src len n s k g) : s.stop = some s.fwd ↔ k = len := by
  have ⟨npos, fwdlt, hw, pendle, pos0, pos1, dat0, sen0, dat1, sen1, adj, first, nwdef, newLo, newHi, ld, old, stop0, stop1, stopN⟩ := h
  clear dat0 dat1 sen0 sen1 ld
  by_cases hfull : g.nw + n ≤ len
  · rw [stopN hfull]
    constructor
    · intro hh; cases hh
    · intro hk; omega
  · rcases nwdef with hA | hB
    · have hs := stop0 hA (by omega)
      rw [hs]
      constructor
      · intro hh
        simp only [Option.some.injEq] at hh
        have hf : s.fwd < n := by omega
        have := pos0 hf
        omega
      · intro hk
        by_cases hf : s.fwd < n
        · have := pos0 hf
          congr 1; omega
        · have ⟨hsv, e⟩ := pos1 (by omega)
          have := hA.2 hsv
          have := adj hsv
          omega
    · have hs := stop1 hB (by omega)
      rw [hs]
      constructor
      · intro hh
        simp only [Option.some.injEq] at hh
        have ⟨hsv, e⟩ := pos1 (by omega)
        omega
      · intro hk
        by_cases hf : s.fwd < n
        · have := pos0 hf
          have := adj hB.1
          omega
        · have ⟨hsv, e⟩ := pos1 (by omega)
          congr 1; omega

/-- re-reading a byte that `Retract` gave back: no load, the halves stay as they are -/
theorem step_reread {src len n s k g} (h : Inv src len n s k g) (hk : k < len) (hp : 0 < s.pend) :
    Inv src len n { s with fwd := if s.fwd + 1 = 2 * n then 0 else s.fwd + 1, pend := s.pend - 1 } (k + 1) g := by
  have ⟨npos, fwdlt, hw, pendle, pos0, pos1, dat0, sen0, dat1, sen1, adj, first, nwdef, newLo, newHi, ld, old, stop0, stop1, stopN⟩ := h
  refine { npos := npos, fwdlt := ?_, hw := ?_, pendle := ?_, pos0 := ?_, pos1 := ?_, dat0 := dat0, sen0 := sen0,
           dat1 := dat1, sen1 := sen1, adj := adj, first := first, nwdef := nwdef, newLo := ?_, newHi := ?_, ld := ld, old := ?_, stop0 := stop0, stop1 := stop1, stopN := stopN }
  all_goals clear dat0 dat1 sen0 sen1 ld first stop0 stop1 stopN
  all_goals try dsimp only
  all_goals (try split) <;> omega

/-- an ordinary step inside a half -/
theorem step_plain {src len n s k g} (h : Inv src len n s k g) (hk : k < len) (hp : s.pend = 0)
    (h1 : s.fwd + 1 ≠ n) (h2 : s.fwd + 1 ≠ 2 * n) :
    Inv src len n { s with fwd := s.fwd + 1 } (k + 1) g := by
  have ⟨npos, fwdlt, hw, pendle, pos0, pos1, dat0, sen0, dat1, sen1, adj, first, nwdef, newLo, newHi, ld, old, stop0, stop1, stopN⟩ := h
  refine { npos := npos, fwdlt := ?_, hw := ?_, pendle := pendle, pos0 := ?_, pos1 := ?_, dat0 := dat0, sen0 := sen0,
           dat1 := dat1, sen1 := sen1, adj := adj, first := first, nwdef := nwdef, newLo := ?_, newHi := ?_, ld := ld, old := ?_, stop0 := stop0, stop1 := stop1, stopN := stopN }
  all_goals clear dat0 dat1 sen0 sen1 ld first stop0 stop1 stopN
  all_goals try dsimp only
  all_goals omega

/-- `forward` reaches the end of the first half: the next block goes into the second half -/
theorem step_load_second {src len n s k g} (h : Inv src len n s k g) (hk : k < len) (hp : s.pend = 0)
    (h1 : s.fwd + 1 = n) :
    Inv src len n (load src len n { s with fwd := s.fwd + 1 } n) (k + 1) ⟨g.b0, g.b0 + n, 1, g.b0 + n⟩ := by
  have ⟨npos, fwdlt, hw, pendle, pos0, pos1, dat0, sen0, dat1, sen1, adj, first, nwdef, newLo, newHi, ld, old, stop0, stop1, stopN⟩ := h
  have ek : k + 1 = g.b0 + n := by have := pos0 (by omega); omega
  have enw : g.nw = g.b0 := by clear dat0 dat1 sen0 sen1 ld first; omega
  have eld : s.loaded = g.b0 + n := by rw [ld, enw]; omega
  have ec : cnt len n { s with fwd := s.fwd + 1 } = min n (len - (g.b0 + n)) := by
    show min n (len - s.loaded) = _; rw [eld]
  refine { npos := npos, fwdlt := ?_, hw := ?_, pendle := ?_, pos0 := ?_, pos1 := ?_, dat0 := ?_, sen0 := ?_,
           dat1 := ?_, sen1 := ?_, adj := ?_, first := ?_, nwdef := ?_, newLo := ?_, newHi := ?_, ld := ?_, old := ?_, stop0 := ?_, stop1 := ?_, stopN := ?_ }
  · show s.fwd + 1 < 2 * n; omega
  · show k + 1 + s.pend ≤ len; omega
  · exact pendle
  · intro (hh : s.fwd + 1 < n); omega
  · intro (_ : n ≤ s.fwd + 1); exact ⟨rfl, by show k + 1 = g.b0 + n + (s.fwd + 1 - n); omega⟩
  · intro i hi (hl : g.b0 + i < len)
    rw [load_out _ _ _ _ _ _ (Or.inl hi)]
    exact dat0 i hi hl
  · intro (_ : g.b0 ≤ len) (hl : len < g.b0 + n); omega
  · intro _ i hi (hl : g.b0 + n + i < len)
    rw [load_in _ _ _ _ _ _ (by omega) (by rw [ec]; omega)]
    show src (s.loaded + (n + i - n)) = src (g.b0 + n + i)
    rw [eld]; congr 1; omega
  · intro _ (hl1 : g.b0 + n ≤ len) (hl2 : len < g.b0 + n + n)
    have := load_sentinel src len n { s with fwd := s.fwd + 1 } n (by rw [ec]; omega)
    rw [ec] at this
    have e : n + (len - (g.b0 + n)) = n + min n (len - (g.b0 + n)) := by omega
    show (load src len n { s with fwd := s.fwd + 1 } n).buf (n + (len - (g.b0 + n))) = 0
    rw [e]; exact this
  · intro _; left; rfl
  · intro (hh : (1 : Nat) ≠ 1); omega
  · right; exact ⟨rfl, rfl, by show g.b0 < g.b0 + n; omega⟩
  · show g.b0 + n ≤ k + 1 + s.pend; omega
  · show k + 1 + s.pend < g.b0 + n + n; omega
  · show (load src len n { s with fwd := s.fwd + 1 } n).loaded = min len (g.b0 + n + n)
    rw [load_loaded, ec]; show s.loaded + _ = _; rw [eld]; omega
  · show g.b0 + n ≤ k + 1 + n; omega
  · intro (hh : g.b0 + n = g.b0 ∧ _); omega
  · intro _ (hl : len < g.b0 + n + n)
    show (load src len n { s with fwd := s.fwd + 1 } n).stop = some (n + (len - (g.b0 + n)))
    rw [load_stop, ec, if_pos (by omega)]; congr 2; omega
  · intro (hl : g.b0 + n + n ≤ len)
    show (load src len n { s with fwd := s.fwd + 1 } n).stop = none
    rw [load_stop, ec, if_neg (by omega)]
    exact stopN (by omega)

/-- `forward` reaches the end of the second half: the next block goes into the first half, `forward` wraps -/
theorem step_load_first {src len n s k g} (h : Inv src len n s k g) (hk : k < len) (hp : s.pend = 0)
    (h1 : s.fwd + 1 = 2 * n) :
    Inv src len n { load src len n s 0 with fwd := 0 } (k + 1) ⟨g.b1 + n, g.b1, 1, g.b1 + n⟩ := by
  have ⟨npos, fwdlt, hw, pendle, pos0, pos1, dat0, sen0, dat1, sen1, adj, first, nwdef, newLo, newHi, ld, old, stop0, stop1, stopN⟩ := h
  have ⟨hsv, ek0⟩ := pos1 (by omega)
  have ek : k + 1 = g.b1 + n := by omega
  have enw : g.nw = g.b1 := by clear dat0 dat1 sen0 sen1 ld first; omega
  have eld : s.loaded = g.b1 + n := by rw [ld, enw]; omega
  have ec : cnt len n s = min n (len - (g.b1 + n)) := by
    show min n (len - s.loaded) = _; rw [eld]
  refine { npos := npos, fwdlt := ?_, hw := ?_, pendle := ?_, pos0 := ?_, pos1 := ?_, dat0 := ?_, sen0 := ?_,
           dat1 := ?_, sen1 := ?_, adj := ?_, first := ?_, nwdef := ?_, newLo := ?_, newHi := ?_, ld := ?_, old := ?_, stop0 := ?_, stop1 := ?_, stopN := ?_ }
  · show 0 < 2 * n; omega
  · show k + 1 + s.pend ≤ len; omega
  · exact pendle
  · intro _; show k + 1 = g.b1 + n + 0; omega
  · intro (hh : n ≤ 0); omega
  · intro i hi (hl : g.b1 + n + i < len)
    show (load src len n s 0).buf i = src (g.b1 + n + i)
    rw [load_in _ _ _ _ _ _ (by omega) (by rw [ec]; omega)]
    rw [eld]; congr 1
  · intro (hl1 : g.b1 + n ≤ len) (hl2 : len < g.b1 + n + n)
    have := load_sentinel src len n s 0 (by rw [ec]; omega)
    rw [ec] at this
    have e : len - (g.b1 + n) = 0 + min n (len - (g.b1 + n)) := by omega
    show (load src len n s 0).buf (len - (g.b1 + n)) = 0
    rw [e]; exact this
  · intro _ i hi (hl : g.b1 + i < len)
    show (load src len n s 0).buf (n + i) = src (g.b1 + i)
    rw [load_out _ _ _ _ _ _ (Or.inr (by omega))]
    exact dat1 hsv i hi hl
  · intro _ (hl1 : g.b1 ≤ len) (hl2 : len < g.b1 + n); omega
  · intro _; right; rfl
  · intro (hh : (1 : Nat) ≠ 1); omega
  · left; exact ⟨rfl, fun _ => by show g.b1 ≤ g.b1 + n; omega⟩
  · show g.b1 + n ≤ k + 1 + s.pend; omega
  · show k + 1 + s.pend < g.b1 + n + n; omega
  · show (load src len n s 0).loaded = min len (g.b1 + n + n)
    rw [load_loaded, ec, eld]; omega
  · show g.b1 + n ≤ k + 1 + n; omega
  · intro _ (hl : len < g.b1 + n + n)
    show (load src len n s 0).stop = some (len - (g.b1 + n))
    rw [load_stop, ec, if_pos (by omega)]; congr 1; omega
  · intro (hh : (1 : Nat) = 1 ∧ g.b1 + n = g.b1 ∧ _); omega
  · intro (hl : g.b1 + n + n ≤ len)
    show (load src len n s 0).stop = none
    rw [load_stop, ec, if_neg (by omega)]
    exact stopN (by omega)

/-- **`next` is the stream's `next`** (for every source, zero bytes included): below the end it returns the source byte
    at the cursor and the invariant holds at the advanced cursor; at the end it returns EOF and changes nothing -/
theorem next_refines {src len n s k g} (h : Inv src len n s k g) :
    (k < len → (nextCore src len n s).1 = some (src k) ∧ ∃ g', Inv src len n (nextCore src len n s).2 (k + 1) g') ∧
    (¬ k < len → nextCore src len n s = (none, s)) := by
  have hb := cur_byte h
  have hst := at_stop h
  constructor
  · intro hk
    have e := hb.1 hk
    have hne : ¬ (src k = 0 ∧ s.stop = some s.fwd) := fun hh => by have := hst.mp hh.2; omega
    unfold nextCore
    simp only [e, hne, if_false]
    by_cases hp : 0 < s.pend
    · simp only [hp, if_true]
      exact ⟨trivial, g, step_reread h hk hp⟩
    · simp only [hp, if_false]
      have hp0 : s.pend = 0 := by omega
      by_cases h1 : s.fwd + 1 = n
      · simp only [h1, if_true]
        refine ⟨trivial, ⟨g.b0, g.b0 + n, 1, g.b0 + n⟩, ?_⟩
        have := step_load_second h hk hp0 h1
        simpa [h1] using this
      · simp only [h1, if_false]
        by_cases h2 : s.fwd + 1 = 2 * n
        · simp only [h2, if_true]
          exact ⟨trivial, _, step_load_first h hk hp0 h2⟩
        · simp only [h2, if_false]
          exact ⟨trivial, g, step_plain h hk hp0 h1 h2⟩
  · intro hk
    have hkl : k = len := by have := h.hw; omega
    have e := hb.2 hkl
    have e2 := hst.mpr hkl
    unfold nextCore
    simp [e, e2]

/-- **`Retract` moves the cursor back**: giving back `size` bytes that were read (and keeping the total given back
    within one half) leaves the reader at cursor `k - size` -/
theorem retract_refines {src len n s k g} (h : Inv src len n s k g) (size : Nat) (hs : size ≤ k)
    (hp : s.pend + size ≤ n) : Inv src len n (retract n s size) (k - size) g := by
  have ⟨npos, fwdlt, hw, pendle, pos0, pos1, dat0, sen0, dat1, sen1, adj, first, nwdef, newLo, newHi, ld, old, stop0, stop1, stopN⟩ := h
  refine { npos := npos, fwdlt := ?_, hw := ?_, pendle := ?_, pos0 := ?_, pos1 := ?_, dat0 := dat0, sen0 := sen0,
           dat1 := dat1, sen1 := sen1, adj := adj, first := first, nwdef := nwdef, newLo := ?_, newHi := ?_, ld := ld, old := ?_, stop0 := stop0, stop1 := stop1, stopN := stopN }
  all_goals clear dat0 dat1 sen0 sen1 ld stop0 stop1 stopN
  all_goals try simp only [retract]
  all_goals (try split) <;> omega

/-! ### runs: any interleaving of `next`, `Retract`, `Lexeme` and `Skip` that respects the reader's contract -/

theorem next_pend {src len n s k g} (h : Inv src len n s k g) (hk : k < len) :
    (nextCore src len n s).2.pend = s.pend - 1 := by
  have hne : ¬ (s.buf s.fwd = 0 ∧ s.stop = some s.fwd) := fun hh => by have := (at_stop h).mp hh.2; omega
  unfold nextCore
  simp only [hne, if_false]
  by_cases hp : 0 < s.pend
  · simp [hp]
  · simp only [hp, if_false]
    have : s.pend = 0 := by omega
    split
    · simp [this]
    · split <;> simp [this]

/-- the slice of the source between two cursors -/
def slice (src : Nat → Nat) (kb k : Nat) : List Nat := (List.range (k - kb)).map fun i => src (kb + i)

theorem slice_succ (src : Nat → Nat) {kb k : Nat} (h : kb ≤ k) : slice src kb (k + 1) = slice src kb k ++ [src k] := by
  unfold slice
  have e : k + 1 - kb = (k - kb) + 1 := by omega
  rw [e, List.range_succ, List.map_append]
  simp only [List.map_cons, List.map_nil]
  have e2 : kb + (k - kb) = k := by omega
  rw [e2]

theorem slice_take (src : Nat → Nat) {kb k size : Nat} (h : size + kb ≤ k) :
    (slice src kb k).take ((slice src kb k).length - size) = slice src kb (k - size) := by
  unfold slice
  simp only [List.length_map, List.length_range]
  rw [← List.map_take, List.take_range]
  congr 2
  omega

theorem slice_self (src : Nat → Nat) (k : Nat) : slice src k k = [] := by simp [slice]

theorem inv_pending {src len n s k g} (h : Inv src len n s k g) (x : List Nat) : Inv src len n { s with pending := x } k g :=
  ⟨h.npos, h.fwdlt, h.hw, h.pendle, h.pos0, h.pos1, h.dat0, h.sen0, h.dat1, h.sen1, h.adj, h.first, h.nwdef, h.newLo,
   h.newHi, h.ld, h.old, h.stop0, h.stop1, h.stopN⟩

/-- the reader at stream state `a` -/
structure Inv2 (src : Nat → Nat) (len n : Nat) (s : RState) (a : AState) (g : Ghost) : Prop where
  inv : Inv src len n s a.k g
  pend : s.pend = a.p
  kble : a.kb ≤ a.k
  pending : s.pending = slice src a.kb a.k

theorem init_inv2 (src : Nat → Nat) (len n : Nat) (buf0 : Nat → Nat) (hn : 0 < n) :
    Inv2 src len n (init src len n buf0) ⟨0, 0, 0⟩ ⟨0, 0, 0, 0⟩ :=
  ⟨init_inv src len n buf0 hn, rfl, Nat.le_refl _, by simp [init, load, slice]⟩

theorem step_refines {src len n} {s : RState} {a : AState} {g : Ghost}
    (h : Inv2 src len n s a g) (op : Op) {o : Out} {a' : AState} (hs : aStep src len n a op = some (o, a')) :
    (cStep src len n s op).1 = o ∧ ∃ g', Inv2 src len n (cStep src len n s op).2 a' g' := by
  obtain ⟨inv, pend, kble, hpending⟩ := h
  cases op with
  | next =>
    simp only [aStep] at hs
    by_cases hk : a.k < len
    · simp only [hk, if_true, Option.some.injEq, Prod.mk.injEq] at hs
      obtain ⟨ho, ha⟩ := hs
      obtain ⟨e1, g', hinv'⟩ := (next_refines inv).1 hk
      have hp := next_pend inv hk
      subst ha
      generalize hr : nextCore src len n s = r at e1 hinv' hp
      obtain ⟨r1, r2⟩ := r
      simp only at e1 hinv' hp
      subst e1
      refine ⟨by simp only [cStep, next, hr]; exact ho, g', ?_⟩
      simp only [cStep, next, hr]
      refine ⟨inv_pending hinv' _, ?_, by show a.kb ≤ a.k + 1; omega, ?_⟩
      · show r2.pend = a.p - 1
        rw [hp, pend]
      · show s.pending ++ [src a.k] = slice src a.kb (a.k + 1)
        rw [hpending, slice_succ src kble]
    · simp only [hk, if_false, Option.some.injEq, Prod.mk.injEq] at hs
      obtain ⟨ho, ha⟩ := hs
      have e := (next_refines inv).2 hk
      subst ha
      refine ⟨by simp only [cStep, next, e]; exact ho, g, ?_⟩
      simp only [cStep, next, e]
      exact ⟨inv, pend, kble, hpending⟩
  | retract size =>
    simp only [aStep] at hs
    by_cases hc : size + a.kb ≤ a.k ∧ a.p + size ≤ n
    · simp only [hc, and_self, if_true, Option.some.injEq, Prod.mk.injEq] at hs
      obtain ⟨ho, ha⟩ := hs
      subst ha
      refine ⟨ho, g, ?_⟩
      refine ⟨retract_refines inv size (by omega) (by rw [pend]; exact hc.2), ?_, ?_, ?_⟩
      · show s.pend + size = a.p + size; rw [pend]
      · show a.kb ≤ a.k - size; omega
      · show s.pending.take (s.pending.length - size) = slice src a.kb (a.k - size)
        rw [hpending, slice_take src hc.1]
    · simp [hc] at hs
  | lexeme =>
    simp only [aStep, Option.some.injEq, Prod.mk.injEq] at hs
    obtain ⟨ho, ha⟩ := hs
    subst ha
    refine ⟨?_, g, ?_⟩
    · simp only [cStep, lexeme]
      rw [hpending]
      exact ho
    · exact ⟨inv_pending inv _, pend, Nat.le_refl _, by show ([] : List Nat) = slice src a.k a.k; rw [slice_self]⟩
  | skip =>
    simp only [aStep, Option.some.injEq, Prod.mk.injEq] at hs
    obtain ⟨ho, ha⟩ := hs
    subst ha
    exact ⟨ho, g, inv_pending inv _, pend, Nat.le_refl _, by show ([] : List Nat) = slice src a.k a.k; rw [slice_self]⟩

/-- **Refinement for runs**: whatever sequence of `next`/`Retract`/`Lexeme`/`Skip` calls the lexer makes within the
    contract, the two-half reader returns exactly what the plain stream returns — for every source length, every
    half size and every alignment of the blocks; a lexeme may be longer than the buffer. -/
theorem run_refines {src len n} :
    ∀ (ops : List Op) (s : RState) (a : AState) (g : Ghost) (outs : List Out),
      Inv2 src len n s a g → aRun src len n a ops = some outs → cRun src len n s ops = outs := by
  intro ops
  induction ops with
  | nil => intro s a g outs _ h; simp [aRun] at h; simp [cRun, h]
  | cons op ops ih =>
    intro s a g outs hinv h
    simp only [aRun] at h
    cases hst : aStep src len n a op with
    | none => simp [hst] at h
    | some r =>
      obtain ⟨o, a'⟩ := r
      simp only [hst] at h
      cases hrec : aRun src len n a' ops with
      | none => simp [hrec] at h
      | some outs' =>
        simp only [hrec, Option.map_some, Option.some.injEq] at h
        obtain ⟨e1, g', hinv'⟩ := step_refines hinv op hst
        have := ih _ a' g' outs' hinv' hrec
        simp only [cRun, e1, this, h]

/-- from a fresh reader -/
theorem reader_is_stream {src len n} (hn : 0 < n) (buf0 : Nat → Nat) (ops : List Op)
    (outs : List Out) (h : aRun src len n ⟨0, 0, 0⟩ ops = some outs) :
    cRun src len n (init src len n buf0) ops = outs :=
  run_refines ops _ _ _ outs (init_inv2 src len n buf0 hn) h

end Emerge.Reader
