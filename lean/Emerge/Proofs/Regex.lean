import Emerge.Regex.Lang
/-
  Proofs about the pattern model:
    * `ev_sound`      — whatever the combinator interpreter consumes is a sentence of the same term
                        read as a context-free grammar (ordered choice ⊆ choice, greedy ⊆ any);
    * `matchD_iff`    — the derivative matcher decides `Re.lang`;
    * `compile_lang`  — the NFA-route construction has the documented language (contract semantics).
-/
namespace Emerge.Regex

/-! ### soundness of the combinator interpreter -/

theorem isPrefixOf_split {t s : List Rune} (h : t.isPrefixOf s = true) : s = t ++ s.drop t.length := by
  have hp : t <+: s := by simpa using h
  obtain ⟨r, hr⟩ := hp
  subst hr
  simp

theorem ev_sound {V : Type} (A : Alg V) (G : Rules) :
    ∀ (f : Nat) (c : Comb) (s : List Rune) (v : V) (rest : List Rune),
      ev A G f c s = .ok v rest → ∃ u, s = u ++ rest ∧ Matches G c u := by
  intro f
  induction f with
  | zero => intro c s v rest h; simp [ev] at h
  | succ f ih =>
    intro c s v rest h
    cases c with
    | rune r =>
      cases s with
      | nil => simp [ev] at h
      | cons x s' =>
        simp only [ev] at h
        split at h
        · rename_i hx; injection h with _ hr; subst hx; subst hr; exact ⟨[x], by simp, .rune x⟩
        · cases h
    | runeIn rs =>
      cases s with
      | nil => simp [ev] at h
      | cons x s' =>
        simp only [ev] at h
        split at h
        · rename_i hx; injection h with _ hr; subst hr
          exact ⟨[x], by simp, .runeIn rs x (by simpa using hx)⟩
        · cases h
    | range lo hi =>
      cases s with
      | nil => simp [ev] at h
      | cons x s' =>
        simp only [ev] at h
        split at h
        · rename_i hx; injection h with _ hr; subst hr
          exact ⟨[x], by simp, .range lo hi x hx.1 hx.2⟩
        · cases h
    | str t =>
      simp only [ev] at h
      split at h
      · rename_i hp; injection h with _ hr; subst hr
        exact ⟨t, isPrefixOf_split hp, .str t⟩
      · cases h
    | rangeExcl lo hi rs =>
      cases s with
      | nil => simp [ev] at h
      | cons x s' =>
        simp only [ev] at h
        split at h
        · rename_i hx
          split at h
          · cases h
          · rename_i hn; injection h with _ hr; subst hr
            exact ⟨[x], by simp, .rangeExcl lo hi rs x hx.1 hx.2 (by simpa using hn)⟩
        · cases h
    | alt cs =>
      cases cs with
      | nil => simp [ev] at h
      | cons c cs =>
        simp only [ev] at h
        split at h
        · rename_i v' s' h1; injection h with hv hr; subst hr
          obtain ⟨u, hu, hm⟩ := ih c s _ _ h1
          exact ⟨u, hu, .alt _ c u (by simp) hm⟩
        · cases h
        · obtain ⟨u, hu, hm⟩ := ih (.alt cs) s v rest h
          cases hm with
          | alt _ c' _ hc hm' => exact ⟨u, hu, .alt _ c' u (by simp [hc]) hm'⟩
    | cat cs =>
      cases cs with
      | nil =>
        simp only [ev] at h; injection h with _ hr; subst hr
        exact ⟨[], by simp, .catNil⟩
      | cons c cs =>
        simp only [ev] at h
        split at h
        · rename_i v1 s1 h1
          split at h
          · rename_i vs s2 h2
            split at h
            · injection h with _ hr; subst hr
              obtain ⟨u1, hu1, hm1⟩ := ih c s _ _ h1
              obtain ⟨u2, hu2, hm2⟩ := ih (.cat cs) s1 _ _ h2
              exact ⟨u1 ++ u2, by rw [hu1, hu2]; simp, .catCons c cs u1 u2 hm1 hm2⟩
            · cases h
          · cases h
          · cases h
        · cases h
        · cases h
    | opt c =>
      simp only [ev] at h
      split at h
      · rename_i v1 s1 h1; injection h with _ hr; subst hr
        obtain ⟨u, hu, hm⟩ := ih c s _ _ h1
        exact ⟨u, hu, .optSome c u hm⟩
      · injection h with _ hr; subst hr; exact ⟨[], by simp, .optNone c⟩
      · cases h
    | rep1 c =>
      simp only [ev] at h
      split at h
      · rename_i v1 s1 h1
        obtain ⟨u1, hu1, hm1⟩ := ih c s _ _ h1
        split at h
        · injection h with _ hr; subst hr
          exact ⟨u1, hu1, .repOne c u1 hm1⟩
        · rename_i x xs
          split at h
          · rename_i vs s2 h2
            split at h
            · injection h with _ hr; subst hr
              obtain ⟨u2, hu2, hm2⟩ := ih (.rep1 c) _ _ _ h2
              exact ⟨u1 ++ u2, by rw [hu1, hu2]; simp, .repMore c u1 u2 hm1 hm2⟩
            · cases h
          · injection h with _ hr; subst hr
            exact ⟨u1, hu1, .repOne c u1 hm1⟩
          · cases h
      · cases h
      · cases h
    | map m c =>
      simp only [ev] at h
      split at h
      · rename_i v1 s1 h1
        split at h
        · injection h with _ hr; subst hr
          obtain ⟨u, hu, hm⟩ := ih c s _ _ h1
          exact ⟨u, hu, .map m c u hm⟩
        · cases h
      · cases h
      · cases h
    | nt n =>
      simp only [ev] at h
      split at h
      · rename_i c' hc
        obtain ⟨u, hu, hm⟩ := ih c' s v rest h
        exact ⟨u, hu, .nt n c' u hc hm⟩
      · cases h

/-! ### the derivative matcher decides `Re.lang` -/

theorem Lang.star_cons {a : Lang} {c : Rune} {w : List Rune} :
    Lang.star a (c :: w) ↔ ∃ u v, w = u ++ v ∧ a (c :: u) ∧ Lang.star a v := by
  constructor
  · intro h
    generalize hx : c :: w = x at h
    induction h with
    | nil => cases hx
    | app u v hu hv ih =>
      cases u with
      | nil => simp at hx; exact ih hx
      | cons d u' =>
        simp at hx
        obtain ⟨hd, hw⟩ := hx
        subst hd
        exact ⟨u', v, hw.symm ▸ rfl, hu, hv⟩
  · rintro ⟨u, v, rfl, hu, hv⟩
    exact Lang.star.app (c :: u) v hu hv

theorem Lang.cat_cons {a b : Lang} {c : Rune} {w : List Rune} :
    Lang.cat a b (c :: w) ↔ (a [] ∧ b (c :: w)) ∨ ∃ u v, w = u ++ v ∧ a (c :: u) ∧ b v := by
  constructor
  · rintro ⟨u, v, huv, hu, hv⟩
    cases u with
    | nil => left; simp at huv; subst huv; exact ⟨hu, hv⟩
    | cons d u' =>
      right
      simp at huv
      obtain ⟨hd, hw⟩ := huv
      subst hd
      exact ⟨u', v, hw, hu, hv⟩
  · rintro (⟨h1, h2⟩ | ⟨u, v, rfl, hu, hv⟩)
    · exact ⟨[], c :: w, rfl, h1, h2⟩
    · exact ⟨c :: u, v, rfl, hu, hv⟩

theorem Re.nullable_iff (r : Re) : r.nullable = true ↔ r.lang [] := by
  induction r with
  | empty => simp [Re.nullable, Re.lang, Lang.empty]
  | eps => simp [Re.nullable, Re.lang, Lang.eps]
  | set rs => simp [Re.nullable, Re.lang, Lang.set]
  | alt a b iha ihb => simp [Re.nullable, Re.lang, Lang.union, iha, ihb]
  | cat a b iha ihb =>
    simp only [Re.nullable, Re.lang, Bool.and_eq_true, iha, ihb]
    constructor
    · rintro ⟨h1, h2⟩; exact ⟨[], [], rfl, h1, h2⟩
    · rintro ⟨u, v, huv, h1, h2⟩
      have : u = [] ∧ v = [] := by simpa using huv.symm
      rw [this.1] at h1; rw [this.2] at h2; exact ⟨h1, h2⟩
  | star a _ => simp [Re.nullable, Re.lang]; exact Lang.star.nil

theorem Re.deriv_iff (r : Re) (c : Rune) (w : List Rune) : (r.deriv c).lang w ↔ r.lang (c :: w) := by
  induction r generalizing w with
  | empty => simp [Re.deriv, Re.lang, Lang.empty]
  | eps => simp [Re.deriv, Re.lang, Lang.empty, Lang.eps]
  | set rs =>
    simp only [Re.deriv]
    split
    · rename_i h
      simp only [Re.lang, Lang.eps, Lang.set]
      constructor
      · rintro rfl; exact ⟨c, by simpa using h, rfl⟩
      · rintro ⟨r, _, hr⟩; simp at hr; exact hr.2
    · rename_i h
      simp only [Re.lang, Lang.empty, Lang.set, false_iff]
      rintro ⟨r, hr, hw⟩
      simp at hw
      obtain ⟨h1, _⟩ := hw
      subst h1
      exact h (by simpa using hr)
  | alt a b iha ihb => simp [Re.deriv, Re.lang, Lang.union, iha, ihb]
  | cat a b iha ihb =>
    simp only [Re.deriv]
    split
    · rename_i hn
      simp only [Re.lang, Lang.union]
      rw [Lang.cat_cons]
      constructor
      · rintro (⟨u, v, rfl, hu, hv⟩ | h)
        · right; exact ⟨u, v, rfl, (iha u).mp hu, hv⟩
        · left; exact ⟨(Re.nullable_iff a).mp hn, (ihb w).mp h⟩
      · rintro (⟨_, h⟩ | ⟨u, v, rfl, hu, hv⟩)
        · right; exact (ihb w).mpr h
        · left; exact ⟨u, v, rfl, (iha u).mpr hu, hv⟩
    · rename_i hn
      simp only [Re.lang]
      rw [Lang.cat_cons]
      constructor
      · rintro ⟨u, v, rfl, hu, hv⟩
        right; exact ⟨u, v, rfl, (iha u).mp hu, hv⟩
      · rintro (⟨h0, _⟩ | ⟨u, v, rfl, hu, hv⟩)
        · exact absurd ((Re.nullable_iff a).mpr h0) hn
        · exact ⟨u, v, rfl, (iha u).mpr hu, hv⟩
  | star a iha =>
    simp only [Re.deriv, Re.lang]
    rw [Lang.star_cons]
    constructor
    · rintro ⟨u, v, rfl, hu, hv⟩; exact ⟨u, v, rfl, (iha u).mp hu, hv⟩
    · rintro ⟨u, v, rfl, hu, hv⟩; exact ⟨u, v, rfl, (iha u).mpr hu, hv⟩

/-- The derivative matcher is a decision procedure for the language of a regular expression. -/
theorem Re.matchD_iff (r : Re) (w : List Rune) : r.matchD w = true ↔ r.lang w := by
  induction w generalizing r with
  | nil => simpa [Re.matchD] using Re.nullable_iff r
  | cons c w ih => simp only [Re.matchD]; rw [ih, Re.deriv_iff]

/-! ### the NFA-route construction has the documented language -/

/-- extensional equality of languages -/
def Lang.Eqv (a b : Lang) : Prop := ∀ w, a w ↔ b w
infix:50 " ≃ " => Lang.Eqv

theorem Lang.Eqv.rfl' {a : Lang} : a ≃ a := fun _ => Iff.rfl
theorem Lang.Eqv.symm' {a b : Lang} (h : a ≃ b) : b ≃ a := fun w => (h w).symm
theorem Lang.Eqv.trans' {a b c : Lang} (h1 : a ≃ b) (h2 : b ≃ c) : a ≃ c := fun w => (h1 w).trans (h2 w)

theorem Lang.union_congr {a a' b b' : Lang} (ha : a ≃ a') (hb : b ≃ b') : Lang.union a b ≃ Lang.union a' b' :=
  fun w => by simp [Lang.union, ha w, hb w]

theorem Lang.cat_congr {a a' b b' : Lang} (ha : a ≃ a') (hb : b ≃ b') : Lang.cat a b ≃ Lang.cat a' b' := by
  intro w
  constructor
  · rintro ⟨u, v, h, hu, hv⟩; exact ⟨u, v, h, (ha u).mp hu, (hb v).mp hv⟩
  · rintro ⟨u, v, h, hu, hv⟩; exact ⟨u, v, h, (ha u).mpr hu, (hb v).mpr hv⟩

theorem Lang.star_mono {a a' : Lang} (h : ∀ w, a w → a' w) : ∀ w, Lang.star a w → Lang.star a' w := by
  intro w hw
  induction hw with
  | nil => exact .nil
  | app u v hu _ ih => exact .app u v (h u hu) ih

theorem Lang.star_congr {a a' : Lang} (h : a ≃ a') : Lang.star a ≃ Lang.star a' :=
  fun w => ⟨Lang.star_mono (fun u => (h u).mp) w, Lang.star_mono (fun u => (h u).mpr) w⟩

theorem Lang.set_congr {a b : List Rune} (h : ∀ r, r ∈ a ↔ r ∈ b) : Lang.set a ≃ Lang.set b := by
  intro w
  constructor
  · rintro ⟨r, hr, hw⟩; exact ⟨r, (h r).mp hr, hw⟩
  · rintro ⟨r, hr, hw⟩; exact ⟨r, (h r).mpr hr, hw⟩

theorem Lang.cat_eps_right (a : Lang) : Lang.cat a Lang.eps ≃ a := by
  intro w
  constructor
  · rintro ⟨u, v, h, hu, hv⟩
    have hv' : v = [] := hv
    subst hv'; simp at h; subst h; exact hu
  · intro h; exact ⟨w, [], by simp, h, rfl⟩

theorem Lang.cat_eps_left (a : Lang) : Lang.cat Lang.eps a ≃ a := by
  intro w
  constructor
  · rintro ⟨u, v, h, hu, hv⟩
    have hu' : u = [] := hu
    subst hu'; simp at h; subst h; exact hv
  · intro h; exact ⟨[], w, by simp, rfl, h⟩

theorem Lang.cat_assoc (a b c : Lang) : Lang.cat (Lang.cat a b) c ≃ Lang.cat a (Lang.cat b c) := by
  intro w
  constructor
  · rintro ⟨uv, x, h, ⟨u, v, h', hu, hv⟩, hx⟩
    exact ⟨u, v ++ x, by rw [h, h']; simp, hu, ⟨v, x, rfl, hv, hx⟩⟩
  · rintro ⟨u, vx, h, hu, ⟨v, x, h', hv, hx⟩⟩
    exact ⟨u ++ v, x, by rw [h, h']; simp, ⟨u, v, rfl, hu, hv⟩, hx⟩

/-- the language of a list of operands concatenated -/
def Lang.catList : List Lang → Lang
  | [] => Lang.eps
  | a :: rest => Lang.cat a (Lang.catList rest)

theorem Lang.catList_append (xs ys : List Lang) :
    Lang.catList (xs ++ ys) ≃ Lang.cat (Lang.catList xs) (Lang.catList ys) := by
  induction xs with
  | nil => exact (Lang.cat_eps_left _).symm'
  | cons a xs ih =>
    simp only [List.cons_append, Lang.catList]
    exact (Lang.cat_congr Lang.Eqv.rfl' ih).trans' (Lang.cat_assoc _ _ _).symm'

theorem Lang.catList_replicate_pow (a : Lang) (n : Nat) : Lang.catList (List.replicate n a) ≃ Lang.pow a n := by
  induction n with
  | zero => exact Lang.Eqv.rfl'
  | succ n ih => simp only [List.replicate_succ, Lang.catList, Lang.pow]; exact Lang.cat_congr Lang.Eqv.rfl' ih

theorem Lang.catList_replicate_upto (a : Lang) (n : Nat) :
    Lang.catList (List.replicate n (Lang.union Lang.eps a)) ≃ Lang.upto a n := by
  induction n with
  | zero => exact Lang.Eqv.rfl'
  | succ n ih => simp only [List.replicate_succ, Lang.catList, Lang.upto]; exact Lang.cat_congr Lang.Eqv.rfl' ih

theorem catN_lang (cfg : RCfg) (xs : List NExp) : (catN xs).lang cfg ≃ Lang.catList (xs.map (NExp.lang cfg)) := by
  induction xs with
  | nil => exact Lang.Eqv.rfl'
  | cons a rest ih =>
    cases rest with
    | nil => simp only [catN, List.map, Lang.catList]; exact (Lang.cat_eps_right _).symm'
    | cons b rest' =>
      simp only [catN, NExp.lang, List.map, Lang.catList]
      exact Lang.cat_congr Lang.Eqv.rfl' ih

theorem Re.pow_lang (r : Re) (n : Nat) : (Re.pow r n).lang ≃ Lang.pow r.lang n := by
  induction n with
  | zero => exact Lang.Eqv.rfl'
  | succ n ih => simp only [Re.pow, Re.lang, Lang.pow]; exact Lang.cat_congr Lang.Eqv.rfl' ih

theorem Re.upto_lang (r : Re) (n : Nat) : (Re.upto r n).lang ≃ Lang.upto r.lang n := by
  induction n with
  | zero => exact Lang.Eqv.rfl'
  | succ n ih => simp only [Re.upto, Re.lang, Lang.upto]; exact Lang.cat_congr Lang.Eqv.rfl' ih

theorem Lang.pow_congr {a b : Lang} (h : a ≃ b) (n : Nat) : Lang.pow a n ≃ Lang.pow b n := by
  induction n with
  | zero => exact Lang.Eqv.rfl'
  | succ n ih => exact Lang.cat_congr h ih

theorem Lang.upto_congr {a b : Lang} (h : a ≃ b) (n : Nat) : Lang.upto a n ≃ Lang.upto b n := by
  induction n with
  | zero => exact Lang.Eqv.rfl'
  | succ n ih => exact Lang.cat_congr (Lang.union_congr Lang.Eqv.rfl' h) ih

/-- `quantifyNFA` builds the documented language of the quantified expression. -/
theorem quantN_lang (cfg : RCfg) (n : NExp) (r : Re) (h : n.lang cfg ≃ r.lang) (q : Quant) :
    (quantN n q).lang cfg ≃ (quantRe r q).lang := by
  cases q with
  | opt => exact Lang.union_congr Lang.Eqv.rfl' h
  | star => exact Lang.star_congr h
  | plus => exact Lang.cat_congr h (Lang.star_congr h)
  | rep lo up =>
    cases up with
    | none =>
      simp only [quantN, quantRe, Re.lang]
      refine (catN_lang cfg _).trans' ?_
      simp only [List.map_append, List.map_replicate, List.map_cons, List.map_nil]
      refine (Lang.catList_append _ _).trans' ?_
      refine Lang.cat_congr ?_ ?_
      · exact (Lang.catList_replicate_pow _ _).trans' ((Lang.pow_congr h lo).trans' (Re.pow_lang r lo).symm')
      · simp only [Lang.catList, NExp.lang]
        exact (Lang.cat_eps_right _).trans' (Lang.star_congr h)
    | some u =>
      simp only [quantN, quantRe, Re.lang]
      refine (catN_lang cfg _).trans' ?_
      simp only [List.map_append, List.map_replicate]
      refine (Lang.catList_append _ _).trans' ?_
      refine Lang.cat_congr ?_ ?_
      · exact (Lang.catList_replicate_pow _ _).trans' ((Lang.pow_congr h lo).trans' (Re.pow_lang r lo).symm')
      · simp only [NExp.lang]
        exact (Lang.catList_replicate_upto _ _).trans' ((Lang.upto_congr h _).trans' (Re.upto_lang r _).symm')

/-- The only fact about the class table the construction relies on: `RuneClasses["ASCII"]` is the
    range `0 … n-1` (the bracket-group table is indexed by the character). -/
def AsciiOk (T : ClassTable) : Prop := ∃ n, classRunes T "ASCII" = some (List.range n)

theorem mem_noNul {r : Rune} {rs : List Rune} : r ∈ noNul rs ↔ r ∈ rs ∧ r ≠ 0 := by
  simp [noNul]

theorem groupRunes_mem (T : ClassTable) (hT : AsciiOk T) (neg : Bool) (items : List GItem) (r : Rune) :
    r ∈ noNul (groupRunes T neg items) ↔ r ∈ setOf T neg (items.flatMap (GItem.chars T)) := by
  obtain ⟨n, hn⟩ := hT
  cases neg with
  | true =>
    simp only [groupRunes, setOf, univRunes, hn, Option.getD_some, List.length_range, mem_noNul, if_true,
      List.mem_filter, List.mem_range]
    constructor
    · rintro ⟨⟨h1, h2⟩, h3⟩; exact ⟨⟨h1, by simpa using h3⟩, h2⟩
    · rintro ⟨⟨h1, h3⟩, h2⟩; exact ⟨⟨h1, h2⟩, by simpa using h3⟩
  | false =>
    simp only [groupRunes, setOf, hn, Option.getD_some, List.length_range, mem_noNul, Bool.false_eq_true, if_false,
      List.mem_append, List.mem_filter, List.mem_range, List.mem_eraseDups]
    constructor
    · rintro ⟨(⟨_, h⟩ | ⟨h, _⟩), h0⟩
      · exact ⟨by simpa using h, h0⟩
      · exact ⟨h, h0⟩
    · rintro ⟨h, h0⟩
      refine ⟨?_, h0⟩
      by_cases hr : r < n
      · left; exact ⟨hr, by simpa using h⟩
      · right; exact ⟨h, by simpa using (Nat.le_of_not_lt hr)⟩

/-- **The NFA-route construction is correct** (with finding F3 repaired): under the contract of the
    dependency's NFA algebra, the automaton the mappers build for a pattern has exactly the
    pattern's documented language — every construct, every quantifier form, lazy or not. -/
theorem compileN_lang_fixed (T : ClassTable) (hT : AsciiOk T) (p : Pat) :
    (compileN T p).lang RCfg.fixed ≃ p.denote T := by
  induction p with
  | any => simp only [compileN, NExp.lang, RCfg.fixed, Bool.false_and, Pat.denote, Pat.toRe, Re.lang, univRunes, noNul]
           exact Lang.Eqv.rfl'
  | char c => simp only [compileN, NExp.lang, RCfg.fixed, Bool.false_and, Pat.denote, Pat.toRe, Re.lang]; exact Lang.Eqv.rfl'
  | cls neg rs =>
    cases neg with
    | false => simp only [compileN, NExp.lang, RCfg.fixed, Bool.false_and, Pat.denote, Pat.toRe, Re.lang, setOf]; exact Lang.Eqv.rfl'
    | true =>
      simp only [compileN, NExp.lang, RCfg.fixed, Bool.false_and, Pat.denote, Pat.toRe, Re.lang, setOf, if_true]
      refine Lang.set_congr ?_
      intro r
      simp only [mem_noNul, univRunes, List.mem_filter]
      constructor
      · rintro ⟨⟨h1, h2⟩, h3⟩; exact ⟨⟨h1, by simpa using h3⟩, h2⟩
      · rintro ⟨⟨h1, h3⟩, h2⟩; exact ⟨⟨h1, h2⟩, by simpa using h3⟩
  | group neg items =>
    simp only [compileN, NExp.lang, RCfg.fixed, Bool.false_and, Pat.denote, Pat.toRe, Re.lang]
    exact Lang.set_congr (groupRunes_mem T hT neg items)
  | quant p q lz ih =>
    simp only [compileN, Pat.denote, Pat.toRe]
    exact quantN_lang RCfg.fixed _ _ ih q
  | snil => exact Lang.Eqv.rfl'
  | scons a r iha ihr =>
    simp only [Pat.denote, Pat.toRe, Re.lang] at *
    cases r with
    | snil =>
      simp only [compileN, Pat.toRe, Re.lang]
      exact iha.trans' (Lang.cat_eps_right _).symm'
    | any => simp only [compileN, NExp.lang]; exact Lang.cat_congr iha ihr
    | char c => simp only [compileN, NExp.lang]; exact Lang.cat_congr iha ihr
    | cls n rs => simp only [compileN, NExp.lang]; exact Lang.cat_congr iha ihr
    | group n i => simp only [compileN, NExp.lang]; exact Lang.cat_congr iha ihr
    | quant p q l => simp only [compileN, NExp.lang]; exact Lang.cat_congr iha ihr
    | scons x y => simp only [compileN, NExp.lang]; exact Lang.cat_congr iha ihr
    | alt x y => simp only [compileN, NExp.lang]; exact Lang.cat_congr iha ihr
  | alt a b iha ihb =>
    simp only [compileN, NExp.lang, Pat.denote, Pat.toRe, Re.lang] at *
    exact Lang.union_congr iha ihb

end Emerge.Regex
