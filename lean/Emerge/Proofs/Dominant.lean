/-
  The action that dominates a table entry — the one that takes precedence over every other action of the
  entry — does not depend on the order in which the entry's actions are collected.
  (Shared by C06, where it is the resolution rule of the model, and C15, where it is the reason the loop over
  the dependency's unordered action set in `Spec.dominantAction` is harmless.)  Core Lean only.
-/
namespace Emerge.Dominant

/-- the first collected element that beats every other one -/
def dominant {α} [BEq α] (beats : α → α → Bool) (l : List α) : Option α :=
  l.find? fun x => l.all fun y => x == y || beats x y

theorem all_perm {α} (f : α → Bool) {l₁ l₂ : List α} (h : l₁.Perm l₂) : l₁.all f = l₂.all f := by
  induction h with
  | nil => rfl
  | cons x _ ih => simp only [List.all_cons, ih]
  | swap x y l => simp only [List.all_cons]; cases f x <;> cases f y <;> rfl
  | trans _ _ ih1 ih2 => exact ih1.trans ih2

theorem dominant_perm {α} [BEq α] [LawfulBEq α] (beats : α → α → Bool)
    (hasym : ∀ x y, beats x y = true → beats y x = true → False)
    {l₁ l₂ : List α} (h : l₁.Perm l₂) : dominant beats l₁ = dominant beats l₂ := by
  have key : ∀ {a b : List α}, a.Perm b → ∀ x, dominant beats a = some x → dominant beats b = some x := by
    intro a b hab x hx
    have hxa : x ∈ a := List.mem_of_find?_eq_some hx
    have hpx := List.find?_some hx
    rw [all_perm _ hab] at hpx
    cases hb : dominant beats b with
    | none =>
      have := (List.find?_eq_none.mp hb) x (hab.mem_iff.mp hxa)
      exact absurd hpx this
    | some y =>
      have hyb : y ∈ b := List.mem_of_find?_eq_some hb
      have hpy := List.find?_some hb
      have h1 := (List.all_eq_true.mp hpx) y hyb
      have h2 := (List.all_eq_true.mp hpy) x (hab.mem_iff.mp hxa)
      cases hxy : x == y with
      | true => rw [eq_of_beq hxy]
      | false =>
        have hyx : (y == x) = false := by
          cases hyx : y == x with
          | false => rfl
          | true => rw [eq_of_beq hyx, beq_self_eq_true] at hxy; cases hxy
        simp only [hxy, hyx, Bool.false_or] at h1 h2
        exact (hasym x y h1 h2).elim
  cases h1 : dominant beats l₁ with
  | some x => exact (key h x h1).symm
  | none =>
    cases h2 : dominant beats l₂ with
    | none => rfl
    | some y => rw [key h.symm y h2] at h1; cases h1

end Emerge.Dominant
