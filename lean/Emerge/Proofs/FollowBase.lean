import Emerge.Inst.Regex
import Emerge.Regex.Follow
/-
  Base definitions and lemmas for C10 (language of a syntax tree, nullable, quantified trees); the property theorems
  are restated in Emerge/Props/C10.lean.

  C10 — the direct (followpos) pattern-to-DFA construction.

  Proved here, for every syntax tree: `nullable` is exactly "the empty string is in the language"
  — including n-ary concatenations whose operands can all match the empty string, the case the
  unrepaired code got wrong (`fixed: property=C10` in known_findings.json) — and the tree the second
  mapper set builds for a quantified expression (`quantNode`: copies, options, star) has the language
  of the quantifier's documented meaning.  The step from followpos sets to the automaton
  (Glushkov / McNaughton–Yamada correctness) is *not* proved; it is decided per pattern by comparing
  the automaton with the proved derivative oracle (checks/c10.py).
-/
namespace Emerge.Props.C10
open Emerge Emerge.Regex Emerge.Regex.Follow

mutual
/-- the language of a syntax tree (positions play no role) -/
def Node.lang : Node → Lang
  | .concat xs => langConcat xs
  | .alt xs => langAlt xs
  | .star x => Lang.star (Node.lang x)
  | .empty => Lang.eps
  | .char c _ => Lang.set [c]
def langConcat : List Node → Lang
  | [] => Lang.eps
  | x :: xs => Lang.cat (Node.lang x) (langConcat xs)
def langAlt : List Node → Lang
  | [] => Lang.empty
  | x :: xs => Lang.union (Node.lang x) (langAlt xs)
end

theorem cat_nil_iff (a b : Lang) : Lang.cat a b [] ↔ a [] ∧ b [] := by
  constructor
  · rintro ⟨u, v, h, hu, hv⟩
    have : u = [] ∧ v = [] := by simpa using h.symm
    rw [this.1] at hu; rw [this.2] at hv; exact ⟨hu, hv⟩
  · rintro ⟨hu, hv⟩; exact ⟨[], [], rfl, hu, hv⟩

mutual
/-- **nullable is correct**: `nullable(n)` holds iff the sub-expression can match the empty string. -/
theorem nullable_iff_lang : (n : Node) → (n.nullable = true ↔ Node.lang n [])
  | .concat xs => by simp only [Node.nullable, Node.lang]; exact allNullable_iff xs
  | .alt xs => by simp only [Node.nullable, Node.lang]; exact anyNullable_iff xs
  | .star x => by simp only [Node.nullable, Node.lang, true_iff]; exact Lang.star.nil
  | .empty => by simp [Node.nullable, Node.lang, Lang.eps]
  | .char c p => by simp [Node.nullable, Node.lang, Lang.set]
theorem allNullable_iff : (xs : List Node) → (allNullable xs = true ↔ langConcat xs [])
  | [] => by simp [allNullable, langConcat, Lang.eps]
  | x :: xs => by
    simp only [allNullable, langConcat, Bool.and_eq_true, cat_nil_iff]
    rw [nullable_iff_lang x, allNullable_iff xs]
theorem anyNullable_iff : (xs : List Node) → (anyNullable xs = true ↔ langAlt xs [])
  | [] => by simp [anyNullable, langAlt, Lang.empty]
  | x :: xs => by
    simp only [anyNullable, langAlt, Bool.or_eq_true, Lang.union]
    rw [nullable_iff_lang x, anyNullable_iff xs]
end

/-- A concatenation is nullable iff all its operands are (the repaired defect, stated outright). -/
theorem concat_nullable_all (xs : List Node) : (Node.concat xs).nullable = xs.all Node.nullable := by
  simp only [Node.nullable]
  induction xs with
  | nil => rfl
  | cons x xs ih => simp [allNullable, ih]

theorem langConcat_append (xs ys : List Node) : langConcat (xs ++ ys) ≃ Lang.cat (langConcat xs) (langConcat ys) := by
  induction xs with
  | nil => exact (Lang.cat_eps_left _).symm'
  | cons a xs ih =>
    simp only [List.cons_append, langConcat]
    exact (Lang.cat_congr Lang.Eqv.rfl' ih).trans' (Lang.cat_assoc _ _ _).symm'

theorem langConcat_replicate (n : Node) (k : Nat) : langConcat (List.replicate k n) ≃ Lang.pow (Node.lang n) k := by
  induction k with
  | zero => exact Lang.Eqv.rfl'
  | succ k ih => simp only [List.replicate_succ, langConcat, Lang.pow]; exact Lang.cat_congr Lang.Eqv.rfl' ih

theorem langConcat_replicate_opt (n : Node) (k : Nat) :
    langConcat (List.replicate k (.alt [.empty, n])) ≃ Lang.upto (Node.lang n) k := by
  induction k with
  | zero => exact Lang.Eqv.rfl'
  | succ k ih =>
    simp only [List.replicate_succ, langConcat, Lang.upto, Node.lang, langAlt]
    refine Lang.cat_congr ?_ ih
    intro w; simp [Lang.union, Lang.empty]

/-- **Quantified sub-expressions**: the tree `quantifyNode` builds — clones for `{n}`, options for
    `{n,m}`, a star for `{n,}`, `ε | x` for `?`, `x x*` for `+` — has the documented language of the
    quantifier applied to the operand's language (so patterns that duplicate a sub-expression, and
    ones that match the empty string such as `a{0}`, are represented correctly). -/
theorem quantify_lang (n : Node) (q : Quant) :
    Node.lang (quantNode n q) ≃
      (match q with
       | .opt => Lang.union Lang.eps (Node.lang n)
       | .star => Lang.star (Node.lang n)
       | .plus => Lang.cat (Node.lang n) (Lang.star (Node.lang n))
       | .rep lo none => Lang.cat (Lang.pow (Node.lang n) lo) (Lang.star (Node.lang n))
       | .rep lo (some u) => Lang.cat (Lang.pow (Node.lang n) lo) (Lang.upto (Node.lang n) (u - lo))) := by
  cases q with
  | opt => intro w; simp [quantNode, Node.lang, langAlt, Lang.union, Lang.empty]
  | star => exact Lang.Eqv.rfl'
  | plus =>
    simp only [quantNode, Node.lang, langConcat]
    exact Lang.cat_congr Lang.Eqv.rfl' (Lang.cat_eps_right _)
  | rep lo up =>
    cases up with
    | none =>
      simp only [quantNode, Node.lang]
      refine (langConcat_append _ _).trans' (Lang.cat_congr (langConcat_replicate n lo) ?_)
      simp only [langConcat, Node.lang]
      exact Lang.cat_eps_right _
    | some u =>
      simp only [quantNode, Node.lang]
      exact (langConcat_append _ _).trans' (Lang.cat_congr (langConcat_replicate n lo) (langConcat_replicate_opt n _))

/-- Non-vacuity / regression: the trees of `a?`, `(a*)b` … : a concatenation of nullable operands is nullable,
    `a{0}` (an empty concatenation) is nullable, `ab?` is not. -/
example : (Node.concat [.alt [.empty, .char 97 1], .star (.char 98 2)]).nullable = true := by decide
example : (quantNode (.char 97 0) (.rep 0 (some 0))).nullable = true := by decide
example : (Node.concat [.char 97 1, .alt [.empty, .char 98 2]]).nullable = false := by decide

end Emerge.Props.C10
