import Emerge.Utf8
/-
  UTF-8: decoding the encoding of any sequence of Unicode scalar values gives the sequence back and ends
  with end of input — the link between "a text" (runes, the level of the scanner models) and "its bytes"
  (the level of the readers).
-/
namespace Emerge.Utf8

/-- Unicode scalar value: below 0x110000 and not a surrogate -/
def Scalar (r : Nat) : Prop := r < 0x110000 ∧ ¬ (0xD800 ≤ r ∧ r ≤ 0xDFFF)

theorem decode_encodeRune (n : Nat) (r : Nat) (h : Scalar r) (rest : List Nat) :
    decode (n + 1) (encodeRune r ++ rest) = (r :: (decode n rest).1, (decode n rest).2) := by
  obtain ⟨h1, h2⟩ := h
  unfold encodeRune
  by_cases c1 : r < 0x80
  · simp only [c1, if_true, List.cons_append, List.nil_append, decode]
  · by_cases c2 : r < 0x800
    · simp only [c1, c2, if_true, if_false, List.cons_append, List.nil_append]
      have a1 : ¬ (0xC0 + r / 64 < 0x80) := by omega
      have a2 : (0xC2 ≤ 0xC0 + r / 64 && 0xC0 + r / 64 ≤ 0xDF) = true := by
        simp only [Bool.and_eq_true, decide_eq_true_eq]; omega
      have a3 : cont (0x80 + r % 64) = true := by
        simp only [cont, Bool.and_eq_true, decide_eq_true_eq]; omega
      have a4 : (0xC0 + r / 64) % 32 * 64 + (0x80 + r % 64) % 64 = r := by omega
      simp only [decode, a1, if_false, a2, if_true, a3, a4]
    · by_cases c3 : r < 0x10000
      · simp only [c1, c2, c3, if_true, if_false, List.cons_append, List.nil_append]
        have a1 : ¬ (0xE0 + r / 4096 < 0x80) := by omega
        have a2 : (0xC2 ≤ 0xE0 + r / 4096 && 0xE0 + r / 4096 ≤ 0xDF) = false := by
          simp only [Bool.and_eq_false_iff, decide_eq_false_iff_not]; omega
        have a3 : (0xE0 ≤ 0xE0 + r / 4096 && 0xE0 + r / 4096 ≤ 0xEF) = true := by
          simp only [Bool.and_eq_true, decide_eq_true_eq]; omega
        have a4 : ((if 0xE0 + r / 4096 = 0xE0 then 0xA0 else 0x80) ≤ 0x80 + r / 64 % 64 &&
            0x80 + r / 64 % 64 ≤ (if 0xE0 + r / 4096 = 0xED then 0x9F else 0xBF)) = true := by
          simp only [Bool.and_eq_true, decide_eq_true_eq]
          constructor <;> split <;> omega
        have a5 : cont (0x80 + r % 64) = true := by
          simp only [cont, Bool.and_eq_true, decide_eq_true_eq]; omega
        have a6 : (0xE0 + r / 4096) % 16 * 4096 + (0x80 + r / 64 % 64) % 64 * 64 + (0x80 + r % 64) % 64 = r := by omega
        simp only [decode, a1, if_false, a2, a3, if_true, a4, a5, a6]
        simp
      · simp only [c1, c2, c3, if_false, List.cons_append, List.nil_append]
        have a1 : ¬ (0xF0 + r / 262144 < 0x80) := by omega
        have a2 : (0xC2 ≤ 0xF0 + r / 262144 && 0xF0 + r / 262144 ≤ 0xDF) = false := by
          simp only [Bool.and_eq_false_iff, decide_eq_false_iff_not]; omega
        have a3 : (0xE0 ≤ 0xF0 + r / 262144 && 0xF0 + r / 262144 ≤ 0xEF) = false := by
          simp only [Bool.and_eq_false_iff, decide_eq_false_iff_not]; omega
        have a3' : (0xF0 ≤ 0xF0 + r / 262144 && 0xF0 + r / 262144 ≤ 0xF4) = true := by
          simp only [Bool.and_eq_true, decide_eq_true_eq]; omega
        have a4 : ((if 0xF0 + r / 262144 = 0xF0 then 0x90 else 0x80) ≤ 0x80 + r / 4096 % 64 &&
            0x80 + r / 4096 % 64 ≤ (if 0xF0 + r / 262144 = 0xF4 then 0x8F else 0xBF)) = true := by
          simp only [Bool.and_eq_true, decide_eq_true_eq]
          constructor <;> split <;> omega
        have a5 : cont (0x80 + r / 64 % 64) = true := by
          simp only [cont, Bool.and_eq_true, decide_eq_true_eq]; omega
        have a5' : cont (0x80 + r % 64) = true := by
          simp only [cont, Bool.and_eq_true, decide_eq_true_eq]; omega
        have a6 : (0xF0 + r / 262144) % 8 * 262144 + (0x80 + r / 4096 % 64) % 64 * 4096 +
            (0x80 + r / 64 % 64) % 64 * 64 + (0x80 + r % 64) % 64 = r := by omega
        simp only [decode, a1, if_false, a2, a3, a3', if_true, a4, a5, a5', a6]
        simp

/-- **Round trip**: the bytes of a text decode to the text, and decoding ends at end of input. -/
theorem decode_encode (rs : List Rune) (h : ∀ r ∈ rs, Scalar r) :
    ∀ fuel, rs.length ≤ fuel → decode fuel (encode rs) = (rs, .eof) := by
  induction rs with
  | nil => intro fuel _; cases fuel <;> simp [encode, decode]
  | cons r rs ih =>
    intro fuel hf
    cases fuel with
    | zero => simp at hf
    | succ n =>
      have hr : Scalar r := h r (List.mem_cons_self)
      have hrs : ∀ x ∈ rs, Scalar x := fun x hx => h x (List.mem_cons_of_mem _ hx)
      have e : encode (r :: rs) = encodeRune r ++ encode rs := by simp [encode]
      rw [e, decode_encodeRune n r hr, ih hrs n (by simpa using hf)]

/-- the number of bytes `Retract` has to give back for a rune: 1 to 4 -/
theorem encodeRune_length (r : Nat) : 1 ≤ (encodeRune r).length ∧ (encodeRune r).length ≤ 4 := by
  unfold encodeRune
  split
  · simp
  · split
    · simp
    · split <;> simp

/-- no NUL byte in the encoding of a text without U+0000 (the emitted reader reserves NUL as its sentinel) -/
theorem encodeRune_nul_free (r : Nat) (h : r ≠ 0) : ∀ b ∈ encodeRune r, b ≠ 0 := by
  unfold encodeRune
  split
  · intro b hb; simp at hb; omega
  · split
    · intro b hb; simp at hb; omega
    · split <;> (intro b hb; simp at hb; omega)

end Emerge.Utf8
