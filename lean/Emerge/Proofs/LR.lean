import Emerge.LR
/-
  Soundness of the LR driver for tables that pass a decidable well-formedness check `WF`
  (no item sets needed): every accepted input has a rightmost derivation from the start symbol,
  and the production callbacks are exactly that derivation in reverse.
-/
namespace Emerge.LR

/-! ### derivations -/

def IsTerminal : Sym → Prop
  | .t _ => True
  | .nt _ => False

/-- One rightmost derivation step with production `p`: `u A v ⇒ u β v`, `v` terminals only. -/
inductive RStep (prods : List Prod) : Nat → List Sym → List Sym → Prop where
  | mk (p A : Nat) (body u v : List Sym) :
      prods[p]? = some (A, body) → (∀ x ∈ v, IsTerminal x) →
      RStep prods p (u ++ [.nt A] ++ v) (u ++ body ++ v)

/-- A rightmost derivation applying the listed productions in order. -/
inductive RDerivation (prods : List Prod) : List Nat → List Sym → List Sym → Prop where
  | refl (α : List Sym) : RDerivation prods [] α α
  | step {p ps α β γ} : RStep prods p α β → RDerivation prods ps β γ → RDerivation prods (p :: ps) α γ

/-! ### decidable well-formedness of tables given as association lists -/

structure RawTables where
  acts : List (Nat × Nat × Nat × Nat)
  gotos : List (Nat × Nat × Nat)
  prods : List Prod
  eof : Nat
  start : Nat

namespace RawTables

def tables (R : RawTables) : Tables := ⟨actionOf R.acts, gotoOf R.gotos, R.prods, R.eof⟩

/-- labelled edges of the automaton: (source, symbol, target) -/
def edges (R : RawTables) : List (Nat × Sym × Nat) :=
  (R.acts.filterMap fun e => if e.2.2.1 = 0 then some (e.1, Sym.t e.2.1, e.2.2.2) else none) ++
  (R.gotos.map fun e => (e.1, Sym.nt e.2.1, e.2.2))

/-- accessing symbol of a state: the label of the first edge into it -/
def acc (R : RawTables) (s : Nat) : Option Sym :=
  (R.edges.find? fun e => e.2.2 == s).map (·.2.1)

def preds (R : RawTables) (s : Nat) : List Nat :=
  R.edges.filterMap fun e => if e.2.2 = s then some e.1 else none

/-- every backward path from `s` spelling the reversed body ends in a state with a GOTO on `A` -/
def backOK (R : RawTables) (A : Nat) : List Sym → Nat → Bool
  | [], s => (gotoOf R.gotos s A).isSome
  | X :: rest, s => R.acc s == some X && (R.preds s).all fun s' => backOK R A rest s'

def WF (R : RawTables) : Bool :=
  -- every state has one accessing symbol; nothing leads back into state 0
  (R.edges.all fun e => R.acc e.2.2 == some e.2.1 && e.2.2 != 0) &&
  (R.acts.all fun e =>
    let (s, a, k, p) := e
    if k = 0 then a != R.eof                                    -- the end marker is never shifted
    else if k = 1 then
      match R.prods[p]? with
      | none => false
      | some (A, β) => backOK R A β.reverse s
    else a == R.eof && R.acc s == some (.nt R.start) && (R.preds s).all (· == 0))

end RawTables

/-! ### the invariant -/

open RawTables

/-- The state stack (top first) is a path of the automaton starting in state 0. -/
inductive StackOK (R : RawTables) : List (Option Nat) → Prop where
  | bottom : StackOK R [some 0]
  | push {s s' : Nat} {rest : List (Option Nat)} {X : Sym} :
      StackOK R (some s :: rest) → (s, X, s') ∈ R.edges → StackOK R (some s' :: some s :: rest)

/-- grammar symbols spelled by the stack, bottom to top -/
def stackSyms (R : RawTables) : List (Option Nat) → List Sym
  | [] => []
  | [_] => []
  | some s :: rest => stackSyms R rest ++ (match R.acc s with | some X => [X] | none => [])
  | none :: rest => stackSyms R rest

def prodsOf : List Event → List Nat
  | [] => []
  | .prod p :: es => p :: prodsOf es
  | .tok _ :: es => prodsOf es

def toksOf : List Event → List Nat
  | [] => []
  | .tok i :: es => i :: toksOf es
  | .prod _ :: es => toksOf es

structure Inv (R : RawTables) (w : List Nat) (c : Config) : Prop where
  stack : StackOK R c.stack
  pos : c.pos ≤ w.length
  /-- from the current sentential form (stack symbols, then the unread input) the productions
      reported so far — newest first — derive the input -/
  deriv : RDerivation R.prods (prodsOf c.events) (stackSyms R c.stack ++ (w.drop c.pos).map Sym.t) (w.map Sym.t)
  /-- token callbacks so far: tokens `pos-1, …, 1, 0` (newest first) -/
  toks : toksOf c.events = (List.range c.pos).reverse

theorem acc_of_edge {R : RawTables} (h : R.WF = true) {s s' : Nat} {X : Sym} (he : (s, X, s') ∈ R.edges) :
    R.acc s' = some X ∧ s' ≠ 0 := by
  simp only [WF, Bool.and_eq_true, List.all_eq_true] at h
  have := h.1 (s, X, s') he
  simp at this
  exact ⟨this.1, this.2⟩

theorem stackSyms_push {R : RawTables} (h : R.WF = true) {s s' : Nat} {X : Sym} {rest}
    (he : (s, X, s') ∈ R.edges) :
    stackSyms R (some s' :: some s :: rest) = stackSyms R (some s :: rest) ++ [X] := by
  simp [stackSyms, (acc_of_edge h he).1]

theorem mem_preds {R : RawTables} {s s' : Nat} {X : Sym} (he : (s, X, s') ∈ R.edges) : s ∈ R.preds s' := by
  simp only [preds, List.mem_filterMap]
  exact ⟨(s, X, s'), he, by simp⟩

/-- Key lemma: if every backward path from the top spells the reversed body, then popping `|β|`
    states removes exactly the symbols `β` and exposes a state with a GOTO entry. -/
theorem pop_body {R : RawTables} (h : R.WF = true) (A : Nat) :
    ∀ (βr : List Sym) (s : Nat) (rest : List (Option Nat)),
      StackOK R (some s :: rest) → backOK R A βr s = true →
      ∃ t rest', popN βr.length (some s :: rest) = some t :: rest' ∧ StackOK R (some t :: rest') ∧
        (gotoOf R.gotos t A).isSome = true ∧
        stackSyms R (some s :: rest) = stackSyms R (some t :: rest') ++ βr.reverse := by
  intro βr
  induction βr with
  | nil =>
    intro s rest hst hb
    exact ⟨s, rest, rfl, hst, by simpa [backOK] using hb, by simp⟩
  | cons X βr ih =>
    intro s rest hst hb
    simp only [backOK, Bool.and_eq_true, List.all_eq_true] at hb
    cases hst with
    | bottom =>
      -- state 0 has no accessing symbol
      exfalso
      have hacc : R.acc 0 = some X := by simpa using hb.1
      simp only [acc, Option.map_eq_some_iff] at hacc
      obtain ⟨e, he, _⟩ := hacc
      have hm := List.mem_of_find?_eq_some he
      have ht : e.2.2 = 0 := by simpa using List.find?_some he
      obtain ⟨a, Y, b⟩ := e
      simp at ht; subst ht
      exact (acc_of_edge h hm).2 rfl
    | @push s0 _ rest0 Y hst0 he =>
      have hX : R.acc s = some X := by simpa using hb.1
      have hY := (acc_of_edge h he).1
      rw [hX] at hY; cases hY
      obtain ⟨t, rest', hpop, hst', hg, hsy⟩ := ih s0 rest0 hst0 (hb.2 s0 (mem_preds he))
      refine ⟨t, rest', by simpa [popN] using hpop, hst', hg, ?_⟩
      rw [stackSyms_push h he, hsy]
      simp

theorem actionOf_mem {acts : List (Nat × Nat × Nat × Nat)} {s a : Nat} {x : Act} (hx : x ≠ .error)
    (h : actionOf acts s a = x) :
    ∃ k p, (s, a, k, p) ∈ acts ∧ x = (if k = 0 then .shift p else if k = 1 then .reduce p else .accept) := by
  unfold actionOf at h
  cases hf : acts.find? (fun e => e.1 == s && e.2.1 == a) with
  | none => rw [hf] at h; exact absurd h.symm hx
  | some e =>
    rw [hf] at h
    obtain ⟨s', a', k, p⟩ := e
    have hm := List.mem_of_find?_eq_some hf
    have hp := List.find?_some hf
    simp at hp
    obtain ⟨h1, h2⟩ := hp
    subst h1; subst h2
    exact ⟨k, p, hm, h.symm⟩

theorem gotoOf_mem {gs : List (Nat × Nat × Nat)} {s A nx : Nat} (h : gotoOf gs s A = some nx) :
    (s, A, nx) ∈ gs := by
  unfold gotoOf at h
  cases hf : gs.find? (fun e => e.1 == s && e.2.1 == A) with
  | none => rw [hf] at h; cases h
  | some e =>
    rw [hf] at h
    obtain ⟨s', A', n'⟩ := e
    have hm := List.mem_of_find?_eq_some hf
    have hp := List.find?_some hf
    simp at hp h
    obtain ⟨h1, h2⟩ := hp
    subst h1; subst h2; subst h
    exact hm

theorem drop_map_cons {w : List Nat} {i : Nat} (hi : i < w.length) :
    (w.drop i).map Sym.t = Sym.t w[i] :: (w.drop (i + 1)).map Sym.t := by
  rw [List.drop_eq_getElem_cons hi, List.map_cons]

theorem StackOK.top {R : RawTables} {st : List (Option Nat)} (h : StackOK R st) :
    ∃ s rest, st = some s :: rest := by
  cases h with
  | bottom => exact ⟨0, [], rfl⟩
  | push _ _ => exact ⟨_, _, rfl⟩

theorem shift_inv {R : RawTables} (h : R.WF = true) {w : List Nat}
    {s s' pos : Nat} {rest : List (Option Nat)} {events : List Event}
    (hi : Inv R w ⟨some s :: rest, pos, events⟩)
    (hact : R.tables.action s (lookahead R.tables w pos) = .shift s') :
    Inv R w ⟨some s' :: some s :: rest, pos + 1, .tok pos :: events⟩ := by
  obtain ⟨k, p, hm, hk⟩ := actionOf_mem (by simp) hact
  have hk0 : k = 0 := by
    apply Decidable.byContradiction; intro hk0
    by_cases hk1 : k = 1 <;> simp [hk0, hk1] at hk
  subst hk0; simp at hk; subst hk
  have hedge : (s, Sym.t (lookahead R.tables w pos), s') ∈ R.edges := by
    simp only [edges, List.mem_append, List.mem_filterMap]
    left; exact ⟨_, hm, by simp⟩
  have hne : lookahead R.tables w pos ≠ R.eof := by
    have h' := h
    simp only [WF, Bool.and_eq_true, List.all_eq_true] at h'
    have := h'.2 _ hm; simpa using this
  have hlt : pos < w.length := by
    apply Decidable.byContradiction; intro hge
    apply hne
    simp only [lookahead, tables]
    rw [List.getElem?_eq_none (by omega)]; rfl
  have hla : lookahead R.tables w pos = w[pos] := by simp [lookahead, hlt]
  rw [hla] at hedge
  refine ⟨.push hi.stack hedge, hlt, ?_, ?_⟩
  · have := hi.deriv
    simp only [prodsOf] at this ⊢
    rw [stackSyms_push h hedge]
    rw [drop_map_cons hlt] at this
    simpa using this
  · simp [toksOf, hi.toks, List.range_succ]

theorem reduce_inv {R : RawTables} (h : R.WF = true) {w : List Nat}
    {s p pos : Nat} {rest : List (Option Nat)} {events : List Event}
    (hi : Inv R w ⟨some s :: rest, pos, events⟩)
    (hact : R.tables.action s (lookahead R.tables w pos) = .reduce p) :
    ∃ A β t rest' nx, R.prods[p]? = some (A, β) ∧
      popN β.length (some s :: rest) = some t :: rest' ∧ gotoOf R.gotos t A = some nx ∧
      Inv R w ⟨some nx :: some t :: rest', pos, .prod p :: events⟩ := by
  obtain ⟨k, p', hm, hk⟩ := actionOf_mem (by simp) hact
  have hk1 : k = 1 := by
    apply Decidable.byContradiction; intro hk1
    by_cases hk0 : k = 0 <;> simp [hk0, hk1] at hk
  subst hk1; simp at hk; subst hk
  have h' := h
  simp only [WF, Bool.and_eq_true, List.all_eq_true] at h'
  have hwf := h'.2 _ hm
  simp at hwf
  cases hp : R.prods[p]? with
  | none => simp [hp] at hwf
  | some Ab =>
    obtain ⟨A, β⟩ := Ab
    simp [hp] at hwf
    obtain ⟨t, rest', hpop, hst', hg, hsy⟩ := pop_body h A β.reverse s rest hi.stack hwf
    simp at hpop
    obtain ⟨nx, hnx⟩ := Option.isSome_iff_exists.mp hg
    have hgm := gotoOf_mem hnx
    have hedge : (t, Sym.nt A, nx) ∈ R.edges := by
      simp only [edges, List.mem_append, List.mem_map]
      right; exact ⟨_, hgm, rfl⟩
    refine ⟨A, β, t, rest', nx, rfl, hpop, hnx, .push hst' hedge, hi.pos, ?_, ?_⟩
    · simp only [prodsOf]
      rw [stackSyms_push h hedge]
      have hd := hi.deriv
      rw [hsy] at hd
      simp at hd
      refine .step ?_ hd
      have := RStep.mk (prods := R.prods) p A β (stackSyms R (some t :: rest')) ((w.drop pos).map Sym.t) hp
        (by intro x hx; obtain ⟨a, _, rfl⟩ := List.mem_map.mp hx; trivial)
      simpa using this
    · simpa [toksOf] using hi.toks

theorem step_inv {R : RawTables} (h : R.WF = true) {w : List Nat}
    {c c' : Config} (hi : Inv R w c) (hs : step R.tables w none none c = (c', none)) : Inv R w c' := by
  obtain ⟨stack, pos, events⟩ := c
  obtain ⟨s, rest, hst⟩ := hi.stack.top
  simp only at hst; subst hst
  simp only [step, List.head?] at hs
  generalize hact : R.tables.action s (lookahead R.tables w pos) = act at hs
  cases act with
  | error => simp at hs
  | accept => simp at hs
  | shift s' =>
    simp at hs
    subst hs
    exact shift_inv h hi hact
  | reduce p =>
    obtain ⟨A, β, t, rest', nx, hp, hpop, hnx, hinv⟩ := reduce_inv h hi hact
    have hpr : R.tables.prods[p]? = some (A, β) := hp
    simp only [hpr] at hs
    simp [hpop] at hs
    have hgt : R.tables.goto t A = some nx := hnx
    rw [hgt] at hs
    subst hs
    exact hinv

theorem init_inv (R : RawTables) (w : List Nat) : Inv R w init := by
  refine ⟨.bottom, Nat.zero_le _, ?_, rfl⟩
  simp only [init, prodsOf, stackSyms, List.drop_zero, List.nil_append]
  exact .refl _

theorem no_edge_into_zero {R : RawTables} (h : R.WF = true) {s : Nat} {X : Sym} : (s, X, 0) ∉ R.edges :=
  fun he => (acc_of_edge h he).2 rfl

theorem stackOK_zero_top {R : RawTables} (h : R.WF = true) {rest : List (Option Nat)}
    (hst : StackOK R (some 0 :: rest)) : rest = [] := by
  cases hst with
  | bottom => rfl
  | push _ he => exact absurd he (no_edge_into_zero h)

/-- What holds when the driver accepts. -/
theorem accept_inv {R : RawTables} (h : R.WF = true) {w : List Nat} (hw : ∀ a ∈ w, a ≠ R.eof)
    {c c' : Config} (hi : Inv R w c) (hs : step R.tables w none none c = (c', some .accept)) :
    c' = c ∧ c.pos = w.length ∧ RDerivation R.prods (prodsOf c.events) [.nt R.start] (w.map Sym.t) ∧
      toksOf c.events = (List.range w.length).reverse := by
  obtain ⟨stack, pos, events⟩ := c
  obtain ⟨s, rest, hst⟩ := hi.stack.top
  simp only at hst; subst hst
  simp only [step, List.head?] at hs
  generalize hact : R.tables.action s (lookahead R.tables w pos) = act at hs
  cases act with
  | error => simp at hs
  | shift s' => simp at hs
  | reduce p =>
    simp only at hs
    split at hs <;> simp at hs
  | accept =>
    simp at hs
    obtain ⟨k, p, hm, hk⟩ := actionOf_mem (by simp) hact
    have hk2 : k ≠ 0 ∧ k ≠ 1 := by
      constructor
      · intro hk0; subst hk0; simp at hk
      · intro hk1; subst hk1; simp at hk
    have h' := h
    simp only [WF, Bool.and_eq_true, List.all_eq_true] at h'
    have hwf := h'.2 _ hm
    simp [hk2.1, hk2.2] at hwf
    obtain ⟨⟨hla, hacc⟩, hpreds⟩ := hwf
    have hpos : pos = w.length := by
      have := hi.pos
      simp only at this
      apply Decidable.byContradiction; intro hne
      have hlt : pos < w.length := by omega
      have : lookahead R.tables w pos = w[pos] := by simp [lookahead, hlt]
      rw [this] at hla
      exact hw _ (List.getElem_mem hlt) hla
    -- the stack is [s, 0]
    have hstack : rest = [some 0] := by
      have hst := hi.stack
      cases hst with
      | bottom =>
        exfalso
        simp only [acc, Option.map_eq_some_iff] at hacc
        obtain ⟨e, he, _⟩ := hacc
        have hmem := List.mem_of_find?_eq_some he
        have ht : e.2.2 = 0 := by simpa using List.find?_some he
        obtain ⟨a, Y, b⟩ := e
        simp at ht; subst ht
        exact no_edge_into_zero h hmem
      | @push s0 _ rest0 Y hst0 he =>
        have : s0 = 0 := hpreds s0 (mem_preds he)
        subst this
        rw [stackOK_zero_top h hst0]
    subst hstack
    refine ⟨hs.symm, hpos, ?_, ?_⟩
    · have hd := hi.deriv
      simp only [stackSyms, hacc, hpos, List.drop_length, List.map_nil, List.append_nil, List.nil_append] at hd
      exact hd
    · have := hi.toks
      simp only at this
      rw [hpos] at this
      exact this

theorem run_accept {R : RawTables} (h : R.WF = true) {w : List Nat} (hw : ∀ a ∈ w, a ≠ R.eof) :
    ∀ (n : Nat) (c : Config) (ev : List Event), Inv R w c → run R.tables w none none n c = (ev, .accept) →
      RDerivation R.prods (prodsOf ev.reverse) [.nt R.start] (w.map Sym.t) ∧
      toksOf ev.reverse = (List.range w.length).reverse := by
  intro n
  induction n with
  | zero => intro c ev _ hr; simp [run] at hr
  | succ n ih =>
    intro c ev hi hr
    simp only [run] at hr
    cases hstep : step R.tables w none none c with
    | mk c' r =>
      rw [hstep] at hr
      cases r with
      | none => exact ih c' ev (step_inv h hi hstep) hr
      | some res =>
        simp at hr
        obtain ⟨hev, hres⟩ := hr
        subst hres
        obtain ⟨hc, _, hd, ht⟩ := accept_inv h hw hi hstep
        subst hc
        subst hev
        simpa using ⟨hd, ht⟩

/-- **Soundness of the LR driver.** For well-formed tables, if the driver accepts `w` then the
    production callbacks, read backwards, are a rightmost derivation of `w` from the start symbol,
    and the token callback was invoked once per input token, in order. -/
theorem sound {R : RawTables} (h : R.WF = true) {w : List Nat} (hw : ∀ a ∈ w, a ≠ R.eof)
    {fuel : Nat} {ev : List Event} (hacc : parse R.tables w none none fuel = (ev, .accept)) :
    RDerivation R.prods (prodsOf ev.reverse) [.nt R.start] (w.map Sym.t) ∧
    toksOf ev.reverse = (List.range w.length).reverse :=
  run_accept h hw fuel init ev (init_inv R w) (by simpa [parse] using hacc)

end Emerge.LR
