import Emerge.Proofs.Subset
/-
  The worklist loop of `ToDFA` terminates: its states are pairwise different sets of positions of the tree, so there are
  at most 2^n of them, and the fuel of the model (`dfaFuel`, 2^n + 1) is never exhausted.
  Core Lean only.
-/
namespace Emerge.Props.C10
open Emerge Emerge.Regex Emerge.Regex.Follow

/-- a set of positions as a number: bit i says whether the i-th position of the universe is in the set -/
def code : List Nat → Poses → Nat
  | [], _ => 0
  | p :: ps, S => (if p ∈ S then 1 else 0) + 2 * code ps S

theorem code_lt (P : List Nat) (S : Poses) : code P S < 2 ^ P.length := by
  induction P with
  | nil => simp [code]
  | cons p ps ih =>
    simp only [code, List.length_cons, Nat.pow_succ]
    split <;> omega

theorem code_congr (P : List Nat) {S S' : Poses} (h : SetEq S S') : code P S = code P S' := by
  induction P with
  | nil => rfl
  | cons p ps ih =>
    simp only [code, ih]
    have := h p
    by_cases hp : p ∈ S
    · simp [hp, this.mp hp]
    · have : p ∉ S' := fun h' => hp (this.mpr h')
      simp [hp, this]

theorem code_inj (P : List Nat) {S S' : Poses} (h : code P S = code P S') : ∀ p ∈ P, (p ∈ S ↔ p ∈ S') := by
  induction P with
  | nil => intro p hp; cases hp
  | cons q ps ih =>
    simp only [code] at h
    have hq : (q ∈ S ↔ q ∈ S') ∧ code ps S = code ps S' := by
      by_cases h1 : q ∈ S <;> by_cases h2 : q ∈ S' <;> simp only [h1, h2, if_true, if_false] at h
      · exact ⟨by simp [h1, h2], by omega⟩
      · omega
      · omega
      · exact ⟨by simp [h1, h2], by omega⟩
    intro p hp
    rcases List.mem_cons.mp hp with rfl | hp
    · exact hq.1
    · exact ih hq.2 p hp

theorem setEq_of_code (P : List Nat) {S S' : Poses} (hS : ∀ x ∈ S, x ∈ P) (hS' : ∀ x ∈ S', x ∈ P)
    (h : code P S = code P S') : SetEq S S' := by
  intro x
  constructor
  · intro hx; exact (code_inj P h x (hS x hx)).mp hx
  · intro hx; exact (code_inj P h x (hS' x hx)).mpr hx

theorem findState_none {states : List Poses} {U : Poses} (h : findState states U = none) : ∀ S ∈ states, ¬ SetEq S U := by
  induction states with
  | nil => intro S hS; cases hS
  | cons S0 rest ih =>
    simp only [findState] at h
    split at h
    · cases h
    · rename_i hne
      have hr : findState rest U = none := by
        cases hf : findState rest U with
        | none => rfl
        | some k => rw [hf] at h; cases h
      intro S hS
      rcases List.mem_cons.mp hS with rfl | hS
      · intro he; exact hne ((equal_iff _ _).mpr he)
      · exact ih hr S hS

/-- the states are sets of positions of the universe, pairwise different as sets -/
structure Distinct (P : List Nat) (states : List Poses) : Prop where
  sub : ∀ S ∈ states, ∀ x ∈ S, x ∈ P
  nodup : (states.map (code P)).Nodup

theorem Distinct.length_le {P : List Nat} {states : List Poses} (h : Distinct P states) : states.length ≤ 2 ^ P.length := by
  have h1 : (states.map (code P)).length ≤ (List.range (2 ^ P.length)).length := by
    apply List.Nodup.length_le_of_subset h.nodup
    intro c hc
    obtain ⟨S, _, rfl⟩ := List.mem_map.mp hc
    exact List.mem_range.mpr (code_lt P S)
  simpa using h1

theorem Distinct.addSym {P : List Nat} {t : Tree} (hfol : ∀ p q, q ∈ t.follows.get p → q ∈ P)
    {states : List Poses} {tr : Trans} (h : Distinct P states) (S : Poses) (i : Nat) (c : Rune) :
    Distinct P (addSym t S i (states, tr) c).1 ∧ states.length ≤ (addSym t S i (states, tr) c).1.length := by
  unfold Follow.addSym
  simp only
  cases hf : findState states (stepSet t S c) with
  | some j => exact ⟨h, Nat.le_refl _⟩
  | none =>
    simp only
    have hsub : ∀ x ∈ stepSet t S c, x ∈ P := by
      intro x hx
      obtain ⟨p, _, _, hq⟩ := (mem_stepSet t S c x).mp hx
      exact hfol p x hq
    refine ⟨⟨?_, ?_⟩, by simp⟩
    · intro S' hS'
      rcases List.mem_append.mp hS' with hS' | hS'
      · exact h.sub S' hS'
      · simp only [List.mem_singleton] at hS'; subst hS'; exact hsub
    · rw [List.map_append, List.nodup_append]
      refine ⟨h.nodup, by simp, ?_⟩
      intro a ha b hb
      simp only [List.map_cons, List.map_nil, List.mem_singleton] at hb
      subst hb
      obtain ⟨S', hS', rfl⟩ := List.mem_map.mp ha
      intro he
      exact findState_none hf S' hS' (setEq_of_code P (h.sub S' hS') hsub he)

theorem Distinct.fold {P : List Nat} {t : Tree} (hfol : ∀ p q, q ∈ t.follows.get p → q ∈ P) (S : Poses) (i : Nat) :
    ∀ (cs : List Rune) (states : List Poses) (tr : Trans), Distinct P states →
      Distinct P (cs.foldl (Follow.addSym t S i) (states, tr)).1 ∧ states.length ≤ (cs.foldl (Follow.addSym t S i) (states, tr)).1.length := by
  intro cs
  induction cs with
  | nil => intro states tr h; exact ⟨h, Nat.le_refl _⟩
  | cons c cs ih =>
    intro states tr h
    rw [List.foldl_cons]
    obtain ⟨h1, l1⟩ := h.addSym hfol (tr := tr) S i c
    obtain ⟨h2, l2⟩ := ih _ (Follow.addSym t S i (states, tr) c).2 h1
    exact ⟨h2, Nat.le_trans l1 l2⟩

/-- **The loop finishes within its fuel.** -/
theorem explore_some {P : List Nat} {t : Tree} (hfol : ∀ p q, q ∈ t.follows.get p → q ∈ P) (symbols : List Rune) :
    ∀ (fuel i : Nat) (states : List Poses) (tr : Trans), Distinct P states → i ≤ states.length → 2 ^ P.length + 1 ≤ fuel + i →
      ∃ r, explore t symbols fuel i states tr = some r := by
  intro fuel
  induction fuel with
  | zero =>
    intro i states tr h hi hf
    have := h.length_le
    omega
  | succ fuel ih =>
    intro i states tr h hi hf
    simp only [explore]
    cases hS : states[i]? with
    | none => exact ⟨_, rfl⟩
    | some S =>
      simp only
      obtain ⟨h1, l1⟩ := Distinct.fold hfol S i symbols states tr h
      have hlt : i < states.length := (List.getElem?_eq_some_iff.mp hS).1
      exact ih (i + 1) _ _ h1 (by omega) (by omega)

mutual
theorem length_poses : (n : Node) → (poses n).length = (leaves n).length
  | .concat xs => by simp only [poses, leaves]; exact length_posesList xs
  | .alt xs => by simp only [poses, leaves]; exact length_posesList xs
  | .star x => by simp only [poses, leaves]; exact length_poses x
  | .empty => rfl
  | .char _ _ => rfl
theorem length_posesList : (xs : List Node) → (posesList xs).length = (leavesList xs).length
  | [] => rfl
  | x :: xs => by simp only [posesList, leavesList, List.length_append, length_poses x, length_posesList xs]
end

/-- **`ToDFA` always returns an automaton** for the tree `ast.Parse` builds (the model never runs out of fuel). -/
theorem toDFA_some {t : Tree} {r : Node} {mk : Rune} (h : Marked t r mk) : ∃ d, toDFA? t = some d := by
  have hfol : ∀ p q, q ∈ t.follows.get p → q ∈ poses t.root := by
    intro p q hq
    rw [h.fol] at hq
    exact (Fol_sub t.root p q (computed_follow_is_Fol t.root p q hq)).2
  have hd : Distinct (poses t.root) [t.root.firstPos] :=
    ⟨by intro S hS x hx; simp only [List.mem_singleton] at hS; subst hS; exact first_sub t.root x hx, by simp⟩
  have hlen : (poses t.root).length = t.posChar.length := by rw [h.pc]; exact length_poses t.root
  obtain ⟨r', hr'⟩ := explore_some hfol (symbolsOf t) (dfaFuel t) 0 [t.root.firstPos] [] hd (by simp)
    (by unfold dfaFuel; rw [hlen]; omega)
  exact ⟨⟨r'.1, r'.2⟩, by unfold toDFA?; rw [hr']; rfl⟩

end Emerge.Props.C10
