import Emerge.Proofs.Follow
/-
  The other half of the correctness of the followpos sets: in a tree whose leaves carry distinct positions, every path
  through the position automaton (start in `firstPos`, step along the computed follow sets, end in `lastPos`, every
  element a leaf) is a marked word of the tree - the automaton accepts no string outside the language.
-/
namespace Emerge.Props.C10
open Emerge Emerge.Regex Emerge.Regex.Follow

/-! ### the follow relation, declaratively, and that `computeFollows` adds nothing else -/

/-- a pair crossing from an operand of a concatenation into a later one, the operands between being nullable -/
def Cross (xs : List Node) (p q : Nat) : Prop :=
  ∃ a x pre y post, xs = a ++ x :: (pre ++ y :: post) ∧ allNullable pre = true ∧ p ∈ x.lastPos ∧ q ∈ y.firstPos

mutual
def Fol : Node → Nat → Nat → Prop
  | .concat xs, p, q => FolList xs p q ∨ Cross xs p q
  | .alt xs, p, q => FolList xs p q
  | .star x, p, q => Fol x p q ∨ (p ∈ x.lastPos ∧ q ∈ x.firstPos)
  | .empty, _, _ => False
  | .char _ _, _, _ => False
def FolList : List Node → Nat → Nat → Prop
  | [], _, _ => False
  | x :: xs, p, q => Fol x p q ∨ FolList xs p q
end

theorem foldl_update_only (g : Poses → Poses) (F : Poses) (hg : ∀ cur q, q ∈ g cur → q ∈ cur ∨ q ∈ F) :
    ∀ (ps : List Nat) (m : FollowMap) (p q : Nat),
      q ∈ (ps.foldl (fun acc p => acc.update p g) m).get p → q ∈ m.get p ∨ (p ∈ ps ∧ q ∈ F) := by
  intro ps
  induction ps with
  | nil => intro m p q h; exact Or.inl h
  | cons a ps ih =>
    intro m p q h
    rw [List.foldl_cons] at h
    rcases ih (m.update a g) p q h with h | ⟨hp, hq⟩
    · rw [get_update] at h
      split at h
      · rename_i e
        subst e
        rcases hg _ _ h with h | h
        · exact Or.inl h
        · exact Or.inr ⟨List.mem_cons_self, h⟩
      · exact Or.inl h
    · exact Or.inr ⟨List.mem_cons_of_mem _ hp, hq⟩

theorem followsOfOperand_only (x : Node) : ∀ (ys : List Node) (m : FollowMap) (p q : Nat),
    q ∈ (followsOfOperand m x ys).get p → q ∈ m.get p ∨
      ∃ pre y post, ys = pre ++ y :: post ∧ allNullable pre = true ∧ p ∈ x.lastPos ∧ q ∈ y.firstPos := by
  intro ys
  induction ys with
  | nil => intro m p q h; exact Or.inl h
  | cons y0 ys ih =>
    intro m p q h
    simp only [followsOfOperand] at h
    have only := foldl_update_only (fun cur => Poses.union cur y0.firstPos) y0.firstPos
      (fun cur q h => (mem_union cur y0.firstPos q).mp h) x.lastPos m
    split at h
    · rename_i hn
      rcases ih _ p q h with h | ⟨pre, y, post, e, hpre, hp, hq⟩
      · rcases only p q h with h | ⟨hp, hq⟩
        · exact Or.inl h
        · exact Or.inr ⟨[], y0, ys, rfl, rfl, hp, hq⟩
      · exact Or.inr ⟨y0 :: pre, y, post, by rw [e]; rfl, by simp [allNullable, hn, hpre], hp, hq⟩
    · rcases only p q h with h | ⟨hp, hq⟩
      · exact Or.inl h
      · exact Or.inr ⟨[], y0, ys, rfl, rfl, hp, hq⟩

theorem concatPairs_only : ∀ (xs : List Node) (m : FollowMap) (p q : Nat),
    q ∈ (concatPairs m xs).get p → q ∈ m.get p ∨ Cross xs p q := by
  intro xs
  induction xs with
  | nil => intro m p q h; exact Or.inl h
  | cons x xs ih =>
    intro m p q h
    simp only [concatPairs] at h
    rcases ih _ p q h with h | ⟨a, x', pre, y, post, e, hn, hp, hq⟩
    · rcases followsOfOperand_only x xs m p q h with h | ⟨pre, y, post, e, hn, hp, hq⟩
      · exact Or.inl h
      · exact Or.inr ⟨[], x, pre, y, post, by rw [e]; rfl, hn, hp, hq⟩
    · exact Or.inr ⟨x :: a, x', pre, y, post, by rw [e]; rfl, hn, hp, hq⟩

mutual
/-- `computeFollows` adds nothing but the pairs of the follow relation -/
theorem computeFollows_only : (n : Node) → (M : FollowMap) → (p q : Nat) →
    q ∈ (computeFollows M n).get p → q ∈ M.get p ∨ Fol n p q
  | .concat xs, M, p, q, h => by
    simp only [computeFollows] at h
    simp only [Fol]
    rcases followsList_only xs _ p q h with h | h
    · rcases concatPairs_only xs M p q h with h | h
      · exact Or.inl h
      · exact Or.inr (Or.inr h)
    · exact Or.inr (Or.inl h)
  | .alt xs, M, p, q, h => by
    simp only [computeFollows] at h
    simp only [Fol]
    exact followsList_only xs M p q h
  | .star x, M, p, q, h => by
    simp only [computeFollows] at h
    simp only [Fol]
    rcases computeFollows_only x _ p q h with h | h
    · rcases foldl_update_only (fun cur => cur ++ x.firstPos) x.firstPos (fun cur q h => List.mem_append.mp h)
          x.lastPos M p q h with h | ⟨hp, hq⟩
      · exact Or.inl h
      · exact Or.inr (Or.inr ⟨hp, hq⟩)
    · exact Or.inr (Or.inl h)
  | .empty, M, p, q, h => by simp only [computeFollows] at h; exact Or.inl h
  | .char _ _, M, p, q, h => by simp only [computeFollows] at h; exact Or.inl h
theorem followsList_only : (xs : List Node) → (M : FollowMap) → (p q : Nat) →
    q ∈ (followsList M xs).get p → q ∈ M.get p ∨ FolList xs p q
  | [], M, p, q, h => by simp only [followsList] at h; exact Or.inl h
  | x :: xs, M, p, q, h => by
    simp only [followsList] at h
    simp only [FolList]
    rcases followsList_only xs _ p q h with h | h
    · rcases computeFollows_only x M p q h with h | h
      · exact Or.inl h
      · exact Or.inr (Or.inl h)
    · exact Or.inr (Or.inr h)
end

theorem get_nil (p : Nat) : FollowMap.get [] p = [] := rfl

/-- from the empty map: exactly the follow relation (with `follow_sound`'s direction: the sets are exact) -/
theorem computed_follow_is_Fol (n : Node) (p q : Nat) (h : q ∈ (computeFollows [] n).get p) : Fol n p q := by
  rcases computeFollows_only n [] p q h with h | h
  · simp [get_nil] at h
  · exact h

/-! ### positions of a tree; trees with distinct positions -/

mutual
def poses : Node → List Nat
  | .concat xs => posesList xs
  | .alt xs => posesList xs
  | .star x => poses x
  | .empty => []
  | .char _ p => [p]
def posesList : List Node → List Nat
  | [] => []
  | x :: xs => poses x ++ posesList xs
end

mutual
/-- every leaf carries a position of its own -/
def Lin : Node → Prop
  | .concat xs => LinList xs
  | .alt xs => LinList xs
  | .star x => Lin x
  | .empty => True
  | .char _ _ => True
def LinList : List Node → Prop
  | [] => True
  | x :: xs => Lin x ∧ (∀ p, p ∈ poses x → p ∉ posesList xs) ∧ LinList xs
end

mutual
theorem leaves_poses : (n : Node) → (a : Nat × Rune) → a ∈ leaves n → a.1 ∈ poses n
  | .concat xs, a, h => by simp only [leaves] at h; simp only [poses]; exact leavesList_poses xs a h
  | .alt xs, a, h => by simp only [leaves] at h; simp only [poses]; exact leavesList_poses xs a h
  | .star x, a, h => by simp only [leaves] at h; simp only [poses]; exact leaves_poses x a h
  | .empty, a, h => by simp [leaves] at h
  | .char c p, a, h => by simp only [leaves, List.mem_singleton] at h; subst h; simp [poses]
theorem leavesList_poses : (xs : List Node) → (a : Nat × Rune) → a ∈ leavesList xs → a.1 ∈ posesList xs
  | [], a, h => by simp [leavesList] at h
  | x :: xs, a, h => by
    simp only [leavesList, List.mem_append] at h
    simp only [posesList, List.mem_append]
    rcases h with h | h
    · exact Or.inl (leaves_poses x a h)
    · exact Or.inr (leavesList_poses xs a h)
end

mutual
theorem first_sub : (n : Node) → (p : Nat) → p ∈ n.firstPos → p ∈ poses n
  | .concat xs, p, h => by simp only [Node.firstPos] at h; simp only [poses]; exact firstConcat_sub xs p h
  | .alt xs, p, h => by simp only [Node.firstPos] at h; simp only [poses]; exact firstAlt_sub xs p h
  | .star x, p, h => by simp only [Node.firstPos] at h; simp only [poses]; exact first_sub x p h
  | .empty, p, h => by simp [Node.firstPos] at h
  | .char c p0, p, h => by simpa [Node.firstPos, poses] using h
theorem firstConcat_sub : (xs : List Node) → (p : Nat) → p ∈ firstConcat xs → p ∈ posesList xs
  | [], p, h => by simp [firstConcat] at h
  | x :: xs, p, h => by
    simp only [firstConcat] at h
    simp only [posesList, List.mem_append]
    split at h
    · rcases List.mem_append.mp h with h | h
      · exact Or.inl (first_sub x p h)
      · exact Or.inr (firstConcat_sub xs p h)
    · exact Or.inl (first_sub x p h)
theorem firstAlt_sub : (xs : List Node) → (p : Nat) → p ∈ firstAlt xs → p ∈ posesList xs
  | [], p, h => by simp [firstAlt] at h
  | x :: xs, p, h => by
    simp only [firstAlt, List.mem_append] at h
    simp only [posesList, List.mem_append]
    rcases h with h | h
    · exact Or.inl (first_sub x p h)
    · exact Or.inr (firstAlt_sub xs p h)
end

mutual
theorem last_sub : (n : Node) → (p : Nat) → p ∈ n.lastPos → p ∈ poses n
  | .concat xs, p, h => by simp only [Node.lastPos] at h; simp only [poses]; exact lastConcat_sub xs p h
  | .alt xs, p, h => by simp only [Node.lastPos] at h; simp only [poses]; exact lastAlt_sub xs p h
  | .star x, p, h => by simp only [Node.lastPos] at h; simp only [poses]; exact last_sub x p h
  | .empty, p, h => by simp [Node.lastPos] at h
  | .char c p0, p, h => by simpa [Node.lastPos, poses] using h
theorem lastConcat_sub : (xs : List Node) → (p : Nat) → p ∈ lastConcat xs → p ∈ posesList xs
  | [], p, h => by simp [lastConcat] at h
  | x :: xs, p, h => by
    simp only [lastConcat] at h
    simp only [posesList, List.mem_append]
    split at h
    · rcases List.mem_append.mp h with h | h
      · exact Or.inl (last_sub x p h)
      · exact Or.inr (lastConcat_sub xs p h)
    · exact Or.inr (lastConcat_sub xs p h)
theorem lastAlt_sub : (xs : List Node) → (p : Nat) → p ∈ lastAlt xs → p ∈ posesList xs
  | [], p, h => by simp [lastAlt] at h
  | x :: xs, p, h => by
    simp only [lastAlt, List.mem_append] at h
    simp only [posesList, List.mem_append]
    rcases h with h | h
    · exact Or.inl (last_sub x p h)
    · exact Or.inr (lastAlt_sub xs p h)
end

theorem mem_posesList_of_mem {x : Node} {xs : List Node} (hx : x ∈ xs) {p : Nat} (hp : p ∈ poses x) : p ∈ posesList xs := by
  induction xs with
  | nil => simp at hx
  | cons y ys ih =>
    simp only [posesList, List.mem_append]
    rcases List.mem_cons.mp hx with rfl | hx
    · exact Or.inl hp
    · exact Or.inr (ih hx)

theorem Cross_sub {xs : List Node} {p q : Nat} (h : Cross xs p q) : p ∈ posesList xs ∧ q ∈ posesList xs := by
  obtain ⟨a, x, pre, y, post, e, _, hp, hq⟩ := h
  subst e
  exact ⟨mem_posesList_of_mem (by simp) (last_sub x p hp), mem_posesList_of_mem (by simp) (first_sub y q hq)⟩

mutual
theorem Fol_sub : (n : Node) → (p q : Nat) → Fol n p q → p ∈ poses n ∧ q ∈ poses n
  | .concat xs, p, q, h => by
    simp only [Fol] at h; simp only [poses]
    rcases h with h | h
    · exact FolList_sub xs p q h
    · exact Cross_sub h
  | .alt xs, p, q, h => by simp only [Fol] at h; simp only [poses]; exact FolList_sub xs p q h
  | .star x, p, q, h => by
    simp only [Fol] at h; simp only [poses]
    rcases h with h | ⟨hp, hq⟩
    · exact Fol_sub x p q h
    · exact ⟨last_sub x p hp, first_sub x q hq⟩
  | .empty, p, q, h => by simp [Fol] at h
  | .char _ _, p, q, h => by simp [Fol] at h
theorem FolList_sub : (xs : List Node) → (p q : Nat) → FolList xs p q → p ∈ posesList xs ∧ q ∈ posesList xs
  | [], p, q, h => by simp [FolList] at h
  | x :: xs, p, q, h => by
    simp only [FolList] at h
    simp only [posesList, List.mem_append]
    rcases h with h | h
    · exact ⟨Or.inl (Fol_sub x p q h).1, Or.inl (Fol_sub x p q h).2⟩
    · exact ⟨Or.inr (FolList_sub xs p q h).1, Or.inr (FolList_sub xs p q h).2⟩
end

/-! ### paths -/

/-- a non-empty sequence of leaves that starts in `first`, ends in `last` and steps along `R` -/
structure IsPath (first last : Poses) (R : Nat → Nat → Prop) (lv : List (Nat × Rune)) (m : MWord) : Prop where
  ne : m ≠ []
  hd : ∀ a rest, m = a :: rest → a.1 ∈ first
  lt : ∀ init a, m = init ++ [a] → a.1 ∈ last
  adj : ∀ p q, Adj m p q → R p q
  lvs : ∀ a, a ∈ m → a ∈ lv

theorem adj_left {u : MWord} (v : MWord) {p q : Nat} (h : Adj u p q) : Adj (u ++ v) p q := by
  obtain ⟨a, b, c, d, e⟩ := h
  exact ⟨a, b ++ v, c, d, by rw [e]; simp⟩

theorem adj_right (u : MWord) {v : MWord} {p q : Nat} (h : Adj v p q) : Adj (u ++ v) p q := by
  obtain ⟨a, b, c, d, e⟩ := h
  exact ⟨u ++ a, b, c, d, by rw [e]; simp⟩

theorem adj_cross (u v : MWord) (p q : Nat) (c d : Rune) : Adj ((u ++ [(p, c)]) ++ (q, d) :: v) p q :=
  ⟨u, v, c, d, by simp⟩

theorem not_adj_single (a : Nat × Rune) (p q : Nat) : ¬ Adj [a] p q := by
  rintro ⟨u, v, c, d, e⟩
  cases u with
  | nil => simp at e
  | cons z u' => cases u' <;> simp at e

theorem not_adj_nil (p q : Nat) : ¬ Adj [] p q := by
  rintro ⟨u, v, c, d, e⟩
  cases u <;> simp at e

/-- a walk that starts in a set closed under its steps stays in it -/
theorem walk_closed (S : Nat → Prop) : ∀ (m : MWord), (∀ a rest, m = a :: rest → S a.1) →
    (∀ p q, Adj m p q → S p → S q) → ∀ a, a ∈ m → S a.1 := by
  intro m
  induction m with
  | nil => intro _ _ a h; simp at h
  | cons x m ih =>
    intro hhd hstep a ha
    have hx : S x.1 := hhd x m rfl
    rcases List.mem_cons.mp ha with rfl | ha
    · exact hx
    · apply ih _ _ a ha
      · intro b rest e
        subst e
        exact hstep x.1 b.1 ⟨[], rest, x.2, b.2, rfl⟩ hx
      · intro p q hadj hp
        exact hstep p q (adj_right [x] hadj) hp

/-! ### the star: cutting a path into iterations -/

theorem star_local (x : Node)
    (hx : ∀ m, IsPath x.firstPos x.lastPos (Fol x) (leaves x) m → Node.mlang x m) :
    ∀ (v u : MWord), u ≠ [] → (∀ a rest, u = a :: rest → a.1 ∈ x.firstPos) → (∀ p q, Adj u p q → Fol x p q) →
      IsPath x.firstPos x.lastPos (fun p q => Fol x p q ∨ (p ∈ x.lastPos ∧ q ∈ x.firstPos)) (leaves x) (u ++ v) →
      MStar (Node.mlang x) (u ++ v) := by
  intro v
  induction v with
  | nil =>
    intro u hne hhd hadj hp
    have hp' : IsPath x.firstPos x.lastPos (fun p q => Fol x p q ∨ (p ∈ x.lastPos ∧ q ∈ x.firstPos)) (leaves x) u := by
      simpa using hp
    have : Node.mlang x u := hx u ⟨hne, hhd, hp'.lt, hadj, hp'.lvs⟩
    simpa using MStar.app u [] this MStar.nil
  | cons b v ih =>
    intro u hne hhd hadj hp
    obtain ⟨u0, a, rfl⟩ : ∃ u0 a, u = u0 ++ [a] := by
      rcases List.eq_nil_or_concat u with h | ⟨u0, a, h⟩
      · exact absurd h hne
      · exact ⟨u0, a, by rw [h, List.concat_eq_append]⟩
    have hpair := hp.adj a.1 b.1 (by
      have := adj_cross u0 v a.1 b.1 a.2 b.2
      simpa using this)
    by_cases hF : Fol x a.1 b.1
    · -- the step stays inside the iteration: extend it
      have e : (u0 ++ [a]) ++ b :: v = ((u0 ++ [a]) ++ [b]) ++ v := by simp
      rw [e]
      apply ih ((u0 ++ [a]) ++ [b]) (by simp)
      · intro a' rest h
        cases u0 with
        | nil => simp at h; exact hhd a' [] (by simp [h.1])
        | cons z u1 =>
          simp at h
          exact hhd a' (u1 ++ [a]) (by simp [h.1])
      · intro p q h
        rcases adj_append h with h1 | h2 | ⟨u', c, v', d, eu, ev⟩
        · exact hadj p q h1
        · exact absurd h2 (not_adj_single b p q)
        · have hb : b = (q, d) := by simp at ev; exact ev.1
          have ha : a = (p, c) := by
            have := List.append_inj' eu rfl
            simpa using this.2
          rw [ha] at hF; rw [hb] at hF; exact hF
      · rw [← e]; exact hp
    · -- the step starts a new iteration
      rcases hpair with h | ⟨hla, hfb⟩
      · exact absurd h hF
      · have hu : Node.mlang x (u0 ++ [a]) := hx _ ⟨hne, hhd, by
            intro init a' h
            have := List.append_inj' h rfl
            have : a = a' := by simpa using this.2
            rw [← this]; exact hla, hadj, fun a' ha' => hp.lvs a' (List.mem_append_left _ ha')⟩
        have hrest : MStar (Node.mlang x) ([b] ++ v) := by
          apply ih [b] (by simp)
          · intro a' rest h; simp at h; rw [← h.1]; exact hfb
          · intro p q h; exact absurd h (not_adj_single b p q)
          · refine ⟨by simp, ?_, ?_, ?_, ?_⟩
            · intro a' rest h; simp at h; rw [← h.1]; exact hfb
            · intro init a' h
              exact hp.lt ((u0 ++ [a]) ++ init) a' (by
                have h' : b :: v = init ++ [a'] := by simpa using h
                rw [h']; simp)
            · intro p q h
              exact hp.adj p q (by
                have := adj_right (u0 ++ [a]) h
                simpa using this)
            · intro a' ha'
              exact hp.lvs a' (List.mem_append_right _ (by simpa using ha'))
        simpa using MStar.app (u0 ++ [a]) ([b] ++ v) hu hrest

/-! ### helper facts about one operand `x` and the rest of the list, their positions being disjoint -/

section operand
variable {x : Node} {rest : List Node} (D : ∀ p, p ∈ poses x → p ∉ posesList rest)
include D

theorem not_rest_of_x {p : Nat} (h : p ∈ poses x) : p ∉ posesList rest := D p h
theorem not_x_of_rest {p : Nat} (h : p ∈ posesList rest) : p ∉ poses x := fun hx => D p hx h

theorem R_x {p q : Nat} (hp : p ∈ poses x) (hq : q ∈ poses x)
    (h : FolList (x :: rest) p q ∨ Cross (x :: rest) p q) : Fol x p q := by
  rcases h with h | ⟨a, x', pre, y, post, e, _, hlp, hfq⟩
  · simp only [FolList] at h
    rcases h with h | h
    · exact h
    · exact absurd (FolList_sub rest p q h).1 (D p hp)
  · cases a with
    | nil =>
      simp only [List.nil_append, List.cons.injEq] at e
      obtain ⟨rfl, e2⟩ := e
      exact absurd (mem_posesList_of_mem (by rw [e2]; simp) (first_sub y q hfq)) (D q hq)
    | cons z a' =>
      simp only [List.cons_append, List.cons.injEq] at e
      obtain ⟨rfl, e2⟩ := e
      exact absurd (mem_posesList_of_mem (by rw [e2]; simp) (last_sub x' p hlp)) (D p hp)

theorem R_rest {p q : Nat} (hp : p ∈ posesList rest)
    (h : FolList (x :: rest) p q ∨ Cross (x :: rest) p q) : (FolList rest p q ∨ Cross rest p q) ∧ q ∈ posesList rest := by
  rcases h with h | ⟨a, x', pre, y, post, e, hn, hlp, hfq⟩
  · simp only [FolList] at h
    rcases h with h | h
    · exact absurd (Fol_sub x p q h).1 (not_x_of_rest D hp)
    · exact ⟨Or.inl h, (FolList_sub rest p q h).2⟩
  · cases a with
    | nil =>
      simp only [List.nil_append, List.cons.injEq] at e
      obtain ⟨rfl, _⟩ := e
      exact absurd (last_sub x p hlp) (not_x_of_rest D hp)
    | cons z a' =>
      simp only [List.cons_append, List.cons.injEq] at e
      obtain ⟨rfl, e2⟩ := e
      have hc : Cross rest p q := ⟨a', x', pre, y, post, e2, hn, hlp, hfq⟩
      exact ⟨Or.inr hc, (Cross_sub hc).2⟩

theorem firstConcat_of_split : ∀ {ys pre : List Node} {y : Node} {post : List Node} {q : Nat},
    ys = pre ++ y :: post → allNullable pre = true → q ∈ y.firstPos → q ∈ firstConcat ys := by
  intro ys pre
  induction pre generalizing ys with
  | nil => intro y post q e _ hq; subst e; exact mem_firstConcat_of_head hq
  | cons z pre ih =>
    intro y post q e hn hq
    subst e
    simp only [allNullable, Bool.and_eq_true] at hn
    exact mem_firstConcat_of_tail hn.1 (ih rfl hn.2 hq)

theorem R_cross {p q : Nat} (hp : p ∈ poses x) (hq : q ∈ posesList rest)
    (h : FolList (x :: rest) p q ∨ Cross (x :: rest) p q) : p ∈ x.lastPos ∧ q ∈ firstConcat rest := by
  rcases h with h | ⟨a, x', pre, y, post, e, hn, hlp, hfq⟩
  · simp only [FolList] at h
    rcases h with h | h
    · exact absurd (Fol_sub x p q h).2 (not_x_of_rest D hq)
    · exact absurd (FolList_sub rest p q h).1 (D p hp)
  · cases a with
    | nil =>
      simp only [List.nil_append, List.cons.injEq] at e
      obtain ⟨rfl, e2⟩ := e
      exact ⟨hlp, firstConcat_of_split D e2 hn hfq⟩
    | cons z a' =>
      simp only [List.cons_append, List.cons.injEq] at e
      obtain ⟨rfl, e2⟩ := e
      exact absurd (mem_posesList_of_mem (by rw [e2]; simp) (last_sub x' p hlp)) (D p hp)

theorem first_x {p : Nat} (hp : p ∈ poses x) (h : p ∈ firstConcat (x :: rest)) : p ∈ x.firstPos := by
  simp only [firstConcat] at h
  split at h
  · rcases List.mem_append.mp h with h | h
    · exact h
    · exact absurd (firstConcat_sub rest p h) (D p hp)
  · exact h

theorem first_rest {p : Nat} (hp : p ∈ posesList rest) (h : p ∈ firstConcat (x :: rest)) :
    x.nullable = true ∧ p ∈ firstConcat rest := by
  simp only [firstConcat] at h
  split at h
  · rename_i hn
    rcases List.mem_append.mp h with h | h
    · exact absurd (first_sub x p h) (not_x_of_rest D hp)
    · exact ⟨hn, h⟩
  · exact absurd (first_sub x p h) (not_x_of_rest D hp)

theorem last_x {p : Nat} (hp : p ∈ poses x) (h : p ∈ lastConcat (x :: rest)) : allNullable rest = true ∧ p ∈ x.lastPos := by
  simp only [lastConcat] at h
  split at h
  · rename_i hn
    rcases List.mem_append.mp h with h | h
    · exact ⟨hn, h⟩
    · exact absurd (lastConcat_sub rest p h) (D p hp)
  · exact absurd (lastConcat_sub rest p h) (D p hp)

theorem last_rest {p : Nat} (hp : p ∈ posesList rest) (h : p ∈ lastConcat (x :: rest)) : p ∈ lastConcat rest := by
  simp only [lastConcat] at h
  split at h
  · rcases List.mem_append.mp h with h | h
    · exact absurd (last_sub x p h) (not_x_of_rest D hp)
    · exact h
  · exact h

theorem leaf_x {a : Nat × Rune} (hp : a.1 ∈ poses x) (h : a ∈ leavesList (x :: rest)) : a ∈ leaves x := by
  simp only [leavesList, List.mem_append] at h
  rcases h with h | h
  · exact h
  · exact absurd (leavesList_poses rest a h) (D a.1 hp)

theorem leaf_rest {a : Nat × Rune} (hp : a.1 ∈ posesList rest) (h : a ∈ leavesList (x :: rest)) : a ∈ leavesList rest := by
  simp only [leavesList, List.mem_append] at h
  rcases h with h | h
  · exact absurd (leaves_poses x a h) (not_x_of_rest D hp)
  · exact h

end operand

/-- split a sequence where it first leaves a set -/
theorem split_leave (P : Nat × Rune → Prop) [DecidablePred P] : ∀ (m : MWord),
    ∃ u v, m = u ++ v ∧ (∀ a, a ∈ u → P a) ∧ (∀ b rest, v = b :: rest → ¬ P b) := by
  intro m
  induction m with
  | nil => exact ⟨[], [], rfl, fun _ h => by simp at h, fun _ _ h => by simp at h⟩
  | cons x m ih =>
    by_cases hx : P x
    · obtain ⟨u, v, e, hu, hv⟩ := ih
      exact ⟨x :: u, v, by rw [e]; rfl, fun a ha => by
        rcases List.mem_cons.mp ha with rfl | ha
        · exact hx
        · exact hu a ha, hv⟩
    · exact ⟨[], x :: m, rfl, fun _ h => by simp at h, fun b rest h => by
        simp only [List.cons.injEq] at h; rw [← h.1]; exact hx⟩

/-- the node-level statement the list-level lemmas are given for their operands -/
def LocalAt (x : Node) : Prop := ∀ m, IsPath x.firstPos x.lastPos (Fol x) (leaves x) m → Node.mlang x m

/-! ### alternation: a path stays inside the operand it starts in -/

theorem alt_local : ∀ (xs : List Node), LinList xs → (∀ x, x ∈ xs → LocalAt x) →
    ∀ m, IsPath (firstAlt xs) (lastAlt xs) (FolList xs) (leavesList xs) m → mlangAlt xs m := by
  intro xs
  induction xs with
  | nil =>
    intro _ _ m hp
    obtain ⟨a, rest, e⟩ := List.exists_cons_of_ne_nil hp.ne
    have := hp.hd a rest e
    simp [firstAlt] at this
  | cons x rest ih =>
    intro hlin hloc m hp
    obtain ⟨hlx, D, hlr⟩ := hlin
    obtain ⟨a, tl, e⟩ := List.exists_cons_of_ne_nil hp.ne
    have hhd := hp.hd a tl e
    simp only [firstAlt, List.mem_append] at hhd
    simp only [mlangAlt]
    rcases hhd with hhd | hhd
    · -- the path starts in x: it stays there
      left
      have hin : ∀ b, b ∈ m → b.1 ∈ poses x := by
        apply walk_closed (fun p => p ∈ poses x) m
        · intro b rest' e'
          rw [e] at e'
          simp only [List.cons.injEq] at e'
          rw [← e'.1]
          exact first_sub x a.1 hhd
        · intro p q hadj hpx
          have h := hp.adj p q hadj
          simp only [FolList] at h
          rcases h with h | h
          · exact (Fol_sub x p q h).2
          · exact absurd (FolList_sub rest p q h).1 (D p hpx)
      apply hloc x List.mem_cons_self m
      refine ⟨hp.ne, ?_, ?_, ?_, ?_⟩
      · intro b rest' e'
        rw [e] at e'
        simp only [List.cons.injEq] at e'
        rw [← e'.1]; exact hhd
      · intro init b e'
        have hl := hp.lt init b e'
        simp only [lastAlt, List.mem_append] at hl
        rcases hl with hl | hl
        · exact hl
        · exact absurd (lastAlt_sub rest b.1 hl) (D b.1 (hin b (by rw [e']; simp)))
      · intro p q hadj
        have h := hp.adj p q hadj
        simp only [FolList] at h
        rcases h with h | h
        · exact h
        · obtain ⟨u, v, c, d, em⟩ := hadj
          exact absurd (FolList_sub rest p q h).1 (D p (hin (p, c) (by rw [em]; simp)))
      · intro b hb
        exact leaf_x D (hin b hb) (hp.lvs b hb)
    · -- the path starts in the rest
      right
      have hin : ∀ b, b ∈ m → b.1 ∈ posesList rest := by
        apply walk_closed (fun p => p ∈ posesList rest) m
        · intro b rest' e'
          rw [e] at e'
          simp only [List.cons.injEq] at e'
          rw [← e'.1]
          exact firstAlt_sub rest a.1 hhd
        · intro p q hadj hpr
          have h := hp.adj p q hadj
          simp only [FolList] at h
          rcases h with h | h
          · exact absurd (Fol_sub x p q h).1 (not_x_of_rest D hpr)
          · exact (FolList_sub rest p q h).2
      apply ih hlr (fun y hy => hloc y (List.mem_cons_of_mem _ hy)) m
      refine ⟨hp.ne, ?_, ?_, ?_, ?_⟩
      · intro b rest' e'
        rw [e] at e'
        simp only [List.cons.injEq] at e'
        rw [← e'.1]; exact hhd
      · intro init b e'
        have hl := hp.lt init b e'
        simp only [lastAlt, List.mem_append] at hl
        rcases hl with hl | hl
        · exact absurd (last_sub x b.1 hl) (not_x_of_rest D (hin b (by rw [e']; simp)))
        · exact hl
      · intro p q hadj
        have h := hp.adj p q hadj
        simp only [FolList] at h
        rcases h with h | h
        · obtain ⟨u, v, c, d, em⟩ := hadj
          exact absurd (Fol_sub x p q h).1 (not_x_of_rest D (hin (p, c) (by rw [em]; simp)))
        · exact h
      · intro b hb
        exact leaf_rest D (hin b hb) (hp.lvs b hb)

/-! ### concatenation: a path runs through the operands from left to right -/

/-- the relation a concatenation's path steps along -/
def RCat (xs : List Node) (p q : Nat) : Prop := FolList xs p q ∨ Cross xs p q

theorem cat_local : ∀ (xs : List Node), LinList xs → (∀ x, x ∈ xs → LocalAt x) →
    ∀ m, ((m = [] ∧ allNullable xs = true) ∨ IsPath (firstConcat xs) (lastConcat xs) (RCat xs) (leavesList xs) m) →
      mlangCat xs m := by
  intro xs
  induction xs with
  | nil =>
    intro _ _ m h
    rcases h with ⟨rfl, _⟩ | hp
    · simp [mlangCat]
    · obtain ⟨a, rest, e⟩ := List.exists_cons_of_ne_nil hp.ne
      have := hp.hd a rest e
      simp [firstConcat] at this
  | cons x rest ih =>
    intro hlin hloc m h
    obtain ⟨hlx, D, hlr⟩ := hlin
    have ihr := ih hlr (fun y hy => hloc y (List.mem_cons_of_mem _ hy))
    simp only [mlangCat]
    rcases h with ⟨rfl, hn⟩ | hp
    · simp only [allNullable, Bool.and_eq_true] at hn
      exact ⟨[], [], rfl, (mlang_nil_iff x).mpr hn.1, ihr [] (Or.inl ⟨rfl, hn.2⟩)⟩
    · -- split the path where it leaves x
      obtain ⟨u, v, e, hu, hv⟩ := split_leave (fun a => a.1 ∈ poses x) m
      subst e
      -- everything after the split lies in the rest
      have hvin : ∀ b, b ∈ v → b.1 ∈ posesList rest := by
        apply walk_closed (fun p => p ∈ posesList rest) v
        · intro b tl e'
          have hb := hp.lvs b (List.mem_append_right _ (by rw [e']; simp))
          simp only [leavesList, List.mem_append] at hb
          rcases hb with hb | hb
          · exact absurd (leaves_poses x b hb) (hv b tl e')
          · exact leavesList_poses rest b hb
        · intro p q hadj hpr
          exact (R_rest D hpr (hp.adj p q (adj_right u hadj))).2
      have hadj_v : ∀ p q, Adj v p q → RCat rest p q := by
        intro p q hadj
        obtain ⟨u', v', c, d, em⟩ := hadj
        have hpr : p ∈ posesList rest := hvin (p, c) (by rw [em]; simp)
        exact (R_rest D hpr (hp.adj p q (adj_right u ⟨u', v', c, d, em⟩))).1
      have hadj_u : ∀ p q, Adj u p q → Fol x p q := by
        intro p q hadj
        obtain ⟨u', v', c, d, em⟩ := hadj
        have hpx : p ∈ poses x := hu (p, c) (by rw [em]; simp)
        have hqx : q ∈ poses x := hu (q, d) (by rw [em]; simp)
        exact R_x D hpx hqx (hp.adj p q (adj_left v ⟨u', v', c, d, em⟩))
      cases hvne : v with
      | nil =>
        -- the whole path lies in x; the rest is skipped
        subst hvne
        have hune : u ≠ [] := by simpa using hp.ne
        obtain ⟨u0, a, rfl⟩ : ∃ u0 a, u = u0 ++ [a] := by
          rcases List.eq_nil_or_concat u with h | ⟨u0, a, h⟩
          · exact absurd h hune
          · exact ⟨u0, a, by rw [h, List.concat_eq_append]⟩
        have hla := last_x D (hu a (by simp)) (hp.lt u0 a (by simp))
        refine ⟨u0 ++ [a], [], by simp, ?_, ihr [] (Or.inl ⟨rfl, hla.1⟩)⟩
        apply hloc x List.mem_cons_self
        refine ⟨hune, ?_, ?_, hadj_u, ?_⟩
        · intro b tl e'
          exact first_x D (hu b (by rw [e']; simp)) (hp.hd b (tl ++ []) (by rw [e']; simp))
        · intro init b e'
          have := List.append_inj' e' rfl
          have hb : a = b := by simpa using this.2
          rw [← hb]; exact hla.2
        · intro b hb
          exact leaf_x D (hu b hb) (hp.lvs b (List.mem_append_left _ hb))
      | cons b v' =>
        have hbr : b.1 ∈ posesList rest := hvin b (by rw [hvne]; simp)
        have hv_path_rest (hfirst : b.1 ∈ firstConcat rest) :
            IsPath (firstConcat rest) (lastConcat rest) (RCat rest) (leavesList rest) v := by
          refine ⟨by rw [hvne]; simp, ?_, ?_, hadj_v, ?_⟩
          · intro b' tl e'
            rw [hvne] at e'
            simp only [List.cons.injEq] at e'
            rw [← e'.1]; exact hfirst
          · intro init c e'
            have hc : c.1 ∈ posesList rest := hvin c (by rw [e']; simp)
            exact last_rest D hc (hp.lt (u ++ init) c (by rw [e']; simp))
          · intro c hc
            exact leaf_rest D (hvin c hc) (hp.lvs c (List.mem_append_right _ hc))
        cases hune : u with
        | nil =>
          -- x is skipped: it must be nullable
          subst hune
          have hf := first_rest D hbr (hp.hd b v' (by rw [hvne]; simp))
          exact ⟨[], v, by simp [hvne], (mlang_nil_iff x).mpr hf.1, ihr v (Or.inr (hv_path_rest hf.2))⟩
        | cons a0 u1 =>
          -- the path crosses from x into the rest
          obtain ⟨u0, a, hua⟩ : ∃ u0 a, u = u0 ++ [a] := by
            rcases List.eq_nil_or_concat u with h | ⟨u0, a, h⟩
            · rw [hune] at h; simp at h
            · exact ⟨u0, a, by rw [h, List.concat_eq_append]⟩
          have hax : a.1 ∈ poses x := hu a (by rw [hua]; simp)
          have hcross := R_cross D hax hbr (hp.adj a.1 b.1 (by
            have := adj_cross u0 v' a.1 b.1 a.2 b.2
            rw [hua, hvne]; simpa using this))
          refine ⟨u, v, by rw [hune, hvne], ?_, ihr v (Or.inr (hv_path_rest hcross.2))⟩
          apply hloc x List.mem_cons_self
          refine ⟨by rw [hune]; simp, ?_, ?_, hadj_u, ?_⟩
          · intro c tl e'
            exact first_x D (hu c (by rw [e']; simp)) (hp.hd c (tl ++ v) (by rw [e']; simp))
          · intro init c e'
            rw [hua] at e'
            have := List.append_inj' e' rfl
            have hc : a = c := by simpa using this.2
            rw [← hc]; exact hcross.1
          · intro c hc
            exact leaf_x D (hu c hc) (hp.lvs c (List.mem_append_left _ hc))

/-! ### the local-language theorem -/

theorem lin_of_mem : ∀ {xs : List Node}, LinList xs → ∀ {x : Node}, x ∈ xs → Lin x := by
  intro xs
  induction xs with
  | nil => intro _ x hx; simp at hx
  | cons y ys ih =>
    intro hl x hx
    rcases List.mem_cons.mp hx with rfl | hx
    · exact hl.1
    · exact ih hl.2.2 hx

mutual
/-- **Every path is a marked word** (trees with distinct positions) -/
theorem local_lang : (n : Node) → Lin n → LocalAt n
  | .concat xs, hl => by
    intro m hp
    simp only [Lin] at hl
    simp only [Node.mlang]
    apply cat_local xs hl (fun x hx => local_lang x (lin_of_mem hl hx)) m
    right
    exact ⟨hp.ne, by simpa [Node.firstPos] using hp.hd, by simpa [Node.lastPos] using hp.lt,
      by intro p q h; have := hp.adj p q h; simpa [Fol, RCat] using this, by simpa [leaves] using hp.lvs⟩
  | .alt xs, hl => by
    intro m hp
    simp only [Lin] at hl
    simp only [Node.mlang]
    apply alt_local xs hl (fun x hx => local_lang x (lin_of_mem hl hx)) m
    exact ⟨hp.ne, by simpa [Node.firstPos] using hp.hd, by simpa [Node.lastPos] using hp.lt,
      by intro p q h; have := hp.adj p q h; simpa [Fol] using this, by simpa [leaves] using hp.lvs⟩
  | .star x, hl => by
    intro m hp
    simp only [Lin] at hl
    simp only [Node.mlang]
    obtain ⟨a, tl, e⟩ := List.exists_cons_of_ne_nil hp.ne
    have hstar := star_local x (local_lang x hl) tl [a] (by simp)
      (by intro b r h; simp at h; rw [← h.1]; simpa [Node.firstPos] using hp.hd a tl e)
      (by intro p q h; exact absurd h (not_adj_single a p q))
      (by
        rw [show [a] ++ tl = m by rw [e]; rfl]
        exact ⟨hp.ne, by simpa [Node.firstPos] using hp.hd, by simpa [Node.lastPos] using hp.lt,
          by intro p q h; have := hp.adj p q h; simpa [Fol] using this, by simpa [leaves] using hp.lvs⟩)
    rw [e]; simpa using hstar
  | .empty, _ => by
    intro m hp
    obtain ⟨a, tl, e⟩ := List.exists_cons_of_ne_nil hp.ne
    have := hp.hd a tl e
    simp [Node.firstPos] at this
  | .char c p, _ => by
    intro m hp
    simp only [Node.mlang]
    obtain ⟨a, tl, e⟩ := List.exists_cons_of_ne_nil hp.ne
    have ha : a = (p, c) := by
      have := hp.lvs a (by rw [e]; simp)
      simpa [leaves] using this
    cases tl with
    | nil => rw [e, ha]
    | cons b tl' =>
      have := hp.adj a.1 b.1 ⟨[], tl', a.2, b.2, by rw [e]; rfl⟩
      simp [Fol] at this
end

/-! ### the position automaton accepts exactly the marked language -/

mutual
theorem mlang_leaves : (n : Node) → (m : MWord) → Node.mlang n m → ∀ a, a ∈ m → a ∈ leaves n
  | .concat xs, m, h => by simp only [Node.mlang] at h; simp only [leaves]; exact mlangCat_leaves xs m h
  | .alt xs, m, h => by simp only [Node.mlang] at h; simp only [leaves]; exact mlangAlt_leaves xs m h
  | .star x, m, h => by
    simp only [Node.mlang] at h
    simp only [leaves]
    induction h with
    | nil => intro a ha; simp at ha
    | app u v hu _ ih =>
      intro a ha
      rcases List.mem_append.mp ha with ha | ha
      · exact mlang_leaves x u hu a ha
      · exact ih a ha
  | .empty, m, h => by simp only [Node.mlang] at h; subst h; intro a ha; simp at ha
  | .char c p, m, h => by simp only [Node.mlang] at h; subst h; intro a ha; simpa [leaves] using ha
theorem mlangCat_leaves : (xs : List Node) → (m : MWord) → mlangCat xs m → ∀ a, a ∈ m → a ∈ leavesList xs
  | [], m, h => by simp only [mlangCat] at h; subst h; intro a ha; simp at ha
  | x :: xs, m, h => by
    simp only [mlangCat] at h
    obtain ⟨u, v, rfl, hu, hv⟩ := h
    intro a ha
    simp only [leavesList, List.mem_append]
    rcases List.mem_append.mp ha with ha | ha
    · exact Or.inl (mlang_leaves x u hu a ha)
    · exact Or.inr (mlangCat_leaves xs v hv a ha)
theorem mlangAlt_leaves : (xs : List Node) → (m : MWord) → mlangAlt xs m → ∀ a, a ∈ m → a ∈ leavesList xs
  | [], m, h => by simp [mlangAlt] at h
  | x :: xs, m, h => by
    simp only [mlangAlt] at h
    intro a ha
    simp only [leavesList, List.mem_append]
    rcases h with h | h
    · exact Or.inl (mlang_leaves x m h a ha)
    · exact Or.inr (mlangAlt_leaves xs m h a ha)
end

/-- a run of the position automaton the code builds: leaves only, starting in `firstPos`, stepping along the follow sets
    `computeFollows` computes from the empty map, ending in `lastPos` -/
def Accepting (n : Node) (m : MWord) : Prop :=
  IsPath n.firstPos n.lastPos (fun p q => q ∈ (computeFollows [] n).get p) (leaves n) m

/-- **The position automaton accepts exactly the language** (trees whose leaves carry distinct positions): a non-empty
    sequence of leaves is an accepting run iff it is a marked word of the tree; the empty word is in the language iff
    the tree is nullable. -/
theorem position_automaton (n : Node) (hl : Lin n) (m : MWord) (hne : m ≠ []) : Accepting n m ↔ Node.mlang n m := by
  constructor
  · intro h
    exact local_lang n hl m ⟨h.ne, h.hd, h.lt, fun p q ha => computed_follow_is_Fol n p q (h.adj p q ha), h.lvs⟩
  · intro h
    refine ⟨hne, ?_, ?_, ?_, mlang_leaves n m h⟩
    · intro a rest e; exact first_sound n a rest (e ▸ h)
    · intro init a e; exact last_sound n init a (e ▸ h)
    · intro p q ha; exact follow_sound n m h p q ha []

/-- … in terms of strings: a string is in the language of the tree iff it is empty and the tree nullable, or it is
    spelled by an accepting run -/
theorem position_automaton_lang (n : Node) (hl : Lin n) (w : List Rune) :
    Node.lang n w ↔ (w = [] ∧ n.nullable = true) ∨ ∃ m, Accepting n m ∧ m.map (·.2) = w := by
  constructor
  · intro h
    obtain ⟨m, hm, e⟩ := mlang_lift n w h
    by_cases hmn : m = []
    · subst hmn
      left
      exact ⟨by simpa using e.symm, (mlang_nil_iff n).mp hm⟩
    · right
      exact ⟨m, (position_automaton n hl m hmn).mpr hm, e⟩
  · rintro (⟨rfl, hn⟩ | ⟨m, hacc, e⟩)
    · exact (nullable_iff_lang n).mp hn
    · rw [← e]
      exact mlang_erase n m ((position_automaton n hl m hacc.ne).mp hacc)

/-! ### `indexChars` gives every leaf a position of its own -/

mutual
theorem index_range : (n : Node) → (k : Nat) →
    k ≤ (index k n).2 ∧ (∀ p, p ∈ poses (index k n).1 → k ≤ p ∧ p < (index k n).2) ∧ Lin (index k n).1
  | .concat xs, k => by
    simp only [index, poses, Lin]
    exact indexList_range xs k
  | .alt xs, k => by
    simp only [index, poses, Lin]
    exact indexList_range xs k
  | .star x, k => by
    simp only [index, poses, Lin]
    exact index_range x k
  | .empty, k => by simp [index, poses, Lin]
  | .char c p0, k => by
    simp only [index, poses, Lin, List.mem_singleton]
    exact ⟨by omega, fun p hp => by omega, trivial⟩
theorem indexList_range : (xs : List Node) → (k : Nat) →
    k ≤ (indexList k xs).2 ∧ (∀ p, p ∈ posesList (indexList k xs).1 → k ≤ p ∧ p < (indexList k xs).2) ∧
      LinList (indexList k xs).1
  | [], k => by simp [indexList, posesList, LinList]
  | x :: xs, k => by
    obtain ⟨h1, h2, h3⟩ := index_range x k
    obtain ⟨g1, g2, g3⟩ := indexList_range xs (index k x).2
    simp only [indexList, posesList, LinList, List.mem_append]
    refine ⟨by omega, ?_, h3, ?_, g3⟩
    · rintro p (hp | hp)
      · have := h2 p hp; omega
      · have := g2 p hp; omega
    · intro p hp hq
      have a := h2 p hp
      have b := g2 p hq
      omega
end

/-- the tree `ast.Parse` hands to `ToDFA` (pattern, end marker, positions assigned) has distinct positions -/
theorem build_lin (T : ClassTable) (p : Pat) : Lin (build T p).root := by
  simp only [build]
  exact (index_range _ 1).2.2

end Emerge.Props.C10
