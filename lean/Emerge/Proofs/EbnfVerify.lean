import Emerge.Ebnf
/-
  What the four checkers of the final action of `spec.Parse` decide, stated over the symbol table:
  `SymbolTable.Verify` (`ensureSingleDefs`, `ensureDistinctDefs`, `ensureStart`), the pending
  "invalid predefined regex" errors, `CFG.Verify` and `PrecedenceLevels.Verify`.

  * `TermsNodup`: one entry per terminal name — an invariant of the table under every action;
  * each checker is empty exactly when the defect it looks for is absent, and every line it prints
    names a defect that is present;
  * `WellFormed`: the conjunction, and `accept_iff_wellFormed`.
  Core Lean only.
-/
namespace Emerge.Props.C07
open Emerge Emerge.Ebnf

/-! ### one entry per terminal name -/

def TermsNodup (t : SymTab) : Prop := (t.terminals.map (·.name)).Nodup

theorem any_name_iff (l : List TermEntry) (a : String) : l.any (·.name == a) = true ↔ a ∈ l.map (·.name) := by
  simp only [List.any_eq_true, beq_iff_eq, List.mem_map]

theorem map_name_map_defs (l : List TermEntry) (f : TermEntry → TermEntry) (hf : ∀ e, (f e).name = e.name) :
    (l.map f).map (·.name) = l.map (·.name) := by
  induction l with
  | nil => rfl
  | cons e l ih => simp only [List.map_cons, hf, ih]

theorem TermsNodup.append_new {t : SymTab} (h : TermsNodup t) (e : TermEntry)
    (hn : t.terminals.any (·.name == e.name) = false) (t' : SymTab) (ht : t'.terminals = t.terminals ++ [e]) :
    TermsNodup t' := by
  unfold TermsNodup at *
  rw [ht, List.map_append, List.nodup_append]
  refine ⟨h, by simp, ?_⟩
  intro a ha b hb
  simp only [List.map_cons, List.map_nil, List.mem_singleton] at hb
  subst hb
  intro hab
  subst hab
  have := (any_name_iff t.terminals e.name).mpr ha
  rw [hn] at this
  cases this

theorem TermsNodup.addDef {t : SymTab} (h : TermsNodup t) (a : String) (d : TermDef) : TermsNodup (addDef t a d) := by
  unfold Ebnf.addDef
  split
  · unfold TermsNodup at *
    simp only
    rw [map_name_map_defs]
    · exact h
    · intro e; split <;> rfl
  · rename_i hn
    exact h.append_new ⟨a, [d]⟩ (by simpa using hn) _ rfl

theorem TermsNodup.addStringTerminal {t : SymTab} (h : TermsNodup t) (key text : String) :
    TermsNodup (addStringTerminal t key text) := by
  unfold Ebnf.addStringTerminal
  split
  · exact h
  · rename_i hn
    exact h.append_new ⟨key, _⟩ (by simpa using hn) _ rfl

theorem TermsNodup.addTokenTerminal {t : SymTab} (h : TermsNodup t) (a : String) : TermsNodup (addTokenTerminal t a) := by
  unfold Ebnf.addTokenTerminal
  split
  · exact h
  · rename_i hn
    exact h.append_new ⟨a, []⟩ (by simpa using hn) _ rfl

theorem addProduction_terminals (t : SymTab) (p : GProd) : (addProduction t p).terminals = t.terminals := by
  unfold addProduction; split <;> rfl

theorem addNonTerminal_terminals (t : SymTab) (A : String) : (addNonTerminal t A).terminals = t.terminals := by
  unfold addNonTerminal; split <;> rfl

theorem foldl_terminals {α} (f : SymTab → α → SymTab) (hf : ∀ t x, (f t x).terminals = t.terminals) (l : List α) (t : SymTab) :
    (l.foldl f t).terminals = t.terminals := by
  induction l generalizing t with
  | nil => rfl
  | cons x l ih => rw [List.foldl_cons, ih, hf]

theorem ite_fst_terminals (c : Prop) [Decidable c] (t t2 : SymTab) (x y : String) (h : t2.terminals = t.terminals) :
    (if c then (t, x) else (t2, y)).1.terminals = t.terminals := by
  split
  · rfl
  · exact h

theorem mapStringToNonTerminal_terminals (cfg : Cfg) (names : List (String × String)) (t : SymTab) (s : Strings) (sfx : String) :
    (mapStringToNonTerminal cfg names t s sfx).1.terminals = t.terminals := by
  unfold mapStringToNonTerminal
  simp only
  exact ite_fst_terminals _ _ _ _ _ rfl

theorem getName_terminals (cfg : Cfg) (names : List (String × String)) (t : SymTab) (s : Strings) (k : Kind) :
    (getName cfg names t s k).1.terminals = t.terminals := by
  unfold getName
  split
  · split
    · rfl
    · simp only [mapStringToNonTerminal_terminals]
  · simp only [mapStringToNonTerminal_terminals]

theorem closureAction_terminals (cfg : Cfg) (names : List (String × String)) (t : SymTab) (s : Strings) (k : Kind) :
    (closureAction cfg names t s k).1.terminals = t.terminals := by
  unfold closureAction
  simp only
  cases k <;> simp only [addProduction_terminals]
  all_goals (rw [foldl_terminals]; · rw [addNonTerminal_terminals, getName_terminals])
  all_goals (intro t x; simp only [addProduction_terminals])

/-- **Every action keeps one entry per terminal name.** -/
theorem TermsNodup.action {t t' : SymTab} (h : TermsNodup t) (cfg : Cfg) (file : String) (names predefs : List (String × String))
    (i : Nat) (rhs : List PVal) (v : Val) (ha : action cfg file names predefs t i rhs = .ok (t', v)) : TermsNodup t' := by
  have frame : ∀ {t'' : SymTab}, t''.terminals = t.terminals → TermsNodup t'' := by
    intro t'' e; unfold TermsNodup; rw [e]; exact h
  unfold Ebnf.action at ha
  simp only at ha
  split at ha
  all_goals first
    | (split at ha <;> first
        | (simp only [Outcome.ok.injEq, Prod.mk.injEq] at ha; obtain ⟨rfl, _⟩ := ha;
           first
             | exact h
             | exact h.addStringTerminal _ _
             | exact h.addTokenTerminal _
             | exact frame (addNonTerminal_terminals _ _)
             | exact frame (closureAction_terminals _ _ _ _ _)
             | exact frame (addProduction_terminals _ _)
             | exact frame (foldl_terminals _ addProduction_terminals _ _)
             | exact h.addDef _ _)
        | (simp only [typeErr] at ha; cases ha)
        | cases ha)
    | skip
  -- the level directives (12-14)
  iterate 3
    · split at ha
      · unfold levelAction at ha
        split at ha
        · simp only [Outcome.ok.injEq, Prod.mk.injEq] at ha; obtain ⟨rfl, _⟩ := ha; exact frame rfl
        · simp only [typeErr] at ha; cases ha
      · cases ha
  -- a predefined pattern (11)
  · split at ha
    · split at ha
      · simp only [Outcome.ok.injEq, Prod.mk.injEq] at ha; obtain ⟨rfl, _⟩ := ha; exact frame rfl
      · simp only [Outcome.ok.injEq, Prod.mk.injEq] at ha; obtain ⟨rfl, _⟩ := ha; exact h.addDef _ _
    · simp only [typeErr] at ha; cases ha
  -- the list actions (2-8)
  iterate 7
    · simp only [Outcome.ok.injEq, Prod.mk.injEq] at ha; obtain ⟨rfl, _⟩ := ha; exact h
  -- the final action (0)
  · split at ha
    · cases ha
    · split at ha
      · cases ha
      · split at ha
        · simp only [Outcome.ok.injEq, Prod.mk.injEq] at ha; obtain ⟨rfl, _⟩ := ha; exact h
        · simp only [typeErr] at ha; cases ha
  · cases ha


/-! ### the entries are visited in name order: a permutation of the table -/

theorem insertStr_perm (x : String) (l : List String) : (insertStr x l).Perm (x :: l) := by
  induction l with
  | nil => exact List.Perm.refl _
  | cons y l ih =>
    simp only [insertStr]
    split
    · exact List.Perm.refl _
    · exact ((List.Perm.cons y ih).trans (List.Perm.swap x y l))

theorem sortStr_perm (l : List String) : (sortStr l).Perm l := by
  induction l with
  | nil => exact List.Perm.refl _
  | cons x l ih =>
    show (insertStr x (sortStr l)).Perm (x :: l)
    exact (insertStr_perm x _).trans (List.Perm.cons x ih)

theorem sortStr_nil_iff (l : List String) : sortStr l = [] ↔ l = [] := by
  constructor
  · intro h; have := (sortStr_perm l).length_eq; rw [h] at this; exact List.length_eq_zero_iff.mp this.symm
  · intro h; rw [h]; rfl

theorem find_self {l : List TermEntry} (h : (l.map (·.name)).Nodup) {e : TermEntry} (he : e ∈ l) :
    l.find? (·.name == e.name) = some e := by
  induction l with
  | nil => cases he
  | cons x l ih =>
    simp only [List.map_cons, List.nodup_cons] at h
    simp only [List.find?_cons]
    rcases List.mem_cons.mp he with rfl | he'
    · simp
    · have : (x.name == e.name) = false := by
        apply Bool.eq_false_iff.mpr
        intro hx
        have := beq_iff_eq.mp hx
        exact h.1 (by rw [this]; exact List.mem_map_of_mem he')
      rw [this]
      exact ih h.2 he'

theorem filterMap_find_self (l l0 : List TermEntry) (h : ∀ e ∈ l, l0.find? (·.name == e.name) = some e) :
    (l.map (·.name)).filterMap (fun n => l0.find? (·.name == n)) = l := by
  induction l with
  | nil => rfl
  | cons x l ih =>
    simp only [List.map_cons, List.filterMap_cons]
    rw [h x (List.mem_cons_self)]
    simp only
    rw [ih (fun e he => h e (List.mem_cons_of_mem _ he))]

/-- Visiting the entries in the order of their names visits every entry exactly once. -/
theorem sortedTerminalEntries_perm {t : SymTab} (h : TermsNodup t) : (sortedTerminalEntries t).Perm t.terminals := by
  unfold sortedTerminalEntries
  simp only
  have h1 := (sortStr_perm (t.terminals.map (·.name))).filterMap (fun n => t.terminals.find? (·.name == n))
  rw [filterMap_find_self t.terminals t.terminals (fun e he => find_self h he)] at h1
  exact h1

theorem sortedTerminalEntries_sub (t : SymTab) {e : TermEntry} (he : e ∈ sortedTerminalEntries t) : e ∈ t.terminals := by
  unfold sortedTerminalEntries at he
  simp only [List.mem_filterMap] at he
  obtain ⟨n, _, hf⟩ := he
  exact List.mem_of_find?_eq_some hf

/-! ### `ensureSingleDefs` -/

/-- Every line names a terminal of the table that has no definition, or more than one. -/
theorem ensureSingleDefs_sound (file : String) (t : SymTab) (m : String) (hm : m ∈ ensureSingleDefs file t) :
    ∃ e ∈ t.terminals,
      (e.defs.length = 0 ∧ m = "no definition for terminal " ++ goQuote e.name) ∨
      (1 < e.defs.length ∧ m = "multiple definitions for terminal " ++ goQuote e.name ++ ":\n" ++
          "\n".intercalate (e.defs.map fun d => "  " ++ posText file d.pos)) := by
  unfold ensureSingleDefs at hm
  simp only [List.mem_flatMap] at hm
  obtain ⟨e, he, hm⟩ := hm
  refine ⟨e, sortedTerminalEntries_sub t he, ?_⟩
  split at hm
  · rename_i h0
    simp only [List.mem_singleton] at hm
    exact Or.inl ⟨by simpa using h0, hm⟩
  · split at hm
    · rename_i h1
      simp only [List.mem_singleton] at hm
      exact Or.inr ⟨by simpa using h1, hm⟩
    · cases hm

/-- No line exactly when every terminal of the table has exactly one definition. -/
theorem ensureSingleDefs_nil_iff (file : String) {t : SymTab} (h : TermsNodup t) :
    ensureSingleDefs file t = [] ↔ ∀ e ∈ t.terminals, e.defs.length = 1 := by
  unfold ensureSingleDefs
  simp only [List.flatMap_eq_nil_iff]
  have hp := sortedTerminalEntries_perm h
  constructor
  · intro hall e he
    have := hall e (hp.mem_iff.mpr he)
    split at this
    · cases this
    · split at this
      · cases this
      · rename_i h0 h1
        simp only [beq_iff_eq] at h0
        simp only [gt_iff_lt, decide_eq_true_eq] at h1
        omega
  · intro hall e he
    have := hall e (hp.mem_iff.mp he)
    simp [this]

/-! ### `ensureDistinctDefs` -/

def single (e : TermEntry) : Option TermDef := match e.defs with | [d] => some d | _ => none

/-- the definitions of the terminals that have exactly one, in table order -/
def singleDefs (t : SymTab) : List TermDef := t.terminals.filterMap single

theorem values_mem (l : List TermDef) (acc : List String) (v : String) :
    v ∈ l.foldl (fun acc d => if acc.contains d.value then acc else acc ++ [d.value]) acc ↔ v ∈ acc ∨ ∃ d ∈ l, d.value = v := by
  induction l generalizing acc with
  | nil => simp
  | cons d l ih =>
    rw [List.foldl_cons, ih]
    cases hc : acc.contains d.value
    case true =>
      simp only [if_true, List.mem_cons]
      constructor
      · rintro (h | ⟨d', hd', e⟩)
        · exact Or.inl h
        · exact Or.inr ⟨d', Or.inr hd', e⟩
      · rintro (h | ⟨d', hd' | hd', e⟩)
        · exact Or.inl h
        · subst hd'; subst e; exact Or.inl (List.contains_iff_mem.mp hc)
        · exact Or.inr ⟨d', hd', e⟩
    case false =>
      simp only [Bool.false_eq_true, if_false, List.mem_append, List.mem_cons, List.not_mem_nil, or_false]
      constructor
      · rintro ((h | h) | ⟨d', hd', e⟩)
        · exact Or.inl h
        · exact Or.inr ⟨d, Or.inl rfl, h.symm⟩
        · exact Or.inr ⟨d', Or.inr hd', e⟩
      · rintro (h | ⟨d', hd' | hd', e⟩)
        · exact Or.inl (Or.inl h)
        · subst hd'; exact Or.inl (Or.inr e.symm)
        · exact Or.inr ⟨d', hd', e⟩

/-- a list has no two elements with the same key iff every key occurs at most once -/
theorem nodup_map_iff_filter {α} (g : α → String) (l : List α) :
    (l.map g).Nodup ↔ ∀ v, (l.filter (g · == v)).length ≤ 1 := by
  induction l with
  | nil => simp
  | cons x l ih =>
    simp only [List.map_cons, List.nodup_cons, List.filter_cons]
    constructor
    · rintro ⟨hx, hn⟩ v
      have := ih.mp hn v
      by_cases hv : (g x == v) = true
      · simp only [hv, if_true, List.length_cons]
        have hv' := beq_iff_eq.mp hv
        have : l.filter (g · == v) = [] := by
          apply List.filter_eq_nil_iff.mpr
          intro y hy hyv
          apply hx
          rw [hv', ← beq_iff_eq.mp hyv]
          exact List.mem_map_of_mem hy
        simp [this]
      · simp only [hv]; exact this
    · intro hall
      constructor
      · intro hx
        obtain ⟨y, hy, hyx⟩ := List.mem_map.mp hx
        have := hall (g x)
        simp only [beq_self_eq_true, if_true, List.length_cons] at this
        have hmem : y ∈ l.filter (g · == g x) := List.mem_filter.mpr ⟨hy, by simp [hyx]⟩
        have : (l.filter (g · == g x)).length = 0 := by omega
        rw [List.length_eq_zero_iff] at this
        rw [this] at hmem
        cases hmem
      · apply ih.mpr
        intro v
        have := hall v
        split at this
        · simp only [List.length_cons] at this; omega
        · exact this

/-- `ensureDistinctDefs` as a function of the list of single definitions it collects -/
def distinctMsgs (file : String) (singles : List TermDef) : List String :=
  let values := singles.foldl (fun acc d => if acc.contains d.value then acc else acc ++ [d.value]) ([] : List String)
  values.flatMap fun v =>
    let ds := singles.filter (·.value == v)
    if ds.length > 1 then
      ["multiple definitions with the same value: " ++ goQuote v ++ "\n" ++
        "\n".intercalate (ds.map fun d => "  " ++ posText file d.pos ++ ": " ++ goQuote d.term)]
    else []

theorem ensureDistinctDefs_eq (file : String) (t : SymTab) :
    ensureDistinctDefs file t = distinctMsgs file ((sortedTerminalEntries t).filterMap single) := rfl

theorem singles_perm {t : SymTab} (h : TermsNodup t) : ((sortedTerminalEntries t).filterMap single).Perm (singleDefs t) :=
  (sortedTerminalEntries_perm h).filterMap single

/-- Every line names a value that two singly-defined terminals share. -/
theorem ensureDistinctDefs_sound (file : String) {t : SymTab} (h : TermsNodup t) (m : String) (hm : m ∈ ensureDistinctDefs file t) :
    ∃ v rest, 1 < ((singleDefs t).filter (·.value == v)).length ∧
      m = "multiple definitions with the same value: " ++ goQuote v ++ "\n" ++ rest := by
  rw [ensureDistinctDefs_eq] at hm
  unfold distinctMsgs at hm
  simp only [List.mem_flatMap] at hm
  obtain ⟨v, _, hm⟩ := hm
  split at hm
  · rename_i hlen
    simp only [List.mem_singleton] at hm
    refine ⟨v, _, ?_, hm⟩
    have := ((singles_perm h).filter (·.value == v)).length_eq
    simp only [gt_iff_lt] at hlen
    omega
  · cases hm

theorem distinctMsgs_nil_iff (file : String) (singles : List TermDef) :
    distinctMsgs file singles = [] ↔ (singles.map (·.value)).Nodup := by
  rw [nodup_map_iff_filter]
  unfold distinctMsgs
  simp only [List.flatMap_eq_nil_iff]
  constructor
  · intro hall v
    by_cases hv : ∃ d ∈ singles, d.value = v
    · have := hall v ((values_mem _ [] v).mpr (Or.inr hv))
      split at this
      · cases this
      · rename_i hlen
        simp only [gt_iff_lt] at hlen
        omega
    · have : singles.filter (·.value == v) = [] := by
        apply List.filter_eq_nil_iff.mpr
        intro d hd hdv
        exact hv ⟨d, hd, beq_iff_eq.mp hdv⟩
      rw [this]; simp
  · intro hall v _
    have := hall v
    split
    · rename_i hlen
      simp only [gt_iff_lt] at hlen
      omega
    · rfl

/-- No line exactly when the values of the singly-defined terminals are pairwise distinct. -/
theorem ensureDistinctDefs_nil_iff (file : String) {t : SymTab} (h : TermsNodup t) :
    ensureDistinctDefs file t = [] ↔ ((singleDefs t).map (·.value)).Nodup := by
  rw [ensureDistinctDefs_eq, distinctMsgs_nil_iff, ((singles_perm h).map (·.value)).nodup_iff]

/-! ### `ensureStart`, `CFG.Verify`, `PrecedenceLevels.Verify` -/

def HasProd (t : SymTab) (n : String) : Prop := t.prods.any (·.head == n) = true

def Declared (t : SymTab) : GSym → Prop
  | .t a => t.terminals.any (·.name == a) = true
  | .nt A => t.nonTerminals.contains A = true

theorem ensureStart_nil_iff (t : SymTab) : ensureStart t = [] ↔ HasProd t "start" := by
  unfold ensureStart HasProd
  split <;> simp_all

theorem ensureStart_sound (t : SymTab) (m : String) (hm : m ∈ ensureStart t) : ¬ HasProd t "start" := by
  unfold ensureStart at hm
  unfold HasProd
  split at hm
  · cases hm
  · assumption

/-- the four clauses of `cfgVerify` -/
structure CfgOk (t : SymTab) : Prop where
  startDeclared : t.nonTerminals.contains "start" = true
  startProd : HasProd t "start"
  productive : ∀ n ∈ t.nonTerminals, HasProd t n
  closed : ∀ p ∈ t.prods, t.nonTerminals.contains p.head = true ∧ ∀ s ∈ p.body, Declared t s

theorem cfgVerify_nil_iff (t : SymTab) : cfgVerify t = [] ↔ CfgOk t := by
  unfold cfgVerify
  simp only [List.append_eq_nil_iff, List.filterMap_eq_nil_iff, List.flatMap_eq_nil_iff]
  constructor
  · rintro ⟨⟨⟨h1, h2⟩, h3⟩, h4⟩
    refine ⟨?_, ?_, ?_, ?_⟩
    · split at h1
      · assumption
      · cases h1
    · unfold HasProd; split at h2
      · assumption
      · cases h2
    · intro n hn
      have := h3 n hn
      unfold HasProd
      split at this
      · assumption
      · cases this
    · intro p hp
      have := h4 p hp
      obtain ⟨ha, hb⟩ := this
      constructor
      · split at ha
        · assumption
        · cases ha
      · intro s hs
        have := hb s hs
        cases s with
        | t a =>
          simp only at this
          unfold Declared
          split at this
          · assumption
          · cases this
        | nt A =>
          simp only at this
          unfold Declared
          split at this
          · assumption
          · cases this
  · rintro ⟨h1, h2, h3, h4⟩
    unfold HasProd at h2 h3
    refine ⟨⟨⟨by rw [if_pos h1], by rw [if_pos h2]⟩, fun n hn => by rw [if_pos (h3 n hn)]⟩, fun p hp => ?_⟩
    obtain ⟨ha, hb⟩ := h4 p hp
    refine ⟨by rw [if_pos ha], fun s hs => ?_⟩
    have := hb s hs
    cases s with
    | t a => unfold Declared at this; simp only; rw [if_pos this]
    | nt A => unfold Declared at this; simp only; rw [if_pos this]

theorem mem_pairsIdx (n i j : Nat) : (i, j) ∈ pairsIdx n ↔ i < j ∧ j < n := by
  unfold pairsIdx
  simp only [List.mem_flatMap, List.mem_range, List.mem_map, List.mem_filter, decide_eq_true_eq, Prod.mk.injEq]
  constructor
  · rintro ⟨a, _, b, ⟨hb, hab⟩, rfl, rfl⟩; exact ⟨hab, hb⟩
  · rintro ⟨hij, hj⟩; exact ⟨i, by omega, j, ⟨hj, hij⟩, rfl, rfl⟩

/-- no handle is listed in two levels -/
def LevelsDisjoint (ls : List Level) : Prop :=
  ∀ i j, i < j → j < ls.length → ∀ h ∈ ((ls[i]?).getD default).handles, h ∉ ((ls[j]?).getD default).handles

theorem precVerify_nil_iff (ls : List Level) : precVerify ls = [] ↔ LevelsDisjoint ls := by
  unfold precVerify LevelsDisjoint
  simp only [List.filterMap_eq_nil_iff]
  constructor
  · intro hall i j hij hj h hh hh'
    have := hall (i, j) ((mem_pairsIdx _ i j).mpr ⟨hij, hj⟩)
    simp only at this
    split at this
    · rename_i he
      have hm : h ∈ ((ls[i]?).getD default).handles.filter ((ls[j]?).getD default).handles.contains :=
        List.mem_filter.mpr ⟨hh, List.contains_iff_mem.mpr hh'⟩
      rw [List.isEmpty_iff.mp he] at hm
      cases hm
    · cases this
  · intro hall ⟨i, j⟩ hm
    obtain ⟨hij, hj⟩ := (mem_pairsIdx _ i j).mp hm
    simp only
    have : (((ls[i]?).getD default).handles.filter ((ls[j]?).getD default).handles.contains) = [] := by
      apply List.filter_eq_nil_iff.mpr
      intro h hh hc
      exact hall i j hij hj h hh (List.contains_iff_mem.mp hc)
    rw [this]
    rfl

/-- Every line of the precedence check names handles that really are in two levels. -/
theorem precVerify_sound (ls : List Level) (m : String) (hm : m ∈ precVerify ls) :
    ∃ i j h, i < j ∧ j < ls.length ∧ h ∈ ((ls[i]?).getD default).handles ∧ h ∈ ((ls[j]?).getD default).handles := by
  unfold precVerify at hm
  simp only [List.mem_filterMap] at hm
  obtain ⟨⟨i, j⟩, hp, hm⟩ := hm
  obtain ⟨hij, hj⟩ := (mem_pairsIdx _ i j).mp hp
  simp only at hm
  split at hm
  · cases hm
  · rename_i hne
    cases hf : ((ls[i]?).getD default).handles.filter ((ls[j]?).getD default).handles.contains with
    | nil => rw [hf] at hne; exact absurd rfl hne
    | cons h rest =>
      have hmem : h ∈ ((ls[i]?).getD default).handles.filter ((ls[j]?).getD default).handles.contains := by
        rw [hf]; exact List.mem_cons_self
      obtain ⟨h1, h2⟩ := List.mem_filter.mp hmem
      exact ⟨i, j, h, hij, hj, h1, List.contains_iff_mem.mp h2⟩

/-! ### well-formedness of the table -/

/-- What the property calls a well-formed specification, read off the symbol table:
    every terminal has exactly one definition, no two terminals have the same value, every predefined
    name was known, `start` and every other non-terminal have a production, the grammar is closed,
    and no handle is listed in two precedence levels. -/
structure WellFormed (t : SymTab) : Prop where
  defined : ∀ e ∈ t.terminals, e.defs.length = 1
  distinct : ((singleDefs t).map (·.value)).Nodup
  predefined : t.errs = []
  grammar : CfgOk t
  levels : LevelsDisjoint t.levels

theorem checkers_nil_iff (file : String) {t : SymTab} (h : TermsNodup t) :
    (verify file t = [] ∧ t.errs = [] ∧ cfgVerify t = [] ∧ precVerify t.levels = []) ↔ WellFormed t := by
  unfold verify
  simp only [List.append_eq_nil_iff]
  rw [ensureSingleDefs_nil_iff file h, ensureDistinctDefs_nil_iff file h, cfgVerify_nil_iff, precVerify_nil_iff, ensureStart_nil_iff]
  constructor
  · rintro ⟨⟨⟨h1, h2⟩, _⟩, h4, h5, h6⟩; exact ⟨h1, h2, h4, h5, h6⟩
  · rintro ⟨h1, h2, h3, h4, h5⟩; exact ⟨⟨⟨h1, h2⟩, h4.startProd⟩, h3, h4, h5⟩

/-- Every line of the grammar check names a defect that is present. -/
theorem cfgVerify_sound (t : SymTab) (m : String) (hm : m ∈ cfgVerify t) :
    (t.nonTerminals.contains "start" = false) ∨ (¬ HasProd t "start") ∨
    (∃ n ∈ t.nonTerminals, ¬ HasProd t n ∧ m = "no production rule for non-terminal symbol " ++ n) ∨
    (∃ p ∈ t.prods, t.nonTerminals.contains p.head = false ∨ ∃ s ∈ p.body, ¬ Declared t s) := by
  unfold cfgVerify at hm
  simp only [List.mem_append, List.mem_filterMap, List.mem_flatMap] at hm
  rcases hm with ((h1 | h2) | h3) | h4
  · left
    split at h1
    · cases h1
    · rename_i hc; simpa using hc
  · right; left
    unfold HasProd
    split at h2
    · cases h2
    · assumption
  · right; right; left
    obtain ⟨n, hn, hm⟩ := h3
    refine ⟨n, hn, ?_⟩
    unfold HasProd
    split at hm
    · cases hm
    · rename_i hc
      simp only [Option.some.injEq] at hm
      exact ⟨hc, hm.symm⟩
  · right; right; right
    obtain ⟨p, hp, hm⟩ := h4
    refine ⟨p, hp, ?_⟩
    rcases hm with ha | hb
    · left
      split at ha
      · cases ha
      · rename_i hc; simpa using hc
    · right
      obtain ⟨s, hs, hm⟩ := hb
      refine ⟨s, hs, ?_⟩
      cases s with
      | t a =>
        simp only at hm
        unfold Declared
        split at hm
        · cases hm
        · assumption
      | nt A =>
        simp only at hm
        unfold Declared
        split at hm
        · cases hm
        · assumption

/-- A defect of the table that a diagnostic line `m` names. -/
def Defect (file : String) (t : SymTab) (m : String) : Prop :=
  -- an unknown predefined name was recorded
  m ∈ t.errs ∨
  -- a terminal without a definition / with several
  (∃ e ∈ t.terminals, e.defs.length = 0 ∧ m = "no definition for terminal " ++ goQuote e.name) ∨
  (∃ e ∈ t.terminals, 1 < e.defs.length ∧ m = "multiple definitions for terminal " ++ goQuote e.name ++ ":\n" ++
      "\n".intercalate (e.defs.map fun d => "  " ++ posText file d.pos)) ∨
  -- two terminals with the same value
  (∃ v rest, 1 < ((singleDefs t).filter (·.value == v)).length ∧
      m = "multiple definitions with the same value: " ++ goQuote v ++ "\n" ++ rest) ∨
  -- no start rule, an undeclared start symbol, a non-terminal without a production, an undeclared symbol
  (¬ HasProd t "start") ∨ (t.nonTerminals.contains "start" = false) ∨
  (∃ n ∈ t.nonTerminals, ¬ HasProd t n ∧ m = "no production rule for non-terminal symbol " ++ n) ∨
  (∃ p ∈ t.prods, t.nonTerminals.contains p.head = false ∨ ∃ s ∈ p.body, ¬ Declared t s) ∨
  -- a handle in two levels
  (∃ i j h, i < j ∧ j < t.levels.length ∧ h ∈ ((t.levels[i]?).getD default).handles ∧ h ∈ ((t.levels[j]?).getD default).handles)

theorem verify_sound (file : String) {t : SymTab} (h : TermsNodup t) (m : String) (hm : m ∈ verify file t) : Defect file t m := by
  unfold verify at hm
  simp only [List.mem_append] at hm
  rcases hm with (h1 | h2) | h3
  · obtain ⟨e, he, hd | hd⟩ := ensureSingleDefs_sound file t m h1
    · exact Or.inr (Or.inl ⟨e, he, hd⟩)
    · exact Or.inr (Or.inr (Or.inl ⟨e, he, hd⟩))
  · exact Or.inr (Or.inr (Or.inr (Or.inl (ensureDistinctDefs_sound file h m h2))))
  · exact Or.inr (Or.inr (Or.inr (Or.inr (Or.inl (ensureStart_sound t m h3)))))

end Emerge.Props.C07
