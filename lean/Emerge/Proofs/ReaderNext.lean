import Emerge.ReaderNext
import Emerge.Proofs.Reader
import Emerge.Proofs.Utf8
/-
  The emitted `Next` over the two-half reader returns the rune whose UTF-8 encoding lies at the cursor and advances the
  cursor by its length - for every half size and alignment (the bytes of one rune may straddle a reload).
-/
namespace Emerge.Reader
open Emerge

/-- one `next()` below the end of the source, in terms of the stream state -/
theorem next_of_inv2 {src len n} {s : RState} {a : AState} {g : Ghost}
    (h : Inv2 src len n s a g) (hk : a.k < len) :
    ∃ g', (next src len n s).1 = some (src a.k) ∧ Inv2 src len n (next src len n s).2 ⟨a.k + 1, a.p - 1, a.kb⟩ g' := by
  have hs : aStep src len n a .next = some (.byte (src a.k), ⟨a.k + 1, a.p - 1, a.kb⟩) := by simp [aStep, hk]
  obtain ⟨e, g', hinv⟩ := step_refines h .next hs
  refine ⟨g', ?_, hinv⟩
  simp only [cStep] at e
  cases hn : (next src len n s).1 with
  | none => rw [hn] at e; cases e
  | some b => rw [hn] at e; cases e; rfl

theorem withByte_step {src len n} {s : RState} {a : AState} {g : Ghost}
    (h : Inv2 src len n s a g) (hk : a.k < len) (k : Nat → RState → RuneOut × RState) :
    ∃ g', withByte src len n s k = k (src a.k) (next src len n s).2 ∧
      Inv2 src len n (next src len n s).2 ⟨a.k + 1, a.p - 1, a.kb⟩ g' := by
  obtain ⟨g', e, hinv⟩ := next_of_inv2 h hk
  refine ⟨g', ?_, hinv⟩
  unfold withByte
  generalize hr : next src len n s = r at e
  obtain ⟨r1, r2⟩ := r
  simp only at e
  subst e
  rfl

/-- **`Next` returns the rune at the cursor.** If the UTF-8 encoding of the scalar value `r` lies in the source at the
    cursor, `Next` returns `r` with the length of that encoding and leaves the reader at the cursor behind it. -/
theorem nextRune_refines {src len n} {s : RState} {a : AState} {g : Ghost}
    (h : Inv2 src len n s a g) (r : Nat) (hr : Utf8.Scalar r)
    (hfit : a.k + (Utf8.encodeRune r).length ≤ len)
    (hat : ∀ i, i < (Utf8.encodeRune r).length → src (a.k + i) = (Utf8.encodeRune r).getD i 0) :
    ∃ g', (nextRune src len n s).1 = .rune r (Utf8.encodeRune r).length ∧
      Inv2 src len n (nextRune src len n s).2
        ⟨a.k + (Utf8.encodeRune r).length, a.p - (Utf8.encodeRune r).length, a.kb⟩ g' := by
  obtain ⟨h1, h2⟩ := hr
  unfold Utf8.encodeRune at hfit hat ⊢
  by_cases c1 : r < 0x80
  · simp only [c1, if_true, List.length_cons, List.length_nil] at hfit hat ⊢
    have e0 : src a.k = r := by have := hat 0 (by omega); simpa using this
    obtain ⟨g1, w1, i1⟩ := withByte_step h (by omega) _
    unfold nextRune
    rw [w1, e0]
    simp only [c1, if_true]
    exact ⟨g1, trivial, i1⟩
  · by_cases c2 : r < 0x800
    · simp only [c1, c2, if_true, if_false, List.length_cons, List.length_nil] at hfit hat ⊢
      have e0 : src a.k = 0xC0 + r / 64 := by have := hat 0 (by omega); simpa using this
      have e1 : src (a.k + 1) = 0x80 + r % 64 := by have := hat 1 (by omega); simpa using this
      obtain ⟨g1, w1, i1⟩ := withByte_step h (by omega) _
      obtain ⟨g2, w2, i2⟩ := withByte_step i1 (show a.k + 1 < len by omega) _
      unfold nextRune
      rw [w1, e0]
      have a1 : ¬ (0xC0 + r / 64 < 0x80) := by omega
      have a2 : 0xC2 ≤ 0xC0 + r / 64 ∧ 0xC0 + r / 64 ≤ 0xDF := by omega
      simp only [a1, if_false, a2, and_self, if_true]
      rw [w2]
      simp only [e1]
      have a3 : Utf8.cont (0x80 + r % 64) = true := by
        simp only [Utf8.cont, Bool.and_eq_true, decide_eq_true_eq]; omega
      have a4 : (0xC0 + r / 64) % 32 * 64 + (0x80 + r % 64) % 64 = r := by omega
      simp only [a3, if_true, a4]
      refine ⟨g2, trivial, ?_⟩
      have : (⟨a.k + 1 + 1, a.p - 1 - 1, a.kb⟩ : AState) = ⟨a.k + (0 + 1 + 1), a.p - (0 + 1 + 1), a.kb⟩ := by
        congr 1 <;> omega
      rw [← this]; exact i2
    · by_cases c3 : r < 0x10000
      · simp only [c1, c2, c3, if_true, if_false, List.length_cons, List.length_nil] at hfit hat ⊢
        have e0 : src a.k = 0xE0 + r / 4096 := by have := hat 0 (by omega); simpa using this
        have e1 : src (a.k + 1) = 0x80 + r / 64 % 64 := by have := hat 1 (by omega); simpa using this
        have e2 : src (a.k + 1 + 1) = 0x80 + r % 64 := by have := hat 2 (by omega); simpa using this
        obtain ⟨g1, w1, i1⟩ := withByte_step h (by omega) _
        obtain ⟨g2, w2, i2⟩ := withByte_step i1 (show a.k + 1 < len by omega) _
        obtain ⟨g3, w3, i3⟩ := withByte_step i2 (show a.k + 1 + 1 < len by omega) _
        unfold nextRune
        rw [w1, e0]
        have a1 : ¬ (0xE0 + r / 4096 < 0x80) := by omega
        have a2 : ¬ (0xC2 ≤ 0xE0 + r / 4096 ∧ 0xE0 + r / 4096 ≤ 0xDF) := by omega
        have a3 : 0xE0 ≤ 0xE0 + r / 4096 ∧ 0xE0 + r / 4096 ≤ 0xEF := by omega
        simp only [a1, if_false, a2, a3, and_self, if_true]
        rw [w2]
        simp only [e1]
        have a4 : (if 0xE0 + r / 4096 = 0xE0 then 0xA0 else 0x80) ≤ 0x80 + r / 64 % 64 ∧
            0x80 + r / 64 % 64 ≤ (if 0xE0 + r / 4096 = 0xED then 0x9F else 0xBF) := by
          constructor <;> split <;> omega
        simp only [a4, and_self, if_true]
        rw [w3]
        simp only [e2]
        have a5 : Utf8.cont (0x80 + r % 64) = true := by
          simp only [Utf8.cont, Bool.and_eq_true, decide_eq_true_eq]; omega
        have a6 : (0xE0 + r / 4096) % 16 * 4096 + (0x80 + r / 64 % 64) % 64 * 64 + (0x80 + r % 64) % 64 = r := by omega
        simp only [a5, if_true, a6]
        refine ⟨g3, trivial, ?_⟩
        have : (⟨a.k + 1 + 1 + 1, a.p - 1 - 1 - 1, a.kb⟩ : AState) = ⟨a.k + (0 + 1 + 1 + 1), a.p - (0 + 1 + 1 + 1), a.kb⟩ := by
          congr 1 <;> omega
        rw [← this]; exact i3
      · simp only [c1, c2, c3, if_false, List.length_cons, List.length_nil] at hfit hat ⊢
        have e0 : src a.k = 0xF0 + r / 262144 := by have := hat 0 (by omega); simpa using this
        have e1 : src (a.k + 1) = 0x80 + r / 4096 % 64 := by have := hat 1 (by omega); simpa using this
        have e2 : src (a.k + 1 + 1) = 0x80 + r / 64 % 64 := by have := hat 2 (by omega); simpa using this
        have e3 : src (a.k + 1 + 1 + 1) = 0x80 + r % 64 := by have := hat 3 (by omega); simpa using this
        obtain ⟨g1, w1, i1⟩ := withByte_step h (by omega) _
        obtain ⟨g2, w2, i2⟩ := withByte_step i1 (show a.k + 1 < len by omega) _
        obtain ⟨g3, w3, i3⟩ := withByte_step i2 (show a.k + 1 + 1 < len by omega) _
        obtain ⟨g4, w4, i4⟩ := withByte_step i3 (show a.k + 1 + 1 + 1 < len by omega) _
        unfold nextRune
        rw [w1, e0]
        have a1 : ¬ (0xF0 + r / 262144 < 0x80) := by omega
        have a2 : ¬ (0xC2 ≤ 0xF0 + r / 262144 ∧ 0xF0 + r / 262144 ≤ 0xDF) := by omega
        have a3 : ¬ (0xE0 ≤ 0xF0 + r / 262144 ∧ 0xF0 + r / 262144 ≤ 0xEF) := by omega
        have a3' : 0xF0 ≤ 0xF0 + r / 262144 ∧ 0xF0 + r / 262144 ≤ 0xF4 := by omega
        simp only [a1, if_false, a2, a3, a3', and_self, if_true]
        rw [w2]
        simp only [e1]
        have a4 : (if 0xF0 + r / 262144 = 0xF0 then 0x90 else 0x80) ≤ 0x80 + r / 4096 % 64 ∧
            0x80 + r / 4096 % 64 ≤ (if 0xF0 + r / 262144 = 0xF4 then 0x8F else 0xBF) := by
          constructor <;> split <;> omega
        simp only [a4, and_self, if_true]
        rw [w3]
        simp only [e2]
        have a5 : Utf8.cont (0x80 + r / 64 % 64) = true := by
          simp only [Utf8.cont, Bool.and_eq_true, decide_eq_true_eq]; omega
        simp only [a5, if_true]
        rw [w4]
        simp only [e3]
        have a5' : Utf8.cont (0x80 + r % 64) = true := by
          simp only [Utf8.cont, Bool.and_eq_true, decide_eq_true_eq]; omega
        have a6 : (0xF0 + r / 262144) % 8 * 262144 + (0x80 + r / 4096 % 64) % 64 * 4096 +
            (0x80 + r / 64 % 64) % 64 * 64 + (0x80 + r % 64) % 64 = r := by omega
        simp only [a5', if_true, a6]
        refine ⟨g4, trivial, ?_⟩
        have : (⟨a.k + 1 + 1 + 1 + 1, a.p - 1 - 1 - 1 - 1, a.kb⟩ : AState) =
            ⟨a.k + (0 + 1 + 1 + 1 + 1), a.p - (0 + 1 + 1 + 1 + 1), a.kb⟩ := by
          congr 1 <;> omega
        rw [← this]; exact i4

end Emerge.Reader
