import Emerge.Ebnf
/-
  Languages of grammar symbol strings, the language of a non-terminal of a production list as the least fixed
  point (Kleene iteration) of "a word of A is a word of one of A's bodies", Kleene star/plus, and the productions
  the operator actions leave in the symbol table. Helper definitions and lemmas for Emerge/Props/C01.lean.
-/
namespace Emerge.Props.C01
open Emerge Emerge.Ebnf

/-- languages over terminal names -/
abbrev Lang := List String → Prop

def Lang.cat (A B : Lang) : Lang := fun w => ∃ u v, w = u ++ v ∧ A u ∧ B v
def Lang.union (A B : Lang) : Lang := fun w => A w ∨ B w
def Lang.eps : Lang := fun w => w = []

/-- language of a string of grammar symbols, given the languages of the non-terminals -/
def langString (env : String → Lang) : GString → Lang
  | [] => Lang.eps
  | .t a :: rest => Lang.cat (fun w => w = [a]) (langString env rest)
  | .nt A :: rest => Lang.cat (env A) (langString env rest)

/-- language of a list of alternatives -/
def langStrings (env : String → Lang) (s : Strings) : Lang := fun w => ∃ α ∈ s, langString env α w

theorem langString_append (env : String → Lang) (α β : GString) (w : List String) :
    langString env (α ++ β) w ↔ Lang.cat (langString env α) (langString env β) w := by
  induction α generalizing w with
  | nil =>
    simp only [List.nil_append, langString, Lang.cat, Lang.eps]
    constructor
    · intro h; exact ⟨[], w, rfl, rfl, h⟩
    · rintro ⟨u, v, rfl, rfl, h⟩; simpa using h
  | cons x α ih =>
    cases x with
    | t a =>
      simp only [List.cons_append, langString, Lang.cat]
      constructor
      · rintro ⟨u, v, rfl, hu, hv⟩
        obtain ⟨u', v', rfl, h1, h2⟩ := (ih v).mp hv
        exact ⟨u ++ u', v', by simp, ⟨u, u', rfl, hu, h1⟩, h2⟩
      · rintro ⟨u, v, rfl, ⟨u1, u2, rfl, h1, h2⟩, hv⟩
        exact ⟨u1, u2 ++ v, by simp, h1, (ih _).mpr ⟨u2, v, rfl, h2, hv⟩⟩
    | nt A =>
      simp only [List.cons_append, langString, Lang.cat]
      constructor
      · rintro ⟨u, v, rfl, hu, hv⟩
        obtain ⟨u', v', rfl, h1, h2⟩ := (ih v).mp hv
        exact ⟨u ++ u', v', by simp, ⟨u, u', rfl, hu, h1⟩, h2⟩
      · rintro ⟨u, v, rfl, ⟨u1, u2, rfl, h1, h2⟩, hv⟩
        exact ⟨u1, u2 ++ v, by simp, h1, (ih _).mpr ⟨u2, v, rfl, h2, hv⟩⟩

/-! ### the `Strings` algebra (restated as `C01_*` in Props/C01.lean) -/

theorem langStrings_append (env : String → Lang) (s1 s2 : Strings) (w : List String) :
    langStrings env (s1 ++ s2) w ↔ Lang.union (langStrings env s1) (langStrings env s2) w := by
  simp only [langStrings, Lang.union, List.mem_append]
  constructor
  · rintro ⟨α, h | h, hw⟩
    · left; exact ⟨α, h, hw⟩
    · right; exact ⟨α, h, hw⟩
  · rintro (⟨α, h, hw⟩ | ⟨α, h, hw⟩)
    · exact ⟨α, Or.inl h, hw⟩
    · exact ⟨α, Or.inr h, hw⟩

theorem langStrings_append_nil (env : String → Lang) (s : Strings) (w : List String) :
    langStrings env (s ++ [[]]) w ↔ Lang.union (langStrings env s) Lang.eps w := by
  rw [langStrings_append]
  simp only [Lang.union, langStrings, List.mem_singleton]
  constructor
  · rintro (h | ⟨α, rfl, hw⟩)
    · left; exact h
    · right; exact hw
  · rintro (h | h)
    · left; exact h
    · right; exact ⟨[], rfl, h⟩

theorem langStrings_juxtapose (env : String → Lang) (s1 s2 : Strings) (w : List String) :
    langStrings env (s1.flatMap fun α => s2.map fun β => α ++ β) w ↔
      Lang.cat (langStrings env s1) (langStrings env s2) w := by
  simp only [langStrings, Lang.cat, List.mem_flatMap, List.mem_map]
  constructor
  · rintro ⟨γ, ⟨α, hα, β, hβ, rfl⟩, hw⟩
    obtain ⟨u, v, rfl, hu, hv⟩ := (langString_append env α β w).mp hw
    exact ⟨u, v, rfl, ⟨α, hα, hu⟩, ⟨β, hβ, hv⟩⟩
  · rintro ⟨u, v, rfl, ⟨α, hα, hu⟩, ⟨β, hβ, hv⟩⟩
    exact ⟨α ++ β, ⟨α, hα, β, hβ, rfl⟩, (langString_append env α β _).mpr ⟨u, v, rfl, hu, hv⟩⟩

theorem langStrings_atoms (env : String → Lang) (a A : String) (w : List String) :
    (langStrings env [[.t a]] w ↔ w = [a]) ∧ (langStrings env [[.nt A]] w ↔ env A w) := by
  simp only [langStrings, List.mem_singleton, exists_eq_left, langString, Lang.cat, Lang.eps]
  constructor
  · constructor
    · rintro ⟨u, v, rfl, rfl, rfl⟩; rfl
    · intro h; exact ⟨[a], [], by simp [h], rfl, rfl⟩
  · constructor
    · rintro ⟨u, v, rfl, hu, rfl⟩; simpa using hu
    · intro h; exact ⟨w, [], by simp, h, rfl⟩

theorem langStrings_key (env : String → Lang) (s1 s2 : Strings) (h : eqStrings s1 s2 = true) (w : List String) :
    langStrings env s1 w ↔ langStrings env s2 w := by
  simp only [eqStrings, Bool.and_eq_true, List.all_eq_true, stringsContains, List.any_eq_true, beq_iff_eq] at h
  simp only [langStrings]
  constructor
  · rintro ⟨α, hα, hw⟩
    obtain ⟨β, hβ, rfl⟩ := h.1 α hα
    exact ⟨β, hβ, hw⟩
  · rintro ⟨α, hα, hw⟩
    obtain ⟨β, hβ, rfl⟩ := h.2 α hα
    exact ⟨β, hβ, hw⟩

/-- the bodies of `A` -/
def alts (P : List GProd) (A : String) : Strings := (P.filter (fun p => p.head == A)).map (·.body)

theorem mem_alts {P : List GProd} {A : String} {α : GString} : α ∈ alts P A ↔ ⟨A, α⟩ ∈ P := by
  simp only [alts, List.mem_map, List.mem_filter, beq_iff_eq]
  constructor
  · rintro ⟨p, ⟨hp, rfl⟩, rfl⟩; exact hp
  · intro h; exact ⟨⟨A, α⟩, ⟨h, rfl⟩, rfl⟩

/-- words derivable with derivation trees of height ≤ n -/
def genN (P : List GProd) : Nat → String → Lang
  | 0, _ => fun _ => False
  | n + 1, A => langStrings (genN P n) (alts P A)

/-- the language of a non-terminal -/
def L (P : List GProd) (A : String) : Lang := fun w => ∃ n, genN P n A w

theorem langString_mono {e1 e2 : String → Lang} (h : ∀ A w, e1 A w → e2 A w) :
    ∀ (α : GString) (w : List String), langString e1 α w → langString e2 α w := by
  intro α
  induction α with
  | nil => intro w hw; exact hw
  | cons x α ih =>
    intro w hw
    cases x with
    | t a =>
      obtain ⟨u, v, rfl, hu, hv⟩ := hw
      exact ⟨u, v, rfl, hu, ih v hv⟩
    | nt A =>
      obtain ⟨u, v, rfl, hu, hv⟩ := hw
      exact ⟨u, v, rfl, h A u hu, ih v hv⟩

theorem langStrings_mono {e1 e2 : String → Lang} (h : ∀ A w, e1 A w → e2 A w) (s : Strings) (w : List String) :
    langStrings e1 s w → langStrings e2 s w := by
  rintro ⟨α, hα, hw⟩; exact ⟨α, hα, langString_mono h α w hw⟩

theorem genN_succ (P : List GProd) : ∀ n A w, genN P n A w → genN P (n + 1) A w := by
  intro n
  induction n with
  | zero => intro A w h; exact absurd h (by simp [genN])
  | succ n ih => intro A w h; exact langStrings_mono ih _ _ h

theorem genN_le (P : List GProd) {n m : Nat} (h : n ≤ m) : ∀ A w, genN P n A w → genN P m A w := by
  induction h with
  | refl => intro A w h; exact h
  | step _ ih => intro A w h; exact genN_succ P _ A w (ih A w h)

theorem genN_L (P : List GProd) (n : Nat) : ∀ A w, genN P n A w → L P A w := fun _ _ h => ⟨n, h⟩

/-- a word of a symbol string under the limit is already one at some finite stage -/
theorem langString_L (P : List GProd) : ∀ (α : GString) (w : List String),
    langString (L P) α w → ∃ n, langString (genN P n) α w := by
  intro α
  induction α with
  | nil => intro w hw; exact ⟨0, hw⟩
  | cons x α ih =>
    intro w hw
    cases x with
    | t a =>
      obtain ⟨u, v, rfl, hu, hv⟩ := hw
      obtain ⟨n, hn⟩ := ih v hv
      exact ⟨n, u, v, rfl, hu, hn⟩
    | nt A =>
      obtain ⟨u, v, rfl, ⟨m, hm⟩, hv⟩ := hw
      obtain ⟨n, hn⟩ := ih v hv
      refine ⟨max m n, u, v, rfl, genN_le P (Nat.le_max_left m n) A u hm, ?_⟩
      exact langString_mono (genN_le P (Nat.le_max_right m n)) α v hn

/-- **Fixed point**: a word of `A` is a word of one of `A`'s bodies, read in the same languages. -/
theorem L_fix (P : List GProd) (A : String) (w : List String) :
    L P A w ↔ langStrings (L P) (alts P A) w := by
  constructor
  · rintro ⟨n, hn⟩
    cases n with
    | zero => exact absurd hn (by simp [genN])
    | succ n => exact langStrings_mono (genN_L P n) _ _ hn
  · rintro ⟨α, hα, hw⟩
    obtain ⟨n, hn⟩ := langString_L P α w hw
    exact ⟨n + 1, α, hα, hn⟩

/-- **Least**: any interpretation closed under the productions contains the languages. -/
theorem L_least (P : List GProd) (env : String → Lang)
    (hclosed : ∀ A w, langStrings env (alts P A) w → env A w) : ∀ A w, L P A w → env A w := by
  have : ∀ n A w, genN P n A w → env A w := by
    intro n
    induction n with
    | zero => intro A w h; exact absurd h (by simp [genN])
    | succ n ih => intro A w h; exact hclosed A w (langStrings_mono ih _ _ h)
  rintro A w ⟨n, hn⟩; exact this n A w hn

/-! ### Kleene star and plus of a language -/

inductive Star (A : Lang) : Lang
  | nil : Star A []
  | cons (u v : List String) : A u → Star A v → Star A (u ++ v)

theorem Star.snoc {A : Lang} {u : List String} (hu : Star A u) : ∀ {v}, A v → Star A (u ++ v) := by
  induction hu with
  | nil => intro v hv; simpa using Star.cons v [] hv Star.nil
  | cons a b ha _ ih => intro v hv; rw [List.append_assoc]; exact Star.cons a (b ++ v) ha (ih hv)

/-- one or more -/
def Plus (A : Lang) : Lang := fun w => ∃ u v, w = u ++ v ∧ A u ∧ Star A v

theorem Plus.snoc {A : Lang} {u v : List String} (hu : Plus A u) (hv : A v) : Plus A (u ++ v) := by
  obtain ⟨a, b, rfl, ha, hb⟩ := hu
  exact ⟨a, b ++ v, by simp, ha, hb.snoc hv⟩

theorem Plus.of_star_snoc {A : Lang} {u v : List String} (hu : Star A u) (hv : A v) : Plus A (u ++ v) := by
  cases hu with
  | nil => exact ⟨v, [], by simp, hv, Star.nil⟩
  | cons a b ha hb => exact ⟨a, b ++ v, by simp, ha, hb.snoc hv⟩

theorem langString_prepend (env : String → Lang) (N : String) (α : GString) (w : List String) :
    langString env (prepend N α) w ↔ ∃ u v, w = u ++ v ∧ env N u ∧ langString env α v := Iff.rfl

/-! ### what the synthesised production shapes denote -/

/-! ### the productions `closureAction` (the semantic actions of `{ }`, `{{ }}`, `[ ]`, `( )`) leaves in the table -/

theorem mem_addProduction (t : SymTab) (p q : GProd) : q ∈ (addProduction t p).prods ↔ q ∈ t.prods ∨ q = p := by
  unfold addProduction
  split
  · rename_i h
    have hp : p ∈ t.prods := by simpa using h
    constructor
    · exact Or.inl
    · rintro (h | rfl)
      · exact h
      · exact hp
  · simp [List.mem_append]

theorem mem_foldl_add (f : GString → GProd) (q : GProd) : ∀ (s : Strings) (t : SymTab),
    q ∈ (s.foldl (fun t α => addProduction t (f α)) t).prods ↔ q ∈ t.prods ∨ ∃ α ∈ s, q = f α := by
  intro s
  induction s with
  | nil => intro t; simp
  | cons a s ih =>
    intro t
    rw [List.foldl_cons, ih, mem_addProduction]
    constructor
    · rintro ((h | rfl) | ⟨α, hα, rfl⟩)
      · exact Or.inl h
      · exact Or.inr ⟨a, List.mem_cons_self, rfl⟩
      · exact Or.inr ⟨α, List.mem_cons_of_mem _ hα, rfl⟩
    · rintro (h | ⟨α, hα, rfl⟩)
      · exact Or.inl (Or.inl h)
      · rcases List.mem_cons.mp hα with rfl | hα
        · exact Or.inl (Or.inr rfl)
        · exact Or.inr ⟨α, hα, rfl⟩

theorem mem_foldl_add2 (f g : GString → GProd) (q : GProd) : ∀ (s : Strings) (t : SymTab),
    q ∈ (s.foldl (fun t α => addProduction (addProduction t (f α)) (g α)) t).prods ↔
      q ∈ t.prods ∨ ∃ α ∈ s, q = f α ∨ q = g α := by
  intro s
  induction s with
  | nil => intro t; simp
  | cons a s ih =>
    intro t
    rw [List.foldl_cons, ih, mem_addProduction, mem_addProduction]
    constructor
    · rintro (((h | rfl) | rfl) | ⟨α, hα, h⟩)
      · exact Or.inl h
      · exact Or.inr ⟨a, List.mem_cons_self, Or.inl rfl⟩
      · exact Or.inr ⟨a, List.mem_cons_self, Or.inr rfl⟩
      · exact Or.inr ⟨α, List.mem_cons_of_mem _ hα, h⟩
    · rintro (h | ⟨α, hα, h⟩)
      · exact Or.inl (Or.inl (Or.inl h))
      · rcases List.mem_cons.mp hα with rfl | hα
        · rcases h with rfl | rfl
          · exact Or.inl (Or.inl (Or.inr rfl))
          · exact Or.inl (Or.inr rfl)
        · exact Or.inr ⟨α, hα, h⟩

theorem mapStringToNonTerminal_prods (cfg : Cfg) (names : List (String × String)) (t : SymTab) (s : Strings) (suffix : String) :
    (mapStringToNonTerminal cfg names t s suffix).1.prods = t.prods := by
  unfold mapStringToNonTerminal
  simp only []
  repeat' split
  all_goals rfl

theorem getName_prods (cfg : Cfg) (names : List (String × String)) (t : SymTab) (s : Strings) (k : Kind) :
    (getName cfg names t s k).1.prods = t.prods := by
  unfold getName
  split
  · split
    · rfl
    · exact mapStringToNonTerminal_prods cfg names t s k.suffix
  · exact mapStringToNonTerminal_prods cfg names t s k.suffix

theorem addNonTerminal_prods (t : SymTab) (A : String) : (addNonTerminal t A).prods = t.prods := by
  unfold addNonTerminal; split <;> rfl

/-- the bodies an operator of kind `k` gives its non-terminal `n` for the operand `s` -/
def ShapeMem (k : Kind) (n : String) (s : Strings) (β : GString) : Prop :=
  match k with
  | .group => β ∈ s
  | .opt => β ∈ s ∨ β = []
  | .star => (∃ α ∈ s, β = prepend n α) ∨ β = []
  | .plus => (∃ α ∈ s, β = prepend n α) ∨ β ∈ s

/-- **What the operator actions add**: exactly the documented production shapes for the returned non-terminal,
    nothing for any other head, and nothing is removed. -/
theorem closureAction_prods (cfg : Cfg) (names : List (String × String)) (t : SymTab) (s : Strings) (k : Kind) (q : GProd) :
    q ∈ (closureAction cfg names t s k).1.prods ↔
      q ∈ t.prods ∨ (q.head = (closureAction cfg names t s k).2 ∧ ShapeMem k (closureAction cfg names t s k).2 s q.body) := by
  unfold closureAction
  simp only []
  have e1 := getName_prods cfg names t s k
  generalize getName cfg names t s k = r at e1 ⊢
  obtain ⟨t1, n⟩ := r
  simp only at e1 ⊢
  have e2 := addNonTerminal_prods t1 n
  cases k with
  | plus =>
    simp only [ShapeMem]
    rw [mem_foldl_add2, e2, e1]
    constructor
    · rintro (h | ⟨α, hα, rfl | rfl⟩)
      · exact Or.inl h
      · exact Or.inr ⟨rfl, Or.inl ⟨α, hα, rfl⟩⟩
      · exact Or.inr ⟨rfl, Or.inr hα⟩
    · rintro (h | ⟨hh, ⟨α, hα, hb⟩ | hb⟩)
      · exact Or.inl h
      · refine Or.inr ⟨α, hα, Or.inl ?_⟩
        cases q; simp only at hh hb; subst hh; subst hb; rfl
      · refine Or.inr ⟨q.body, hb, Or.inr ?_⟩
        cases q; simp only at hh; subst hh; rfl
  | star =>
    simp only [ShapeMem]
    rw [mem_addProduction, mem_foldl_add, e2, e1]
    constructor
    · rintro ((h | ⟨α, hα, rfl⟩) | rfl)
      · exact Or.inl h
      · exact Or.inr ⟨rfl, Or.inl ⟨α, hα, rfl⟩⟩
      · exact Or.inr ⟨rfl, Or.inr rfl⟩
    · rintro (h | ⟨hh, ⟨α, hα, hb⟩ | hb⟩)
      · exact Or.inl (Or.inl h)
      · refine Or.inl (Or.inr ⟨α, hα, ?_⟩)
        cases q; simp only at hh hb; subst hh; subst hb; rfl
      · refine Or.inr ?_
        cases q; simp only at hh hb; subst hh; subst hb; rfl
  | opt =>
    simp only [ShapeMem]
    rw [mem_addProduction, mem_foldl_add, e2, e1]
    constructor
    · rintro ((h | ⟨α, hα, rfl⟩) | rfl)
      · exact Or.inl h
      · exact Or.inr ⟨rfl, Or.inl hα⟩
      · exact Or.inr ⟨rfl, Or.inr rfl⟩
    · rintro (h | ⟨hh, hb | hb⟩)
      · exact Or.inl (Or.inl h)
      · refine Or.inl (Or.inr ⟨q.body, hb, ?_⟩)
        cases q; simp only at hh; subst hh; rfl
      · refine Or.inr ?_
        cases q; simp only at hh hb; subst hh; subst hb; rfl
  | group =>
    simp only [ShapeMem]
    rw [mem_foldl_add, e2, e1]
    constructor
    · rintro (h | ⟨α, hα, rfl⟩)
      · exact Or.inl h
      · exact Or.inr ⟨rfl, hα⟩
    · rintro (h | ⟨hh, hb⟩)
      · exact Or.inl h
      · refine Or.inr ⟨q.body, hb, ?_⟩
        cases q; simp only at hh; subst hh; rfl

/-- the language the shape of kind `k` denotes -/
def shapeLang (k : Kind) (A : Lang) : Lang :=
  match k with
  | .group => A
  | .opt => fun w => A w ∨ w = []
  | .star => Star A
  | .plus => Plus A

/-! ### the operator shapes in the least fixed point (restated as `C01_group` … `C01_operator` in Props/C01.lean) -/

theorem lang_group (P : List GProd) (N : String) (s : Strings)
    (hshape : ∀ β, ⟨N, β⟩ ∈ P ↔ β ∈ s) (w : List String) :
    L P N w ↔ langStrings (L P) s w := by
  rw [L_fix]
  constructor <;> rintro ⟨α, hα, hw⟩
  · exact ⟨α, (hshape α).mp (mem_alts.mp hα), hw⟩
  · exact ⟨α, mem_alts.mpr ((hshape α).mpr hα), hw⟩

theorem lang_opt (P : List GProd) (N : String) (s : Strings)
    (hshape : ∀ β, ⟨N, β⟩ ∈ P ↔ β ∈ s ∨ β = []) (w : List String) :
    L P N w ↔ langStrings (L P) s w ∨ w = [] := by
  rw [L_fix]
  constructor
  · rintro ⟨α, hα, hw⟩
    rcases (hshape α).mp (mem_alts.mp hα) with h | rfl
    · exact Or.inl ⟨α, h, hw⟩
    · exact Or.inr hw
  · rintro (⟨α, hα, hw⟩ | rfl)
    · exact ⟨α, mem_alts.mpr ((hshape α).mpr (Or.inl hα)), hw⟩
    · exact ⟨[], mem_alts.mpr ((hshape []).mpr (Or.inr rfl)), rfl⟩

theorem lang_star (P : List GProd) (N : String) (s : Strings)
    (hshape : ∀ β, ⟨N, β⟩ ∈ P ↔ (∃ α ∈ s, β = prepend N α) ∨ β = []) (w : List String) :
    L P N w ↔ Star (langStrings (L P) s) w := by
  constructor
  · rintro ⟨n, hn⟩
    induction n generalizing w with
    | zero => exact absurd hn (by simp [genN])
    | succ n ih =>
      obtain ⟨β, hβ, hw⟩ := hn
      rcases (hshape β).mp (mem_alts.mp hβ) with ⟨α, hα, rfl⟩ | rfl
      · obtain ⟨u, v, rfl, hu, hv⟩ := hw
        exact (ih u hu).snoc ⟨α, hα, langString_mono (genN_L P n) α v hv⟩
      · have : w = [] := hw
        subst this; exact Star.nil
  · intro h
    -- read right to left: a star word is a shorter star word followed by one more element, or empty
    have key : ∀ w, Star (langStrings (L P) s) w → ∀ v, langStrings (L P) s v → L P N w → L P N (w ++ v) := by
      intro w _ v ⟨α, hα, hv⟩ hw
      exact (L_fix P N _).mpr ⟨prepend N α, mem_alts.mpr ((hshape _).mpr (Or.inl ⟨α, hα, rfl⟩)), w, v, rfl, hw, hv⟩
    have base : L P N [] := (L_fix P N _).mpr ⟨[], mem_alts.mpr ((hshape []).mpr (Or.inr rfl)), rfl⟩
    -- left-to-right star as an accumulation from the left
    have acc : ∀ w, Star (langStrings (L P) s) w → ∀ p, L P N p → L P N (p ++ w) := by
      intro w hw
      induction hw with
      | nil => intro p hp; simpa using hp
      | cons a b ha _ ih =>
        intro p hp
        rw [← List.append_assoc]
        obtain ⟨α, hα, hv⟩ := ha
        exact ih (p ++ a) ((L_fix P N _).mpr
          ⟨prepend N α, mem_alts.mpr ((hshape _).mpr (Or.inl ⟨α, hα, rfl⟩)), p, a, rfl, hp, hv⟩)
    simpa using acc w h [] base

theorem lang_plus (P : List GProd) (N : String) (s : Strings)
    (hshape : ∀ β, ⟨N, β⟩ ∈ P ↔ (∃ α ∈ s, β = prepend N α) ∨ β ∈ s) (w : List String) :
    L P N w ↔ Plus (langStrings (L P) s) w := by
  constructor
  · rintro ⟨n, hn⟩
    induction n generalizing w with
    | zero => exact absurd hn (by simp [genN])
    | succ n ih =>
      obtain ⟨β, hβ, hw⟩ := hn
      rcases (hshape β).mp (mem_alts.mp hβ) with ⟨α, hα, rfl⟩ | hβs
      · obtain ⟨u, v, rfl, hu, hv⟩ := hw
        exact (ih u hu).snoc ⟨α, hα, langString_mono (genN_L P n) α v hv⟩
      · exact ⟨w, [], by simp, ⟨β, hβs, langString_mono (genN_L P n) β w hw⟩, Star.nil⟩
  · rintro ⟨u, v, rfl, ⟨α, hα, hu⟩, hv⟩
    have first : L P N u := (L_fix P N _).mpr ⟨α, mem_alts.mpr ((hshape α).mpr (Or.inr hα)), hu⟩
    have acc : ∀ w, Star (langStrings (L P) s) w → ∀ p, L P N p → L P N (p ++ w) := by
      intro w hw
      induction hw with
      | nil => intro p hp; simpa using hp
      | cons a b ha _ ih =>
        intro p hp
        rw [← List.append_assoc]
        obtain ⟨α', hα', hv'⟩ := ha
        exact ih (p ++ a) ((L_fix P N _).mpr
          ⟨prepend N α', mem_alts.mpr ((hshape _).mpr (Or.inl ⟨α', hα', rfl⟩)), p, a, rfl, hp, hv'⟩)
    exact acc v hv u first


theorem lang_operator (P : List GProd) (k : Kind) (n : String) (s : Strings)
    (hshape : ∀ β, ⟨n, β⟩ ∈ P ↔ ShapeMem k n s β) (w : List String) :
    L P n w ↔ shapeLang k (langStrings (L P) s) w := by
  cases k with
  | group => exact lang_group P n s hshape w
  | opt => exact lang_opt P n s hshape w
  | star => exact lang_star P n s hshape w
  | plus => exact lang_plus P n s hshape w

end Emerge.Props.C01
