import Emerge.Base
/-
  Byte-level model of the emitted two-half reader (`templates/input.go.tmpl`, after the `fix:` commit):

    buff[0:2n]; forward; retracted; the io.Reader is consumed in blocks of n bytes
    load(low)      n bytes (fewer at the end of the source) into buff[low:low+n]; a short block is followed by the
                   sentinel 0x00
    next()         b := buff[forward]; b == 0 and forward == end → io.EOF, nothing changes
                   (end = the index of the sentinel once the source has ended: a zero byte of the source is data)
                   forward++; retracted > 0 → retracted-- (wrap at 2n, no load)
                   else forward == n → load(n); forward == 2n → load(0), forward = 0
    Retract(size)  forward -= size (wrapping below 0 by +2n); retracted += size
    pending        the bytes read since the start of the pending lexeme: next() appends the byte it returns,
                   Retract(size) drops the last size bytes
    Lexeme()       returns pending and clears it
    Skip()         clears pending

  `src : Nat → Nat` with `len` is the source (bytes at absolute offsets). Core Lean only.
-/
namespace Emerge.Reader

structure RState where
  buf : Nat → Nat
  fwd : Nat
  pend : Nat          -- `retracted`
  loaded : Nat        -- how much of the source the loads have consumed
  pending : List Nat  -- the bytes of the pending lexeme
  stop : Option Nat   -- `end`: the index of the sentinel once the source has ended (`none` = -1)

def load (src : Nat → Nat) (len n : Nat) (s : RState) (low : Nat) : RState :=
  let cnt := min n (len - s.loaded)
  { s with
    buf := fun i =>
      if low ≤ i ∧ i < low + cnt then src (s.loaded + (i - low))
      else if i = low + cnt ∧ cnt < n then 0
      else s.buf i,
    loaded := s.loaded + cnt,
    stop := if cnt < n then some (low + cnt) else s.stop }

/-- `next()` without the bookkeeping of the pending lexeme -/
def nextCore (src : Nat → Nat) (len n : Nat) (s : RState) : Option Nat × RState :=
  let b := s.buf s.fwd
  if b = 0 ∧ s.stop = some s.fwd then (none, s)
  else
    let f := s.fwd + 1
    if 0 < s.pend then (some b, { s with fwd := if f = 2 * n then 0 else f, pend := s.pend - 1 })
    else if f = n then (some b, load src len n { s with fwd := f } n)
    else if f = 2 * n then (some b, { load src len n s 0 with fwd := 0 })
    else (some b, { s with fwd := f })

/-- `next()`: the byte returned is appended to the pending lexeme (end of input changes nothing) -/
def next (src : Nat → Nat) (len n : Nat) (s : RState) : Option Nat × RState :=
  match nextCore src len n s with
  | (some b, s') => (some b, { s' with pending := s.pending ++ [b] })
  | (none, s') => (none, s')

def retract (n : Nat) (s : RState) (size : Nat) : RState :=
  { s with fwd := if size ≤ s.fwd then s.fwd - size else s.fwd + 2 * n - size, pend := s.pend + size,
           pending := s.pending.take (s.pending.length - size) }

/-- `newInput`: an empty buffer, then the first half is loaded -/
def init (src : Nat → Nat) (len n : Nat) (buf0 : Nat → Nat) : RState :=
  load src len n ⟨buf0, 0, 0, 0, [], none⟩ 0

def lexeme (s : RState) : List Nat × RState := (s.pending, { s with pending := [] })

def skip (s : RState) : RState := { s with pending := [] }

/-! ### the plain stream the reader is meant to be, and runs of both -/

inductive Op where
  | next
  | retract (size : Nat)
  | lexeme
  | skip

inductive Out where
  | byte (b : Nat)
  | eof
  | unit
  | lex (bs : List Nat)
  deriving DecidableEq, Repr

/-- the plain stream: cursor, bytes currently given back, start of the pending lexeme -/
structure AState where
  k : Nat
  p : Nat
  kb : Nat

/-- one call on the plain stream; `none` = the call is outside the reader's contract (a `Retract` must give back
    bytes of the pending lexeme and keep at most one half outstanding) -/
def aStep (src : Nat → Nat) (len n : Nat) (a : AState) : Op → Option (Out × AState)
  | .next => if a.k < len then some (.byte (src a.k), ⟨a.k + 1, a.p - 1, a.kb⟩) else some (.eof, a)
  | .retract size => if size + a.kb ≤ a.k ∧ a.p + size ≤ n then some (.unit, ⟨a.k - size, a.p + size, a.kb⟩) else none
  | .lexeme => some (.lex ((List.range (a.k - a.kb)).map fun i => src (a.kb + i)), ⟨a.k, a.p, a.k⟩)
  | .skip => some (.unit, ⟨a.k, a.p, a.k⟩)

def aRun (src : Nat → Nat) (len n : Nat) : AState → List Op → Option (List Out)
  | _, [] => some []
  | st, op :: ops =>
    match aStep src len n st op with
    | none => none
    | some (o, st') => (aRun src len n st' ops).map (o :: ·)

def cStep (src : Nat → Nat) (len n : Nat) (s : RState) : Op → Out × RState
  | .next => (match (next src len n s).1 with | some b => .byte b | none => .eof, (next src len n s).2)
  | .retract size => (.unit, retract n s size)
  | .lexeme => (.lex (lexeme s).1, (lexeme s).2)
  | .skip => (.unit, skip s)

def cRun (src : Nat → Nat) (len n : Nat) : RState → List Op → List Out
  | _, [] => []
  | s, op :: ops => (cStep src len n s op).1 :: cRun src len n (cStep src len n s op).2 ops


end Emerge.Reader
