import Emerge.Base
/-
  Byte-level model of the emitted two-half reader (`templates/input.go.tmpl`, after the `fix:` commit):

    buff[0:2n]; forward; retracted; the io.Reader is consumed in blocks of n bytes
    load(low)      n bytes (fewer at the end of the source) into buff[low:low+n]; a short block is followed by the
                   sentinel 0x00
    next()         b := buff[forward]; b == 0 → io.EOF, nothing changes
                   forward++; retracted > 0 → retracted-- (wrap at 2n, no load)
                   else forward == n → load(n); forward == 2n → load(0), forward = 0
    Retract(size)  forward -= size (wrapping below 0 by +2n); retracted += size

  `src : Nat → Nat` with `len` is the source (bytes at absolute offsets). Core Lean only.
-/
namespace Emerge.Reader

structure RState where
  buf : Nat → Nat
  fwd : Nat
  pend : Nat          -- `retracted`
  loaded : Nat        -- how much of the source the loads have consumed

def load (src : Nat → Nat) (len n : Nat) (s : RState) (low : Nat) : RState :=
  let cnt := min n (len - s.loaded)
  { s with
    buf := fun i =>
      if low ≤ i ∧ i < low + cnt then src (s.loaded + (i - low))
      else if i = low + cnt ∧ cnt < n then 0
      else s.buf i,
    loaded := s.loaded + cnt }

def next (src : Nat → Nat) (len n : Nat) (s : RState) : Option Nat × RState :=
  let b := s.buf s.fwd
  if b = 0 then (none, s)
  else
    let f := s.fwd + 1
    if 0 < s.pend then (some b, { s with fwd := if f = 2 * n then 0 else f, pend := s.pend - 1 })
    else if f = n then (some b, load src len n { s with fwd := f } n)
    else if f = 2 * n then (some b, { load src len n s 0 with fwd := 0 })
    else (some b, { s with fwd := f })

def retract (n : Nat) (s : RState) (size : Nat) : RState :=
  { s with fwd := if size ≤ s.fwd then s.fwd - size else s.fwd + 2 * n - size, pend := s.pend + size }

/-- `newInput`: an empty buffer, then the first half is loaded -/
def init (src : Nat → Nat) (len n : Nat) (buf0 : Nat → Nat) : RState :=
  load src len n ⟨buf0, 0, 0, 0⟩ 0

/-! ### the plain stream the reader is meant to be -/

/-- abstract cursor: the number of bytes consumed -/
def anext (src : Nat → Nat) (len : Nat) (k : Nat) : Option Nat × Nat :=
  if k < len then (some (src k), k + 1) else (none, k)

end Emerge.Reader
