import Emerge.Base
/-
  Line protocol helpers (hex fields) shared by the model driver.
-/
namespace Emerge.Proto

def hexDigit (n : Nat) : Char :=
  if n < 10 then Char.ofNat (48 + n) else Char.ofNat (87 + n)

def hexVal (c : Char) : Nat :=
  let n := c.toNat
  if 48 ≤ n ∧ n ≤ 57 then n - 48 else if 97 ≤ n ∧ n ≤ 102 then n - 87 else if 65 ≤ n ∧ n ≤ 70 then n - 55 else 0

def hexOfBytes (bs : List Nat) : String :=
  if bs.isEmpty then "-" else
  String.ofList (bs.flatMap fun b => [hexDigit (b / 16 % 16), hexDigit (b % 16)])

def bytesOfHexAux : List Char → List Nat
  | a :: b :: rest => (hexVal a * 16 + hexVal b) :: bytesOfHexAux rest
  | _ => []

def bytesOfHex (s : String) : List Nat :=
  if s == "-" then [] else bytesOfHexAux s.toList

def bytesOfString (s : String) : List Nat := s.toUTF8.toList.map UInt8.toNat

def hexOfString (s : String) : String := hexOfBytes (bytesOfString s)

end Emerge.Proto
