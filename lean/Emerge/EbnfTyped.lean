import Emerge.LR
import Emerge.Base
/-
  Model of the typed syntax tree of a specification (`internal/ebnf/parser/ast`, `ast.Parse`): the 35
  evaluation actions that build `Grammar / TokenDecl / PrecedenceDecl / RuleDecl` and the right-hand
  sides `ConcatRHS / AltRHS / OptRHS / StarRHS / PlusRHS / TerminalRHS / NonTerminalRHS / EmptyRHS`
  (juxtaposition and alternation flattened into n-ary nodes, parentheses transparent).
  Everything that is not a right-hand side is kept as its printed S-expression (the form in which
  the harness prints the tree); right-hand sides are a data type, because theorems are about them.
  Core Lean only.
-/
namespace Emerge.EbnfTyped
open Emerge

inductive TRhs where
  | term (a : String)
  | nonterm (A : String)
  | empty
  | concat (ops : List TRhs)
  | alt (ops : List TRhs)
  | opt (x : TRhs)
  | star (x : TRhs)
  | plus (x : TRhs)
  deriving Repr, Inhabited

def hexDigit (n : Nat) : Char := if n < 10 then Char.ofNat (48 + n) else Char.ofNat (87 + n)

/-- lower-case hexadecimal of the UTF-8 bytes, `-` for the empty string (the harness's `hx`) -/
def hx (s : String) : String :=
  if s.isEmpty then "-" else
    String.ofList (s.toUTF8.toList.flatMap fun b => [hexDigit (b.toNat / 16), hexDigit (b.toNat % 16)])

mutual
def TRhs.sexp : TRhs → String
  | .term a => "(t " ++ hx a ++ ")"
  | .nonterm A => "(nt " ++ hx A ++ ")"
  | .empty => "(eps)"
  | .concat ops => "(concat " ++ sexpList ops ++ ")"
  | .alt ops => "(alt " ++ sexpList ops ++ ")"
  | .opt x => "(opt " ++ x.sexp ++ ")"
  | .star x => "(star " ++ x.sexp ++ ")"
  | .plus x => "(plus " ++ x.sexp ++ ")"
def sexpList : List TRhs → String
  | [] => ""
  | [x] => x.sexp
  | x :: y :: rest => x.sexp ++ " " ++ sexpList (y :: rest)
end

/-- operands contributed to a concatenation / an alternation: an operand that is itself one is spliced in -/
def opsC : TRhs → List TRhs
  | .concat ops => ops
  | x => [x]

def opsA : TRhs → List TRhs
  | .alt ops => ops
  | x => [x]

/-- values on the evaluation stack -/
inductive TVal where
  | nil
  | str (s : String)                    -- a lexeme, a terminal's or a non-terminal's name
  | rhs (r : TRhs)
  | rule (lhs : String) (r : TRhs)
  | handles (hs : List String)          -- printed handles
  | decl (sexp : String)
  | decls (ds : List String)
  | grammar (sexp : String)
  deriving Repr, Inhabited

structure PV where
  val : TVal
  deriving Repr, Inhabited

/-- `fmt.Sprintf("%q", s)` for the texts a STRING lexeme can hold (printable ASCII): quote and backslash escaped -/
def goQuote (s : String) : String :=
  "\"" ++ String.ofList (s.toList.flatMap fun c => if c = '"' ∨ c = '\\' then ['\\', c] else [c]) ++ "\""

def precSexp (assoc : Nat) (hs : List String) : String := "(prec " ++ toString assoc ++ " " ++ " ".intercalate hs ++ ")"

/-- the evaluation function of `ast.Parse`; `none` = a Go run-time panic (type assertion) that cannot occur on values the
    driver produces; `.error` = the one error an action returns (unknown predefined pattern) -/
inductive Res where
  | ok (v : TVal)
  | error (msg : String)
  | panic

def typedAction (predefs : List (String × String)) (i : Nat) (rhs : List TVal) : Res :=
  let v : Nat → TVal := fun k => rhs.getD k .nil
  match i with
  | 34 => match v 0 with | .str s => .ok (.str (goQuote s)) | _ => .panic
  | 33 => match v 0 with | .str s => .ok (.str s) | _ => .panic
  | 32 => match v 0 with | .str s => .ok (.str s) | _ => .panic
  | 31 => match v 0 with | .str s => .ok (.rhs (.term s)) | _ => .panic
  | 30 => match v 0 with | .str s => .ok (.rhs (.nonterm s)) | _ => .panic
  | 29 => match v 0 with | .rhs l => .ok (.rhs (.alt (opsA l ++ [.empty]))) | _ => .panic
  | 28 => match v 0, v 2 with | .rhs l, .rhs r => .ok (.rhs (.alt (opsA l ++ opsA r))) | _, _ => .panic
  | 27 => match v 1 with | .rhs x => .ok (.rhs (.plus x)) | _ => .panic
  | 26 => match v 1 with | .rhs x => .ok (.rhs (.star x)) | _ => .panic
  | 25 => match v 1 with | .rhs x => .ok (.rhs (.opt x)) | _ => .panic
  | 24 => .ok (v 1)
  | 23 => match v 0, v 1 with | .rhs l, .rhs r => .ok (.rhs (.concat (opsC l ++ opsC r))) | _, _ => .panic
  | 22 => .ok (v 0)
  | 21 => match v 0 with | .str A => .ok (.rule A .empty) | _ => .panic
  | 20 => match v 0, v 2 with | .str A, .rhs r => .ok (.rule A r) | _, _ => .panic
  | 19 => .ok (v 1)
  | 18 => match v 0 with | .rule A r => .ok (.handles ["(ph " ++ hx A ++ " " ++ r.sexp ++ ")"]) | _ => .panic
  | 17 => match v 0 with | .str a => .ok (.handles ["(th " ++ hx a ++ ")"]) | _ => .panic
  | 16 => match v 0, v 1 with
    | .handles hs, .rule A r => .ok (.handles (hs ++ ["(ph " ++ hx A ++ " " ++ r.sexp ++ ")"])) | _, _ => .panic
  | 15 => match v 0, v 1 with | .handles hs, .str a => .ok (.handles (hs ++ ["(th " ++ hx a ++ ")"])) | _, _ => .panic
  | 14 => match v 1 with | .handles hs => .ok (.decl (precSexp 0 hs)) | _ => .panic
  | 13 => match v 1 with | .handles hs => .ok (.decl (precSexp 2 hs)) | _ => .panic
  | 12 => match v 1 with | .handles hs => .ok (.decl (precSexp 1 hs)) | _ => .panic
  | 11 => match v 0, v 2 with
    | .str n, .str p =>
      match predefs.find? (·.1 == p) with
      | some (_, re) => .ok (.decl ("(retok " ++ hx n ++ " " ++ hx re ++ ")"))
      | none => .error ("invalid predefined regex: " ++ p)
    | _, _ => .panic
  | 10 => match v 0, v 2 with | .str n, .str re => .ok (.decl ("(retok " ++ hx n ++ " " ++ hx re ++ ")")) | _, _ => .panic
  | 9 => match v 0, v 2 with | .str n, .str s => .ok (.decl ("(strtok " ++ hx n ++ " " ++ hx s ++ ")")) | _, _ => .panic
  | 8 => .ok .nil
  | 7 => .ok .nil
  | 6 => match v 0 with | .rule A r => .ok (.decl ("(rule " ++ hx A ++ " " ++ r.sexp ++ ")")) | _ => .panic
  | 5 => .ok (v 0)
  | 4 => .ok (v 0)
  | 3 => .ok .nil
  | 2 => match v 0, v 1 with
    | .nil, .decl d => .ok (.decls [d])
    | .decls ds, .decl d => .ok (.decls (ds ++ [d]))
    | _, _ => .panic
  | 1 => match v 1 with | .str n => .ok (.str n) | _ => .panic
  | 0 => match v 0, v 1 with
    | .str n, .nil => .ok (.grammar ("(grammar " ++ hx n ++ " )"))
    | .str n, .decls ds => .ok (.grammar ("(grammar " ++ hx n ++ " " ++ " ".intercalate ds ++ ")"))
    | _, _ => .panic
  | _ => .error "invalid production index"

def popN : Nat → List TVal → Option (List TVal × List TVal)
  | 0, st => some ([], st)
  | _ + 1, [] => none
  | n + 1, x :: st => (popN n st).map fun r => (r.1 ++ [x], r.2)

/-- `ParseAndEvaluate` with the typed actions over the callbacks of a parse -/
def evalTyped (predefs : List (String × String)) (prods : List Prod) (lexemes : List String) :
    List LR.Event → List TVal → Except String (List TVal)
  | [], st => .ok st
  | .tok i :: es, st => evalTyped predefs prods lexemes es (.str (lexemes.getD i "") :: st)
  | .prod p :: es, st =>
    match prods[p]? with
    | none => .error "PANIC production index"
    | some (_, body) =>
      match popN body.length st with
      | none => .error "PANIC value stack underflow"
      | some (rhs, rest) =>
        match typedAction predefs p rhs with
        | .ok v => evalTyped predefs prods lexemes es (v :: rest)
        | .error m => .error ("ERR " ++ m)
        | .panic => .error "PANIC type assertion"

end Emerge.EbnfTyped
