import Emerge.Base
import Emerge.CFG
import Emerge.LR
/-
  Model of the semantic actions of `spec.Parse` (`/repo/internal/ebnf/parser/spec/parser.go`)
  and of the symbol table (`symbol_table.go`, `strings.go`), evaluated over the reduction sequence
  of the LR driver as `Parser.ParseAndEvaluate` does (value stack, position of the first body
  symbol becomes the position of the head).

  Go panics (failed type assertions on semantic values, index out of range) are explicit:
  `Outcome.panic`.
-/
namespace Emerge.Ebnf

inductive GSym where
  | t (name : String)
  | nt (name : String)
  deriving DecidableEq, Repr, Inhabited

abbrev GString := List GSym
abbrev Strings := List GString

structure GProd where
  head : String
  body : GString
  deriving DecidableEq, Repr, Inhabited

structure TermDef where
  term : String
  value : String
  isRegex : Bool
  pos : Option Pos
  deriving DecidableEq, Repr, Inhabited

inductive GHandle where
  | term (a : String)
  | prod (p : GProd)
  deriving DecidableEq, Repr, Inhabited

structure Level where
  assoc : Assoc
  handles : List GHandle      -- a set: no duplicates, order irrelevant
  deriving DecidableEq, Repr, Inhabited

structure TermEntry where
  name : String
  defs : List TermDef
  deriving Repr, Inhabited

structure MemoEntry where
  group : String := ""
  opt : String := ""
  star : String := ""
  plus : String := ""
  deriving Repr, Inhabited

structure SymTab where
  terminals : List TermEntry := []      -- in order of first appearance
  nonTerminals : List String := []
  prods : List GProd := []              -- a set
  memo : List (Strings × MemoEntry) := []
  counter : Nat := 0
  levels : List Level := []
  errs : List String := []              -- the MultiError of `Parse` ("invalid predefined regex")
  deriving Repr, Inhabited

structure SpecResult where
  name : String
  defs : List TermDef
  terminals : List String
  nonTerminals : List String
  prods : List GProd
  levels : List Level
  deriving Repr, Inhabited

inductive Val where
  | nil
  | str (s : String)
  | term (a : String)
  | nonterm (A : String)
  | strings (ss : Strings)
  | prods (ps : List GProd)
  | handles (hs : List GHandle)
  | level (l : Level)
  | spec (r : SpecResult)
  deriving Repr, Inhabited

/-- `lr.Value`: value and position -/
structure PVal where
  val : Val
  pos : Option Pos
  deriving Repr, Inhabited

inductive Outcome (α : Type) where
  | ok (a : α)
  | err (lines : List String)     -- an error value (its diagnostics, flattened)
  | panic (what : String)
  deriving Repr

/-- Switches for the recorded findings that are not repaired in `/repo` (see known_findings.json):
    `Cfg.current` mirrors the code, `Cfg.fixed` is the code with those findings repaired. -/
structure Cfg where
  /-- prefix of synthesised non-terminal names; `gen` can be spelled by the user (finding F2b) -/
  genPrefix : String
  /-- prefix of the table key of a string literal; with the empty prefix the literal `"IF"` and the
      token `IF` share one key (finding F14) -/
  litPrefix : String

def Cfg.current : Cfg := ⟨"gen", ""⟩
def Cfg.fixed : Cfg := ⟨"%gen", "\""⟩

/-! ### strings.go -/

def stringsContains (s : Strings) (α : GString) : Bool := s.any (· == α)

/-- `eqStrings`: equality as sets -/
def eqStrings (l r : Strings) : Bool := l.all (stringsContains r) && r.all (stringsContains l)

/-- Key equality of the memo table as the hash table implements it: `hashStrings` sorts the list and
    hashes every element (duplicates included), so two keys meet in the table exactly when they are
    equal as multisets; `eqStrings` (set equality) is then trivially true. (FNV collisions ignored.) -/
def keyEq (l r : Strings) : Bool :=
  l.length == r.length && l.all (fun x => l.count x == r.count x) && eqStrings l r

/-! ### symbol table -/

def terminalNames : List (String × String) := [
  ("\t", "tab"), ("\n", "newline"), (" ", "space"), ("!", "exclam"), ("\"", "dquot"), ("#", "hash"),
  ("$", "dollar"), ("%", "percent"), ("&", "ampersand"), ("'", "squot"), ("(", "lparen"), (")", "rparen"),
  ("*", "star"), ("+", "plus"), (",", "comma"), ("-", "dash"), (".", "dot"), ("/", "slash"), (":", "colon"),
  (";", "semi"), ("<", "lt"), ("=", "equal"), (">", "gt"), ("?", "question"), ("@", "atsign"), ("[", "lbrack"),
  ("\\", "backslash"), ("]", "rbrack"), ("^", "caret"), ("_", "underscore"), ("`", "backtick"), ("{", "rbrace"),
  ("|", "bar"), ("}", "lbrace"), ("~", "tilde") ]

def lookupName (tbl : List (String × String)) (a : String) : String :=
  match tbl.find? (·.1 == a) with
  | some (_, n) => n
  | none => ""

/-- the numbered fall-back: first free `gen<N>_<suffix>` (fuel bounds the search) -/
def freshNumbered (cfg : Cfg) (nts : List String) (suffix : String) : Nat → Nat → Nat × String
  | 0, c => (c + 1, cfg.genPrefix ++ toString (c + 1) ++ "_" ++ suffix)
  | fuel + 1, c =>
    let n := cfg.genPrefix ++ toString (c + 1) ++ "_" ++ suffix
    if nts.contains n then freshNumbered cfg nts suffix fuel (c + 1) else (c + 1, n)

/-- `mapStringToNoneTerminal` (after the fix: a taken name falls back to a numbered one) -/
def mapStringToNonTerminal (cfg : Cfg) (names : List (String × String)) (t : SymTab) (s : Strings) (suffix : String) : SymTab × String :=
  let base : String :=
    match s with
    | [[.nt v]] => v
    | [[.t v]] => lookupName names (v.drop cfg.litPrefix.length).toString
    | _ => ""
  let cand := if base == "" then "" else cfg.genPrefix ++ "_" ++ base ++ "_" ++ suffix
  if cand != "" && !t.nonTerminals.contains cand then (t, cand)
  else
    let r := freshNumbered cfg t.nonTerminals suffix (t.nonTerminals.length + 1) t.counter
    ({ t with counter := r.1 }, r.2)

inductive Kind where
  | group | opt | star | plus
  deriving DecidableEq, Repr

def Kind.suffix : Kind → String
  | .group => "group" | .opt => "opt" | .star => "star" | .plus => "plus"

def MemoEntry.get (e : MemoEntry) : Kind → String
  | .group => e.group | .opt => e.opt | .star => e.star | .plus => e.plus

def MemoEntry.set (e : MemoEntry) (k : Kind) (n : String) : MemoEntry :=
  match k with
  | .group => { e with group := n } | .opt => { e with opt := n }
  | .star => { e with star := n } | .plus => { e with plus := n }

def updateMemo (m : List (Strings × MemoEntry)) (s : Strings) (k : Kind) (n : String) : List (Strings × MemoEntry) :=
  match m with
  | [] => [(s, ({} : MemoEntry).set k n)]
  | (s', e) :: rest => if keyEq s' s then (s', e.set k n) :: rest else (s', e) :: updateMemo rest s k n

/-- `GetGroup/GetOpt/GetStar/GetPlus` -/
def getName (cfg : Cfg) (names : List (String × String)) (t : SymTab) (s : Strings) (k : Kind) : SymTab × String :=
  match t.memo.find? (fun e => keyEq e.1 s) with
  | some (_, e) =>
    if e.get k != "" then (t, e.get k)
    else
      let (t', n) := mapStringToNonTerminal cfg names t s k.suffix
      ({ t' with memo := updateMemo t'.memo s k n }, n)
  | none =>
    let (t', n) := mapStringToNonTerminal cfg names t s k.suffix
    ({ t' with memo := t'.memo ++ [(s, ({} : MemoEntry).set k n)] }, n)

def addNonTerminal (t : SymTab) (A : String) : SymTab :=
  if t.nonTerminals.contains A then t else { t with nonTerminals := t.nonTerminals ++ [A] }

def addProduction (t : SymTab) (p : GProd) : SymTab :=
  if t.prods.contains p then t else { t with prods := t.prods ++ [p] }

/-- `unescapeString`: a backslash stands for the byte that follows it (operates on bytes in Go; the
    lexer only delivers ASCII here) -/
def unescape : List Char → List Char
  | [] => []
  | ['\\'] => ['\\']
  | '\\' :: c :: rest => c :: unescape rest
  | c :: rest => c :: unescape rest

def unescapeString (s : String) : String := String.ofList (unescape s.toList)

def addDef (t : SymTab) (a : String) (d : TermDef) : SymTab :=
  if t.terminals.any (·.name == a) then
    { t with terminals := t.terminals.map fun e => if e.name == a then { e with defs := e.defs ++ [d] } else e }
  else { t with terminals := t.terminals ++ [⟨a, [d]⟩] }

def addStringTokenDef (t : SymTab) (tok value : String) (pos : Option Pos) : SymTab :=
  addDef t tok ⟨tok, unescapeString value, false, pos⟩

def addRegexTokenDef (t : SymTab) (tok regex : String) (pos : Option Pos) : SymTab :=
  addDef t tok ⟨tok, regex, true, pos⟩

/-- `key` is the table key of the literal, `text` the literal as written -/
def addStringTerminal (t : SymTab) (key text : String) : SymTab :=
  if t.terminals.any (·.name == key) then t
  else { t with terminals := t.terminals ++ [⟨key, [⟨key, unescapeString text, false, none⟩]⟩] }

def addTokenTerminal (t : SymTab) (a : String) : SymTab :=
  if t.terminals.any (·.name == a) then t else { t with terminals := t.terminals ++ [⟨a, []⟩] }

def dedupHandles (hs : List GHandle) : List GHandle :=
  hs.foldl (fun acc h => if acc.contains h then acc else acc ++ [h]) []

/-! ### diagnostics (texts as the Go code formats them) -/

def goQuote (s : String) : String :=
  "\"" ++ String.join (s.toList.map fun c =>
    if c = '"' then "\\\"" else if c = '\\' then "\\\\" else
    if c = '\n' then "\\n" else if c = '\t' then "\\t" else if c = '\r' then "\\r" else String.singleton c) ++ "\""

def posText (file : String) : Option Pos → String
  | none => "<nil>"
  | some p => p.render file

def symText : GSym → String
  | .t a => goQuote a
  | .nt A => A

def bodyText (b : GString) : String := if b.isEmpty then "ε" else " ".intercalate (b.map symText)

def handleText : GHandle → String
  | .term a => goQuote a
  | .prod p => p.head ++ " = " ++ bodyText p.body

/-- insertion sort on strings (total order `<` on `String`) -/
def insertStr (x : String) : List String → List String
  | [] => [x]
  | y :: ys => if x ≤ y then x :: y :: ys else y :: insertStr x ys
def sortStr (l : List String) : List String := l.foldr insertStr []

/-- `CmpTerminal` is the ordinary string order on names -/
def sortedTerminalEntries (t : SymTab) : List TermEntry :=
  let names := sortStr (t.terminals.map (·.name))
  names.filterMap fun n => t.terminals.find? (·.name == n)

/-- `ensureSingleDefs` (terminals visited in sorted order, after the fix) -/
def ensureSingleDefs (file : String) (t : SymTab) : List String :=
  (sortedTerminalEntries t).flatMap fun e =>
    if e.defs.length == 0 then ["no definition for terminal " ++ goQuote e.name]
    else if e.defs.length > 1 then
      ["multiple definitions for terminal " ++ goQuote e.name ++ ":\n" ++
        "\n".intercalate (e.defs.map fun d => "  " ++ posText file d.pos)]
    else []

/-- `ensureDistinctDefs` -/
def ensureDistinctDefs (file : String) (t : SymTab) : List String :=
  let singles := (sortedTerminalEntries t).filterMap fun e => match e.defs with | [d] => some d | _ => none
  let values := singles.foldl (fun acc d => if acc.contains d.value then acc else acc ++ [d.value]) ([] : List String)
  values.flatMap fun v =>
    let ds := singles.filter (·.value == v)
    if ds.length > 1 then
      ["multiple definitions with the same value: " ++ goQuote v ++ "\n" ++
        "\n".intercalate (ds.map fun d => "  " ++ posText file d.pos ++ ": " ++ goQuote d.term)]
    else []

def ensureStart (t : SymTab) : List String :=
  if t.prods.any (·.head == "start") then [] else ["missing production rule with the start symbol: start"]

def verify (file : String) (t : SymTab) : List String :=
  ensureSingleDefs file t ++ ensureDistinctDefs file t ++ ensureStart t

/-- key of `Definitions()`: strings before patterns, shorter names first, then by name -/
def defLe (a b : TermDef) : Bool :=
  if !a.isRegex && b.isRegex then true else if a.isRegex && !b.isRegex then false
  else if a.term.utf8ByteSize < b.term.utf8ByteSize then true else if a.term.utf8ByteSize > b.term.utf8ByteSize then false
  else a.term ≤ b.term

def insertDef (x : TermDef) : List TermDef → List TermDef
  | [] => [x]
  | y :: ys => if defLe x y then x :: y :: ys else y :: insertDef x ys

def definitions (t : SymTab) : List TermDef :=
  (t.terminals.filterMap fun e => match e.defs with | [d] => some d | _ => none).foldr insertDef []

/-- `CFG.Verify` restricted to what can fail here: every non-terminal needs a production
    (the other clauses are established by the symbol table; they are kept for faithfulness) -/
def cfgVerify (t : SymTab) : List String :=
  (if t.nonTerminals.contains "start" then [] else ["start symbol start not in the set of non-terminal symbols"]) ++
  (if t.prods.any (·.head == "start") then [] else ["no production rule for start symbol start"]) ++
  (t.nonTerminals.filterMap fun n =>
    if t.prods.any (·.head == n) then none else some ("no production rule for non-terminal symbol " ++ n)) ++
  (t.prods.flatMap fun p =>
    (if t.nonTerminals.contains p.head then [] else ["production head " ++ p.head ++ " not in the set of non-terminal symbols"]) ++
    p.body.filterMap fun s => match s with
      | .t a => if t.terminals.any (·.name == a) then none else some ("terminal symbol " ++ goQuote a ++ " not in the set of terminal symbols")
      | .nt A => if t.nonTerminals.contains A then none else some ("non-terminal symbol " ++ A ++ " not in the set of non-terminal symbols"))

def pairsIdx (n : Nat) : List (Nat × Nat) :=
  (List.range n).flatMap fun i => ((List.range n).filter (i < ·)).map fun j => (i, j)

/-- `PrecedenceLevels.Verify`: a handle in two levels -/
def precVerify (ls : List Level) : List String :=
  (pairsIdx ls.length).filterMap fun (i, j) =>
    let a := (ls[i]?).getD default
    let b := (ls[j]?).getD default
    let inter := a.handles.filter b.handles.contains
    if inter.isEmpty then none
    else some (", ".intercalate (sortStr (inter.map handleText)) ++ " appeared in more than one precedence level")

/-! ### the semantic actions -/

def typeErr {α} (i : Nat) : Outcome α := .panic ("interface conversion in action " ++ toString i)

def prepend (A : String) (α : GString) : GString := .nt A :: α

def closureAction (cfg : Cfg) (names : List (String × String)) (t : SymTab) (s : Strings) (k : Kind) : SymTab × String :=
  let (t1, n) := getName cfg names t s k
  let t2 := addNonTerminal t1 n
  let t3 := match k with
    | .plus => s.foldl (fun t α => addProduction (addProduction t ⟨n, prepend n α⟩) ⟨n, α⟩) t2
    | .star => addProduction (s.foldl (fun t α => addProduction t ⟨n, prepend n α⟩) t2) ⟨n, []⟩
    | .opt => addProduction (s.foldl (fun t α => addProduction t ⟨n, α⟩) t2) ⟨n, []⟩
    | .group => s.foldl (fun t α => addProduction t ⟨n, α⟩) t2
  (t3, n)

def levelAction (t : SymTab) (a : Assoc) (v : Val) (i : Nat) : Outcome (SymTab × Val) :=
  match v with
  | .handles hs =>
    let l : Level := ⟨a, dedupHandles hs⟩
    .ok ({ t with levels := t.levels ++ [l] }, .level l)
  | _ => typeErr i

/-- The evaluation function passed to `ParseAndEvaluate`: production index and the values of the body. -/
def action (cfg : Cfg) (file : String) (names : List (String × String)) (predefs : List (String × String))
    (t : SymTab) (i : Nat) (rhs : List PVal) : Outcome (SymTab × Val) :=
  let v : Nat → Option Val := fun k => ((rhs[k]?).map (·.val))
  let p : Nat → Option Pos := fun k => ((rhs[k]?).bind (·.pos))
  match i with
  | 34 => match v 0 with
    | some (.str a) => .ok (addStringTerminal t (cfg.litPrefix ++ a) a, .term (cfg.litPrefix ++ a))
    | _ => typeErr i
  | 33 => match v 0 with
    | some (.str a) => .ok (addTokenTerminal t a, .term a)
    | _ => typeErr i
  | 32 => match v 0 with
    | some (.str A) => .ok (addNonTerminal t A, .nonterm A)
    | _ => typeErr i
  | 31 => match v 0 with
    | some (.term a) => .ok (t, .strings [[.t a]])
    | _ => typeErr i
  | 30 => match v 0 with
    | some (.nonterm A) => .ok (t, .strings [[.nt A]])
    | _ => typeErr i
  | 29 => match v 0 with
    | some (.strings s) => .ok (t, .strings (s ++ [[]]))
    | _ => typeErr i
  | 28 => match v 0, v 2 with
    | some (.strings s1), some (.strings s2) => .ok (t, .strings (s1 ++ s2))
    | _, _ => typeErr i
  | 27 => match v 1 with
    | some (.strings s) => let r := closureAction cfg names t s .plus; .ok (r.1, .strings [[.nt r.2]])
    | _ => typeErr i
  | 26 => match v 1 with
    | some (.strings s) => let r := closureAction cfg names t s .star; .ok (r.1, .strings [[.nt r.2]])
    | _ => typeErr i
  | 25 => match v 1 with
    | some (.strings s) => let r := closureAction cfg names t s .opt; .ok (r.1, .strings [[.nt r.2]])
    | _ => typeErr i
  | 24 => match v 1 with
    | some (.strings s) => let r := closureAction cfg names t s .group; .ok (r.1, .strings [[.nt r.2]])
    | _ => typeErr i
  | 23 => match v 0, v 1 with
    | some (.strings s1), some (.strings s2) => .ok (t, .strings (s1.flatMap fun α => s2.map fun β => α ++ β))
    | _, _ => typeErr i
  | 22 => match v 0 with
    | some x => .ok (t, x)
    | none => .panic "index out of range"
  | 21 => match v 0 with
    | some (.nonterm A) => let pr : GProd := ⟨A, []⟩; .ok (addProduction t pr, .prods [pr])
    | _ => typeErr i
  | 20 => match v 0, v 2 with
    | some (.nonterm A), some (.strings s) =>
      let ps := s.map fun α => (⟨A, α⟩ : GProd)
      .ok (ps.foldl addProduction t, .prods ps)
    | _, _ => typeErr i
  | 19 => match v 1 with
    | some x => .ok (t, x)
    | none => .panic "index out of range"
  | 18 => match v 0 with
    | some (.prods ps) => .ok (t, .handles (ps.map .prod))
    | _ => typeErr i
  | 17 => match v 0 with
    | some (.term a) => .ok (t, .handles [.term a])
    | _ => typeErr i
  | 16 => match v 0, v 1 with
    | some (.handles hs), some (.prods ps) => .ok (t, .handles (hs ++ ps.map .prod))
    | _, _ => typeErr i
  | 15 => match v 0, v 1 with
    | some (.handles hs), some (.term a) => .ok (t, .handles (hs ++ [.term a]))
    | _, _ => typeErr i
  | 14 => match v 1 with
    | some x => levelAction t .none x i
    | none => .panic "index out of range"
  | 13 => match v 1 with
    | some x => levelAction t .right x i
    | none => .panic "index out of range"
  | 12 => match v 1 with
    | some x => levelAction t .left x i
    | none => .panic "index out of range"
  | 11 => match v 0, v 2 with
    | some (.str tok), some (.str value) =>
      match predefs.find? (·.1 == value) with
      | none => .ok ({ t with errs := t.errs ++ ["invalid predefined regex: " ++ value] }, .nil)
      | some (_, re) => .ok (addRegexTokenDef t tok re (p 0), .nil)
    | _, _ => typeErr i
  | 10 => match v 0, v 2 with
    | some (.str tok), some (.str re) => .ok (addRegexTokenDef t tok re (p 0), .nil)
    | _, _ => typeErr i
  | 9 => match v 0, v 2 with
    | some (.str tok), some (.str value) => .ok (addStringTokenDef t tok value (p 0), .nil)
    | _, _ => typeErr i
  | 8 | 7 | 6 | 5 | 4 | 3 | 2 => .ok (t, .nil)
  | 1 => match v 1 with
    | some x => .ok (t, x)
    | none => .panic "index out of range"
  | 0 =>
    let verr := verify file t
    if !verr.isEmpty then .err (t.errs ++ verr)
    else
      let errs := t.errs ++ sortStr (cfgVerify t) ++ precVerify t.levels      -- the grammar's diagnostics are ordered by their text
      if !errs.isEmpty then .err errs
      else match v 0 with
        | some (.str name) =>
          .ok (t, .spec ⟨name, definitions t, t.terminals.map (·.name), t.nonTerminals, t.prods, t.levels⟩)
        | _ => typeErr i
  | _ => .err ["invalid production index: " ++ toString i]

/-! ### `ParseAndEvaluate`: the value stack over the driver's events -/

def popVals : Nat → List PVal → Option (List PVal × List PVal)
  | 0, st => some ([], st)
  | _ + 1, [] => none
  | n + 1, x :: st => (popVals n st).map fun r => (r.1 ++ [x], r.2)

structure EvalState where
  tab : SymTab := {}
  stack : List PVal := []

/-- One callback: a token is pushed with its lexeme and position; a production pops the values of
    its body (left to right), applies the action and pushes the result with the position of the
    first body value. -/
def evalEvent (act : SymTab → Nat → List PVal → Outcome (SymTab × Val)) (prods : List Prod)
    (lexemes : List (String × Pos)) (s : EvalState) : LR.Event → Outcome EvalState
  | .tok i =>
    match lexemes[i]? with
    | some (lx, pos) => .ok { s with stack := ⟨.str lx, some pos⟩ :: s.stack }
    | none => .panic "token index"
  | .prod p =>
    match prods[p]? with
    | none => .panic "production index"
    | some (_, body) =>
      match popVals body.length s.stack with
      | none => .panic "value stack underflow"       -- Go: nil pointer dereference on a popped zero value
      | some (rhs, rest) =>
        match act s.tab p rhs with
        | .ok (t', v) =>
          let pos := match rhs with | x :: _ => x.pos | [] => none
          .ok { tab := t', stack := ⟨v, pos⟩ :: rest }
        | .err e => .err e
        | .panic w => .panic w

def evalEvents (act : SymTab → Nat → List PVal → Outcome (SymTab × Val)) (prods : List Prod)
    (lexemes : List (String × Pos)) : List LR.Event → EvalState → Outcome EvalState
  | [], s => .ok s
  | e :: es, s =>
    match evalEvent act prods lexemes s e with
    | .ok s' => evalEvents act prods lexemes es s'
    | .err x => .err x
    | .panic w => .panic w

end Emerge.Ebnf
