import Emerge.Gen.Regex
import Emerge.Ref.Regex
import Emerge.Proofs.Regex
/-
  The pattern grammar, the escape list and the ASCII class that are in the tree now are the documented ones.
  A change to `parser.go`'s combinator tree or to `rune.go` changes the generated term and the kernel rejects these.
-/
namespace Emerge.Inst.Regex
open Emerge.Regex

theorem rules_eq : Gen.Regex.rules = Ref.Regex.rules := rfl
theorem top_eq : Gen.Regex.top = Ref.Regex.top := rfl
theorem escaped_eq : Gen.Regex.escapedChars = Ref.Regex.escaped := rfl

/-- `RuneClasses["ASCII"]` is the range 0 … 127, as the bracket-group table assumes. -/
theorem ascii_ok : AsciiOk Gen.Regex.runeClasses := ⟨128, by decide +kernel⟩

/-- The documented character classes (docs: `\s`, `\d`, `\w`, the POSIX classes), as inclusive ranges. -/
def docClasses : List (String × List (Nat × Nat)) := [
  ("\\s", [(32, 32), (9, 9), (10, 10), (13, 13), (12, 12)]),
  ("\\d", [(48, 57)]),
  ("\\w", [(48, 57), (65, 90), (95, 95), (97, 122)]),
  ("[:blank:]", [(32, 32), (9, 9)]),
  ("[:space:]", [(32, 32), (9, 9), (10, 10), (13, 13), (12, 12), (11, 11)]),
  ("[:digit:]", [(48, 57)]),
  ("[:xdigit:]", [(48, 57), (65, 70), (97, 102)]),
  ("[:upper:]", [(65, 90)]),
  ("[:lower:]", [(97, 122)]),
  ("[:alpha:]", [(65, 90), (97, 122)]),
  ("[:alnum:]", [(48, 57), (65, 90), (97, 122)]),
  ("[:word:]", [(48, 57), (65, 90), (95, 95), (97, 122)]),
  ("[:ascii:]", [(0, 127)])]

theorem classes_ok : docClasses.all (fun (n, rs) => ClassTable.find Gen.Regex.runeClasses n == some rs) = true := by decide +kernel

end Emerge.Inst.Regex
