import Emerge.LALR
import Emerge.Ref.Ebnf
import Emerge.Gen.Tables
/-
  The embedded ACTION/GOTO tables are, entry for entry and with no extra entries (the comparison
  is in both directions, up to a renaming of states computed by simultaneous traversal), the
  LALR(1) tables of the documented grammar with the published precedence list.
  Checked by evaluation in the kernel (no `native_decide`).
-/
namespace Emerge.Inst.TablesLalr
open Emerge

def lalrCheck : Bool :=
  match LALR.build (LALR.ofCopy Ref.Ebnf.grammar) 60 with
  | some b => LALR.tablesIso Gen.Tables.actions Gen.Tables.gotos b.acts b.gotos
  | none => false

set_option maxRecDepth 100000 in
theorem tables_are_lalr : lalrCheck = true := by decide +kernel

end Emerge.Inst.TablesLalr
