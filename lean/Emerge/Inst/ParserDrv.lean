import Emerge.Gen.ParserDrv
import Emerge.Ref.ParserDrv
/-
  The LR driver reads as the models assume (regenerated from parser.go on every run).
-/
namespace Emerge.Inst.ParserDrv
open Emerge

theorem body_nextToken_eq : Gen.ParserDrv.body_nextToken = Ref.ParserDrv.body_nextToken := rfl
theorem body_Parse_eq : Gen.ParserDrv.body_Parse = Ref.ParserDrv.body_Parse := rfl
theorem body_ParseAndBuildAST_eq : Gen.ParserDrv.body_ParseAndBuildAST = Ref.ParserDrv.body_ParseAndBuildAST := rfl
theorem body_ParseAndEvaluate_eq : Gen.ParserDrv.body_ParseAndEvaluate = Ref.ParserDrv.body_ParseAndEvaluate := rfl

end Emerge.Inst.ParserDrv
