import Emerge.Ref.Lexer
import Emerge.Gen.Lexer
/-
  Instance theorems tying the tables regenerated from `/repo/internal/ebnf/lexer/lexer.go`
  (`Emerge.Gen.Lexer`) to the reference automaton written from the documentation.
-/
namespace Emerge.Inst.Lexer
open Emerge Emerge.Scanner

def genAdvance (s r : Nat) : Option Nat := lookupState Gen.Lexer.advanceTable s r
def genEval (s : Nat) : Option (String × Mode) := lookupEval Gen.Lexer.evalTable s
def genSkipped (k : String) : Bool := Gen.Lexer.skippedTerminals.contains k

/-- The scanner as extracted from the source. -/
def genSpec : Scanner.Spec := ⟨genAdvance, genEval, genSkipped⟩

/-! #### general lemmas about table lookup -/

def casesBelow (b : Nat) : List (List Nat × Nat) → Bool
  | [] => true
  | (rs, _) :: rest => rs.all (· < b) && casesBelow b rest

def tableBelow (sb rb : Nat) : List (List Nat × List (List Nat × Nat)) → Bool
  | [] => true
  | (sts, cs) :: rest => sts.all (· < sb) && casesBelow rb cs && tableBelow sb rb rest

theorem contains_false_of_all_lt {b x : Nat} {l : List Nat} (h : l.all (· < b) = true) (hx : b ≤ x) :
    l.contains x = false := by
  apply Bool.eq_false_iff.mpr
  intro hc
  have hm : x ∈ l := by simpa using hc
  have := (List.all_eq_true.mp h) x hm
  simp at this
  omega

theorem lookupCases_none_of_below (b r : Nat) (h : b ≤ r) :
    ∀ cs, casesBelow b cs = true → lookupCases cs r = none := by
  intro cs
  induction cs with
  | nil => intro _; rfl
  | cons c rest ih =>
    obtain ⟨rs, nx⟩ := c
    intro hb
    simp only [casesBelow, Bool.and_eq_true] at hb
    simp only [lookupCases, contains_false_of_all_lt hb.1 h, ih hb.2]
    simp

theorem lookupState_none_of_rune (sb rb r : Nat) (h : rb ≤ r) :
    ∀ t s, tableBelow sb rb t = true → lookupState t s r = none := by
  intro t
  induction t with
  | nil => intro _ _; rfl
  | cons c rest ih =>
    obtain ⟨sts, cs⟩ := c
    intro s hb
    simp only [tableBelow, Bool.and_eq_true] at hb
    unfold lookupState
    split
    · exact lookupCases_none_of_below rb r h cs hb.1.2
    · exact ih s hb.2

theorem lookupState_none_of_state (sb rb s : Nat) (h : sb ≤ s) :
    ∀ t r, tableBelow sb rb t = true → lookupState t s r = none := by
  intro t
  induction t with
  | nil => intro _ _; rfl
  | cons c rest ih =>
    obtain ⟨sts, cs⟩ := c
    intro r hb
    simp only [tableBelow, Bool.and_eq_true] at hb
    unfold lookupState
    rw [contains_false_of_all_lt hb.1.1 h]
    exact ih r hb.2

def evalBelow (sb : Nat) : List (List Nat × String × Nat × String) → Bool
  | [] => true
  | (sts, _) :: rest => sts.all (· < sb) && evalBelow sb rest

theorem lookupEval_none_of_state (sb s : Nat) (h : sb ≤ s) :
    ∀ t, evalBelow sb t = true → lookupEval t s = none := by
  intro t
  induction t with
  | nil => intro _; rfl
  | cons c rest ih =>
    obtain ⟨sts, k, code, lit⟩ := c
    intro hb
    simp only [evalBelow, Bool.and_eq_true] at hb
    unfold lookupEval
    rw [contains_false_of_all_lt hb.1 h]
    exact ih hb.2

/-! #### the reference automaton outside the finite window -/

theorem ref_none_of_state (s r : Nat) (h : 55 ≤ s) : Ref.Lexer.advance s r = none := by
  unfold Ref.Lexer.advance
  split
  · unfold Ref.Lexer.advance7
    split <;> first | omega | rfl
  · rfl

theorem ref_none_of_rune (s r : Nat) (h : 128 ≤ r) : Ref.Lexer.advance s r = none := by
  unfold Ref.Lexer.advance
  split
  · omega
  · rfl

theorem refEval_none_of_state (s : Nat) (h : 55 ≤ s) : Ref.Lexer.eval s = none := by
  unfold Ref.Lexer.eval
  split <;> first | omega | rfl

/-! #### the finite window, by kernel evaluation -/

theorem gen_below : tableBelow 55 128 Gen.Lexer.advanceTable = true := by decide +kernel

theorem genEval_below : evalBelow 55 Gen.Lexer.evalTable = true := by decide +kernel

theorem finite_agree : ∀ s, s < 55 → ∀ r, r < 128 → genAdvance s r = Ref.Lexer.advance s r := by
  decide +kernel

/-- every (state, code point) pair: the extracted transition function is the documented one -/
theorem advance_eq (s r : Nat) : genAdvance s r = Ref.Lexer.advance s r := by
  by_cases hs : s < 55
  · by_cases hr : r < 128
    · exact finite_agree s hs r hr
    · rw [ref_none_of_rune s r (by omega)]
      exact lookupState_none_of_rune 55 128 r (by omega) _ s gen_below
  · rw [ref_none_of_state s r (by omega)]
    exact lookupState_none_of_state 55 128 s (by omega) _ r gen_below

end Emerge.Inst.Lexer

namespace Emerge.Inst.Lexer
open Emerge Emerge.Scanner

theorem eval_finite : ∀ s, s < 55 → s ≠ 41 → genEval s = Ref.Lexer.eval s := by decide +kernel

/-- every accepting state except 41: token kind and lexeme mode are the documented ones -/
theorem eval_eq (s : Nat) (h : s ≠ 41) : genEval s = Ref.Lexer.eval s := by
  by_cases hs : s < 55
  · exact eval_finite s hs h
  · rw [refEval_none_of_state s (by omega)]
    exact lookupEval_none_of_state 55 s (by omega) _ genEval_below

/-- State 41 (a single capital letter): either the documented TOKEN, or — the recorded finding —
    not accepting (the test suite pins the latter, see known_findings.json). -/
theorem eval_41 : genEval 41 = Ref.Lexer.eval 41 ∨ genEval 41 = none := by decide +kernel

theorem skipped_eq : Gen.Lexer.skippedTerminals = ["WS", "EOL", "COMMENT"] := by decide +kernel

end Emerge.Inst.Lexer
