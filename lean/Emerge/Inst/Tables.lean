import Emerge.Proofs.LR
import Emerge.Ref.Ebnf
import Emerge.Gen.Tables
/-
  Instance theorems for the tables regenerated from `/repo/internal/ebnf/parser/parsing_table.go`
  and the two other copies of the grammar in `generate/main.go`.
-/
namespace Emerge.Inst.Tables
open Emerge Emerge.LR

/-- the three textual copies of grammar and precedences are the documented ones -/
theorem tableFile_eq : Gen.Tables.tableFile = Ref.Ebnf.grammar := by decide +kernel
theorem generatorVars_eq : Gen.Tables.generatorVars = Ref.Ebnf.grammar := by decide +kernel
theorem generatorTemplate_eq : Gen.Tables.generatorTemplate = Ref.Ebnf.grammar := by decide +kernel

/-- the embedded tables, as the driver sees them -/
def raw : RawTables :=
  ⟨Gen.Tables.actions, Gen.Tables.gotos, Gen.Tables.tableFile.prods, Gen.Tables.tableFile.terminals.length,
   Gen.Tables.tableFile.start⟩

theorem raw_wf : raw.WF = true := by decide +kernel

end Emerge.Inst.Tables
