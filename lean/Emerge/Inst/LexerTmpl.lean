import Emerge.Gen.LexerTmpl
import Emerge.Ref.LexerTmpl
/-
  The emitted lexer template reads as the models assume (regenerated from lexer.go.tmpl on every run).
-/
namespace Emerge.Inst.LexerTmpl
open Emerge

theorem const_errorState_eq : Gen.LexerTmpl.const_errorState = Ref.LexerTmpl.const_errorState := rfl
theorem const_bufferSize_eq : Gen.LexerTmpl.const_bufferSize = Ref.LexerTmpl.const_bufferSize := rfl
theorem const_ERR_eq : Gen.LexerTmpl.const_ERR = Ref.LexerTmpl.const_ERR := rfl
theorem const_WS_eq : Gen.LexerTmpl.const_WS = Ref.LexerTmpl.const_WS := rfl
theorem const_EOL_eq : Gen.LexerTmpl.const_EOL = Ref.LexerTmpl.const_EOL := rfl
theorem const_COMMENT_eq : Gen.LexerTmpl.const_COMMENT = Ref.LexerTmpl.const_COMMENT := rfl
theorem body_New_eq : Gen.LexerTmpl.body_New = Ref.LexerTmpl.body_New := rfl
theorem body_NextToken_eq : Gen.LexerTmpl.body_NextToken = Ref.LexerTmpl.body_NextToken := rfl
theorem body_scanToken_eq : Gen.LexerTmpl.body_scanToken = Ref.LexerTmpl.body_scanToken := rfl
theorem body_evalToken_eq : Gen.LexerTmpl.body_evalToken = Ref.LexerTmpl.body_evalToken := rfl
theorem tmpl_evalDFA_eq : Gen.LexerTmpl.tmpl_evalDFA = Ref.LexerTmpl.tmpl_evalDFA := rfl
theorem tmpl_advanceDFA_eq : Gen.LexerTmpl.tmpl_advanceDFA = Ref.LexerTmpl.tmpl_advanceDFA := rfl

/-- all of them -/
theorem template_as_modelled :
    Gen.LexerTmpl.const_errorState = Ref.LexerTmpl.const_errorState ∧
    Gen.LexerTmpl.const_bufferSize = Ref.LexerTmpl.const_bufferSize ∧
    Gen.LexerTmpl.const_ERR = Ref.LexerTmpl.const_ERR ∧
    Gen.LexerTmpl.const_WS = Ref.LexerTmpl.const_WS ∧
    Gen.LexerTmpl.const_EOL = Ref.LexerTmpl.const_EOL ∧
    Gen.LexerTmpl.const_COMMENT = Ref.LexerTmpl.const_COMMENT ∧
    Gen.LexerTmpl.body_New = Ref.LexerTmpl.body_New ∧
    Gen.LexerTmpl.body_NextToken = Ref.LexerTmpl.body_NextToken ∧
    Gen.LexerTmpl.body_scanToken = Ref.LexerTmpl.body_scanToken ∧
    Gen.LexerTmpl.body_evalToken = Ref.LexerTmpl.body_evalToken ∧
    Gen.LexerTmpl.tmpl_evalDFA = Ref.LexerTmpl.tmpl_evalDFA ∧
    Gen.LexerTmpl.tmpl_advanceDFA = Ref.LexerTmpl.tmpl_advanceDFA :=
  ⟨const_errorState_eq, const_bufferSize_eq, const_ERR_eq, const_WS_eq, const_EOL_eq, const_COMMENT_eq, body_New_eq, body_NextToken_eq, body_scanToken_eq, body_evalToken_eq, tmpl_evalDFA_eq, tmpl_advanceDFA_eq⟩

end Emerge.Inst.LexerTmpl
