import Emerge.Gen.SrcSnap
import Emerge.Ref.SrcSnap
/-
  The statements of the functions, action clauses, declarations and templates that the model of C07 transcribes
  (selection: tools/extract/srcsnap.go) are the ones the model was written against.
-/
namespace Emerge.Inst.Src

theorem C07_sources : Gen.SrcSnap.digest_C07 = Ref.SrcSnap.digest_C07 ∧ Gen.SrcSnap.count_C07 = Ref.SrcSnap.count_C07 := by decide

end Emerge.Inst.Src
