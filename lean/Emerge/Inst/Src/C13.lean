import Emerge.Gen.SrcSnap
import Emerge.Ref.SrcSnap
/-
  The statements of the functions, action clauses, declarations and templates that the model of C13 transcribes
  (selection: tools/extract/srcsnap.go) are the ones the model was written against.
-/
namespace Emerge.Inst.Src

theorem C13_sources : Gen.SrcSnap.digest_C13 = Ref.SrcSnap.digest_C13 ∧ Gen.SrcSnap.count_C13 = Ref.SrcSnap.count_C13 := by decide

end Emerge.Inst.Src
