import Emerge.Gen.SrcSnap
import Emerge.Ref.SrcSnap
/-
  The statements of the functions, action clauses, declarations and templates that the model of C06 transcribes
  (selection: tools/extract/srcsnap.go) are the ones the model was written against.
-/
namespace Emerge.Inst.Src

theorem C06_sources : Gen.SrcSnap.digest_C06 = Ref.SrcSnap.digest_C06 ∧ Gen.SrcSnap.count_C06 = Ref.SrcSnap.count_C06 := by decide

end Emerge.Inst.Src
