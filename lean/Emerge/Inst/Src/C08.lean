import Emerge.Gen.SrcSnap
import Emerge.Ref.SrcSnap
/-
  The statements of the functions, action clauses, declarations and templates that the model of C08 transcribes
  (selection: tools/extract/srcsnap.go) are the ones the model was written against.
-/
namespace Emerge.Inst.Src

theorem C08_sources : Gen.SrcSnap.digest_C08 = Ref.SrcSnap.digest_C08 ∧ Gen.SrcSnap.count_C08 = Ref.SrcSnap.count_C08 := by decide

end Emerge.Inst.Src
