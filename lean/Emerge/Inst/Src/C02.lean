import Emerge.Gen.SrcSnap
import Emerge.Ref.SrcSnap
/-
  The statements of the functions, action clauses, declarations and templates that the model of C02 transcribes
  (selection: tools/extract/srcsnap.go) are the ones the model was written against.
-/
namespace Emerge.Inst.Src

theorem C02_sources : Gen.SrcSnap.digest_C02 = Ref.SrcSnap.digest_C02 ∧ Gen.SrcSnap.count_C02 = Ref.SrcSnap.count_C02 := by decide

end Emerge.Inst.Src
