import Emerge.Gen.SrcSnap
import Emerge.Ref.SrcSnap
/-
  The statements of the functions, action clauses, declarations and templates that the model of C01 transcribes
  (selection: tools/extract/srcsnap.go) are the ones the model was written against.
-/
namespace Emerge.Inst.Src

theorem C01_sources : Gen.SrcSnap.digest_C01 = Ref.SrcSnap.digest_C01 ∧ Gen.SrcSnap.count_C01 = Ref.SrcSnap.count_C01 := by decide

end Emerge.Inst.Src
