import Emerge.Gen.SrcSnap
import Emerge.Ref.SrcSnap
/-
  The statements of the functions, action clauses, declarations and templates that the model of C12 transcribes
  (selection: tools/extract/srcsnap.go) are the ones the model was written against.
-/
namespace Emerge.Inst.Src

theorem C12_sources : Gen.SrcSnap.digest_C12 = Ref.SrcSnap.digest_C12 ∧ Gen.SrcSnap.count_C12 = Ref.SrcSnap.count_C12 := by decide

end Emerge.Inst.Src
