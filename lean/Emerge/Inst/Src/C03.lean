import Emerge.Gen.SrcSnap
import Emerge.Ref.SrcSnap
/-
  The statements of the functions, action clauses, declarations and templates that the model of C03 transcribes
  (selection: tools/extract/srcsnap.go) are the ones the model was written against.
-/
namespace Emerge.Inst.Src

theorem C03_sources : Gen.SrcSnap.digest_C03 = Ref.SrcSnap.digest_C03 ∧ Gen.SrcSnap.count_C03 = Ref.SrcSnap.count_C03 := by decide

end Emerge.Inst.Src
