import Emerge.Gen.SrcSnap
import Emerge.Ref.SrcSnap
/-
  The statements of the functions, action clauses, declarations and templates that the model of C15 transcribes
  (selection: tools/extract/srcsnap.go) are the ones the model was written against.
-/
namespace Emerge.Inst.Src

theorem C15_sources : Gen.SrcSnap.digest_C15 = Ref.SrcSnap.digest_C15 ∧ Gen.SrcSnap.count_C15 = Ref.SrcSnap.count_C15 := by decide

end Emerge.Inst.Src
