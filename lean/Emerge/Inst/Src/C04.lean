import Emerge.Gen.SrcSnap
import Emerge.Ref.SrcSnap
/-
  The statements of the functions, action clauses, declarations and templates that the model of C04 transcribes
  (selection: tools/extract/srcsnap.go) are the ones the model was written against.
-/
namespace Emerge.Inst.Src

theorem C04_sources : Gen.SrcSnap.digest_C04 = Ref.SrcSnap.digest_C04 ∧ Gen.SrcSnap.count_C04 = Ref.SrcSnap.count_C04 := by decide

end Emerge.Inst.Src
