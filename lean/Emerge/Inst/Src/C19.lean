import Emerge.Gen.SrcSnap
import Emerge.Ref.SrcSnap
/-
  The statements of the functions, action clauses, declarations and templates that the model of C19 transcribes
  (selection: tools/extract/srcsnap.go) are the ones the model was written against.
-/
namespace Emerge.Inst.Src

theorem C19_sources : Gen.SrcSnap.digest_C19 = Ref.SrcSnap.digest_C19 ∧ Gen.SrcSnap.count_C19 = Ref.SrcSnap.count_C19 := by decide

end Emerge.Inst.Src
