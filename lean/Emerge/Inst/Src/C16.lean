import Emerge.Gen.SrcSnap
import Emerge.Ref.SrcSnap
/-
  The statements of the functions, action clauses, declarations and templates that the model of C16 transcribes
  (selection: tools/extract/srcsnap.go) are the ones the model was written against.
-/
namespace Emerge.Inst.Src

theorem C16_sources : Gen.SrcSnap.digest_C16 = Ref.SrcSnap.digest_C16 ∧ Gen.SrcSnap.count_C16 = Ref.SrcSnap.count_C16 := by decide

end Emerge.Inst.Src
