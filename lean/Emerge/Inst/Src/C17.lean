import Emerge.Gen.SrcSnap
import Emerge.Ref.SrcSnap
/-
  The statements of the functions, action clauses, declarations and templates that the model of C17 transcribes
  (selection: tools/extract/srcsnap.go) are the ones the model was written against.
-/
namespace Emerge.Inst.Src

theorem C17_sources : Gen.SrcSnap.digest_C17 = Ref.SrcSnap.digest_C17 ∧ Gen.SrcSnap.count_C17 = Ref.SrcSnap.count_C17 := by decide

end Emerge.Inst.Src
