import Emerge.Gen.SrcSnap
import Emerge.Ref.SrcSnap
/-
  The statements of the functions, action clauses, declarations and templates that the model of C10 transcribes
  (selection: tools/extract/srcsnap.go) are the ones the model was written against.
-/
namespace Emerge.Inst.Src

theorem C10_sources : Gen.SrcSnap.digest_C10 = Ref.SrcSnap.digest_C10 ∧ Gen.SrcSnap.count_C10 = Ref.SrcSnap.count_C10 := by decide

end Emerge.Inst.Src
