import Emerge.Gen.SrcSnap
import Emerge.Ref.SrcSnap
/-
  The statements of the functions, action clauses, declarations and templates that the model of C09 transcribes
  (selection: tools/extract/srcsnap.go) are the ones the model was written against.
-/
namespace Emerge.Inst.Src

theorem C09_sources : Gen.SrcSnap.digest_C09 = Ref.SrcSnap.digest_C09 ∧ Gen.SrcSnap.count_C09 = Ref.SrcSnap.count_C09 := by decide

end Emerge.Inst.Src
