import Emerge.Gen.SrcSnap
import Emerge.Ref.SrcSnap
/-
  The statements of the functions, action clauses, declarations and templates that the model of C14 transcribes
  (selection: tools/extract/srcsnap.go) are the ones the model was written against.
-/
namespace Emerge.Inst.Src

theorem C14_sources : Gen.SrcSnap.digest_C14 = Ref.SrcSnap.digest_C14 ∧ Gen.SrcSnap.count_C14 = Ref.SrcSnap.count_C14 := by decide

end Emerge.Inst.Src
