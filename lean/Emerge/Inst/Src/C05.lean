import Emerge.Gen.SrcSnap
import Emerge.Ref.SrcSnap
/-
  The statements of the functions, action clauses, declarations and templates that the model of C05 transcribes
  (selection: tools/extract/srcsnap.go) are the ones the model was written against.
-/
namespace Emerge.Inst.Src

theorem C05_sources : Gen.SrcSnap.digest_C05 = Ref.SrcSnap.digest_C05 ∧ Gen.SrcSnap.count_C05 = Ref.SrcSnap.count_C05 := by decide

end Emerge.Inst.Src
