import Emerge.Gen.SrcSnap
import Emerge.Ref.SrcSnap
/-
  The statements of the functions, action clauses, declarations and templates that the model of C20 transcribes
  (selection: tools/extract/srcsnap.go) are the ones the model was written against.
-/
namespace Emerge.Inst.Src

theorem C20_sources : Gen.SrcSnap.digest_C20 = Ref.SrcSnap.digest_C20 ∧ Gen.SrcSnap.count_C20 = Ref.SrcSnap.count_C20 := by decide

end Emerge.Inst.Src
