import Emerge.Gen.SrcSnap
import Emerge.Ref.SrcSnap
/-
  The statements of the functions, action clauses, declarations and templates that the model of C11 transcribes
  (selection: tools/extract/srcsnap.go) are the ones the model was written against.
-/
namespace Emerge.Inst.Src

theorem C11_sources : Gen.SrcSnap.digest_C11 = Ref.SrcSnap.digest_C11 ∧ Gen.SrcSnap.count_C11 = Ref.SrcSnap.count_C11 := by decide

end Emerge.Inst.Src
