import Emerge.Gen.SrcSnap
import Emerge.Ref.SrcSnap
/-
  The statements of the functions, action clauses, declarations and templates that the model of C18 transcribes
  (selection: tools/extract/srcsnap.go) are the ones the model was written against.
-/
namespace Emerge.Inst.Src

theorem C18_sources : Gen.SrcSnap.digest_C18 = Ref.SrcSnap.digest_C18 ∧ Gen.SrcSnap.count_C18 = Ref.SrcSnap.count_C18 := by decide

end Emerge.Inst.Src
