import Emerge.Gen.ReaderTmpl
import Emerge.Ref.ReaderTmpl
import Emerge.Utf8
/-
  Instance facts about the emitted reader template, re-checked against the regenerated `Emerge.Gen.ReaderTmpl`:
  the sentinel is NUL, the UTF-8 tables classify every first byte exactly as `Utf8.decode` does, and the modelled
  methods read as expected.
-/
namespace Emerge.Inst.ReaderTmpl
open Emerge

/-- what the first byte of a sequence announces -/
inductive Class where
  | ascii
  | invalid
  | multi (size lo hi : Nat)      -- total length and the accepted range of the second byte
  deriving DecidableEq, Repr

/-- the emitted `Next`: `x := first[b0]`; `x >= as` is ASCII or (`xx`) invalid; else size `x & 7`, range `acceptRanges[x>>4]` -/
def tableClass (b0 : Nat) : Class :=
  let x := Gen.ReaderTmpl.first.getD b0 0xF1
  if 0xF0 ≤ x then (if x = 0xF1 then .invalid else .ascii)
  else
    let r := Gen.ReaderTmpl.acceptRanges.getD (x / 16) (0, 0)
    .multi (x % 8) r.1 r.2

/-- the case analysis of `Utf8.decode` -/
def rangeClass (b0 : Nat) : Class :=
  if b0 < 0x80 then .ascii
  else if 0xC2 ≤ b0 && b0 ≤ 0xDF then .multi 2 0x80 0xBF
  else if 0xE0 ≤ b0 && b0 ≤ 0xEF then .multi 3 (if b0 = 0xE0 then 0xA0 else 0x80) (if b0 = 0xED then 0x9F else 0xBF)
  else if 0xF0 ≤ b0 && b0 ≤ 0xF4 then .multi 4 (if b0 = 0xF0 then 0x90 else 0x80) (if b0 = 0xF4 then 0x8F else 0xBF)
  else .invalid

theorem tables_256 : Gen.ReaderTmpl.first.length = 256 := by decide +kernel

/-- the tables of the emitted reader and the decoder model classify every byte alike -/
theorem class_eq : ∀ b0 : Nat, b0 < 256 → tableClass b0 = rangeClass b0 := by decide +kernel

theorem sentinel_is_nul : Gen.ReaderTmpl.eof = 0 := rfl

theorem body_load_eq : Gen.ReaderTmpl.body_load = Ref.ReaderTmpl.body_load := rfl
theorem body_loadFirst_eq : Gen.ReaderTmpl.body_loadFirst = Ref.ReaderTmpl.body_loadFirst := rfl
theorem body_loadSecond_eq : Gen.ReaderTmpl.body_loadSecond = Ref.ReaderTmpl.body_loadSecond := rfl
theorem body_next_eq : Gen.ReaderTmpl.body_next = Ref.ReaderTmpl.body_next := rfl
theorem body_Next_eq : Gen.ReaderTmpl.body_Next = Ref.ReaderTmpl.body_Next := rfl
theorem body_Retract_eq : Gen.ReaderTmpl.body_Retract = Ref.ReaderTmpl.body_Retract := rfl
theorem body_Lexeme_eq : Gen.ReaderTmpl.body_Lexeme = Ref.ReaderTmpl.body_Lexeme := rfl
theorem body_Skip_eq : Gen.ReaderTmpl.body_Skip = Ref.ReaderTmpl.body_Skip := rfl

end Emerge.Inst.ReaderTmpl
