import Emerge.Cli
import Emerge.Gen.FsOps
import Emerge.Gen.CliFlags
import Emerge.Proofs.CliArgs
import Emerge.Ident
import Emerge.Gen.IdRules
/-
  C16 — success iff the package was fully written; flags honoured; existing files untouched.

  Theorems about the model `Emerge.Cli.run` for every flag combination, every initial file system,
  every outcome of reading the specification and every sequence of failing system calls.  The model is
  tied to the binary by running it under a matrix of flags × input classes × pre-existing states
  of the output location and comparing exit status, created paths, snapshots and the final message
  (checks/c16.py); that the only mutating calls in /repo are the two modelled ones is re-established
  from the source on every run (translator fact `fsops`).
-/
namespace Emerge.Props.C16
open Emerge Emerge.Cli

theorem get_append_new (fs : FS) (p : String) (v : Node) (q : String) :
    FS.get (fs ++ [(p, v)]) q = match FS.get fs q with | some n => some n | none => if p = q then some v else none := by
  induction fs with
  | nil => simp [FS.get]
  | cons e rest ih =>
    obtain ⟨k, w⟩ := e
    simp only [List.cons_append, FS.get]
    by_cases hk : k = q
    · simp [hk]
    · simp [hk, ih]

/-- A mutating call never changes what exists. -/
theorem applyOp_frame (fs : FS) (op : Op) (f : Fault) (q : String) (n : Node) (h : fs.get q = some n) :
    (applyOp fs op f).1.get q = some n := by
  cases op with
  | mkdir p =>
    simp only [applyOp]
    cases hp : fs.get p with
    | some _ => simpa using h
    | none => cases f <;> simp [get_append_new, h]
  | create p c =>
    simp only [applyOp]
    cases hp : fs.get p with
    | some _ => simpa using h
    | none => cases f <;> simp [get_append_new, h]

theorem renderAll_frame (dir : String) (render : String → String) (files : List String) :
    ∀ (fs : FS) (faults : List Fault) (q : String) (n : Node), fs.get q = some n →
      (renderAll dir render files fs faults).1.get q = some n := by
  induction files with
  | nil => intro fs faults q n h; simpa [renderAll] using h
  | cons f rest ih =>
    intro fs faults q n h
    simp only [renderAll]
    exact ih _ _ q n (applyOp_frame fs _ _ q n h)

theorem generate_frame (fs : FS) (out name : String) (idValid : String → Bool) (sr : SpecResult)
    (render : String → String) (faults : List Fault) (q : String) (n : Node) (h : fs.get q = some n) :
    (generate fs out name idValid sr render faults).1.get q = some n := by
  unfold generate
  split
  · split
    · exact h
    · simp only
      split
      · exact applyOp_frame fs _ _ q n h
      · have h1 := applyOp_frame fs (.mkdir (out ++ "/" ++ name)) (faults.headD .none) q n h
        have h2 := renderAll_frame (out ++ "/" ++ name) render coreFiles _ faults.tail q n h1
        cases sr.lexerOk <;> cases sr.parserOk <;> simp only [if_true, if_false, Bool.false_eq_true]
        · exact h2
        · exact renderAll_frame _ _ _ _ _ q n h2
        · exact renderAll_frame _ _ _ _ _ q n h2
        · exact renderAll_frame _ _ _ _ _ q n (renderAll_frame _ _ _ _ _ q n h2)
  · exact h

/-- **Existing files are untouched**: whatever the flags, the input, the result of reading the
    specification and the failing calls, every path that existed before the run holds the same
    node (same kind, same content) afterwards. -/
theorem C16_frame (fl : Flags) (fs : FS) (input : InputState) (sr : SpecResult) (idValid : String → Bool)
    (render : String → String) (faults : List Fault) (q : String) (n : Node) (h : fs.get q = some n) :
    (run fl fs input sr idValid render faults).fs.get q = some n := by
  have hg := generate_frame fs fl.out (chosenName fl sr) idValid sr render faults q n h
  unfold run
  split; · exact h
  split; · exact h
  split; · exact h
  split; · exact h
  split
  · exact h
  · split
    · exact h
    · split
      · split
        · exact h
        · simp only
          split <;> exact hg
      · exact h

/-- rendering reported success only if every listed file now exists with its complete content -/
theorem renderAll_ok (dir : String) (render : String → String) (files : List String) :
    ∀ (fs : FS) (faults : List Fault), (renderAll dir render files fs faults).2.1 = true →
      ∀ f ∈ files, (renderAll dir render files fs faults).1.get (dir ++ "/" ++ f) = some (.file (render f)) := by
  induction files with
  | nil => intro fs faults _ f hf; cases hf
  | cons g rest ih =>
    intro fs faults hok f hf
    simp only [renderAll, Bool.and_eq_true] at hok ⊢
    obtain ⟨h1, h2⟩ := hok
    have hcreated : (applyOp fs (.create (dir ++ "/" ++ g) (render g)) (faults.headD .none)).1.get (dir ++ "/" ++ g)
        = some (.file (render g)) := by
      generalize faults.headD Fault.none = ft at h1 ⊢
      simp only [applyOp] at h1 ⊢
      cases hp : fs.get (dir ++ "/" ++ g) with
      | some _ => simp [hp] at h1
      | none =>
        cases ft <;> simp [hp] at h1 ⊢
        simp [get_append_new, hp]
    rcases List.mem_cons.mp hf with rfl | hf
    · exact renderAll_frame dir render rest _ _ _ _ hcreated
    · exact ih _ _ h2 f hf

/-- the generator reports success only if the output directory exists, the name is usable, both
    tables could be built and all six files were completely written -/
theorem generate_ok (fs : FS) (out name : String) (idValid : String → Bool) (sr : SpecResult)
    (render : String → String) (faults : List Fault)
    (h : (generate fs out name idValid sr render faults).2 = true) :
    fs.get out = some .dir ∧ idValid name = true ∧ sr.lexerOk = true ∧ sr.parserOk = true ∧
    ∀ f ∈ allFiles, (generate fs out name idValid sr render faults).1.get (out ++ "/" ++ name ++ "/" ++ f) = some (.file (render f)) := by
  unfold generate at h ⊢
  split at h
  · rename_i hout
    simp only [hout]
    cases hid : idValid name with
    | false => simp [hid] at h
    | true =>
      simp only [hid, Bool.not_true, Bool.false_eq_true, if_false] at h ⊢
      generalize hm : applyOp fs (.mkdir (out ++ "/" ++ name)) (faults.headD .none) = m at h ⊢
      cases hm2 : m.2 with
      | false => simp [hm2] at h
      | true =>
        simp only [hm2, Bool.not_true, Bool.false_eq_true, if_false] at h ⊢
        cases hl : sr.lexerOk with
        | false => simp [hl] at h
        | true =>
          cases hq : sr.parserOk with
          | false => simp [hl, hq] at h
          | true =>
            simp only [hl, hq, if_true, Bool.and_eq_true] at h
            refine ⟨by trivial, by trivial, by trivial, by trivial, ?_⟩
            simp only [if_true]
            obtain ⟨⟨hc, hlx⟩, hps⟩ := h
            intro f hf
            simp only [allFiles, List.mem_append] at hf
            rcases hf with (hf | hf) | hf
            · have := renderAll_ok _ render coreFiles _ _ hc f hf
              exact renderAll_frame _ _ _ _ _ _ _ (renderAll_frame _ _ _ _ _ _ _ this)
            · have := renderAll_ok _ render lexerFiles _ _ hlx f hf
              exact renderAll_frame _ _ _ _ _ _ _ this
            · exact renderAll_ok _ render parserFiles _ _ hps f hf
  · simp at h

theorem generate_bad_name (fs : FS) (out name : String) (idValid : String → Bool) (sr : SpecResult)
    (render : String → String) (faults : List Fault) (hbad : idValid name = false) :
    generate fs out name idValid sr render faults = (fs, false) := by
  unfold generate
  split
  · simp [hbad]
  · rfl

/-- **Success ⇒ the package was fully written and the specification accepted**: when the tool
    announces success (which it does exactly when it exits with status 0 after a generation run),
    the input was readable, the specification was accepted by every stage, the name is usable, and
    each of the six files exists under `<out>/<name>` with its complete rendered content. -/
theorem C16_success (fl : Flags) (fs : FS) (input : InputState) (sr : SpecResult) (idValid : String → Bool)
    (render : String → String) (faults : List Fault)
    (h : (run fl fs input sr idValid render faults).success = true) :
    input = .readable ∧ sr.parseOk = true ∧ sr.lexerOk = true ∧ sr.parserOk = true ∧ idValid (chosenName fl sr) = true ∧
    fs.get fl.out = some .dir ∧
    (run fl fs input sr idValid render faults).exit = 0 ∧
    ∀ f ∈ allFiles, (run fl fs input sr idValid render faults).fs.get (fl.out ++ "/" ++ chosenName fl sr ++ "/" ++ f) = some (.file (render f)) := by
  unfold run at h ⊢
  cases hpe : fl.parseError with
  | true => simp [hpe] at h
  | false =>
  cases hu : fl.usage with
  | true => simp [hpe, hu] at h
  | false =>
  cases hh : fl.help with
  | true => simp [hpe, hu, hh] at h
  | false =>
  cases hv : fl.version with
  | true => simp [hpe, hu, hh, hv] at h
  | false =>
  simp only [hpe, hu, hh, hv, Bool.false_eq_true, if_false] at h ⊢
  cases hfile : fl.file with
  | none => simp [hfile] at h
  | some file =>
  simp only [hfile] at h ⊢
  by_cases hx : 1 < fl.args.length
  · simp [hx] at h
  simp only [hx, if_false] at h ⊢
  cases input with
  | readable =>
    simp only at h ⊢
    cases hp : sr.parseOk with
    | false => simp [hp] at h
    | true =>
      simp only [hp, Bool.not_true, Bool.false_eq_true, if_false] at h ⊢
      cases hg : (generate fs fl.out (chosenName fl sr) idValid sr render faults).2 with
      | false => simp [hg] at h
      | true =>
        obtain ⟨h1, h2, h3, h4, h5⟩ := generate_ok fs fl.out (chosenName fl sr) idValid sr render faults hg
        simp only [if_true]
        exact ⟨by trivial, by trivial, h3, h4, h2, h1, by trivial, h5⟩
  | missing => simp at h
  | unreadable => simp at h
  | directory => simp at h

/-- **Status 0 iff success or an informational flag**: apart from `-h`, `-help`, `-version`, the
    tool exits with status 0 exactly when it announced success. -/
theorem C16_exit_zero_iff (fl : Flags) (fs : FS) (input : InputState) (sr : SpecResult) (idValid : String → Bool)
    (render : String → String) (faults : List Fault) (hinfo : fl.usage = false ∧ fl.help = false ∧ fl.version = false) :
    (run fl fs input sr idValid render faults).exit = 0 ↔ (run fl fs input sr idValid render faults).success = true := by
  obtain ⟨h1, h2, h3⟩ := hinfo
  unfold run
  simp only [h1, h2, h3, Bool.false_eq_true, if_false]
  split
  · simp
  · split
    · simp
    · split
      · simp
      · split
        · split
          · simp
          · split <;> simp
        · simp

/-- **A name that is not a usable package identifier is rejected before anything is created.** -/
theorem C16_bad_name (fl : Flags) (fs : FS) (input : InputState) (sr : SpecResult) (idValid : String → Bool)
    (render : String → String) (faults : List Fault)
    (hinfo : fl.usage = false ∧ fl.help = false ∧ fl.version = false)
    (hbad : idValid (chosenName fl sr) = false) :
    (run fl fs input sr idValid render faults).fs = fs ∧ (run fl fs input sr idValid render faults).exit ≠ 0 := by
  obtain ⟨h1, h2, h3⟩ := hinfo
  have hgen := generate_bad_name fs fl.out (chosenName fl sr) idValid sr render faults hbad
  unfold run
  simp only [h1, h2, h3, Bool.false_eq_true, if_false]
  split
  · simp
  · split
    · simp
    · split
      · simp
      · split
        · split
          · simp
          · simp [hgen]
        · simp

/-- `-name` replaces the grammar's name, `-out` selects the parent directory. -/
theorem C16_flags (fl : Flags) (sr : SpecResult) :
    (fl.name ≠ "" → chosenName fl sr = fl.name) ∧ (fl.name = "" → chosenName fl sr = sr.grammarName) := by
  constructor <;> intro h <;> simp [chosenName, h]

/-- **Nothing on the command line is ignored**: when the tool announces success, what the flag set left over was exactly
    one argument, the input file - no `-out` or `-name` written after the file (the flag set stops at the first argument
    that is not a flag, so such flags never reach `Flags.out` / `Flags.name`), no second file. Together with `C16_flags`:
    every `-out` and `-name` of a successful command line was honoured. -/
theorem C16_no_ignored_arguments (fl : Flags) (fs : FS) (input : InputState) (sr : SpecResult) (idValid : String → Bool)
    (render : String → String) (faults : List Fault)
    (h : (run fl fs input sr idValid render faults).success = true) :
    ∃ f, fl.args = [f] ∧ f.startsWith "-" = false := by
  unfold run at h
  cases hpe : fl.parseError with
  | true => simp [hpe] at h
  | false =>
  cases hu : fl.usage with
  | true => simp [hpe, hu] at h
  | false =>
  cases hh : fl.help with
  | true => simp [hpe, hu, hh] at h
  | false =>
  cases hv : fl.version with
  | true => simp [hpe, hu, hh, hv] at h
  | false =>
  simp only [hpe, hu, hh, hv, Bool.false_eq_true, if_false] at h
  cases hfile : fl.file with
  | none => simp [hfile] at h
  | some file =>
  simp only [hfile] at h
  by_cases hx : 1 < fl.args.length
  · simp [hx] at h
  · unfold Flags.file at hfile
    have hmem := List.mem_of_find?_eq_some hfile
    have hp := List.find?_some hfile
    match hargs : fl.args with
    | [] => simp [hargs] at hmem
    | [a] =>
      simp only [hargs, List.mem_singleton] at hmem
      subst hmem
      exact ⟨file, rfl, by simpa using hp⟩
    | a :: b :: rest => simp [hargs] at hx

/-- flags after the input file, or a second file: an error, nothing created, whatever else holds -/
theorem C16_extra_arguments_rejected (fl : Flags) (fs : FS) (input : InputState) (sr : SpecResult) (idValid : String → Bool)
    (render : String → String) (faults : List Fault)
    (hinfo : fl.usage = false ∧ fl.help = false ∧ fl.version = false) (hx : 1 < fl.args.length) :
    (run fl fs input sr idValid render faults).fs = fs ∧ (run fl fs input sr idValid render faults).exit ≠ 0 ∧
    (run fl fs input sr idValid render faults).success = false := by
  obtain ⟨h1, h2, h3⟩ := hinfo
  unfold run
  simp only [h1, h2, h3, Bool.false_eq_true, if_false]
  split
  · simp
  · split
    · simp
    · simp

/-! ### Which names are usable: `isIDValid` over the regenerated list of reserved names -/

open Emerge.Ident in
/-- **Reserved names are refused**: whatever the Unicode classes are, no keyword and no predeclared identifier of the Go
    specification is a usable package name, nor is the blank identifier or the empty name - with the list of reserved
    names, the regular expression and the statement of `isIDValid` re-extracted from the source on every run. -/
theorem C16_reserved_names (isL isNd : Char → Bool) :
    (∀ k ∈ goKeywords ++ goPredeclared, isIDValid isL isNd Gen.IdRules.builtin k = false) ∧
    isIDValid isL isNd Gen.IdRules.builtin "_" = false ∧ isIDValid isL isNd Gen.IdRules.builtin "" = false ∧
    Gen.IdRules.idRegex = "^[\\p{L}_][\\p{L}\\p{Nd}_]*$" ∧
    Gen.IdRules.body_isIDValid =
      "{ return idRegex.MatchString(name) && name != \"_\" && !generic.AnyMatch(builtin, func(s string) bool { return s == name }) }" := by
  refine ⟨?_, ?_, ?_, rfl, rfl⟩
  · intro k hk
    have hc : Gen.IdRules.builtin.contains k = true := by
      have : (goKeywords ++ goPredeclared).all (fun k => Gen.IdRules.builtin.contains k) = true := by decide +kernel
      exact List.all_eq_true.mp this k hk
    have hm : k ∈ Gen.IdRules.builtin := List.contains_iff_mem.mp hc
    simp only [isIDValid, Bool.and_eq_false_iff, Bool.not_eq_false']
    exact Or.inr hc
  · simp [isIDValid]
  · simp [isIDValid, shape]

open Emerge.Ident in
/-- **Only identifiers are usable**: a name the rule accepts starts with a letter or `_`, continues with letters, decimal
    digits and `_` only (so no path separator, no dot, no blank, no minus), is not `_` and is not reserved; and the list of
    reserved names holds nothing but the specification's keywords and predeclared identifiers (no ordinary name is refused
    by the list). -/
theorem C16_usable_names (isL isNd : Char → Bool) (name : String)
    (h : isIDValid isL isNd Gen.IdRules.builtin name = true) :
    (∃ c cs, name.toList = c :: cs ∧ (isL c = true ∨ c = '_') ∧ ∀ d ∈ cs, isL d = true ∨ isNd d = true ∨ d = '_') ∧
    name ≠ "_" ∧ name ∉ Gen.IdRules.builtin ∧
    (∀ b ∈ Gen.IdRules.builtin, b ∈ goKeywords ++ goPredeclared) := by
  simp only [isIDValid, Bool.and_eq_true, Bool.not_eq_true', bne_iff_ne, ne_eq] at h
  obtain ⟨⟨hs, hne⟩, hb⟩ := h
  refine ⟨?_, hne, ?_, ?_⟩
  · cases hl : name.toList with
    | nil => simp [hl, shape] at hs
    | cons c cs =>
      simp only [hl, shape, Bool.and_eq_true, Bool.or_eq_true, beq_iff_eq, List.all_eq_true] at hs
      exact ⟨c, cs, rfl, hs.1, fun d hd => by
        rcases hs.2 d hd with (h1 | h2) | h3
        · exact Or.inl h1
        · exact Or.inr (Or.inl h2)
        · exact Or.inr (Or.inr h3)⟩
  · intro hm
    have : Gen.IdRules.builtin.contains name = true := List.contains_iff_mem.mpr hm
    rw [this] at hb
    exact absurd hb (by decide)
  · have : Gen.IdRules.builtin.all (fun b => (goKeywords ++ goPredeclared).contains b) = true := by decide +kernel
    intro b hb'
    exact List.contains_iff_mem.mp (List.all_eq_true.mp this b hb')

/-! ### From the command line as typed to the flags: `flag.FlagSet.Parse` over the regenerated flag table -/

open Emerge.CliArgs in
/-- **The command line of a successful run**: the arguments are flags the set knows, consumed completely, followed by
    exactly one more argument, the input file; the package went to the value of the last `-out` among them (the working
    directory if there is none) under the last `-name` (the grammar's name if there is none or it is empty). -/
theorem C16_cmdline_success (argv : List String) (cwd : String) (fs : FS) (input : InputState) (sr : SpecResult)
    (idValid : String → Bool) (render : String → String) (faults : List Fault)
    (h : (run (toFlags Gen.CliFlags.flags cwd argv) fs input sr idValid render faults).success = true) :
    ∃ pre file sets, argv = pre ++ [file] ∧ file.startsWith "-" = false ∧
      parse Gen.CliFlags.flags argv [] = .ok sets [file] ∧
      ∀ f ∈ allFiles, (run (toFlags Gen.CliFlags.flags cwd argv) fs input sr idValid render faults).fs.get
        ((sets.lookup "out").getD cwd ++ "/" ++ (if (sets.lookup "name").getD "" ≠ "" then (sets.lookup "name").getD "" else sr.grammarName)
          ++ "/" ++ f) = some (.file (render f)) := by
  obtain ⟨file, hargs, hdash⟩ := C16_no_ignored_arguments _ fs input sr idValid render faults h
  have hs := C16_success _ fs input sr idValid render faults h
  generalize hfl : toFlags Gen.CliFlags.flags cwd argv = fl at h hargs hs
  unfold toFlags at hfl
  cases hp : parse Gen.CliFlags.flags argv [] with
  | bad => simp only [hp] at hfl; subst hfl; simp [run] at h
  | help => simp only [hp] at hfl; subst hfl; simp [run] at h
  | ok sets rest =>
    simp only [hp] at hfl
    subst hfl
    simp only at hargs
    subst hargs
    obtain ⟨pre, hpre⟩ := parse_suffix _ _ _ _ _ hp
    refine ⟨pre, file, sets, hpre, hdash, rfl, ?_⟩
    have := hs.2.2.2.2.2.2.2
    simpa [chosenName] using this

open Emerge.CliArgs in
/-- **Flags behind the input file are never read as flags**: when the arguments `pre` are flags consumed completely and
    `file` is not one, whatever follows the file - a `-out`, a `-name`, another file - changes none of the settings and is
    handed to `Run` as it stands, which refuses it (`C16_extra_arguments_rejected`): nothing is created. -/
theorem C16_cmdline_trailing (pre : List String) (file x : String) (post : List String) (cwd : String)
    (sets : List (String × String)) (fs : FS) (input : InputState) (sr : SpecResult)
    (idValid : String → Bool) (render : String → String) (faults : List Fault)
    (hpre : parse Gen.CliFlags.flags pre [] = .ok sets []) (hfile : classify file = .positional)
    (hdash : file.startsWith "-" = false)
    (hinfo : isSet sets "help" = false ∧ isSet sets "version" = false) :
    (run (toFlags Gen.CliFlags.flags cwd (pre ++ file :: x :: post)) fs input sr idValid render faults).fs = fs ∧
    (run (toFlags Gen.CliFlags.flags cwd (pre ++ file :: x :: post)) fs input sr idValid render faults).exit = 1 := by
  have hp := parse_stops_at_positional Gen.CliFlags.flags pre [] sets file (x :: post) hfile hpre
  unfold toFlags
  simp only [hp]
  simp [run, hinfo.1, hinfo.2, Flags.file, hdash]

/-- **The tie to the source**: the flags are those of `command.Command`'s struct tags, and `main` creates the set with
    `ContinueOnError`, registers them, parses `os.Args[1:]`, maps `flag.ErrHelp` to status 0 and any other parse error to
    2, and hands `fs.Args()` to `Run` - re-extracted on every run. -/
theorem C16_flag_table : Gen.CliFlags.flags =
    [("help", .bool), ("version", .bool), ("verbose", .bool), ("out", .str), ("name", .str), ("debug", .bool)] ∧
    Gen.CliFlags.mainCalls =
    ["flag.NewFlagSet(\"emerge\",flag.ContinueOnError)", "os.Exit(1)", "flagit.Register(fs,cmd,false)", "os.Exit(1)",
     "fs.Parse(os.Args[1:])", "errors.Is(err,flag.ErrHelp)", "os.Exit(0)", "os.Exit(2)", "os.Exit(1)", "cmd.Run(fs.Args())",
     "os.Exit(1)", "os.Exit(0)"] := ⟨rfl, rfl⟩

/-- **The tie to the source**: the calls that can change the file system in the tool's non-test code,
    re-extracted from /repo on every run, are exactly the two the model issues — `os.Mkdir` in `prepare`
    and `os.OpenFile` with `O_CREATE|O_WRONLY|O_EXCL` in `renderTemplate` (no Remove, Rename, Truncate,
    WriteFile, MkdirAll, Create …). -/
theorem C16_only_modelled_calls : Gen.FsOps.calls =
    [("internal/generate/golang/golang.go", "prepare", "os.Mkdir", "os.ModePerm"),
     ("internal/generate/golang/golang.go", "renderTemplate", "os.OpenFile", "os.O_CREATE | os.O_WRONLY | os.O_EXCL, 0666")] := rfl

/-- Non-vacuity: a successful run into an existing directory that already holds another file. -/
def demoFS : FS := [("/o", .dir), ("/o/keep.txt", .file "x")]
def demoFlags : Flags := { out := "/o", name := "", args := ["g.ebnf"] }
def demoSpec : SpecResult := ⟨true, "calc", true, true⟩
example : (run demoFlags demoFS .readable demoSpec (fun _ => true) (fun f => "// " ++ f) []).success = true := by decide +kernel
example : (run demoFlags demoFS .readable demoSpec (fun _ => true) (fun f => "// " ++ f) []).fs.get "/o/keep.txt" = some (.file "x") := by decide +kernel
example : (run demoFlags demoFS .readable demoSpec (fun _ => true) (fun f => "// " ++ f) [.none, .none, .half]).exit = 1 := by decide +kernel
/-- `emerge g.ebnf -out /elsewhere`: rejected, nothing written -/
example : (run { demoFlags with args := ["g.ebnf", "-out", "/elsewhere"] } demoFS .readable demoSpec (fun _ => true) (fun f => "// " ++ f) []).exit = 1 := by decide +kernel

/-- the documented way to call the tool, and the way that used to be ignored in silence -/
example : CliArgs.toFlags Gen.CliFlags.flags "/cwd" ["-out", "/o", "--name=p", "-debug", "g.ebnf"] =
    { out := "/o", name := "p", args := ["g.ebnf"] } := by decide +kernel
example : (run (CliArgs.toFlags Gen.CliFlags.flags "/o" ["g.ebnf", "-name", "p"]) demoFS .readable demoSpec (fun _ => true) (fun f => "// " ++ f) []).exit = 1 := by
  decide +kernel
example : (run (CliArgs.toFlags Gen.CliFlags.flags "/o" ["-name", "p", "g.ebnf"]) demoFS .readable demoSpec (fun _ => true) (fun f => "// " ++ f) []).fs.get "/o/p/lexer.go"
    = some (.file "// lexer.go") := by decide +kernel

end Emerge.Props.C16
