import Emerge.Ebnf
/-
  C12 — recorded precedence levels are exactly the directives, in order, with their handles.
-/
namespace Emerge.Props.C12
open Emerge Emerge.Ebnf

def assocOf : Nat → Option Assoc
  | 12 => some .left
  | 13 => some .right
  | 14 => some .none
  | _ => none

/-- A directive action (`directive → "@left"/"@right"/"@none" handles`) appends exactly one level —
    with the associativity written and the set of the handles collected — after all earlier levels;
    the order of levels is therefore the order of the directive reductions, i.e. source order
    (C18: reductions come in rightmost-derivation order, `decls → decls decl` left to right). -/
theorem C12_directive_appends (cfg : Cfg) (file : String) (names predefs : List (String × String)) (t t' : SymTab)
    (i : Nat) (a : Assoc) (ha : assocOf i = some a) (kw : PVal) (hs : List GHandle) (pos : Option Pos) (v : Val)
    (h : action cfg file names predefs t i [kw, ⟨.handles hs, pos⟩] = .ok (t', v)) :
    t'.levels = t.levels ++ [⟨a, dedupHandles hs⟩] ∧ v = .level ⟨a, dedupHandles hs⟩ := by
  unfold assocOf at ha
  split at ha <;> simp at ha <;> subst ha <;>
    (simp [action, levelAction] at h; obtain ⟨h1, h2⟩ := h; subst h1; subst h2; simp)

theorem mem_foldl_addProduction (ps : List GProd) (t : SymTab) (p : GProd) :
    p ∈ (ps.foldl addProduction t).prods ↔ p ∈ t.prods ∨ p ∈ ps := by
  induction ps generalizing t with
  | nil => simp
  | cons q qs ih =>
    simp only [List.foldl_cons, ih, List.mem_cons]
    unfold addProduction
    split
    · rename_i hc
      have : q ∈ t.prods := by simpa using hc
      constructor
      · rintro (h | h) <;> simp [h]
      · rintro (h | h | h)
        · left; exact h
        · left; rw [h]; exact this
        · right; exact h
    · simp; constructor
      · rintro ((h | h) | h) <;> simp [h]
      · rintro (h | h | h) <;> simp [h]

@[simp] theorem levels_addNonTerminal (t : SymTab) (A : String) : (addNonTerminal t A).levels = t.levels := by
  unfold addNonTerminal; split <;> rfl
@[simp] theorem levels_addProduction (t : SymTab) (p : GProd) : (addProduction t p).levels = t.levels := by
  unfold addProduction; split <;> rfl
@[simp] theorem levels_addDef (t : SymTab) (a : String) (d : TermDef) : (addDef t a d).levels = t.levels := by
  unfold addDef; split <;> rfl
@[simp] theorem levels_addStringTokenDef (t : SymTab) (a v : String) (p) : (addStringTokenDef t a v p).levels = t.levels := by
  simp [addStringTokenDef]
@[simp] theorem levels_addRegexTokenDef (t : SymTab) (a v : String) (p) : (addRegexTokenDef t a v p).levels = t.levels := by
  simp [addRegexTokenDef]
@[simp] theorem levels_addStringTerminal (t : SymTab) (k x : String) : (addStringTerminal t k x).levels = t.levels := by
  unfold addStringTerminal; split <;> rfl
@[simp] theorem levels_addTokenTerminal (t : SymTab) (a : String) : (addTokenTerminal t a).levels = t.levels := by
  unfold addTokenTerminal; split <;> rfl
theorem fst_levels_ite (c : Prop) [Decidable c] (t : SymTab) (x y : String) (n : Nat) :
    ((if c then (t, x) else ({ t with counter := n }, y)) : SymTab × String).1.levels = t.levels := by
  split <;> rfl

@[simp] theorem levels_mapString (cfg : Cfg) (names) (t : SymTab) (s : Strings) (sfx : String) :
    (mapStringToNonTerminal cfg names t s sfx).1.levels = t.levels := by
  unfold mapStringToNonTerminal; simp only; exact fst_levels_ite _ _ _ _ _
@[simp] theorem levels_getName (cfg : Cfg) (names) (t : SymTab) (s : Strings) (k : Kind) :
    (getName cfg names t s k).1.levels = t.levels := by
  unfold getName
  split
  · split
    · rfl
    · simp
  · simp
theorem levels_foldl {α} (f : SymTab → α → SymTab) (hf : ∀ t a, (f t a).levels = t.levels) (l : List α) (t : SymTab) :
    (l.foldl f t).levels = t.levels := by
  induction l generalizing t with
  | nil => rfl
  | cons x xs ih => simp [List.foldl_cons, ih, hf]
@[simp] theorem levels_closureAction (cfg : Cfg) (names) (t : SymTab) (s : Strings) (k : Kind) :
    (closureAction cfg names t s k).1.levels = t.levels := by
  unfold closureAction
  cases k <;> simp [levels_foldl]

/-- No action other than a directive changes the recorded levels. -/
theorem C12_others_keep (cfg : Cfg) (file : String) (names predefs : List (String × String)) (t t' : SymTab)
    (i : Nat) (hi : i ≠ 12 ∧ i ≠ 13 ∧ i ≠ 14) (rhs : List PVal) (v : Val)
    (h : action cfg file names predefs t i rhs = .ok (t', v)) : t'.levels = t.levels := by
  obtain ⟨h12, h13, h14⟩ := hi
  unfold action at h
  simp only at h
  repeat' split at h
  all_goals (first
    | (exfalso; first | exact h12 rfl | exact h13 rfl | exact h14 rfl)
    | (simp [typeErr] at h; done)
    | (simp at h; obtain ⟨h1, _⟩ := h; subst h1; simp [levels_foldl]; done)
    | skip)

/-- A rule (also one written inside `< >`) yields one production per alternative of its
    translated right-hand side, and each of them is one of the grammar's own productions. -/
theorem C12_rule_productions_in_grammar (cfg : Cfg) (file : String) (names predefs : List (String × String))
    (t t' : SymTab) (A : String) (s : Strings) (p0 p1 p2 : Option Pos) (eqv : Val) (v : Val)
    (h : action cfg file names predefs t 20 [⟨.nonterm A, p0⟩, ⟨eqv, p1⟩, ⟨.strings s, p2⟩] = .ok (t', v)) :
    v = .prods (s.map fun α => ⟨A, α⟩) ∧ ∀ p ∈ s.map (fun α => (⟨A, α⟩ : GProd)), p ∈ t'.prods := by
  simp [action] at h
  obtain ⟨h1, h2⟩ := h
  subst h1; subst h2
  refine ⟨rfl, ?_⟩
  intro p hp
  rw [mem_foldl_addProduction]
  right; exact hp

/-- The handles of a directive are collected left to right: a terminal contributes itself, a rule
    handle contributes each of its productions. -/
theorem C12_handles_collect (cfg : Cfg) (file : String) (names predefs : List (String × String)) (t : SymTab)
    (hs : List GHandle) (a : String) (ps : List GProd) (p0 p1 : Option Pos) :
    action cfg file names predefs t 17 [⟨.term a, p0⟩] = .ok (t, .handles [.term a]) ∧
    action cfg file names predefs t 18 [⟨.prods ps, p0⟩] = .ok (t, .handles (ps.map .prod)) ∧
    action cfg file names predefs t 15 [⟨.handles hs, p0⟩, ⟨.term a, p1⟩] = .ok (t, .handles (hs ++ [.term a])) ∧
    action cfg file names predefs t 16 [⟨.handles hs, p0⟩, ⟨.prods ps, p1⟩] = .ok (t, .handles (hs ++ ps.map .prod)) := by
  simp [action]

/-- `dedupHandles` keeps exactly the handles listed (as a set). -/
theorem mem_dedupHandles (hs : List GHandle) (h : GHandle) : h ∈ dedupHandles hs ↔ h ∈ hs := by
  unfold dedupHandles
  suffices ∀ acc, h ∈ hs.foldl (fun acc h => if acc.contains h then acc else acc ++ [h]) acc ↔ h ∈ acc ∨ h ∈ hs by
    simpa using this []
  induction hs with
  | nil => intro acc; simp
  | cons x xs ih =>
    intro acc
    simp only [List.foldl_cons, ih, List.mem_cons]
    split
    · rename_i hc
      have : x ∈ acc := by simpa using hc
      constructor
      · rintro (h1 | h1) <;> simp [h1]
      · rintro (h1 | h1 | h1)
        · left; exact h1
        · left; rw [h1]; exact this
        · right; exact h1
    · simp; constructor
      · rintro ((h1 | h1) | h1) <;> simp [h1]
      · rintro (h1 | h1 | h1) <;> simp [h1]

end Emerge.Props.C12
