import Emerge.Props.C05
import Emerge.Proofs.Utf8
/-
  C13 — what emerge derives depends only on the token sequence, not on layout or padding.

  The EBNF lexer scans the source from memory with a reader of its own (repair 027b8ad; before that the
  dependency's two-half reader, kept away from its reload path by a buffer that held the whole source), so
  the model has no buffer: the source is one rune list and the theorems below are about the scanner model
  over the regenerated tables.
  The parser consumes only the kinds and lexemes of the tokens (`Emerge.LR.parse` takes the list
  of kinds), so layout can influence the result only through the token list.
-/
namespace Emerge.Props.C13
open Emerge Emerge.Scanner Emerge.Inst.Lexer Emerge.Props.C05

def isBlank (r : Rune) : Bool := r == 32 || r == 9 || r == 10 || r == 13

theorem ref_blank_loop1 : ∀ x : Nat, x < 128 →
    (Ref.Lexer.advance 1 x = none ∨ (Ref.Lexer.advance 1 x = some 1 ∧ Ref.Lexer.advance 0 x = some 1)) := by
  decide +kernel

theorem ref_blank_loop2 : ∀ x : Nat, x < 128 →
    (Ref.Lexer.advance 2 x = none ∨ (Ref.Lexer.advance 2 x = some 2 ∧ Ref.Lexer.advance 0 x = some 2)) := by
  decide +kernel

theorem gen_loop (s1 : Nat) (h : ∀ x, x < 128 →
      (Ref.Lexer.advance s1 x = none ∨ (Ref.Lexer.advance s1 x = some s1 ∧ Ref.Lexer.advance 0 x = some s1))) :
    ∀ x s', genSpec.adv s1 x = some s' → s' = s1 ∧ genSpec.adv 0 x = some s1 := by
  intro x s' hx
  show s' = s1 ∧ genAdvance 0 x = some s1
  have hx' : genAdvance s1 x = some s' := hx
  rw [advance_eq] at hx' ⊢
  by_cases hlt : x < 128
  · rcases h x hlt with h1 | ⟨h1, h2⟩
    · rw [h1] at hx'; cases hx'
    · rw [h1] at hx'; cases hx'; exact ⟨rfl, h2⟩
  · rw [ref_none_of_rune s1 x (Nat.le_of_not_lt hlt)] at hx'; cases hx'

theorem skipped_WS : genSpec.skipped "WS" = true := by decide +kernel
theorem skipped_EOL : genSpec.skipped "EOL" = true := by decide +kernel
theorem eval1 : genSpec.eval 1 = some ("WS", .lit []) := by decide +kernel
theorem eval2 : genSpec.eval 2 = some ("EOL", .lit []) := by decide +kernel

/-- Space, tab, line feed and carriage return are blank runes of the scanner in the source. -/
theorem blank_rune (r : Rune) (h : isBlank r = true) : ∃ s1, BlankRune genSpec r s1 := by
  simp only [isBlank, Bool.or_eq_true, beq_iff_eq] at h
  rcases h with ((h | h) | h) | h <;> subst h
  · exact ⟨1, by show genAdvance 0 32 = some 1; decide +kernel, ⟨_, _, eval1, skipped_WS⟩, gen_loop 1 ref_blank_loop1, by decide⟩
  · exact ⟨1, by show genAdvance 0 9 = some 1; decide +kernel, ⟨_, _, eval1, skipped_WS⟩, gen_loop 1 ref_blank_loop1, by decide⟩
  · exact ⟨2, by show genAdvance 0 10 = some 2; decide +kernel, ⟨_, _, eval2, skipped_EOL⟩, gen_loop 2 ref_blank_loop2, by decide⟩
  · exact ⟨2, by show genAdvance 0 13 = some 2; decide +kernel, ⟨_, _, eval2, skipped_EOL⟩, gen_loop 2 ref_blank_loop2, by decide⟩

/-- tokens (with positions) and ending of a text scanned from position `p` -/
def tokensFrom (p : Pos) (rs : List Rune) : List Token × End :=
  ((seg genSpec p rs).1.filterMap (tokenOf genSpec), (seg genSpec p rs).2)

theorem scan_eq_tokensFrom (rs : List Rune) : scan genSpec rs = tokensFrom Pos.start rs := rfl

/-- **Leading padding.** Any run of spaces, tabs and line terminators in front of a text changes
    nothing except that scanning starts at the position after the run: same tokens, same lexemes,
    same ending, and every reported position moved by exactly the inserted text. -/
theorem C13_leading_blanks (ws : List Rune) (h : ∀ r ∈ ws, isBlank r = true) (p : Pos) (b : List Rune) :
    tokensFrom p (ws ++ b) = tokensFrom (advPosList p ws) b := by
  induction ws generalizing p with
  | nil => rfl
  | cons r ws ih =>
    obtain ⟨s1, hb⟩ := blank_rune r (h r (by simp))
    have := seg_leading_blank genSpec hb p (ws ++ b)
    simp only [tokensFrom, List.cons_append, advPosList_cons]
    rw [this.1, this.2]
    exact ih (fun r hr => h r (by simp [hr])) (advPos p r)

/-- **Positions move with the start and nothing else does.** -/
theorem C13_positions_shift (p p' : Pos) (rs : List Rune) :
    (seg genSpec p rs).1.map (fun g => (g.state, g.text)) = (seg genSpec p' rs).1.map (fun g => (g.state, g.text)) ∧
    (seg genSpec p rs).2.strip = (seg genSpec p' rs).2.strip :=
  seg_shift genSpec rs.length p p' rs (Nat.le_refl _)

/-- **Compositionality at a token boundary**: what was scanned before a boundary is unaffected by
    what follows it, and what follows is scanned as if it stood alone at that position. -/
theorem C13_compose (p : Pos) (a b : List Rune) (segsA : List Seg) (hne : a ≠ [])
    (hseg : seg genSpec p a = (segsA, .eof))
    (hb : b = [] ∨ ∃ r rest, b = r :: rest ∧ genSpec.adv (lastState segsA) r = none) :
    seg genSpec p (a ++ b) = (segsA ++ (seg genSpec (advPosList p a) b).1, (seg genSpec (advPosList p a) b).2) :=
  seg_append genSpec gen_noReentry gen_eval0 a.length p a b segsA (Nat.le_refl _) hne hseg hb

/-- states in which a significant (non-skipped) token ends -/
def tokenState (q : Nat) : Bool :=
  match Ref.Lexer.eval q with
  | some (k, _) => !Ref.Lexer.skipped k
  | none => false

theorem ref_blank_dead : ∀ q : Nat, q < 55 →
    (tokenState q = true →
      Ref.Lexer.advance q 32 = none ∧ Ref.Lexer.advance q 9 = none ∧
      Ref.Lexer.advance q 10 = none ∧ Ref.Lexer.advance q 13 = none) := by
  decide +kernel

/-- **A blank always ends a token**: no state in which a significant token ends has
    a transition on space, tab or a line terminator. -/
theorem C13_blank_ends_token (q : Nat) (r : Rune) (hts : tokenState q = true) (hr : isBlank r = true) :
    genSpec.adv q r = none := by
  show genAdvance q r = none
  rw [advance_eq]
  by_cases hlt : q < 55
  · have h := ref_blank_dead q hlt hts
    simp only [isBlank, Bool.or_eq_true, beq_iff_eq] at hr
    rcases hr with ((h' | h') | h') | h' <;> subst h'
    · exact h.1
    · exact h.2.1
    · exact h.2.2.1
    · exact h.2.2.2
  · exact ref_none_of_state q r (Nat.le_of_not_lt hlt)

/-- **Separators between tokens.** If `a` ends with a complete token (its last run is a significant token) then any non-empty run of blanks between `a` and `b` gives the tokens
    of `a` followed by the tokens of `b` scanned at the position after `a` and the blanks; with
    `b = []` this is: trailing blanks (a final newline) add nothing. -/
theorem C13_separator (p : Pos) (a ws b : List Rune) (segsA : List Seg) (hne : a ≠ [])
    (hseg : seg genSpec p a = (segsA, .eof))
    (hts : tokenState (lastState segsA) = true)
    (hws : ∀ r ∈ ws, isBlank r = true) (hwne : ws ≠ []) :
    tokensFrom p (a ++ (ws ++ b)) =
      (segsA.filterMap (tokenOf genSpec) ++ (tokensFrom (advPosList p (a ++ ws)) b).1,
       (tokensFrom (advPosList p (a ++ ws)) b).2) := by
  have hbnd : (ws ++ b) = [] ∨ ∃ r rest, (ws ++ b) = r :: rest ∧ genSpec.adv (lastState segsA) r = none := by
    cases ws with
    | nil => exact absurd rfl hwne
    | cons r rs => right; exact ⟨r, rs ++ b, rfl, C13_blank_ends_token _ r hts (hws r (by simp))⟩
  have hc := C13_compose p a (ws ++ b) segsA hne hseg hbnd
  have hl := C13_leading_blanks ws hws (advPosList p a) b
  simp only [tokensFrom] at hl ⊢
  rw [hc]
  simp only [List.filterMap_append, advPosList_append]
  rw [(Prod.mk.inj hl).1, (Prod.mk.inj hl).2]

/-- Non-vacuity of `C13_separator`: `a = "ab"` is one IDENT run ending in state 40. -/
example : seg genSpec Pos.start [97, 98] = ([⟨40, [97, 98], Pos.start⟩], .eof) ∧
    tokenState (lastState [⟨40, [97, 98], Pos.start⟩]) = true := by decide +kernel

/-- **Bytes of a text**: the specification is read as UTF-8; for every text of Unicode scalar values, scanning the decoded
    bytes of its encoding is scanning the text - whatever its length (no byte-level boundary plays a role). -/
theorem C13_text_bytes (rs : List Rune) (h : ∀ r ∈ rs, Utf8.Scalar r) (fuel : Nat) (hf : rs.length ≤ fuel) :
    tokensFrom Pos.start (Utf8.decode fuel (Utf8.encode rs)).1 = tokensFrom Pos.start rs ∧
    (Utf8.decode fuel (Utf8.encode rs)).2 = .eof := by
  rw [Utf8.decode_encode rs h fuel hf]; exact ⟨rfl, rfl⟩

end Emerge.Props.C13
