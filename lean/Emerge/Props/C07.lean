import Emerge.Ebnf
import Emerge.Proofs.EbnfVerify
/-
  C07 — specification rejected iff ill-formed; every terminal gets exactly one definition.

  Decision logic of the final action (`grammar → name decls`) and of `SymbolTable.Verify`,
  `Definitions`, `CFG.Verify`, `PrecedenceLevels.Verify`, stated over the symbol table that the
  semantic actions have built (the link from the source text to the table is the model
  `Emerge.Ebnf.action`, tied to the code by the correspondence run).
-/
namespace Emerge.Props.C07
open Emerge Emerge.Ebnf

/-- The final action accepts exactly when no diagnostic of any of the four checkers is raised:
    symbol-table verification, pending `invalid predefined regex` errors, grammar verification,
    precedence verification. -/
theorem C07_accept_iff (cfg : Cfg) (file : String) (names predefs : List (String × String)) (t : SymTab)
    (name : String) (pos : Option Pos) (rest : List PVal) :
    (∃ r, action cfg file names predefs t 0 (⟨.str name, pos⟩ :: rest) = .ok r) ↔
      (verify file t = [] ∧ t.errs = [] ∧ cfgVerify t = [] ∧ precVerify t.levels = []) := by
  have hs := sortStr_nil_iff (cfgVerify t)
  simp only [action]
  constructor
  · rintro ⟨r, h⟩
    by_cases hv : verify file t = []
    · simp [hv] at h
      split at h
      · cases h
      · rename_i hneg
        simp only [Classical.not_imp, Classical.not_not] at hneg
        exact ⟨hv, hneg.1, hs.mp hneg.2.1, hneg.2.2⟩
    · simp [hv] at h
  · rintro ⟨hv, he, hc, hp⟩
    simp [hv, he, hs.mpr hc, hp]

/-- When rejected, the diagnostics are exactly those of the checkers — nothing else is reported; the grammar's
    diagnostics come ordered by their text (the repair 26371be: the dependency visits its sets in no particular order). -/
theorem C07_diagnostics (cfg : Cfg) (file : String) (names predefs : List (String × String)) (t : SymTab)
    (rhs : List PVal) (ds : List String)
    (h : action cfg file names predefs t 0 rhs = .err ds) :
    ds = t.errs ++ verify file t ∨ ds = t.errs ++ sortStr (cfgVerify t) ++ precVerify t.levels := by
  simp only [action] at h
  by_cases hv : verify file t = []
  · simp [hv] at h
    split at h
    · right; simp at h; rw [← h]; simp
    · split at h <;> simp [typeErr] at h
  · simp [hv] at h
    left; exact h.symm

/-- `verify` succeeds only if `start` has a production. -/
theorem C07_start (file : String) (t : SymTab) (h : verify file t = []) :
    t.prods.any (·.head == "start") = true := by
  simp only [verify, List.append_eq_nil_iff] at h
  have h3 := h.2
  simp only [ensureStart] at h3
  split at h3
  · assumption
  · simp at h3

theorem mem_insertDef (x d : TermDef) (l : List TermDef) : d ∈ insertDef x l ↔ d = x ∨ d ∈ l := by
  induction l with
  | nil => simp [insertDef]
  | cons y ys ih =>
    simp only [insertDef]
    split
    · simp
    · simp [ih]; constructor
      · rintro (h | h | h) <;> simp [h]
      · rintro (h | h | h) <;> simp [h]

theorem mem_foldr_insertDef (d : TermDef) (l : List TermDef) : d ∈ l.foldr insertDef [] ↔ d ∈ l := by
  induction l with
  | nil => simp
  | cons y ys ih => simp [List.foldr, mem_insertDef, ih]

/-- The definition list handed on consists exactly of the single definitions of the terminals:
    nothing is lost and nothing is invented by the sorting. -/
theorem C07_definitions_mem (t : SymTab) (d : TermDef) :
    d ∈ definitions t ↔ ∃ e ∈ t.terminals, e.defs = [d] := by
  simp only [definitions, mem_foldr_insertDef, List.mem_filterMap]
  constructor
  · rintro ⟨e, he, h⟩
    refine ⟨e, he, ?_⟩
    split at h
    · rename_i d' hd; simp at h; rw [hd, h]
    · simp at h
  · rintro ⟨e, he, h⟩
    exact ⟨e, he, by simp [h]⟩

/-- A string literal used in a rule defines itself: its definition is the literal with the escapes
    resolved, and it is a string (not pattern) definition without a declaration position. -/
theorem C07_literal_defines_itself (t : SymTab) (key text : String)
    (hnew : t.terminals.any (·.name == key) = false) :
    (addStringTerminal t key text).terminals = t.terminals ++ [⟨key, [⟨key, unescapeString text, false, none⟩]⟩] := by
  simp [addStringTerminal, hnew]

/-- Non-vacuity: a table with one defined terminal, one rule for `start`, no levels is accepted. -/
example :
    let t : SymTab := { terminals := [⟨"a", [⟨"a", "a", false, none⟩]⟩], nonTerminals := ["start"],
                        prods := [⟨"start", [.t "a"]⟩] }
    (verify "f" t = [] ∧ t.errs = [] ∧ cfgVerify t = [] ∧ precVerify t.levels = []) := by decide

/-- **One entry per terminal name** is kept by every semantic action, so it holds for the table the final action sees. -/
theorem C07_one_entry_per_terminal {t t' : SymTab} (h : TermsNodup t) (cfg : Cfg) (file : String) (names predefs : List (String × String))
    (i : Nat) (rhs : List PVal) (v : Val) (ha : action cfg file names predefs t i rhs = .ok (t', v)) : TermsNodup t' :=
  h.action cfg file names predefs i rhs v ha

theorem C07_empty_table : TermsNodup ({} : SymTab) := by
  unfold TermsNodup; exact List.nodup_nil

/-- **Accepted iff well-formed**: the final action returns a specification exactly when every terminal of the table has
    exactly one definition, the values of the terminals are pairwise distinct, no unknown predefined name was recorded,
    `start` and every non-terminal have a production and every symbol is declared, and no handle is in two levels. -/
theorem C07_accept_iff_wellformed (cfg : Cfg) (file : String) (names predefs : List (String × String)) {t : SymTab}
    (h : TermsNodup t) (name : String) (pos : Option Pos) (rest : List PVal) :
    (∃ r, action cfg file names predefs t 0 (⟨.str name, pos⟩ :: rest) = .ok r) ↔ WellFormed t :=
  (C07_accept_iff cfg file names predefs t name pos rest).trans (checkers_nil_iff file h)

/-- **Every diagnostic names a defect that is present** (and the diagnostics are nothing but the checkers' lines). -/
theorem C07_diagnostics_sound (cfg : Cfg) (file : String) (names predefs : List (String × String)) {t : SymTab}
    (h : TermsNodup t) (rhs : List PVal) (ds : List String)
    (ha : action cfg file names predefs t 0 rhs = .err ds) : ∀ m ∈ ds, Defect file t m := by
  intro m hm
  rcases C07_diagnostics cfg file names predefs t rhs ds ha with hd | hd
  · rw [hd, List.mem_append] at hm
    rcases hm with h1 | h2
    · exact Or.inl h1
    · exact verify_sound file h m h2
  · rw [hd, List.mem_append, List.mem_append] at hm
    rcases hm with (h1 | h2) | h3
    · exact Or.inl h1
    · rcases cfgVerify_sound t m ((sortStr_perm _).mem_iff.mp h2) with a | b | c | d
      · exact Or.inr (Or.inr (Or.inr (Or.inr (Or.inr (Or.inl a)))))
      · exact Or.inr (Or.inr (Or.inr (Or.inr (Or.inl b))))
      · exact Or.inr (Or.inr (Or.inr (Or.inr (Or.inr (Or.inr (Or.inl c))))))
      · exact Or.inr (Or.inr (Or.inr (Or.inr (Or.inr (Or.inr (Or.inr (Or.inl d)))))))
    · exact Or.inr (Or.inr (Or.inr (Or.inr (Or.inr (Or.inr (Or.inr (Or.inr (precVerify_sound t.levels m h3))))))))

theorem length_insertDef (x : TermDef) (l : List TermDef) : (insertDef x l).length = l.length + 1 := by
  induction l with
  | nil => rfl
  | cons y l ih => simp only [insertDef]; split <;> simp [ih]

theorem length_foldr_insertDef (l : List TermDef) : (l.foldr insertDef []).length = l.length := by
  induction l with
  | nil => rfl
  | cons y l ih => simp [List.foldr, length_insertDef, ih]

theorem length_filterMap_single (l : List TermEntry) (h : ∀ e ∈ l, e.defs.length = 1) :
    (l.filterMap fun e => match e.defs with | [d] => some d | _ => none).length = l.length := by
  induction l with
  | nil => rfl
  | cons e l ih =>
    have he := h e List.mem_cons_self
    match hd : e.defs with
    | [d] => simp [List.filterMap_cons, hd, ih (fun e' he' => h e' (List.mem_cons_of_mem _ he'))]
    | [] => rw [hd] at he; cases he
    | _ :: _ :: _ => rw [hd] at he; simp at he

/-- **Every terminal gets exactly one definition**: for a well-formed table the definition list handed on has one entry
    per terminal of the table, each terminal's single definition is in it, and nothing else is. -/
theorem C07_one_definition_each {t : SymTab} (h : WellFormed t) :
    (definitions t).length = t.terminals.length ∧
    (∀ e ∈ t.terminals, ∃ d, e.defs = [d] ∧ d ∈ definitions t) ∧
    (∀ d ∈ definitions t, ∃ e ∈ t.terminals, e.defs = [d]) := by
  refine ⟨?_, ?_, fun d hd => (C07_definitions_mem t d).mp hd⟩
  · simp only [definitions, length_foldr_insertDef]
    exact length_filterMap_single _ h.defined
  · intro e he
    have := h.defined e he
    match hd : e.defs with
    | [d] => exact ⟨d, rfl, (C07_definitions_mem t d).mpr ⟨e, he, hd⟩⟩
    | [] => rw [hd] at this; cases this
    | _ :: _ :: _ => rw [hd] at this; simp at this

/-- An unknown predefined name is recorded as an error (and defines nothing); a known one defines the token. -/
theorem C07_predefined (cfg : Cfg) (file : String) (names predefs : List (String × String)) (t : SymTab)
    (tok value : String) (p0 p1 p2 : Option Pos) (x : Val) :
    action cfg file names predefs t 11 [⟨.str tok, p0⟩, ⟨x, p1⟩, ⟨.str value, p2⟩] =
      match predefs.find? (·.1 == value) with
      | none => .ok ({ t with errs := t.errs ++ ["invalid predefined regex: " ++ value] }, .nil)
      | some (_, re) => .ok (addRegexTokenDef t tok re p0, .nil) := by
  simp only [action, List.getElem?_cons_zero, List.getElem?_cons_succ, Option.map_some, Option.bind_some]
  cases predefs.find? (·.1 == value) <;> rfl

/-- Non-vacuity: a table with a doubly defined token, a token without definition and two terminals of equal value is not
    well-formed, and the checkers say so; a small complete table is well-formed. -/
def badTab : SymTab :=
  { terminals := [⟨"A", [⟨"A", "x", false, none⟩, ⟨"A", "y", false, none⟩]⟩, ⟨"B", []⟩, ⟨"C", [⟨"C", "z", false, none⟩]⟩, ⟨"z", [⟨"z", "z", false, none⟩]⟩],
    nonTerminals := ["start"], prods := [⟨"start", [.t "A", .t "B", .t "C", .t "z"]⟩] }
def goodTab : SymTab :=
  { terminals := [⟨"A", [⟨"A", "x", false, none⟩]⟩, ⟨"z", [⟨"z", "z", false, none⟩]⟩],
    nonTerminals := ["start"], prods := [⟨"start", [.t "A", .t "z"]⟩] }
example : (verify "f" badTab).length = 3 ∧ verify "f" goodTab = [] ∧ cfgVerify goodTab = [] ∧ precVerify goodTab.levels = [] := by decide
example : TermsNodup badTab ∧ TermsNodup goodTab := by constructor <;> (unfold TermsNodup; decide)

end Emerge.Props.C07
