import Emerge.Ebnf
/-
  C07 — specification rejected iff ill-formed; every terminal gets exactly one definition.

  Decision logic of the final action (`grammar → name decls`) and of `SymbolTable.Verify`,
  `Definitions`, `CFG.Verify`, `PrecedenceLevels.Verify`, stated over the symbol table that the
  semantic actions have built (the link from the source text to the table is the model
  `Emerge.Ebnf.action`, tied to the code by the correspondence run).
-/
namespace Emerge.Props.C07
open Emerge Emerge.Ebnf

/-- The final action accepts exactly when no diagnostic of any of the four checkers is raised:
    symbol-table verification, pending `invalid predefined regex` errors, grammar verification,
    precedence verification. -/
theorem C07_accept_iff (cfg : Cfg) (file : String) (names predefs : List (String × String)) (t : SymTab)
    (name : String) (pos : Option Pos) (rest : List PVal) :
    (∃ r, action cfg file names predefs t 0 (⟨.str name, pos⟩ :: rest) = .ok r) ↔
      (verify file t = [] ∧ t.errs = [] ∧ cfgVerify t = [] ∧ precVerify t.levels = []) := by
  simp only [action]
  constructor
  · rintro ⟨r, h⟩
    by_cases hv : verify file t = []
    · simp [hv] at h
      split at h
      · cases h
      · rename_i hneg
        simp only [Classical.not_imp, Classical.not_not] at hneg
        exact ⟨hv, hneg.1, hneg.2.1, hneg.2.2⟩
    · simp [hv] at h
  · rintro ⟨hv, he, hc, hp⟩
    simp [hv, he, hc, hp]

/-- When rejected, the diagnostics are exactly those of the checkers — nothing else is reported. -/
theorem C07_diagnostics (cfg : Cfg) (file : String) (names predefs : List (String × String)) (t : SymTab)
    (rhs : List PVal) (ds : List String)
    (h : action cfg file names predefs t 0 rhs = .err ds) :
    ds = t.errs ++ verify file t ∨ ds = t.errs ++ cfgVerify t ++ precVerify t.levels := by
  simp only [action] at h
  by_cases hv : verify file t = []
  · simp [hv] at h
    split at h
    · right; simp at h; rw [← h]; simp
    · split at h <;> simp [typeErr] at h
  · simp [hv] at h
    left; exact h.symm

/-- `verify` succeeds only if `start` has a production. -/
theorem C07_start (file : String) (t : SymTab) (h : verify file t = []) :
    t.prods.any (·.head == "start") = true := by
  simp only [verify, List.append_eq_nil_iff] at h
  have h3 := h.2
  simp only [ensureStart] at h3
  split at h3
  · assumption
  · simp at h3

theorem mem_insertDef (x d : TermDef) (l : List TermDef) : d ∈ insertDef x l ↔ d = x ∨ d ∈ l := by
  induction l with
  | nil => simp [insertDef]
  | cons y ys ih =>
    simp only [insertDef]
    split
    · simp
    · simp [ih]; constructor
      · rintro (h | h | h) <;> simp [h]
      · rintro (h | h | h) <;> simp [h]

theorem mem_foldr_insertDef (d : TermDef) (l : List TermDef) : d ∈ l.foldr insertDef [] ↔ d ∈ l := by
  induction l with
  | nil => simp
  | cons y ys ih => simp [List.foldr, mem_insertDef, ih]

/-- The definition list handed on consists exactly of the single definitions of the terminals:
    nothing is lost and nothing is invented by the sorting. -/
theorem C07_definitions_mem (t : SymTab) (d : TermDef) :
    d ∈ definitions t ↔ ∃ e ∈ t.terminals, e.defs = [d] := by
  simp only [definitions, mem_foldr_insertDef, List.mem_filterMap]
  constructor
  · rintro ⟨e, he, h⟩
    refine ⟨e, he, ?_⟩
    split at h
    · rename_i d' hd; simp at h; rw [hd, h]
    · simp at h
  · rintro ⟨e, he, h⟩
    exact ⟨e, he, by simp [h]⟩

/-- A string literal used in a rule defines itself: its definition is the literal with the escapes
    resolved, and it is a string (not pattern) definition without a declaration position. -/
theorem C07_literal_defines_itself (t : SymTab) (key text : String)
    (hnew : t.terminals.any (·.name == key) = false) :
    (addStringTerminal t key text).terminals = t.terminals ++ [⟨key, [⟨key, unescapeString text, false, none⟩]⟩] := by
  simp [addStringTerminal, hnew]

/-- Non-vacuity: a table with one defined terminal, one rule for `start`, no levels is accepted. -/
example :
    let t : SymTab := { terminals := [⟨"a", [⟨"a", "a", false, none⟩]⟩], nonTerminals := ["start"],
                        prods := [⟨"start", [.t "a"]⟩] }
    (verify "f" t = [] ∧ t.errs = [] ∧ cfgVerify t = [] ∧ precVerify t.levels = []) := by decide

end Emerge.Props.C07
