import Emerge.Inst.Tables
import Emerge.Proofs.LRDriver
import Emerge.LREval
import Emerge.Inst.ParserDrv
/-
  C18 — parse callbacks fire in derivation order; errors abort; an evaluation callback receives the
  values of the body symbols left to right and its result becomes the value of the head.
-/
namespace Emerge.Props.C18
open Emerge Emerge.LR Emerge.Inst.Tables

/-- The embedded tables pass the decidable well-formedness check on which soundness rests. -/
theorem C18_tables_wf : raw.WF = true := raw_wf

/-- token callbacks / production callbacks of a run, in invocation order -/
def tokCalls (ev : List Event) : List Nat := ev.filterMap fun e => match e with | .tok i => some i | _ => none
def prodCalls (ev : List Event) : List Nat := ev.filterMap fun e => match e with | .prod p => some p | _ => none

theorem toksOf_eq (ev : List Event) : toksOf ev = tokCalls ev := by
  induction ev with
  | nil => rfl
  | cons e es ih => cases e <;> simp [toksOf, tokCalls, ih] <;> rfl

theorem prodsOf_eq (ev : List Event) : prodsOf ev = prodCalls ev := by
  induction ev with
  | nil => rfl
  | cons e es ih => cases e <;> simp [prodsOf, prodCalls, ih] <;> rfl

/-- The token callback is invoked once per token, in source order. -/
theorem C18_tokens {w : List Nat} (hw : ∀ a ∈ w, a ≠ raw.eof) {fuel : Nat} {ev : List Event}
    (hacc : parse raw.tables w none none fuel = (ev, .accept)) :
    tokCalls ev = List.range w.length := by
  have h := (sound raw_wf hw hacc).2
  rw [toksOf_eq] at h
  have : (tokCalls ev).reverse = (List.range w.length).reverse := by
    rw [← h]; simp [tokCalls, List.filterMap_reverse]
  simpa using congrArg List.reverse this

/-- The production callback is invoked once per reduction, and the invocations — read backwards —
    are a rightmost derivation of the token sequence from the start symbol of the documented
    grammar: i.e. they come in the order of a rightmost derivation in reverse. -/
theorem C18_order {w : List Nat} (hw : ∀ a ∈ w, a ≠ raw.eof) {fuel : Nat} {ev : List Event}
    (hacc : parse raw.tables w none none fuel = (ev, .accept)) :
    RDerivation Ref.Ebnf.prods (prodCalls ev).reverse [.nt Ref.Ebnf.nGrammar] (w.map Sym.t) := by
  have h := (sound raw_wf hw hacc).1
  rw [prodsOf_eq] at h
  have e1 : raw.prods = Ref.Ebnf.prods := by
    show Gen.Tables.tableFile.prods = _; rw [tableFile_eq]; rfl
  have e2 : raw.start = Ref.Ebnf.nGrammar := by
    show Gen.Tables.tableFile.start = _; rw [tableFile_eq]; rfl
  rw [e1, e2] at h
  have : prodCalls ev.reverse = (prodCalls ev).reverse := by simp [prodCalls, List.filterMap_reverse]
  rw [this] at h
  exact h

/-- An error returned by the `k`-th callback invocation stops the parse at that point and is what
    the caller gets: exactly the first `k+1` invocations of the unfailing run were made. -/
theorem C18_abort (w : List Nat) (k fuel : Nat) (errAt : Option Nat)
    (hk : k < (parse raw.tables w none errAt fuel).1.length) :
    parse raw.tables w (some k) errAt fuel =
      ((parse raw.tables w none errAt fuel).1.take (k + 1), .callbackError k) := by
  unfold parse at hk ⊢
  split
  · rename_i h; simp [h] at hk
  · rename_i h
    simp only [h, if_false] at hk
    rw [run_abort raw.tables w k errAt fuel init (by simp [init])]
    simp [hk]

/-- … and if the unfailing run makes no `k`-th invocation, nothing changes. -/
theorem C18_no_abort (w : List Nat) (k fuel : Nat) (errAt : Option Nat)
    (hk : ¬ k < (parse raw.tables w none errAt fuel).1.length) :
    parse raw.tables w (some k) errAt fuel = parse raw.tables w none errAt fuel := by
  unfold parse at hk ⊢
  split
  · rfl
  · rename_i h
    simp only [h, if_false] at hk
    rw [run_abort raw.tables w k errAt fuel init (by simp [init])]
    simp [hk]

/-- Non-vacuity: `grammar x ; x = "s" ;` (token kinds 13 17 1 17 0 19 1) is accepted. -/
example : (parse raw.tables [13, 17, 1, 17, 0, 19, 1] none none 200).2 = .accept := by decide +kernel

/-! ### values: `ParseAndEvaluate` is the fold of the evaluation function over the parse tree -/

mutual
/-- the value of a parse tree under an evaluation function: a leaf is its token's lexeme at the
    token's position; an interior node is the function applied to the values of its children, left
    to right, positioned at the first child (no position for an empty body) -/
def foldNode {V : Type} (f : Nat → List (Value V) → V) (tokVal : Nat → V) : LR.Node → Value V
  | .leaf i => ⟨tokVal i, some i⟩
  | .inner p cs => ⟨f p (foldList f tokVal cs), ((foldList f tokVal cs).head?).bind (·.pos)⟩
def foldList {V : Type} (f : Nat → List (Value V) → V) (tokVal : Nat → V) : List LR.Node → List (Value V)
  | [] => []
  | c :: cs => foldNode f tokVal c :: foldList f tokVal cs
end

theorem foldList_eq_map {V : Type} (f : Nat → List (Value V) → V) (tokVal : Nat → V) (cs : List LR.Node) :
    foldList f tokVal cs = cs.map (foldNode f tokVal) := by
  induction cs with
  | nil => rfl
  | cons c cs ih => simp [foldList, ih]

theorem popValues_map {α β} (g : α → β) : ∀ (n : Nat) (st : List α),
    popValues n (st.map g) = (popValues n st).map (fun r => (r.1.map g, r.2.map g)) := by
  intro n
  induction n with
  | zero => intro st; simp [popValues]
  | succ n ih =>
    intro st
    cases st with
    | nil => simp [popValues]
    | cons x st =>
      simp only [List.map_cons, popValues, ih]
      cases popValues n st <;> simp

/-- **Values**: when no evaluation call fails, the value stack `ParseAndEvaluate` maintains is, at
    every moment, the image of the tree stack `ParseAndBuildAST` maintains under the fold of the
    evaluation function: every call receives exactly the values of the production's body symbols,
    left to right, its result becomes the value of the head, and the head takes the position of its
    first body symbol. -/
theorem C18_values {V : Type} (prods : List Prod) (f : Nat → List (Value V) → V) (tokVal : Nat → V) :
    ∀ (evs : List Event) (st st' : List LR.Node) (calls : Nat),
      astEvents prods evs st = some st' →
      evalEvents prods (fun _ p rhs => some (f p rhs)) tokVal evs (st.map (foldNode f tokVal)) calls
        = .ok (st'.map (foldNode f tokVal)) := by
  intro evs
  induction evs with
  | nil => intro st st' calls h; simp [astEvents] at h; subst h; rfl
  | cons e es ih =>
    intro st st' calls h
    cases e with
    | tok i =>
      simp only [astEvents] at h
      simp only [evalEvents]
      exact ih (.leaf i :: st) st' calls h
    | prod p =>
      simp only [astEvents] at h
      simp only [evalEvents]
      cases hp : prods[p]? with
      | none => simp [hp] at h
      | some pr =>
        obtain ⟨A, β⟩ := pr
        simp only [hp] at h ⊢
        rw [popValues_map]
        cases hv : popValues β.length st with
        | none => simp [hv] at h
        | some r =>
          obtain ⟨cs, st0⟩ := r
          simp only [hv] at h
          simp only [Option.map_some]
          have := ih (.inner p cs :: st0) st' (calls + 1) h
          simpa [foldNode, foldList_eq_map] using this

/-- **An evaluation error stops the parse at that point**: if the `k`-th call of the evaluation
    function fails, the result is that error and no later call is made (the fold stops). -/
theorem C18_eval_error {V : Type} (prods : List Prod) (eval : Nat → Nat → List (Value V) → Option V) (tokVal : Nat → V)
    (p : Nat) (A : Nat) (β : List Sym) (es : List Event) (st : List (Value V)) (rhs st' : List (Value V)) (calls : Nat)
    (hp : prods[p]? = some (A, β)) (hv : popValues β.length st = some (rhs, st')) (hfail : eval calls p rhs = none) :
    evalEvents prods eval tokVal (.prod p :: es) st calls = .error (.evalError calls) := by
  simp [evalEvents, hp, hv, hfail]

/-- The driver the models follow: `Parse`, `ParseAndBuildAST`, `ParseAndEvaluate` and `nextToken` of the EBNF parser read,
    statement for statement, as expected (re-extracted from internal/ebnf/parser/parser.go on every run). -/
theorem C18_driver_source :
    Gen.ParserDrv.body_Parse = Ref.ParserDrv.body_Parse ∧ Gen.ParserDrv.body_ParseAndBuildAST = Ref.ParserDrv.body_ParseAndBuildAST ∧
    Gen.ParserDrv.body_ParseAndEvaluate = Ref.ParserDrv.body_ParseAndEvaluate ∧ Gen.ParserDrv.body_nextToken = Ref.ParserDrv.body_nextToken :=
  ⟨Inst.ParserDrv.body_Parse_eq, Inst.ParserDrv.body_ParseAndBuildAST_eq, Inst.ParserDrv.body_ParseAndEvaluate_eq,
   Inst.ParserDrv.body_nextToken_eq⟩

end Emerge.Props.C18
