import Emerge.Inst.Tables
import Emerge.Proofs.LRDriver
/-
  C18 — parse callbacks fire in derivation order; errors abort.
  (The value-passing part of the property, `ParseAndEvaluate`, is in `Emerge.Props.C18Values`.)
-/
namespace Emerge.Props.C18
open Emerge Emerge.LR Emerge.Inst.Tables

/-- The embedded tables pass the decidable well-formedness check on which soundness rests. -/
theorem C18_tables_wf : raw.WF = true := raw_wf

/-- token callbacks / production callbacks of a run, in invocation order -/
def tokCalls (ev : List Event) : List Nat := ev.filterMap fun e => match e with | .tok i => some i | _ => none
def prodCalls (ev : List Event) : List Nat := ev.filterMap fun e => match e with | .prod p => some p | _ => none

theorem toksOf_eq (ev : List Event) : toksOf ev = tokCalls ev := by
  induction ev with
  | nil => rfl
  | cons e es ih => cases e <;> simp [toksOf, tokCalls, ih] <;> rfl

theorem prodsOf_eq (ev : List Event) : prodsOf ev = prodCalls ev := by
  induction ev with
  | nil => rfl
  | cons e es ih => cases e <;> simp [prodsOf, prodCalls, ih] <;> rfl

/-- The token callback is invoked once per token, in source order. -/
theorem C18_tokens {w : List Nat} (hw : ∀ a ∈ w, a ≠ raw.eof) {fuel : Nat} {ev : List Event}
    (hacc : parse raw.tables w none none fuel = (ev, .accept)) :
    tokCalls ev = List.range w.length := by
  have h := (sound raw_wf hw hacc).2
  rw [toksOf_eq] at h
  have : (tokCalls ev).reverse = (List.range w.length).reverse := by
    rw [← h]; simp [tokCalls, List.filterMap_reverse]
  simpa using congrArg List.reverse this

/-- The production callback is invoked once per reduction, and the invocations — read backwards —
    are a rightmost derivation of the token sequence from the start symbol of the documented
    grammar: i.e. they come in the order of a rightmost derivation in reverse. -/
theorem C18_order {w : List Nat} (hw : ∀ a ∈ w, a ≠ raw.eof) {fuel : Nat} {ev : List Event}
    (hacc : parse raw.tables w none none fuel = (ev, .accept)) :
    RDerivation Ref.Ebnf.prods (prodCalls ev).reverse [.nt Ref.Ebnf.nGrammar] (w.map Sym.t) := by
  have h := (sound raw_wf hw hacc).1
  rw [prodsOf_eq] at h
  have e1 : raw.prods = Ref.Ebnf.prods := by
    show Gen.Tables.tableFile.prods = _; rw [tableFile_eq]; rfl
  have e2 : raw.start = Ref.Ebnf.nGrammar := by
    show Gen.Tables.tableFile.start = _; rw [tableFile_eq]; rfl
  rw [e1, e2] at h
  have : prodCalls ev.reverse = (prodCalls ev).reverse := by simp [prodCalls, List.filterMap_reverse]
  rw [this] at h
  exact h

/-- An error returned by the `k`-th callback invocation stops the parse at that point and is what
    the caller gets: exactly the first `k+1` invocations of the unfailing run were made. -/
theorem C18_abort (w : List Nat) (k fuel : Nat) (errAt : Option Nat)
    (hk : k < (parse raw.tables w none errAt fuel).1.length) :
    parse raw.tables w (some k) errAt fuel =
      ((parse raw.tables w none errAt fuel).1.take (k + 1), .callbackError k) := by
  unfold parse at hk ⊢
  split
  · rename_i h; simp [h] at hk
  · rename_i h
    simp only [h, if_false] at hk
    rw [run_abort raw.tables w k errAt fuel init (by simp [init])]
    simp [hk]

/-- … and if the unfailing run makes no `k`-th invocation, nothing changes. -/
theorem C18_no_abort (w : List Nat) (k fuel : Nat) (errAt : Option Nat)
    (hk : ¬ k < (parse raw.tables w none errAt fuel).1.length) :
    parse raw.tables w (some k) errAt fuel = parse raw.tables w none errAt fuel := by
  unfold parse at hk ⊢
  split
  · rfl
  · rename_i h
    simp only [h, if_false] at hk
    rw [run_abort raw.tables w k errAt fuel init (by simp [init])]
    simp [hk]

/-- Non-vacuity: `grammar x ; x = "s" ;` (token kinds 13 17 1 17 0 19 1) is accepted. -/
example : (parse raw.tables [13, 17, 1, 17, 0, 19, 1] none none 200).2 = .accept := by decide +kernel

end Emerge.Props.C18
