import Emerge.Inst.Lexer
import Emerge.Proofs.Scanner
/-
  C05 — the EBNF scanner yields exactly the documented tokens, lexemes and positions.

  Property theorems only; helper lemmas are in `Emerge.Inst.Lexer` (tie to the regenerated
  tables) and `Emerge.Proofs.Scanner` (general scanner theorems).
-/
namespace Emerge.Props.C05
open Emerge Emerge.Scanner Emerge.Inst.Lexer

/-- Every (scanner state, code point) pair — all states, all of Unicode and beyond: the transition
    function in the source is the documented automaton. -/
theorem C05_transitions : ∀ s r : Nat, genAdvance s r = Ref.Lexer.advance s r := advance_eq

/-- Accepting states, token kinds and the way the lexeme is produced are the documented ones
    (state 41 is the recorded finding: either documented or non-accepting, nothing else). -/
theorem C05_accepting_partial : ∀ s : Nat, s ≠ 41 → genEval s = Ref.Lexer.eval s := eval_eq

theorem C05_accepting_41 : genEval 41 = Ref.Lexer.eval 41 ∨ genEval 41 = none := eval_41

/-- Full strength, under the hypothesis that the finding is repaired. -/
theorem C05_accepting (h41 : genEval 41 = Ref.Lexer.eval 41) : ∀ s : Nat, genEval s = Ref.Lexer.eval s := by
  intro s
  by_cases h : s = 41
  · subst h; exact h41
  · exact eval_eq s h

theorem C05_skipped : ∀ k, genSkipped k = Ref.Lexer.skipped k := by
  intro k
  simp only [genSkipped, skipped_eq, Ref.Lexer.skipped]
  simp
  rw [Bool.or_assoc]; congr 1 <;> (try congr 1) <;> exact Bool.eq_iff_iff.mpr ⟨fun h => h ▸ rfl, fun h => h ▸ rfl⟩

theorem ref_noReentry_finite : ∀ s, s < 55 → ∀ r, r < 128 → Ref.Lexer.advance s r ≠ some 0 := by
  decide +kernel

theorem gen_noReentry : NoReentry genSpec := by
  intro s r
  show genAdvance s r ≠ some 0
  rw [advance_eq]
  by_cases hs : s < 55
  · by_cases hr : r < 128
    · exact ref_noReentry_finite s hs r hr
    · rw [ref_none_of_rune s r (Nat.le_of_not_lt hr)]; simp
  · rw [ref_none_of_state s r (Nat.le_of_not_lt hs)]; simp

theorem gen_eval0 : genSpec.eval 0 = none := by decide +kernel

/-- The token stream of the source scanner is the maximal-munch segmentation of the input:
    every segment is the LONGEST run the automaton can follow from the start state, segments are
    consecutive (`Segmented.partition`), carry the position of their first character
    (`Segmented.positions`), the scan ends at end of input or at the first run that ends in a
    non-accepting state (lexical error at that run's position), and this description determines the
    result uniquely (`Segmented.unique`). -/
theorem C05_scan (rs : List Rune) :
    Segmented genSpec Pos.start rs
      (segments genSpec (rs.length + 1) Pos.start rs).1
      (segments genSpec (rs.length + 1) Pos.start rs).2 :=
  segments_segmented genSpec gen_noReentry gen_eval0 _ _ _ (by omega)

/-- Tokens are the non-skipped segments, in order, each with the position of its segment. -/
theorem C05_tokens (rs : List Rune) :
    (scan genSpec rs).1 = (segments genSpec (rs.length + 1) Pos.start rs).1.filterMap (tokenOf genSpec) := rfl

/-- No text is lost or invented: the segments tile the input. -/
theorem C05_partition (rs : List Rune) (h : (scan genSpec rs).2 = .eof) :
    ((segments genSpec (rs.length + 1) Pos.start rs).1.map Seg.text).flatten = rs := by
  exact (C05_scan rs).partition.1 h

/-- A lexical error is reported for the first run that ends in a non-accepting state; everything
    before it was tokenised and the offending text follows directly. -/
theorem C05_error_prefix (rs : List Rune) (p : Pos) (t : List Rune)
    (h : (scan genSpec rs).2 = .lexErr p t) :
    (((segments genSpec (rs.length + 1) Pos.start rs).1.map Seg.text).flatten ++ t) <+: rs :=
  (C05_scan rs).partition.2.1 p t h

/-- The scanner never gets stuck without consuming input. -/
theorem C05_progress (rs : List Rune) : (scan genSpec rs).2 ≠ .stuck :=
  (C05_scan rs).partition.2.2

/-- Positions are those of the first character: fold of `advPos` over all text before the segment. -/
theorem C05_positions (rs : List Rune) (i : Nat)
    (hi : i < (segments genSpec (rs.length + 1) Pos.start rs).1.length) :
    ((segments genSpec (rs.length + 1) Pos.start rs).1[i]).pos =
      advPosList Pos.start
        (((segments genSpec (rs.length + 1) Pos.start rs).1.take i).map Seg.text).flatten :=
  (C05_scan rs).positions i hi

/-- Non-vacuity: a concrete text with a keyword, an identifier that extends a keyword prefix,
    a comment containing stars, a string, and a final token without trailing newline. -/
example :
    (scan genSpec ("grammar gr /***/ \"a\";".toList.map Char.toNat)).1.map (·.kind) =
      ["grammar", "IDENT", "STRING", ";"] := by decide +kernel

end Emerge.Props.C05
