import Emerge.LALR
import Emerge.Proofs.LR
import Emerge.Proofs.Dominant
/-
  C06 — the LALR(1) table for a user grammar parses exactly its language, per the directives.

  Proved (for every table and grammar): soundness of the shift-reduce driver for any table that
  passes the decidable check `WF` — whatever is accepted has a rightmost derivation, the reductions
  being that derivation in reverse (`C06_sound`); and the precedence rule used to resolve conflicts
  (`C06_resolution_*`): the earlier level wins; within a level LEFT prefers the reduction, RIGHT the
  shift, NONE neither; a cell is resolved only in favour of an action that beats every other one.
  Per accepted grammar the check evaluates `WF` on the implementation's own table (so the soundness
  theorem applies to it) and compares it, entry for entry up to state renaming, with the reference
  LALR(1) construction `LALR.build`; sentences up to a length bound and operator expressions are
  compared with a CYK recogniser and with precedence climbing.
  Not proved: completeness of the LALR(1) construction (every sentence is accepted) and the tree
  shape under precedence in general — both classical, both explored only.
-/
namespace Emerge.Props.C06
open Emerge Emerge.LR

/-- **Soundness for every well-formed table**: if the table of a grammar passes `WF`, every
    accepted terminal string has a rightmost derivation from the start symbol, and the production
    callbacks are that derivation in reverse. -/
theorem C06_sound {R : RawTables} (h : R.WF = true) {w : List Nat} (hw : ∀ a ∈ w, a ≠ R.eof)
    {fuel : Nat} {ev : List Event} (hacc : parse R.tables w none none fuel = (ev, .accept)) :
    RDerivation R.prods (prodsOf ev.reverse) [.nt R.start] (w.map Sym.t) :=
  (sound h hw hacc).1

variable (g : LALR.G)

/-- **Order first**: an action whose handle is in an earlier level beats one in a later level. -/
theorem C06_resolution_order (a : Nat) (x y : Nat × Nat) (i j : Nat) (ax ay : Assoc)
    (hx : LALR.levelOf g (LALR.handleOf g a x.1 x.2) = some (i, ax))
    (hy : LALR.levelOf g (LALR.handleOf g a y.1 y.2) = some (j, ay)) (hij : i < j) :
    LALR.beats g a x y = some true := by
  simp [LALR.beats, hx, hy, hij]

/-- **Then associativity**: in one level, LEFT prefers the reduction over the shift … -/
theorem C06_resolution_left (a : Nat) (p s : Nat) (i : Nat)
    (hx : LALR.levelOf g (LALR.handleOf g a 1 p) = some (i, .left))
    (hy : LALR.levelOf g (LALR.handleOf g a 0 s) = some (i, .left)) :
    LALR.beats g a (1, p) (0, s) = some true ∧ LALR.beats g a (0, s) (1, p) = some false := by
  simp [LALR.beats, hx, hy]

/-- … RIGHT prefers the shift over the reduction … -/
theorem C06_resolution_right (a : Nat) (p s : Nat) (i : Nat)
    (hx : LALR.levelOf g (LALR.handleOf g a 1 p) = some (i, .right))
    (hy : LALR.levelOf g (LALR.handleOf g a 0 s) = some (i, .right)) :
    LALR.beats g a (0, s) (1, p) = some true ∧ LALR.beats g a (1, p) (0, s) = some false := by
  simp [LALR.beats, hx, hy]

/-- … and NONE resolves nothing. -/
theorem C06_resolution_none (a : Nat) (x y : Nat × Nat) (i : Nat)
    (hx : LALR.levelOf g (LALR.handleOf g a x.1 x.2) = some (i, .none))
    (hy : LALR.levelOf g (LALR.handleOf g a y.1 y.2) = some (i, .none)) :
    LALR.beats g a x y = none := by
  simp [LALR.beats, hx, hy]

/-- An action without a level (its handle is listed nowhere) never wins and never loses by precedence. -/
theorem C06_resolution_unlisted (a : Nat) (x y : Nat × Nat)
    (hx : LALR.levelOf g (LALR.handleOf g a x.1 x.2) = none) :
    LALR.beats g a x y = none ∧ LALR.beats g a y x = none := by
  constructor
  · simp [LALR.beats, hx]
  · simp only [LALR.beats, hx]
    cases LALR.levelOf g (LALR.handleOf g a y.1 y.2) <;> rfl

/-- **Never silently resolved**: a conflicting cell is resolved only in favour of an action of the
    cell that beats every other action of the cell. -/
theorem C06_resolution_sound (a : Nat) (acts : List (Nat × Nat)) (x : Nat × Nat)
    (h : LALR.resolveCell g a acts = some x) :
    x ∈ acts ∧ ∀ y ∈ acts, y = x ∨ LALR.beats g a x y = some true := by
  simp only [LALR.resolveCell] at h
  have hm := List.mem_of_find?_eq_some h
  have hp := List.find?_some h
  refine ⟨hm, fun y hy => ?_⟩
  simp only [List.all_eq_true] at hp
  have := hp y hy
  simp only [Bool.or_eq_true, beq_iff_eq] at this
  rcases this with h1 | h1
  · left; exact h1.symm
  · right; exact h1

/-- the associativity `levelOf` reports is the one of the level it reports -/
theorem levelOf_assoc (h : Handle) (i : Nat) (as : Assoc) (hl : LALR.levelOf g h = some (i, as)) :
    ∃ hs, g.levels[i]? = some (as, hs) := by
  obtain ⟨⟨⟨as', hs⟩, k⟩, hm, hf⟩ := List.exists_of_findSome?_eq_some hl
  have := List.mem_zipIdx_iff_getElem?.mp hm
  simp only at this hf
  split at hf
  · simp only [Option.some.injEq, Prod.mk.injEq] at hf
    obtain ⟨rfl, rfl⟩ := hf
    exact ⟨hs, this⟩
  · cases hf

/-- **"Takes precedence over" is asymmetric**: two actions never beat each other. -/
theorem C06_beats_asymm (a : Nat) (x y : Nat × Nat)
    (h1 : LALR.beats g a x y = some true) (h2 : LALR.beats g a y x = some true) : False := by
  simp only [LALR.beats] at h1 h2
  cases hx : LALR.levelOf g (LALR.handleOf g a x.1 x.2) with
  | none => simp [hx] at h1
  | some lx =>
    cases hy : LALR.levelOf g (LALR.handleOf g a y.1 y.2) with
    | none => simp [hx, hy] at h1
    | some ly =>
      obtain ⟨i, ax⟩ := lx
      obtain ⟨j, ay⟩ := ly
      simp only [hx, hy] at h1 h2
      by_cases hij : i < j
      · have : ¬ j < i := by omega
        simp [hij, this] at h2
      · by_cases hji : j < i
        · simp [hij, hji] at h1
        · have hijeq : i = j := by omega
          subst hijeq
          obtain ⟨hs1, e1⟩ := levelOf_assoc g _ i ax hx
          obtain ⟨hs2, e2⟩ := levelOf_assoc g _ i ay hy
          rw [e1] at e2
          simp only [Option.some.injEq, Prod.mk.injEq] at e2
          obtain ⟨rfl, _⟩ := e2
          simp only [Nat.lt_irrefl, if_false] at h1 h2
          cases ax <;> simp only at h1 h2
          · cases h1
          · split at h1
            · rename_i c; split at h2
              · rename_i c'; simp only [Bool.and_eq_true, beq_iff_eq] at c c'; omega
              · split at h2 <;> cases h2
            · split at h1 <;> cases h1
          · split at h1
            · rename_i c; split at h2
              · rename_i c'; simp only [Bool.and_eq_true, beq_iff_eq] at c c'; omega
              · split at h2 <;> cases h2
            · split at h1 <;> cases h1

/-- **The resolution of an entry does not depend on the order of its actions**: the same actions listed in any
    two orders are resolved to the same action, or in both orders to none (the rule emerge applies since c31491e;
    the dependency's own running-maximum search could fail for one order and succeed for another). -/
theorem C06_resolution_order_independent (a : Nat) {acts₁ acts₂ : List (Nat × Nat)} (h : acts₁.Perm acts₂) :
    LALR.resolveCell g a acts₁ = LALR.resolveCell g a acts₂ := by
  have := Dominant.dominant_perm (fun x y => LALR.beats g a x y == some true)
    (fun x y h1 h2 => C06_beats_asymm g a x y (by simpa using h1) (by simpa using h2)) h
  simp only [Dominant.dominant] at this
  simp only [LALR.resolveCell]
  exact this

/-- A cell with a single action is never a conflict. -/
theorem C06_single_action (a : Nat) (x : Nat × Nat) : LALR.resolveCell g a [x] = some x := by
  simp [LALR.resolveCell]

/-- Non-vacuity: `e = e "+" e | e "*" e | NUM` with `@left "+"` before `@left "*"`: in the conflict
    cells the reduction by `e → e + e` wins against shifting `+` and `*`. -/
def demoG : LALR.G := ⟨3, 2, [(0, [.nt 0, .t 1, .nt 0]), (0, [.nt 0, .t 0, .nt 0]), (0, [.t 2]), (1, [.nt 0]), (2, [.nt 1])],
  [(.left, [.term 1]), (.left, [.term 0])]⟩
example : (LALR.build demoG 100).isSome = true := by decide +kernel
example : LALR.beats demoG 0 (1, 0) (0, 5) = some true := by decide +kernel
/-- an entry with a shift and two reductions whose handles share a level (the case the dependency settled in four of
    six visiting orders only): terminals `+`(0) and `z`(1), `@left "+"` before `@left "z"`; the shift on `+` beats both
    reductions by `a = z` and `b = z`, which cannot be compared with each other - in every order the shift is chosen -/
def threeWay : LALR.G := ⟨2, 3, [(0, [.nt 1, .t 0]), (0, [.nt 2, .t 0]), (0, [.t 1, .t 0]), (1, [.t 1]), (2, [.t 1]), (3, [.nt 0])],
  [(.left, [.term 0]), (.left, [.term 1])]⟩
example : LALR.resolveCell threeWay 0 [(0, 7), (1, 3), (1, 4)] = some (0, 7) ∧
    LALR.resolveCell threeWay 0 [(1, 3), (1, 4), (0, 7)] = some (0, 7) ∧
    LALR.resolveCell threeWay 0 [(1, 3), (1, 4)] = none := by decide +kernel

end Emerge.Props.C06
