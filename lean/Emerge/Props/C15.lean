import Emerge.Gen.Unordered
import Emerge.Proofs.Dominant
/-
  C15 — same specification and options give byte-identical output and diagnostics.

  Tie to the source: every loop over a Go map or over a collection of the dependency in the
  packages the property is anchored in is re-extracted on every run (`Gen.Unordered.loops`) and must
  be exactly the list below, each with the reason why its iteration order cannot reach the output.
  A new such loop (or a removed sort) changes the generated list or the comparison run and breaks the tie.

  Proved: the principle every "collected, then sorted" site relies on — sorting erases the order in
  which the elements were collected (`C15_sort_perm`: for every permutation of the input the sorted
  result is the same list), and the fold that builds the per-terminal accepting-state lists from the
  sorted states is therefore independent of the map's iteration order (`C15_finals_order_independent`).
  The byte-identity of whole runs is observed (repeated in-process and fresh-process runs, each with
  its own map seed), not proved.
-/
namespace Emerge.Props.C15
open Emerge

/-- the classification of every unordered loop: (file, function, expression, kind) and why it is harmless -/
def classified : List ((String × String × String × String) × String) := [
  (("internal/ebnf/parser/spec/spec.go", "DFA", "stateMap", "map"), "a slice indexed by definition (ordered)"),
  (("internal/ebnf/parser/spec/spec.go", "DFA", "stateDefs", "map"), "keys are collected and sorted (sort.Quick by state number) before use"),
  (("internal/ebnf/parser/spec/spec.go", "dominantAction", "conflict.Actions.All()", "collection"), "the action that beats every other one of the entry is chosen; at most one does, so the order of collection is immaterial (C15_dominant_order_independent)"),
  (("internal/ebnf/parser/spec/symbol_table.go", "orderedTerminals", "t.terminals.table.All()", "collection"), "collected, then sorted by grammar.CmpTerminal"),
  (("internal/ebnf/parser/spec/symbol_table.go", "Definitions", "t.terminals.table.All()", "collection"), "collected, then sorted by a total order (kind, length, name)"),
  (("internal/ebnf/parser/spec/symbol_table.go", "Terminals", "t.terminals.table.All()", "collection"), "added to a set"),
  (("internal/ebnf/parser/spec/symbol_table.go", "NonTerminals", "t.nonTerminals.table.All()", "collection"), "added to a set"),
  (("internal/ebnf/parser/spec/symbol_table.go", "Productions", "t.productions.table.All()", "collection"), "added to a set"),
  (("internal/generate/golang/golang.go", "generateLexer", "groups.All()", "collection"), "red-black tree keyed by state: in-order iteration"),
  (("internal/generate/golang/golang.go", "generateLexer", "group.All()", "collection"), "red-black tree keyed by state: in-order iteration"),
  (("internal/generate/golang/golang.go", "groupDFAStates", "dfa.Transitions()", "collection"), "red-black trees keyed by state and symbol: in-order iteration"),
  (("internal/regex/parser/ast/ast.go", "Parse", "a.follows", "map"), "every follow list is sorted in place on its own: the order of the visits is immaterial"),
  (("internal/regex/parser/ast/ast.go", "ToDFA", "a.charToPos", "map"), "only the numbering of the states of the direct-route automaton depends on it; that automaton is minimised afterwards and is not used by the command-line tool (its language is C10's subject)")]

/-- **Tie**: the unordered loops in the source are exactly the classified ones. -/
theorem C15_loops_classified : Gen.Unordered.loops = classified.map (·.1) := rfl

/-! ### sorting erases the collection order -/

def ins (x : Nat) : List Nat → List Nat
  | [] => [x]
  | y :: l => if x ≤ y then x :: y :: l else y :: ins x l

def sort (l : List Nat) : List Nat := l.foldr ins []

def Sorted : List Nat → Prop
  | [] => True
  | [_] => True
  | x :: y :: l => x ≤ y ∧ Sorted (y :: l)

theorem sorted_tail {x : Nat} {l : List Nat} (h : Sorted (x :: l)) : Sorted l := by
  cases l with
  | nil => trivial
  | cons y l => exact h.2

theorem ins_sorted (x : Nat) (l : List Nat) (h : Sorted l) : Sorted (ins x l) := by
  induction l with
  | nil => trivial
  | cons y l ih =>
    simp only [ins]
    by_cases hxy : x ≤ y
    · simp only [hxy, if_true]; exact ⟨hxy, h⟩
    · simp only [hxy, if_false]
      have ih' := ih (sorted_tail h)
      cases l with
      | nil => simp only [ins]; exact ⟨by omega, trivial⟩
      | cons z l =>
        simp only [ins] at ih' ⊢
        by_cases hxz : x ≤ z
        · simp only [hxz, if_true] at ih' ⊢; exact ⟨by omega, ih'⟩
        · simp only [hxz, if_false] at ih' ⊢; exact ⟨h.1, ih'⟩

theorem sort_sorted (l : List Nat) : Sorted (sort l) := by
  induction l with
  | nil => trivial
  | cons x l ih => exact ins_sorted x _ ih

theorem ins_comm (x y : Nat) (l : List Nat) (h : Sorted l) : ins x (ins y l) = ins y (ins x l) := by
  induction l with
  | nil =>
    simp only [ins]
    by_cases h1 : x ≤ y <;> by_cases h2 : y ≤ x <;> simp [ins, h1, h2]
    · omega
    · omega
  | cons z l ih =>
    have ih' := ih (sorted_tail h)
    simp only [ins]
    by_cases hyz : y ≤ z <;> by_cases hxz : x ≤ z <;> simp only [hyz, hxz, if_true, if_false, ins]
    · by_cases h1 : x ≤ y <;> by_cases h2 : y ≤ x <;> simp [h1, h2, hxz, hyz]
      · omega
      · omega
    · have : ¬ x ≤ y := by omega
      simp [this, hyz, hxz]
    · have : ¬ y ≤ x := by omega
      simp [this, hyz, hxz]
    · simp [hyz, hxz, ih']

/-- **Sorting erases the order of collection**: any two lists that are permutations of each other
    (the same elements collected in two iteration orders) sort to the same list. -/
theorem C15_sort_perm {l₁ l₂ : List Nat} (h : l₁.Perm l₂) : sort l₁ = sort l₂ := by
  induction h with
  | nil => rfl
  | cons x _ ih => simp only [sort, List.foldr] at ih ⊢; rw [ih]
  | swap x y l => simp only [sort, List.foldr]; exact ins_comm y x _ (sort_sorted l)
  | trans _ _ ih1 ih2 => exact ih1.trans ih2

/-- `Spec.DFA`: the accepting states are collected from a Go map and sorted; each is then appended
    to the list of the terminal that wins there. Whatever order the map was iterated in, the
    per-terminal lists come out the same. -/
def assign (owner : Nat → Option String) (states : List Nat) : List (String × List Nat) :=
  (sort states).foldl (fun acc s =>
    match owner s with
    | none => acc
    | some t => if acc.any (·.1 == t) then acc.map (fun e => if e.1 == t then (e.1, e.2 ++ [s]) else e) else acc ++ [(t, [s])]) []

theorem C15_finals_order_independent (owner : Nat → Option String) {keys₁ keys₂ : List Nat} (h : keys₁.Perm keys₂) :
    assign owner keys₁ = assign owner keys₂ := by
  simp only [assign, C15_sort_perm h]

/-! ### the action that dominates a table entry does not depend on the order of collection -/

/-- **Order independence of conflict resolution** (the repair c31491e): if "takes precedence over" is asymmetric —
    as the precedence comparison is — then the entry's actions collected in any two orders yield the same choice
    (or, in both orders, none). -/
theorem C15_dominant_order_independent {α} [DecidableEq α] (beats : α → α → Bool)
    (hasym : ∀ x y, beats x y = true → beats y x = true → False)
    {l₁ l₂ : List α} (h : l₁.Perm l₂) : Dominant.dominant beats l₁ = Dominant.dominant beats l₂ :=
  Dominant.dominant_perm beats hasym h

/-- Non-vacuity -/
example : Dominant.dominant (fun x y : Nat => decide (x = 0 ∧ y ≠ 0)) [1, 2, 0] = some 0
    ∧ Dominant.dominant (fun x y : Nat => decide (x = 0 ∧ y ≠ 0)) [0, 1, 2] = some 0
    ∧ Dominant.dominant (fun x y : Nat => decide (x = 0 ∧ y ≠ 0)) [1, 2] = none := by decide
example : sort [5, 1, 4, 1] = [1, 1, 4, 5] := by decide
example : assign (fun s => if s % 2 = 0 then some "EVEN" else some "ODD") [3, 2, 1, 4] = [("ODD", [1, 3]), ("EVEN", [2, 4])] := by decide

end Emerge.Props.C15
