import Emerge.Inst.Tables
import Emerge.Inst.TablesLalr
/-
  C04 — the built-in EBNF parser's tables are the LALR(1) tables of the documented grammar.
-/
namespace Emerge.Props.C04
open Emerge Emerge.LR Emerge.Inst.Tables

/-- All three textual copies of the grammar and precedence list (the checked-in table file, the
    generator's own variables, the header template the generator prints) are the documented
    grammar (docs/5-definitions.md, transcribed in `Emerge.Ref.Ebnf`). -/
theorem C04_copies_agree :
    Gen.Tables.tableFile = Ref.Ebnf.grammar ∧ Gen.Tables.generatorVars = Ref.Ebnf.grammar ∧
    Gen.Tables.generatorTemplate = Ref.Ebnf.grammar :=
  ⟨tableFile_eq, generatorVars_eq, generatorTemplate_eq⟩

/-- The embedded ACTION/GOTO tables are, entry for entry and with no extra entries, the LALR(1)
    tables of the documented grammar under the published precedence list (up to the numbering of
    states). -/
theorem C04_tables_are_lalr : Inst.TablesLalr.lalrCheck = true := Inst.TablesLalr.tables_are_lalr

/-- Soundness: every token sequence the driver accepts with these tables has a (rightmost)
    derivation in the documented grammar. -/
theorem C04_sound {w : List Nat} (hw : ∀ a ∈ w, a ≠ raw.eof) {fuel : Nat} {ev : List Event}
    (hacc : parse raw.tables w none none fuel = (ev, .accept)) :
    ∃ ps, RDerivation Ref.Ebnf.prods ps [.nt Ref.Ebnf.nGrammar] (w.map Sym.t) := by
  have h := (sound raw_wf hw hacc).1
  have e1 : raw.prods = Ref.Ebnf.prods := by
    show Gen.Tables.tableFile.prods = _; rw [tableFile_eq]; rfl
  have e2 : raw.start = Ref.Ebnf.nGrammar := by
    show Gen.Tables.tableFile.start = _; rw [tableFile_eq]; rfl
  rw [e1, e2] at h
  exact ⟨_, h⟩

/-- NOT PROVED (stated for the record): completeness — every sentence of the documented grammar is
    accepted, with the parse the precedence list prescribes. Covered by the exploration against
    the independent recursive-descent recogniser in the check, not by a theorem. -/
def C04_complete_OPEN : Prop :=
  ∀ w ps, RDerivation Ref.Ebnf.prods ps [.nt Ref.Ebnf.nGrammar] (w.map Sym.t) →
    ∃ fuel ev, parse raw.tables w none none fuel = (ev, .accept)

end Emerge.Props.C04
