import Emerge.Lexgen
import Emerge.Inst.LexerTmpl
/-
  C08 — the emitted lexer encodes exactly the token automaton.

  Proved: regrouping the automaton's transitions by (from, to) — what `groupDFAStates` does — and
  reading the result as the nested `switch` the template emits loses nothing and adds nothing
  (`C08_switch`), for every deterministic transition list; and the accepting-state table read as a
  `switch` returns exactly the owner of each state when no state has two owners (`C08_finals`).
  That the emitted text is valid Go which type-checks with the standard library only, and that
  the printed character and string literals denote the intended values, is decided per emitted
  package by the Go front end (checks/c08.py) — there is no Go semantics in Lean here.
  The two table templates the rows are printed through are re-extracted from lexer.go.tmpl on every
  run and must read as modelled (`C08_template`): one `case <states>:` per group of accepting states
  returning that terminal with the pending lexeme, one `case <from>:` with one `case <symbols>: return
  <next>` per symbol group, `errorState` / the ERR token otherwise.
-/
namespace Emerge.Props.C08
open Emerge Emerge.Lexgen

theorem evalRows_cons (n : Nat) (rs : List Rune) (rest : List (Nat × List Rune)) (r : Rune) :
    evalRows ((n, rs) :: rest) r = if rs.contains r then some n else evalRows rest r := by
  simp only [evalRows, List.find?_cons]
  cases rs.contains r <;> simp

theorem evalRows_addRow_ne (rows : List (Nat × List Rune)) (n0 : Nat) (r0 r : Rune) (h : r ≠ r0) :
    evalRows (addRow rows n0 r0) r = evalRows rows r := by
  induction rows with
  | nil => simp [addRow, evalRows_cons, evalRows, h]
  | cons row rest ih =>
    obtain ⟨n, rs⟩ := row
    simp only [addRow]
    by_cases hn : n = n0
    · simp only [hn, if_true, evalRows_cons]
      have : (rs ++ [r0]).contains r = rs.contains r := by simp [h]
      rw [this]
    · simp only [hn, if_false, evalRows_cons, ih]

theorem evalRows_addRow_eq (rows : List (Nat × List Rune)) (n0 : Nat) (r0 : Rune) :
    evalRows (addRow rows n0 r0) r0 = some n0 ∨
    (evalRows (addRow rows n0 r0) r0 = evalRows rows r0 ∧ evalRows rows r0 ≠ none) := by
  induction rows with
  | nil => left; simp [addRow, evalRows_cons]
  | cons row rest ih =>
    obtain ⟨n, rs⟩ := row
    simp only [addRow]
    by_cases hn : n = n0
    · left; simp [hn, evalRows_cons]
    · simp only [hn, if_false, evalRows_cons]
      cases hc : rs.contains r0
      · simpa using ih
      · right; simp

theorem evalSwitch_cons (f : Nat) (rows : List (Nat × List Rune)) (rest : Groups) (s : Nat) (r : Rune) :
    evalSwitch ((f, rows) :: rest) s r = if f = s then evalRows rows r else evalSwitch rest s r := by
  simp only [evalSwitch, List.find?_cons]
  by_cases h : f = s
  · simp [h]
  · have : (f == s) = false := by simpa using h
    simp [this, h]

theorem evalSwitch_addTrans_ne (g : Groups) (s0 : Nat) (r0 : Rune) (n0 : Nat) (s : Nat) (r : Rune)
    (h : ¬ (s = s0 ∧ r = r0)) : evalSwitch (addTrans g s0 r0 n0) s r = evalSwitch g s r := by
  induction g with
  | nil =>
    simp only [addTrans, evalSwitch_cons]
    by_cases hs : s0 = s
    · have hr : r ≠ r0 := fun e => h ⟨hs.symm, e⟩
      simp [hs, evalRows, evalSwitch, hr]
    · simp [hs, evalSwitch]
  | cons e rest ih =>
    obtain ⟨f, rows⟩ := e
    simp only [addTrans]
    by_cases hf : f = s0
    · simp only [hf, if_true, evalSwitch_cons]
      by_cases hs : s0 = s
      · have hr : r ≠ r0 := fun e => h ⟨hs.symm, e⟩
        simp [hs, evalRows_addRow_ne rows n0 r0 r hr]
      · simp [hs]
    · simp only [hf, if_false, evalSwitch_cons, ih]

theorem evalSwitch_addTrans_eq (g : Groups) (s0 : Nat) (r0 : Rune) (n0 : Nat) :
    evalSwitch (addTrans g s0 r0 n0) s0 r0 = some n0 ∨
    (evalSwitch (addTrans g s0 r0 n0) s0 r0 = evalSwitch g s0 r0 ∧ evalSwitch g s0 r0 ≠ none) := by
  induction g with
  | nil => left; simp [addTrans, evalSwitch_cons, evalRows_cons]
  | cons e rest ih =>
    obtain ⟨f, rows⟩ := e
    simp only [addTrans]
    by_cases hf : f = s0
    · simp only [hf, if_true, evalSwitch_cons]
      exact evalRows_addRow_eq rows n0 r0
    · simp only [hf, if_false, evalSwitch_cons]
      exact ih

/-- what the grouped switch returns is always a transition of the list, and it returns something
    exactly when the list has a transition -/
def Inv (g : Groups) (t : Trans) : Prop :=
  ∀ s r, (∀ n, evalSwitch g s r = some n → (s, r, n) ∈ t) ∧
         (evalSwitch g s r = none → ∀ n, (s, r, n) ∉ t)

theorem inv_fold (t : Trans) : ∀ (g : Groups) (done : Trans), Inv g done →
    Inv (t.foldl (fun g e => addTrans g e.1 e.2.1 e.2.2) g) (done ++ t) := by
  induction t with
  | nil => intro g done h; simpa using h
  | cons e rest ih =>
    intro g done h
    obtain ⟨s0, r0, n0⟩ := e
    simp only [List.foldl]
    have h' : Inv (addTrans g s0 r0 n0) (done ++ [(s0, r0, n0)]) := by
      intro s r
      by_cases hsr : s = s0 ∧ r = r0
      · obtain ⟨rfl, rfl⟩ := hsr
        rcases evalSwitch_addTrans_eq g s r n0 with he | ⟨he, hne⟩
        · refine ⟨fun n hn => ?_, fun hn => ?_⟩
          · rw [he] at hn; injection hn with hn; subst hn; simp
          · rw [he] at hn; cases hn
        · refine ⟨fun n hn => ?_, fun hn => ?_⟩
          · rw [he] at hn; have := (h s r).1 n hn; simp [this]
          · rw [he] at hn; exact absurd hn hne
      · have he := evalSwitch_addTrans_ne g s0 r0 n0 s r hsr
        refine ⟨fun n hn => ?_, fun hn n hm => ?_⟩
        · rw [he] at hn; have := (h s r).1 n hn; simp [this]
        · rw [he] at hn
          simp at hm
          rcases hm with hm | ⟨h1, h2, _⟩
          · exact (h s r).2 hn n hm
          · exact hsr ⟨h1, h2⟩
    have := ih (addTrans g s0 r0 n0) (done ++ [(s0, r0, n0)]) h'
    simpa using this

theorem next_some_mem {t : Trans} {s r n} (h : next t s r = some n) : (s, r, n) ∈ t := by
  simp only [next, Option.map_eq_some_iff] at h
  obtain ⟨e, he, hn⟩ := h
  have hm := List.mem_of_find?_eq_some he
  have hp := List.find?_some he
  simp at hp
  obtain ⟨a, b, c⟩ := e
  simp at hp hn
  obtain ⟨rfl, rfl⟩ := hp
  subst hn
  exact hm

theorem next_none_not_mem {t : Trans} {s r} (h : next t s r = none) : ∀ n, (s, r, n) ∉ t := by
  intro n hm
  simp only [next, Option.map_eq_none_iff] at h
  have := List.find?_eq_none.mp h (s, r, n) hm
  simp at this

/-- **The emitted transition function is the automaton's**: for every deterministic transition
    list, every state and every character (whether or not it occurs in the automaton),
    the nested switch built from the regrouped transitions returns exactly the automaton's next
    state — the same next state for every pair, nothing for any other. -/
theorem C08_switch (t : Trans) (hdet : Deterministic t) (s : Nat) (r : Rune) :
    evalSwitch (group t) s r = next t s r := by
  have hinv : Inv (group t) t := by
    have := inv_fold t [] [] (by intro s r; simp [evalSwitch])
    simpa [group] using this
  cases hn : next t s r with
  | none =>
    cases he : evalSwitch (group t) s r with
    | none => rfl
    | some n => exact absurd ((hinv s r).1 n he) (next_none_not_mem hn n)
  | some n =>
    cases he : evalSwitch (group t) s r with
    | none => exact absurd (next_some_mem hn) ((hinv s r).2 he n)
    | some m =>
      have h1 := (hinv s r).1 m he
      have h2 := next_some_mem hn
      rw [hdet s r m n h1 h2]

/-- **The emitted accepting-state table is the terminal map**: if no state is listed for two
    terminals, the `switch` over the per-terminal state lists returns for a state exactly the
    terminal that lists it, and nothing for any other state. -/
theorem C08_finals (fs : List (String × List Nat)) (hdisj : ∀ a b s, a ∈ fs → b ∈ fs → s ∈ a.2 → s ∈ b.2 → a = b)
    (s : Nat) (term : String) :
    evalFinals fs s = some term ↔ ∃ states, (term, states) ∈ fs ∧ s ∈ states := by
  simp only [evalFinals, Option.map_eq_some_iff]
  constructor
  · rintro ⟨f, hf, rfl⟩
    exact ⟨f.2, List.mem_of_find?_eq_some hf, by simpa using List.find?_some hf⟩
  · rintro ⟨states, hm, hs⟩
    cases hfind : fs.find? (fun f => f.2.contains s) with
    | none => exact absurd hs (by simpa using List.find?_eq_none.mp hfind (term, states) hm)
    | some f =>
      have h1 := List.mem_of_find?_eq_some hfind
      have h2 : s ∈ f.2 := by simpa using List.find?_some hfind
      have := hdisj f (term, states) s h1 hm h2 hs
      exact ⟨f, rfl, by rw [this]⟩

theorem C08_finals_none (fs : List (String × List Nat)) (s : Nat) :
    evalFinals fs s = none ↔ ∀ f ∈ fs, s ∉ f.2 := by
  simp [evalFinals, List.find?_eq_none]

/-- Non-vacuity: a keyword/identifier automaton fragment. -/
example : evalSwitch (group [(0, 105, 1), (0, 97, 2), (1, 102, 3), (0, 98, 2)]) 0 98 = some 2 := by decide
example : evalSwitch (group [(0, 105, 1), (0, 97, 2), (1, 102, 3), (0, 98, 2)]) 1 98 = none := by decide
/-- decidable form of determinism -/
def detB (t : Trans) : Bool :=
  t.all fun a => t.all fun b => !(a.1 == b.1 && a.2.1 == b.2.1) || a.2.2 == b.2.2

theorem detB_sound (t : Trans) (h : detB t = true) : Deterministic t := by
  intro s r n m h1 h2
  simp only [detB, List.all_eq_true] at h
  have := h _ h1 _ h2
  simpa using this

example : Deterministic [(0, 105, 1), (0, 97, 2), (1, 102, 3), (0, 98, 2)] := detB_sound _ (by decide)

/-- The table templates of the emitted lexer read as `evalRows` / `evalSwitch` assume. -/
theorem C08_template :
    Gen.LexerTmpl.tmpl_evalDFA = Ref.LexerTmpl.tmpl_evalDFA ∧ Gen.LexerTmpl.tmpl_advanceDFA = Ref.LexerTmpl.tmpl_advanceDFA ∧
    Gen.LexerTmpl.const_errorState = "-1" :=
  ⟨Inst.LexerTmpl.tmpl_evalDFA_eq, Inst.LexerTmpl.tmpl_advanceDFA_eq, rfl⟩

end Emerge.Props.C08
