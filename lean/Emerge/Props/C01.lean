import Emerge.Proofs.GrammarLang
import Emerge.Proofs.EbnfTable
import Emerge.Proofs.EbnfEval
/-
  C01 — EBNF-to-grammar translation preserves the language of every rule.

  PARTIAL.  Proved here: the `Strings` algebra of the translation (items (i) of DESIGN §5/C01):
  juxtaposition is the concatenation of languages, `|` the union, a trailing `|` adds the empty
  string — for every interpretation of the non-terminals; memo keys behave as sets; the four
  operator actions add exactly the documented production shapes (`C01_closure`), and in the
  least fixed point of the final production list a non-terminal with such a shape denotes `⟦s⟧`,
  `⟦s⟧ ∪ ε`, `⟦s⟧*`, `⟦s⟧⁺` (`C01_operator`; `⟦s⟧` read in the same fixed point, so nesting, sharing
  and recursion through the operand are covered; `C01_fixed_point`, `C01_least` say what "the
  language of a rule" is).  Across a whole specification: the invariant `TableOk` (every memoised
  name has exactly its operator's productions; names are not shared between operator classes) holds
  for the empty table, is preserved by every operator action, by adding a rule whose name is not a
  synthesised one and by everything that leaves productions and memo alone (`C01_table_*`), so in
  the final table every operator occurrence denotes what the documentation says
  (`C01_table_operator`).  Hypotheses, stated in the theorems: a newly synthesised name is unused
  (the code tries |NT|+1 numbered candidates; injectivity of decimal printing is not proved), and a
  rule's name is not a synthesised name - exactly what finding F2b violates in the code as it is.
  The right-hand sides: `Rhs` is the tree of a right-hand side, `denote` its documented meaning,
  `evalRhs` the semantic actions 23-31 over it (children first, left to right, the table threaded
  through; `C01_actions`: each case IS the corresponding case of `Ebnf.action`, by `rfl`).
  `C01_eval`: the alternatives the evaluation returns denote, in the least fixed point of any later
  well-formed table extending the one reached - the final table of the specification - exactly the
  meaning of the tree; `C01_rule_lang`: the language of a rule's name is the union of the meanings
  of its right-hand sides.  What remains outside the theorems: that the LR driver calls the
  actions in the order of the tree (C18's theorems, generic), the hypotheses above (fresh names, no
  clash with synthesised names - the place of findings F14/F2b), and the tie of `Ebnf.action` to
  the Go code (correspondence + bounded language comparison per generated specification).
-/
namespace Emerge.Props.C01
open Emerge Emerge.Ebnf

/-- `rhs → rhs "|" rhs` (action 28): alternation is the union of the languages. -/
theorem C01_alt (env : String → Lang) (s1 s2 : Strings) (w : List String) :
    langStrings env (s1 ++ s2) w ↔ Lang.union (langStrings env s1) (langStrings env s2) w := by
  simp only [langStrings, Lang.union, List.mem_append]
  constructor
  · rintro ⟨α, h | h, hw⟩
    · left; exact ⟨α, h, hw⟩
    · right; exact ⟨α, h, hw⟩
  · rintro (⟨α, h, hw⟩ | ⟨α, h, hw⟩)
    · exact ⟨α, Or.inl h, hw⟩
    · exact ⟨α, Or.inr h, hw⟩

/-- `rhs → rhs "|"` (action 29): a trailing `|` adds the empty string and nothing else. -/
theorem C01_alt_empty (env : String → Lang) (s : Strings) (w : List String) :
    langStrings env (s ++ [[]]) w ↔ Lang.union (langStrings env s) Lang.eps w := by
  rw [C01_alt]
  simp only [Lang.union, langStrings, List.mem_singleton]
  constructor
  · rintro (h | ⟨α, rfl, hw⟩)
    · left; exact h
    · right; exact hw
  · rintro (h | h)
    · left; exact h
    · right; exact ⟨[], rfl, h⟩

/-- `rhs → rhs rhs` (action 23): juxtaposition — the cross product of the alternatives — is the
    concatenation of the languages. -/
theorem C01_juxtapose (env : String → Lang) (s1 s2 : Strings) (w : List String) :
    langStrings env (s1.flatMap fun α => s2.map fun β => α ++ β) w ↔
      Lang.cat (langStrings env s1) (langStrings env s2) w := by
  simp only [langStrings, Lang.cat, List.mem_flatMap, List.mem_map]
  constructor
  · rintro ⟨γ, ⟨α, hα, β, hβ, rfl⟩, hw⟩
    obtain ⟨u, v, rfl, hu, hv⟩ := (langString_append env α β w).mp hw
    exact ⟨u, v, rfl, ⟨α, hα, hu⟩, ⟨β, hβ, hv⟩⟩
  · rintro ⟨u, v, rfl, ⟨α, hα, hu⟩, ⟨β, hβ, hv⟩⟩
    exact ⟨α ++ β, ⟨α, hα, β, hβ, rfl⟩, (langString_append env α β _).mpr ⟨u, v, rfl, hu, hv⟩⟩

/-- single symbols (actions 30, 31) -/
theorem C01_atoms (env : String → Lang) (a A : String) (w : List String) :
    (langStrings env [[.t a]] w ↔ w = [a]) ∧ (langStrings env [[.nt A]] w ↔ env A w) := by
  simp only [langStrings, List.mem_singleton, exists_eq_left, langString, Lang.cat, Lang.eps]
  constructor
  · constructor
    · rintro ⟨u, v, rfl, rfl, rfl⟩; rfl
    · intro h; exact ⟨[a], [], by simp [h], rfl, rfl⟩
  · constructor
    · rintro ⟨u, v, rfl, hu, rfl⟩; simpa using hu
    · intro h; exact ⟨w, [], by simp, h, rfl⟩

/-- Memo keys: set-equal alternative lists denote the same language (so sharing one synthesised
    non-terminal between them is sound). -/
theorem C01_key_sound (env : String → Lang) (s1 s2 : Strings) (h : eqStrings s1 s2 = true) (w : List String) :
    langStrings env s1 w ↔ langStrings env s2 w := by
  simp only [eqStrings, Bool.and_eq_true, List.all_eq_true, stringsContains, List.any_eq_true, beq_iff_eq] at h
  simp only [langStrings]
  constructor
  · rintro ⟨α, hα, hw⟩
    obtain ⟨β, hβ, rfl⟩ := h.1 α hα
    exact ⟨β, hβ, hw⟩
  · rintro ⟨α, hα, hw⟩
    obtain ⟨β, hβ, rfl⟩ := h.2 α hα
    exact ⟨β, hβ, hw⟩

theorem keyEq_eqStrings (s1 s2 : Strings) (h : keyEq s1 s2 = true) : eqStrings s1 s2 = true := by
  simp only [keyEq, Bool.and_eq_true] at h
  exact h.2

/-! ### the language of a rule, and what the operators denote in it -/

/-- **What "the language of a rule" is**: a word of `A` is a word of one of `A`'s bodies, read in the same
    languages … -/
theorem C01_fixed_point (P : List GProd) (A : String) (w : List String) :
    L P A w ↔ langStrings (L P) (alts P A) w := L_fix P A w

/-- … and it is the least such interpretation. -/
theorem C01_least (P : List GProd) (env : String → Lang)
    (hclosed : ∀ A w, langStrings env (alts P A) w → env A w) : ∀ A w, L P A w → env A w := L_least P env hclosed

/-- `( s )`: `N → α` for the alternatives `α` of `s` -/
theorem C01_group (P : List GProd) (N : String) (s : Strings)
    (hshape : ∀ β, ⟨N, β⟩ ∈ P ↔ β ∈ s) (w : List String) :
    L P N w ↔ langStrings (L P) s w := by
  rw [L_fix]
  constructor <;> rintro ⟨α, hα, hw⟩
  · exact ⟨α, (hshape α).mp (mem_alts.mp hα), hw⟩
  · exact ⟨α, mem_alts.mpr ((hshape α).mpr hα), hw⟩

/-- `[ s ]`: `N → α | ε` -/
theorem C01_opt (P : List GProd) (N : String) (s : Strings)
    (hshape : ∀ β, ⟨N, β⟩ ∈ P ↔ β ∈ s ∨ β = []) (w : List String) :
    L P N w ↔ langStrings (L P) s w ∨ w = [] := by
  rw [L_fix]
  constructor
  · rintro ⟨α, hα, hw⟩
    rcases (hshape α).mp (mem_alts.mp hα) with h | rfl
    · exact Or.inl ⟨α, h, hw⟩
    · exact Or.inr hw
  · rintro (⟨α, hα, hw⟩ | rfl)
    · exact ⟨α, mem_alts.mpr ((hshape α).mpr (Or.inl hα)), hw⟩
    · exact ⟨[], mem_alts.mpr ((hshape []).mpr (Or.inr rfl)), rfl⟩

/-- `{ s }`: `N → N α | ε` denotes the Kleene star of `⟦s⟧` -/
theorem C01_star (P : List GProd) (N : String) (s : Strings)
    (hshape : ∀ β, ⟨N, β⟩ ∈ P ↔ (∃ α ∈ s, β = prepend N α) ∨ β = []) (w : List String) :
    L P N w ↔ Star (langStrings (L P) s) w := by
  constructor
  · rintro ⟨n, hn⟩
    induction n generalizing w with
    | zero => exact absurd hn (by simp [genN])
    | succ n ih =>
      obtain ⟨β, hβ, hw⟩ := hn
      rcases (hshape β).mp (mem_alts.mp hβ) with ⟨α, hα, rfl⟩ | rfl
      · obtain ⟨u, v, rfl, hu, hv⟩ := hw
        exact (ih u hu).snoc ⟨α, hα, langString_mono (genN_L P n) α v hv⟩
      · have : w = [] := hw
        subst this; exact Star.nil
  · intro h
    -- read right to left: a star word is a shorter star word followed by one more element, or empty
    have key : ∀ w, Star (langStrings (L P) s) w → ∀ v, langStrings (L P) s v → L P N w → L P N (w ++ v) := by
      intro w _ v ⟨α, hα, hv⟩ hw
      exact (L_fix P N _).mpr ⟨prepend N α, mem_alts.mpr ((hshape _).mpr (Or.inl ⟨α, hα, rfl⟩)), w, v, rfl, hw, hv⟩
    have base : L P N [] := (L_fix P N _).mpr ⟨[], mem_alts.mpr ((hshape []).mpr (Or.inr rfl)), rfl⟩
    -- left-to-right star as an accumulation from the left
    have acc : ∀ w, Star (langStrings (L P) s) w → ∀ p, L P N p → L P N (p ++ w) := by
      intro w hw
      induction hw with
      | nil => intro p hp; simpa using hp
      | cons a b ha _ ih =>
        intro p hp
        rw [← List.append_assoc]
        obtain ⟨α, hα, hv⟩ := ha
        exact ih (p ++ a) ((L_fix P N _).mpr
          ⟨prepend N α, mem_alts.mpr ((hshape _).mpr (Or.inl ⟨α, hα, rfl⟩)), p, a, rfl, hp, hv⟩)
    simpa using acc w h [] base

/-- `{{ s }}`: `N → N α | α` denotes one or more words of `⟦s⟧` -/
theorem C01_plus (P : List GProd) (N : String) (s : Strings)
    (hshape : ∀ β, ⟨N, β⟩ ∈ P ↔ (∃ α ∈ s, β = prepend N α) ∨ β ∈ s) (w : List String) :
    L P N w ↔ Plus (langStrings (L P) s) w := by
  constructor
  · rintro ⟨n, hn⟩
    induction n generalizing w with
    | zero => exact absurd hn (by simp [genN])
    | succ n ih =>
      obtain ⟨β, hβ, hw⟩ := hn
      rcases (hshape β).mp (mem_alts.mp hβ) with ⟨α, hα, rfl⟩ | hβs
      · obtain ⟨u, v, rfl, hu, hv⟩ := hw
        exact (ih u hu).snoc ⟨α, hα, langString_mono (genN_L P n) α v hv⟩
      · exact ⟨w, [], by simp, ⟨β, hβs, langString_mono (genN_L P n) β w hw⟩, Star.nil⟩
  · rintro ⟨u, v, rfl, ⟨α, hα, hu⟩, hv⟩
    have first : L P N u := (L_fix P N _).mpr ⟨α, mem_alts.mpr ((hshape α).mpr (Or.inr hα)), hu⟩
    have acc : ∀ w, Star (langStrings (L P) s) w → ∀ p, L P N p → L P N (p ++ w) := by
      intro w hw
      induction hw with
      | nil => intro p hp; simpa using hp
      | cons a b ha _ ih =>
        intro p hp
        rw [← List.append_assoc]
        obtain ⟨α', hα', hv'⟩ := ha
        exact ih (p ++ a) ((L_fix P N _).mpr
          ⟨prepend N α', mem_alts.mpr ((hshape _).mpr (Or.inl ⟨α', hα', rfl⟩)), p, a, rfl, hp, hv'⟩)
    exact acc v hv u first


/-- **The operators mean what the documentation says.** In any final production list `P` in which the non-terminal
    `n` has exactly the bodies of the shape of kind `k` for the operand `s`, `n` denotes `⟦s⟧`, `⟦s⟧ ∪ ε`, `⟦s⟧*`,
    `⟦s⟧⁺` — `⟦s⟧` read in the least fixed point of the whole grammar. -/
theorem C01_operator (P : List GProd) (k : Kind) (n : String) (s : Strings)
    (hshape : ∀ β, ⟨n, β⟩ ∈ P ↔ ShapeMem k n s β) (w : List String) :
    L P n w ↔ shapeLang k (langStrings (L P) s) w := by
  cases k with
  | group => exact C01_group P n s hshape w
  | opt => exact C01_opt P n s hshape w
  | star => exact C01_star P n s hshape w
  | plus => exact C01_plus P n s hshape w

/-- **What the operator actions add** (`{ }`, `{{ }}`, `[ ]`, `( )`; model of GetStar/GetPlus/GetOpt/GetGroup + AddProduction):
    exactly the documented production shapes under the returned non-terminal; nothing else is added, nothing removed. -/
theorem C01_closure (cfg : Cfg) (names : List (String × String)) (t : SymTab) (s : Strings) (k : Kind) (q : GProd) :
    q ∈ (closureAction cfg names t s k).1.prods ↔
      q ∈ t.prods ∨ (q.head = (closureAction cfg names t s k).2 ∧ ShapeMem k (closureAction cfg names t s k).2 s q.body) :=
  closureAction_prods cfg names t s k q

/-! ### across a whole specification: the invariant of the symbol table -/

/-- the empty table is well-formed … -/
theorem C01_table_empty : TableOk {} := TableOk.empty

/-- … every operator action keeps it so (a newly synthesised name being unused) … -/
theorem C01_table_closure {t : SymTab} (h : TableOk t) (cfg : Cfg) (names : List (String × String)) (s : Strings) (k : Kind)
    (hfresh : (mapStringToNonTerminal cfg names t s k.suffix).2 ∉ t.nonTerminals) :
    TableOk (closureAction cfg names t s k).1 := h.closure cfg names s k hfresh

/-- … adding a production of a rule whose name is registered and is not a synthesised name keeps it so … -/
theorem C01_table_rule {t : SymTab} (h : TableOk t) (A : String) (α : GString) (hA : A ∈ t.nonTerminals)
    (hclash : ∀ s e, (s, e) ∈ t.memo → ∀ k, e.get k ≠ A) : TableOk (addProduction t ⟨A, α⟩) := h.addRule A α hA hclash

/-- … and so does every action that leaves productions and memo alone and only registers names. -/
theorem C01_table_frame {t t' : SymTab} (h : TableOk t) (hp : t'.prods = t.prods) (hm : t'.memo = t.memo)
    (hn : ∀ x, x ∈ t.nonTerminals → x ∈ t'.nonTerminals) : TableOk t' := h.frame hp hm hn

/-- **In a well-formed table every operator occurrence means what the documentation says**: the name memoised for an
    operator of kind `k` over the operand `s` denotes `⟦s⟧`, `⟦s⟧ ∪ ε`, `⟦s⟧*`, `⟦s⟧⁺` in the least fixed point of the
    table's productions - whatever else the specification contains, before or after. -/
theorem C01_table_operator {t : SymTab} (h : TableOk t) {s : Strings} {e : MemoEntry} (hm : (s, e) ∈ t.memo) (k : Kind)
    (hne : e.get k ≠ "") (w : List String) :
    L t.prods (e.get k) w ↔ shapeLang k (langStrings (L t.prods) s) w :=
  C01_operator t.prods k (e.get k) s (h.shape s e hm k hne).2 w

/-! ### right-hand sides: the actions compute the EBNF meaning -/

/-- **The semantic actions compute the EBNF meaning of a right-hand side** (see `evalRhs_sound`). -/
theorem C01_eval (cfg : Cfg) (names : List (String × String)) (r : Rhs) (t : SymTab)
    (ht : TableOk t) (hf : FreshNames cfg names t r) :
    TableOk (evalRhs cfg names t r).1 ∧ Ext t (evalRhs cfg names t r).1 ∧
    ∀ t'', TableOk t'' → Ext (evalRhs cfg names t r).1 t'' →
      ∀ w, langStrings (L t''.prods) (evalRhs cfg names t r).2 w ↔ denote (L t''.prods) r w :=
  evalRhs_sound cfg names r t ht hf

/-- **The language of a rule's name is the union of the meanings of its right-hand sides.** -/
theorem C01_rule_lang (P : List GProd) (A : String) (rules : List (Rhs × Strings))
    (hmean : ∀ rs, rs ∈ rules → ∀ w, langStrings (L P) rs.2 w ↔ denote (L P) rs.1 w)
    (hprods : ∀ α, ⟨A, α⟩ ∈ P ↔ ∃ rs, rs ∈ rules ∧ α ∈ rs.2) (w : List String) :
    L P A w ↔ ∃ rs, rs ∈ rules ∧ denote (L P) rs.1 w := rule_lang P A rules hmean hprods w

/-- adding a rule's productions keeps the table well-formed, only extends it, and adds exactly those productions -/
theorem C01_table_rules {t : SymTab} (h : TableOk t) (A : String) (hA : A ∈ t.nonTerminals)
    (hclash : ∀ s e, (s, e) ∈ t.memo → ∀ k, e.get k ≠ A) (s : Strings) :
    TableOk ((s.map fun α => (⟨A, α⟩ : GProd)).foldl addProduction t) ∧
    Ext t ((s.map fun α => (⟨A, α⟩ : GProd)).foldl addProduction t) ∧
    (∀ q, q ∈ ((s.map fun α => (⟨A, α⟩ : GProd)).foldl addProduction t).prods ↔ q ∈ t.prods ∨ ∃ α ∈ s, q = ⟨A, α⟩) :=
  h.addRules A hA hclash s

/-- `evalRhs` is `Ebnf.action`, case by case (the model of the 35 semantic actions that the correspondence ties to
    `spec.Parse`): operators, juxtaposition, alternation, trailing bar, atoms and the rule action. -/
theorem C01_actions (cfg : Cfg) (file : String) (names predefs : List (String × String)) (t : SymTab) (p0 p1 p2 : Option Pos)
    (x y : Val) (s s1 s2 : Strings) (a A : String) :
    action cfg file names predefs t 31 [⟨.term a, p0⟩] = .ok (t, .strings [[.t a]]) ∧
    action cfg file names predefs t 30 [⟨.nonterm A, p0⟩] = .ok (t, .strings [[.nt A]]) ∧
    action cfg file names predefs t 23 [⟨.strings s1, p0⟩, ⟨.strings s2, p1⟩] =
      .ok (t, .strings (s1.flatMap fun α => s2.map fun β => α ++ β)) ∧
    action cfg file names predefs t 28 [⟨.strings s1, p0⟩, ⟨x, p1⟩, ⟨.strings s2, p2⟩] = .ok (t, .strings (s1 ++ s2)) ∧
    action cfg file names predefs t 29 [⟨.strings s1, p0⟩, ⟨x, p1⟩] = .ok (t, .strings (s1 ++ [[]])) ∧
    (∀ k : Kind, action cfg file names predefs t (match k with | .group => 24 | .opt => 25 | .star => 26 | .plus => 27)
        [⟨x, p0⟩, ⟨.strings s, p1⟩, ⟨y, p2⟩] =
      .ok ((closureAction cfg names t s k).1, .strings [[.nt (closureAction cfg names t s k).2]])) ∧
    action cfg file names predefs t 20 [⟨.nonterm A, p0⟩, ⟨x, p1⟩, ⟨.strings s, p2⟩] =
      .ok ((s.map fun α => (⟨A, α⟩ : GProd)).foldl addProduction t, .prods (s.map fun α => (⟨A, α⟩ : GProd))) :=
  ⟨rfl, rfl, rfl, rfl, rfl, fun k => by cases k <;> rfl, rfl⟩

/-- Non-vacuity of `C01_eval`: `{ "a" } [ y ] |` evaluated on the empty table - the synthesised names are fresh. -/
example : FreshNames Cfg.current terminalNames {} (.altEmpty (.cat (.op .star (.term "a")) (.op .opt (.nonterm "y")))) := by
  simp only [FreshNames, evalRhs]
  exact ⟨⟨trivial, by decide, by decide⟩, trivial, by decide, by decide⟩

/-- Non-vacuity: `{ "a" }` followed by `[ x ]` on an empty table - both names are fresh, the invariant holds. -/
example : TableOk (closureAction Cfg.current terminalNames
    (closureAction Cfg.current terminalNames {} [[.t "a"]] .star).1 [[.nt "x"]] .opt).1 :=
  C01_table_closure (C01_table_closure C01_table_empty _ _ _ _ (by decide)) _ _ _ _ (by decide)

/-- Non-vacuity: for `x = { "a" "b" }`-style tables the hypotheses are met and the language is as expected. -/
example : L [⟨"n", [.nt "n", .t "a"]⟩, ⟨"n", []⟩] "n" ["a", "a"] :=
  (C01_operator _ .star "n" [[.t "a"]] (by
      intro β; simp [ShapeMem, prepend]) _).mpr
    (Star.cons ["a"] ["a"] ⟨[.t "a"], by simp, ["a"], [], rfl, rfl, rfl⟩
      (by simpa using Star.cons ["a"] [] ⟨[.t "a"], by simp, ["a"], [], rfl, rfl, rfl⟩ Star.nil))

end Emerge.Props.C01
