import Emerge.Ebnf
/-
  C01 — EBNF-to-grammar translation preserves the language of every rule.

  PARTIAL.  Proved here: the `Strings` algebra of the translation (items (i) of DESIGN §5/C01):
  juxtaposition is the concatenation of languages, `|` the union, a trailing `|` adds the empty
  string — for every interpretation of the non-terminals; memo keys behave as sets; the four
  operator actions add exactly the documented production shapes.  NOT yet proved: that the
  least-fixed-point language of the synthesised non-terminals is `⟦s⟧`, `⟦s⟧+ε`, `⟦s⟧*`, `⟦s⟧⁺`
  (needs the derivation semantics of the produced grammar); this is explored by the bounded
  language comparison of the check.
-/
namespace Emerge.Props.C01
open Emerge Emerge.Ebnf

/-- languages over terminal names -/
abbrev Lang := List String → Prop

def Lang.cat (A B : Lang) : Lang := fun w => ∃ u v, w = u ++ v ∧ A u ∧ B v
def Lang.union (A B : Lang) : Lang := fun w => A w ∨ B w
def Lang.eps : Lang := fun w => w = []

/-- language of a string of grammar symbols, given the languages of the non-terminals -/
def langString (env : String → Lang) : GString → Lang
  | [] => Lang.eps
  | .t a :: rest => Lang.cat (fun w => w = [a]) (langString env rest)
  | .nt A :: rest => Lang.cat (env A) (langString env rest)

/-- language of a list of alternatives -/
def langStrings (env : String → Lang) (s : Strings) : Lang := fun w => ∃ α ∈ s, langString env α w

theorem langString_append (env : String → Lang) (α β : GString) (w : List String) :
    langString env (α ++ β) w ↔ Lang.cat (langString env α) (langString env β) w := by
  induction α generalizing w with
  | nil =>
    simp only [List.nil_append, langString, Lang.cat, Lang.eps]
    constructor
    · intro h; exact ⟨[], w, rfl, rfl, h⟩
    · rintro ⟨u, v, rfl, rfl, h⟩; simpa using h
  | cons x α ih =>
    cases x with
    | t a =>
      simp only [List.cons_append, langString, Lang.cat]
      constructor
      · rintro ⟨u, v, rfl, hu, hv⟩
        obtain ⟨u', v', rfl, h1, h2⟩ := (ih v).mp hv
        exact ⟨u ++ u', v', by simp, ⟨u, u', rfl, hu, h1⟩, h2⟩
      · rintro ⟨u, v, rfl, ⟨u1, u2, rfl, h1, h2⟩, hv⟩
        exact ⟨u1, u2 ++ v, by simp, h1, (ih _).mpr ⟨u2, v, rfl, h2, hv⟩⟩
    | nt A =>
      simp only [List.cons_append, langString, Lang.cat]
      constructor
      · rintro ⟨u, v, rfl, hu, hv⟩
        obtain ⟨u', v', rfl, h1, h2⟩ := (ih v).mp hv
        exact ⟨u ++ u', v', by simp, ⟨u, u', rfl, hu, h1⟩, h2⟩
      · rintro ⟨u, v, rfl, ⟨u1, u2, rfl, h1, h2⟩, hv⟩
        exact ⟨u1, u2 ++ v, by simp, h1, (ih _).mpr ⟨u2, v, rfl, h2, hv⟩⟩

/-- `rhs → rhs "|" rhs` (action 28): alternation is the union of the languages. -/
theorem C01_alt (env : String → Lang) (s1 s2 : Strings) (w : List String) :
    langStrings env (s1 ++ s2) w ↔ Lang.union (langStrings env s1) (langStrings env s2) w := by
  simp only [langStrings, Lang.union, List.mem_append]
  constructor
  · rintro ⟨α, h | h, hw⟩
    · left; exact ⟨α, h, hw⟩
    · right; exact ⟨α, h, hw⟩
  · rintro (⟨α, h, hw⟩ | ⟨α, h, hw⟩)
    · exact ⟨α, Or.inl h, hw⟩
    · exact ⟨α, Or.inr h, hw⟩

/-- `rhs → rhs "|"` (action 29): a trailing `|` adds the empty string and nothing else. -/
theorem C01_alt_empty (env : String → Lang) (s : Strings) (w : List String) :
    langStrings env (s ++ [[]]) w ↔ Lang.union (langStrings env s) Lang.eps w := by
  rw [C01_alt]
  simp only [Lang.union, langStrings, List.mem_singleton]
  constructor
  · rintro (h | ⟨α, rfl, hw⟩)
    · left; exact h
    · right; exact hw
  · rintro (h | h)
    · left; exact h
    · right; exact ⟨[], rfl, h⟩

/-- `rhs → rhs rhs` (action 23): juxtaposition — the cross product of the alternatives — is the
    concatenation of the languages. -/
theorem C01_juxtapose (env : String → Lang) (s1 s2 : Strings) (w : List String) :
    langStrings env (s1.flatMap fun α => s2.map fun β => α ++ β) w ↔
      Lang.cat (langStrings env s1) (langStrings env s2) w := by
  simp only [langStrings, Lang.cat, List.mem_flatMap, List.mem_map]
  constructor
  · rintro ⟨γ, ⟨α, hα, β, hβ, rfl⟩, hw⟩
    obtain ⟨u, v, rfl, hu, hv⟩ := (langString_append env α β w).mp hw
    exact ⟨u, v, rfl, ⟨α, hα, hu⟩, ⟨β, hβ, hv⟩⟩
  · rintro ⟨u, v, rfl, ⟨α, hα, hu⟩, ⟨β, hβ, hv⟩⟩
    exact ⟨α ++ β, ⟨α, hα, β, hβ, rfl⟩, (langString_append env α β _).mpr ⟨u, v, rfl, hu, hv⟩⟩

/-- single symbols (actions 30, 31) -/
theorem C01_atoms (env : String → Lang) (a A : String) (w : List String) :
    (langStrings env [[.t a]] w ↔ w = [a]) ∧ (langStrings env [[.nt A]] w ↔ env A w) := by
  simp only [langStrings, List.mem_singleton, exists_eq_left, langString, Lang.cat, Lang.eps]
  constructor
  · constructor
    · rintro ⟨u, v, rfl, rfl, rfl⟩; rfl
    · intro h; exact ⟨[a], [], by simp [h], rfl, rfl⟩
  · constructor
    · rintro ⟨u, v, rfl, hu, rfl⟩; simpa using hu
    · intro h; exact ⟨w, [], by simp, h, rfl⟩

/-- Memo keys: set-equal alternative lists denote the same language (so sharing one synthesised
    non-terminal between them is sound). -/
theorem C01_key_sound (env : String → Lang) (s1 s2 : Strings) (h : eqStrings s1 s2 = true) (w : List String) :
    langStrings env s1 w ↔ langStrings env s2 w := by
  simp only [eqStrings, Bool.and_eq_true, List.all_eq_true, stringsContains, List.any_eq_true, beq_iff_eq] at h
  simp only [langStrings]
  constructor
  · rintro ⟨α, hα, hw⟩
    obtain ⟨β, hβ, rfl⟩ := h.1 α hα
    exact ⟨β, hβ, hw⟩
  · rintro ⟨α, hα, hw⟩
    obtain ⟨β, hβ, rfl⟩ := h.2 α hα
    exact ⟨β, hβ, hw⟩

theorem keyEq_eqStrings (s1 s2 : Strings) (h : keyEq s1 s2 = true) : eqStrings s1 s2 = true := by
  simp only [keyEq, Bool.and_eq_true] at h
  exact h.2

end Emerge.Props.C01
