import Emerge.Lexgen
/-
  C03 — combined scanner automaton: right winner, conflicts iff real; a literal denotes its own characters.

  What is proved is emerge's own decision logic (`winner`, `stringToDFA`).  That the dependency's
  `CombineDFA` returns, for every accepting state, exactly the definitions whose language contains
  the strings reaching it, is the contract under which these theorems speak about texts; it is
  validated per definition set by exploring the full product of reference automata (checks/c03.py).
-/
namespace Emerge.Props.C03
open Emerge Emerge.Lexgen

/-- A literal's automaton accepts exactly the literal's characters. -/
theorem strRun_iff (v : List Rune) : ∀ (w : List Rune) (s : Nat), s ≤ v.length →
    (strRun v s w = some v.length ↔ w = v.drop s) := by
  intro w
  induction w with
  | nil =>
    intro s hs
    simp only [strRun, Option.some.injEq]
    constructor
    · intro h; subst h; simp
    · intro h
      have : (v.drop s).length = 0 := by rw [← h]; rfl
      simp at this; omega
  | cons c w ih =>
    intro s hs
    simp only [strRun, strNext]
    by_cases hc : v[s]? = some c
    · simp only [hc, if_true]
      have hlt : s < v.length := by
        rcases Nat.lt_or_ge s v.length with h | h
        · exact h
        · simp [List.getElem?_eq_none h] at hc
      rw [ih (s + 1) hlt]
      have hd : v.drop s = c :: v.drop (s + 1) := by
        rw [List.drop_eq_getElem_cons hlt]
        congr 1
        have := List.getElem?_eq_getElem hlt
        rw [this] at hc; exact Option.some.inj hc
      rw [hd]; simp
    · simp only [hc, if_false]
      constructor
      · intro h; cases h
      · intro h
        exfalso; apply hc
        rcases Nat.lt_or_ge s v.length with hlt | hge
        · rw [List.drop_eq_getElem_cons hlt] at h
          injection h with h1 _
          rw [List.getElem?_eq_getElem hlt, h1]
        · rw [List.drop_eq_nil_of_le hge] at h; cases h

/-- **A string literal denotes its own characters** (nothing more, nothing less). -/
theorem C03_literal (v w : List Rune) : strAccepts v w = true ↔ w = v := by
  simp only [strAccepts, beq_iff_eq]
  rw [strRun_iff v w 0 (Nat.zero_le _)]
  simp

def literals (os : List Owner) : List Owner := os.filter (fun o => !o.isRegex)

/-- No definition matches: the state belongs to nobody. -/
theorem C03_none : winner [] = .none := rfl

/-- **The only definition matching wins.** -/
theorem C03_unique (o : Owner) : winner [o] = .term o.idx := rfl

/-- **A literal wins over any number of patterns**: if exactly one of the matching definitions is a
    string literal, the state is attributed to it. -/
theorem C03_literal_wins (os : List Owner) (s : Owner) (h : literals os = [s]) : winner os = .term s.idx := by
  unfold literals at h
  match os, h with
  | [], h => simp at h
  | [o], h =>
    simp only [winner]
    have : s ∈ [o].filter (fun o => !o.isRegex) := by rw [h]; simp
    simp at this
    rw [this.1]
  | o1 :: o2 :: rest, h => simp only [winner, h]

/-- **Conflict iff real**: a conflict is reported exactly when at least two definitions match and
    the tie is not broken by exactly one literal.  (With distinct literal values — enforced when the
    specification is read, C07 — at most one literal matches a text, so this is "two patterns and no literal".) -/
theorem C03_conflict_iff (os : List Owner) :
    (∃ is, winner os = .conflict is) ↔ 2 ≤ os.length ∧ (literals os).length ≠ 1 := by
  unfold literals
  match os with
  | [] => simp [winner]
  | [o] => simp [winner]
  | o1 :: o2 :: rest =>
    simp only [winner, List.length_cons]
    cases hf : (o1 :: o2 :: rest).filter (fun o => !o.isRegex) with
    | nil => simp
    | cons a r =>
      cases r with
      | nil => simp
      | cons b r' => simp

/-- … and the conflict names exactly the matching definitions. -/
theorem C03_conflict_names (os : List Owner) (is : List Nat) (h : winner os = .conflict is) : is = os.map (·.idx) := by
  match os, h with
  | [], h => cases h
  | [o], h => cases h
  | o1 :: o2 :: rest, h =>
    simp only [winner] at h
    split at h
    · cases h
    · injection h with h; exact h.symm

/-- With pairwise distinct literal values at most one literal matches a given text. -/
theorem C03_one_literal (vals : List (List Rune)) (hd : vals.Nodup) (w : List Rune) :
    (vals.filter (fun v => strAccepts v w)).length ≤ 1 := by
  have : vals.filter (fun v => strAccepts v w) = vals.filter (fun v => v == w) := by
    apply List.filter_congr
    intro v _
    have := C03_literal v w
    cases h : strAccepts v w
    · simp only [h, Bool.false_eq_true, false_iff] at this
      simp only [Bool.false_eq, beq_eq_false_iff_ne, ne_eq]
      exact fun e => this e.symm
    · simp only [h, true_iff] at this
      simp [this]
  rw [this]
  have hn : (vals.filter (fun v => v == w)).Nodup := hd.filter _
  match hf : vals.filter (fun v => v == w), hn with
  | [], _ => simp
  | [a], _ => simp
  | a :: b :: r, hn =>
    exfalso
    have ha : a ∈ vals.filter (fun v => v == w) := by rw [hf]; simp
    have hb : b ∈ vals.filter (fun v => v == w) := by rw [hf]; simp
    simp at ha hb
    have : a = b := ha.2.trans hb.2.symm
    simp [this] at hn

/-- Non-vacuity: keyword against identifier and number patterns. -/
example : winner [⟨2, false⟩, ⟨3, true⟩] = .term 2 := by decide
example : winner [⟨3, true⟩, ⟨4, true⟩] = .conflict [3, 4] := by decide
example : strAccepts [105, 102] [105, 102] = true ∧ strAccepts [105, 102] [105] = false := by decide

end Emerge.Props.C03
