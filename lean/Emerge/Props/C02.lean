import Emerge.Inst.Regex
/-
  C02 — token patterns compile to automata accepting exactly the pattern's language.

  Layers: text --(regenerated grammar, interpreted)--> `Pat` --(`compileN`: the NFA-route mappers)-->
  a term `NExp` over the dependency's NFA operations --(contract `NExp.lang`)--> language.
  Documented meaning: `Pat.denote` (= language of the plain regular expression `Pat.toRe`).
  The determinise/minimise/prune/renumber pipeline is the dependency's; it is validated per pattern
  against the derivative automaton of `Pat.toRe`, whose correctness is `C02_oracle`.
-/
namespace Emerge.Props.C02
open Emerge Emerge.Regex

abbrev T := Gen.Regex.runeClasses

/-- **Construction correct (finding F3 repaired)**: for every pattern tree — every class, negation,
    bracket group, range, grouping, alternation and quantifier form, lazy or not — the automaton
    term the mappers build has exactly the documented language. -/
theorem C02_compile_correct (p : Pat) : ∀ w, (compileN T p).lang RCfg.fixed w ↔ p.denote T w :=
  compileN_lang_fixed T Inst.Regex.ascii_ok p

def NExp.nulFree : NExp → Bool
  | .sym rs => !rs.contains 0
  | .eps => true
  | .union a b => NExp.nulFree a && NExp.nulFree b
  | .cat a b => NExp.nulFree a && NExp.nulFree b
  | .star a => NExp.nulFree a

theorem nulFree_lang (n : NExp) (h : NExp.nulFree n = true) : n.lang RCfg.current ≃ n.lang RCfg.fixed := by
  induction n with
  | sym rs =>
    simp only [NExp.nulFree, Bool.not_eq_true'] at h
    simp only [NExp.lang, RCfg.current, RCfg.fixed, h, Bool.and_false, Bool.false_and]
    exact Lang.Eqv.rfl'
  | eps => exact Lang.Eqv.rfl'
  | union a b iha ihb =>
    simp only [NExp.nulFree, Bool.and_eq_true] at h
    exact Lang.union_congr (iha h.1) (ihb h.2)
  | cat a b iha ihb =>
    simp only [NExp.nulFree, Bool.and_eq_true] at h
    exact Lang.cat_congr (iha h.1) (ihb h.2)
  | star a ih =>
    simp only [NExp.nulFree] at h
    exact Lang.star_congr (ih h)

/-- **The code as it is** (`RCfg.current`: a transition on NUL is an ε-move in the automata library)
    is correct for every pattern whose construction never issues a transition on NUL — i.e. without
    `.`, negated classes/groups, `[:ascii:]`, `\x00` … -/
theorem C02_compile_correct_partial (p : Pat) (h : NExp.nulFree (compileN T p) = true) :
    ∀ w, (compileN T p).lang RCfg.current w ↔ p.denote T w :=
  (nulFree_lang _ h).trans' (compileN_lang_fixed T Inst.Regex.ascii_ok p)

/-- … and it is *not* correct otherwise (finding F3): the automaton of `.` accepts the empty string,
    which the documented meaning of `.` ("any single character") does not contain. -/
theorem C02_dot_accepts_empty : (compileN T .any).lang RCfg.current [] ∧ ¬ Pat.denote T .any [] := by
  constructor
  · have h0 : ((classRunes T "ASCII").getD []).contains 0 = true := by decide +kernel
    simp only [compileN, NExp.lang, RCfg.current, h0, Bool.and_self, if_true]
    exact Or.inl rfl
  · rintro ⟨r, _, h⟩; cases h

/-- The lazy modifier has no effect on the automaton. -/
theorem C02_lazy_irrelevant (p : Pat) (q : Quant) : compileN T (.quant p q true) = compileN T (.quant p q false) := rfl

/-- `{n}` is `n` copies, `{n,}` is `n` copies then any number, `{n,m}` is `n` copies then up to `m-n` more;
    `?` is zero or one, `+` one or more: the documented meaning used above, spelled out. -/
theorem C02_quantifier_meaning (p : Pat) (lz : Bool) :
    (∀ n, Pat.denote T (.quant p (.rep n (some n)) lz) ≃ Lang.pow (p.denote T) n) ∧
    (∀ n, Pat.denote T (.quant p (.rep n none) lz) ≃ Lang.cat (Lang.pow (p.denote T) n) (Lang.star (p.denote T))) ∧
    (∀ n m, Pat.denote T (.quant p (.rep n (some m)) lz) ≃ Lang.cat (Lang.pow (p.denote T) n) (Lang.upto (p.denote T) (m - n))) ∧
    (Pat.denote T (.quant p .opt lz) ≃ Lang.union Lang.eps (p.denote T)) ∧
    (Pat.denote T (.quant p .plus lz) ≃ Lang.cat (p.denote T) (Lang.star (p.denote T))) := by
  refine ⟨fun n => ?_, fun n => ?_, fun n m => ?_, Lang.Eqv.rfl', Lang.Eqv.rfl'⟩
  · simp only [Pat.denote, Pat.toRe, quantRe, Re.lang, Nat.sub_self, Re.upto]
    exact (Lang.cat_congr (Re.pow_lang _ n) Lang.Eqv.rfl').trans' (Lang.cat_eps_right _)
  · simp only [Pat.denote, Pat.toRe, quantRe, Re.lang]
    exact Lang.cat_congr (Re.pow_lang _ n) Lang.Eqv.rfl'
  · simp only [Pat.denote, Pat.toRe, quantRe, Re.lang]
    exact Lang.cat_congr (Re.pow_lang _ n) (Re.upto_lang _ _)

/-- The oracle of the violation search is sound and complete for the documented meaning:
    the derivative matcher accepts `w` iff `w` is in the pattern's documented language. -/
theorem C02_oracle (p : Pat) (w : List Rune) : (p.toRe T).matchD w = true ↔ p.denote T w :=
  Re.matchD_iff _ w

/-- … and for the model of the code (either configuration). -/
theorem C02_oracle_model (cfg : RCfg) (n : NExp) (w : List Rune) : (n.toRe cfg).matchD w = true ↔ n.lang cfg w := by
  rw [Re.matchD_iff]
  induction n generalizing w with
  | sym rs => simp only [NExp.toRe, NExp.lang]; split <;> exact Iff.rfl
  | eps => exact Iff.rfl
  | union a b iha ihb => simp only [NExp.toRe, NExp.lang, Re.lang]; exact Lang.union_congr iha ihb w
  | cat a b iha ihb => simp only [NExp.toRe, NExp.lang, Re.lang]; exact Lang.cat_congr iha ihb w
  | star a ih => simp only [NExp.toRe, NExp.lang, Re.lang]; exact Lang.star_congr ih w

/-- Non-vacuity: `(a|b)*c{1,2}` parses, and its automaton term accepts "abc" and rejects "ab". -/
example :
    (match parsePat Gen.Regex.rules Gen.Regex.top T ("(a|b)*c{1,2}".toList.map Char.toNat) with
     | .ok p => ((compileN T p).toRe RCfg.fixed).matchD [97, 98, 99] && !((compileN T p).toRe RCfg.fixed).matchD [97, 98]
     | _ => false) = true := by decide +kernel

end Emerge.Props.C02
