import Emerge.Proofs.Follow
import Emerge.Proofs.Follow2
import Emerge.Proofs.Subset
import Emerge.Proofs.FollowDenote
import Emerge.Proofs.Spined
import Emerge.Proofs.SubsetFuel
import Emerge.Inst.Regex
/-
  C10 — the direct (followpos) pattern-to-DFA construction.

  Proved here, for every syntax tree: `nullable` is exactly "the empty string is in the language"
  — including n-ary concatenations whose operands can all match the empty string, the case the
  unrepaired code got wrong (`fixed: property=C10` in known_findings.json) — and the tree the second
  mapper set builds for a quantified expression (`quantNode`: copies, options, star) has the language
  of the quantifier's documented meaning.
  The followpos sets are correct (Glushkov / McNaughton-Yamada, for the n-ary trees of the code):
  * `C10_paths`: every word of the language of a tree has a marking (each character paired with the
    position of the leaf that matches it) whose first position is in `firstPos`, whose last position
    is in `lastPos`, and in which every position is followed by a position of the follow set
    `computeFollows` computed for it - every sentence is a run of the position automaton (positions
    need not be distinct for this half);
  * `C10_local`: in a tree whose leaves carry distinct positions, every run - leaves only, start in
    `firstPos`, steps along the follow sets computed from the empty map, end in `lastPos` - is a
    marked word of the tree (the "local language" property: alternations keep a run inside one
    operand, concatenations are crossed left to right, a star is cut into iterations);
  * `C10_position_automaton`: hence the automaton accepts exactly the language; `C10_build_lin`: the
    tree `ast.Parse` hands over (end marker appended, `indexChars`) has distinct positions.
  NOT proved: that the `while` loop of `ToDFA` is the subset construction over these sets, that the
  second mapper set's tree has the pattern's documented language beyond the quantifier case, and the
  dependency's `Minimize`; these are decided per pattern by comparing the automaton with the proved
  derivative oracle (checks/c10.py).
-/
namespace Emerge.Props.C10
open Emerge Emerge.Regex Emerge.Regex.Follow

/-- **nullable is correct**: `nullable(n)` holds iff the sub-expression can match the empty string. -/
theorem C10_nullable (n : Node) : n.nullable = true ↔ Node.lang n [] := nullable_iff_lang n

/-- A concatenation is nullable iff all its operands are (the repaired defect, stated outright). -/
theorem C10_concat_nullable (xs : List Node) : (Node.concat xs).nullable = xs.all Node.nullable := concat_nullable_all xs

/-- **Quantified sub-expressions** have the documented language of the quantifier applied to the operand's language. -/
theorem C10_quantify (n : Node) (q : Quant) :
    Node.lang (quantNode n q) ≃
      (match q with
       | .opt => Lang.union Lang.eps (Node.lang n)
       | .star => Lang.star (Node.lang n)
       | .plus => Lang.cat (Node.lang n) (Lang.star (Node.lang n))
       | .rep lo none => Lang.cat (Lang.pow (Node.lang n) lo) (Lang.star (Node.lang n))
       | .rep lo (some u) => Lang.cat (Lang.pow (Node.lang n) lo) (Lang.upto (Node.lang n) (u - lo))) := quantify_lang n q

/-- `firstPos` contains the first position of every non-empty marked word -/
theorem C10_first_sound (n : Node) (a : Nat × Rune) (m : MWord) (h : Node.mlang n (a :: m)) : a.1 ∈ n.firstPos :=
  first_sound n a m h

/-- `lastPos` contains the last position of every non-empty marked word -/
theorem C10_last_sound (n : Node) (m : MWord) (a : Nat × Rune) (h : Node.mlang n (m ++ [a])) : a.1 ∈ n.lastPos :=
  last_sound n m a h

/-- `computeFollows` puts `q` into the follow set of `p` whenever `q` directly follows `p` in a marked word -/
theorem C10_follow_sound (n : Node) (m : MWord) (h : Node.mlang n m) (p q : Nat) (ha : Adj m p q) (M : FollowMap) :
    q ∈ (computeFollows M n).get p := follow_sound n m h p q ha M

/-- **Every sentence is a path through the position automaton.** For every word of the language of a tree there is a
    marking of it that starts in `firstPos`, ends in `lastPos`, steps only along the computed follow sets, and is empty
    only if the tree is nullable: the automaton the direct route builds from these sets cannot reject a sentence. -/
theorem C10_paths (n : Node) (w : List Rune) (h : Node.lang n w) :
    ∃ m : MWord, m.map (·.2) = w ∧
      (∀ a rest, m = a :: rest → a.1 ∈ n.firstPos) ∧
      (∀ p q, Adj m p q → ∀ M, q ∈ (computeFollows M n).get p) ∧
      (∀ init a, m = init ++ [a] → a.1 ∈ n.lastPos) ∧
      (m = [] → n.nullable = true) := by
  obtain ⟨m, hm, e⟩ := mlang_lift n w h
  refine ⟨m, e, ?_, ?_, ?_, ?_⟩
  · intro a rest hr; exact first_sound n a rest (hr ▸ hm)
  · intro p q ha M; exact follow_sound n m hm p q ha M
  · intro init a hr; exact last_sound n init a (hr ▸ hm)
  · intro hr; exact (mlang_nil_iff n).mp (hr ▸ hm)

/-- **Every run is a sentence** (distinct positions): a non-empty sequence of leaves that starts in `firstPos`, steps along
    the follow relation and ends in `lastPos` is a marked word of the tree. -/
theorem C10_local (n : Node) (hl : Lin n) (m : MWord)
    (hp : IsPath n.firstPos n.lastPos (Fol n) (leaves n) m) : Node.mlang n m := local_lang n hl m hp

/-- the follow sets computed from the empty map are exactly the follow relation -/
theorem C10_follow_exact (n : Node) (p q : Nat) (h : q ∈ (computeFollows [] n).get p) : Fol n p q :=
  computed_follow_is_Fol n p q h

/-- **The position automaton accepts exactly the language** of a tree with distinct positions: a string is in the language
    iff it is empty and the tree nullable, or it is spelled by an accepting run (leaves only; first, follow and last sets
    as the code computes them). -/
theorem C10_position_automaton (n : Node) (hl : Lin n) (w : List Rune) :
    Node.lang n w ↔ (w = [] ∧ n.nullable = true) ∨ ∃ m, Accepting n m ∧ m.map (·.2) = w :=
  position_automaton_lang n hl w

/-- the tree `ast.Parse` hands to `ToDFA` (pattern, end marker appended, `indexChars`) has distinct positions -/
theorem C10_build_lin (T : ClassTable) (p : Pat) : Lin (build T p).root := build_lin T p

/-- the tree `ast.Parse` hands to `ToDFA` is the pattern's tree, numbered from 1, followed by the end marker at the last
    position, which no leaf of the pattern carries -/
theorem C10_build_marked (T : ClassTable) (p : Pat) : Marked (build T p) (index 1 (ofPat T p)).1 endMarker := build_marked T p

/-- **The worklist loop of `ToDFA` is the subset construction**: whatever it returns is closed - state 0 is
    `firstPos(root)`, every state has on every input symbol a transition to the state that is `U` (the followers of its
    positions carrying that symbol) as a set, and there are no other transitions. -/
theorem C10_explore (t : Tree) (symbols : List Rune) (fuel : Nat) (r : List Poses × Follow.Trans)
    (h : explore t symbols fuel 0 [t.root.firstPos] [] = some r) :
    r.1[0]? = some t.root.firstPos ∧ (∀ k, k < r.1.length → ∀ c ∈ symbols, Covered t r.1 r.2 k c) ∧ (∀ e ∈ r.2, e.2.1 ∈ symbols) :=
  explore_spec t symbols fuel 0 [t.root.firstPos] [] ⟨rfl, (fun k hk => by omega), (fun e he => by cases he), (fun e he => by cases he)⟩ r h

/-- **The automaton of the direct route accepts exactly the language of the pattern's tree** (before the dependency's
    `Minimize`): for every pattern, whatever automaton the model of `ToDFA` returns accepts a string - any string, also one
    with characters the pattern does not mention or with the character used as end marker - iff the string is in the
    language of the tree the mappers built for the pattern. -/
theorem C10_dfa (T : ClassTable) (p : Pat) (d : DFA) (hd : toDFA? (build T p) = some d) (w : List Rune) :
    d.accepts (build T p) w = true ↔ Node.lang (ofPat T p) w := by
  rw [dfa_language (build_marked T p) d hd w, lang_index]

/-- **… which is the documented language of the pattern**: for every pattern the mappers can build (sub-expressions are
    item lists) and every string without NUL, the automaton of the direct route - over the class table regenerated from
    the source - accepts the string iff the pattern matches it under the documented meaning of every construct. -/
theorem C10_dfa_documented (p : Pat) (hs : spined p = true) (d : DFA)
    (hd : toDFA? (build Gen.Regex.runeClasses p) = some d) (w : List Rune) (hw : NoNul w) :
    d.accepts (build Gen.Regex.runeClasses p) w = true ↔ p.denote Gen.Regex.runeClasses w := by
  rw [C10_dfa Gen.Regex.runeClasses p d hd w]
  have := (ofPat_lang Gen.Regex.runeClasses Inst.Regex.ascii_ok p).1 hs w
  simp only [nn] at this
  constructor
  · intro h; exact this.mp ⟨h, hw⟩
  · intro h; exact (this.mpr h).1

/-- whatever the mapper model returns for a pattern text is made of item lists (every grammar, every class table) -/
theorem C10_parse_spined (G : Rules) (top : String) (T : ClassTable) (s : List Rune) (p : Pat)
    (h : parsePat G top T s = .ok p) : spined p = true := parsePat_spined G top T s p h

/-- **End to end for the direct route**: for every pattern text the (regenerated) pattern grammar accepts, the automaton
    the model of `ast.Parse` + `ToDFA` builds accepts a string without NUL iff the pattern matches it under the documented
    meaning. (The only run-time hypothesis left is that the loop finished within its fuel, `2^positions + 1` states.) -/
theorem C10_direct_route (s : List Rune) (p : Pat)
    (hp : parsePat Gen.Regex.rules Gen.Regex.top Gen.Regex.runeClasses s = .ok p) (d : DFA)
    (hd : toDFA? (build Gen.Regex.runeClasses p) = some d) (w : List Rune) (hw : NoNul w) :
    d.accepts (build Gen.Regex.runeClasses p) w = true ↔ p.denote Gen.Regex.runeClasses w :=
  C10_dfa_documented p (parsePat_spined _ _ _ s p hp) d hd w hw

/-- **The loop of `ToDFA` terminates**: its states are pairwise different sets of the tree's positions, at most `2^n` of
    them - the model always returns an automaton (its fuel, `2^n + 1`, is never exhausted). -/
theorem C10_todfa_total (T : ClassTable) (p : Pat) : ∃ d, toDFA? (build T p) = some d := toDFA_some (build_marked T p)

/-- **The direct route, without hypotheses**: for every pattern text the pattern grammar accepts there is an automaton
    - the one the model of `ast.Parse` + `ToDFA` returns - and it accepts a string without NUL iff the pattern matches it
    under the documented meaning. -/
theorem C10_direct_route_total (s : List Rune) (p : Pat)
    (hp : parsePat Gen.Regex.rules Gen.Regex.top Gen.Regex.runeClasses s = .ok p) :
    ∃ d, toDFA? (build Gen.Regex.runeClasses p) = some d ∧
      ∀ w, NoNul w → (d.accepts (build Gen.Regex.runeClasses p) w = true ↔ p.denote Gen.Regex.runeClasses w) := by
  obtain ⟨d, hd⟩ := C10_todfa_total Gen.Regex.runeClasses p
  exact ⟨d, hd, fun w hw => C10_direct_route s p hp d hd w hw⟩

/-- Non-vacuity: `ab*` and `\xEEEE|a` (a pattern that itself contains the end-marker character): the loop terminates,
    and the automaton accepts and rejects as the theorem says. -/
def patAB : Pat := .scons (.char 97) (.scons (.quant (.char 98) .star false) .snil)
def patMk : Pat := .alt (.scons (.char endMarker) .snil) (.scons (.char 97) .snil)
example : (toDFA? (build [] patAB)).isSome = true := by decide +kernel
example : ((toDFA? (build [] patAB)).map fun d => (d.accepts (build [] patAB) [97, 98, 98], d.accepts (build [] patAB) [98], d.accepts (build [] patAB) [])) =
    some (true, false, false) := by decide +kernel
example : ((toDFA? (build [] patMk)).map fun d => (d.accepts (build [] patMk) [endMarker], d.accepts (build [] patMk) [97], d.accepts (build [] patMk) [])) =
    some (true, true, false) := by decide +kernel

/-- Non-vacuity / regression: the trees of `a?`, `(a*)b` … : a concatenation of nullable operands is nullable,
    `a{0}` (an empty concatenation) is nullable, `ab?` is not. -/
example : (Node.concat [.alt [.empty, .char 97 1], .star (.char 98 2)]).nullable = true := by decide
example : (quantNode (.char 97 0) (.rep 0 (some 0))).nullable = true := by decide
example : (Node.concat [.char 97 1, .alt [.empty, .char 98 2]]).nullable = false := by decide
/-- `(a|ab)#`: `a#` is a path 1 → 4 and `ab#` a path 2 → 3 → 4 through the follow map -/
example : (computeFollows [] (.concat [.alt [.char 97 1, .concat [.char 97 2, .char 98 3]], .char 35 4])).get 1 = [4] ∧
    (computeFollows [] (.concat [.alt [.char 97 1, .concat [.char 97 2, .char 98 3]], .char 35 4])).get 2 = [3] := by decide

end Emerge.Props.C10
