import Emerge.Proofs.Follow
/-
  C10 — the direct (followpos) pattern-to-DFA construction.

  Proved here, for every syntax tree: `nullable` is exactly "the empty string is in the language"
  — including n-ary concatenations whose operands can all match the empty string, the case the
  unrepaired code got wrong (`fixed: property=C10` in known_findings.json) — and the tree the second
  mapper set builds for a quantified expression (`quantNode`: copies, options, star) has the language
  of the quantifier's documented meaning.
  One half of the correctness of the followpos sets (`C10_paths`): every word of the language of a
  tree has a marking (each character paired with the position of the leaf that matches it) whose
  first position is in `firstPos`, whose last position is in `lastPos`, and in which every position
  is followed by a position of the follow set `computeFollows` computed for it (whatever the map
  held before) - i.e. every sentence is a path through the position automaton, so the direct route
  loses no sentence. Positions need not be distinct for this half.
  NOT proved: the other half (every path spells a sentence - the "local language" property, which
  needs the positions to be distinct), and that the `while` loop of `ToDFA` is the subset
  construction over these sets; both are decided per pattern by comparing the automaton with the
  proved derivative oracle (checks/c10.py).
-/
namespace Emerge.Props.C10
open Emerge Emerge.Regex Emerge.Regex.Follow

/-- **nullable is correct**: `nullable(n)` holds iff the sub-expression can match the empty string. -/
theorem C10_nullable (n : Node) : n.nullable = true ↔ Node.lang n [] := nullable_iff_lang n

/-- A concatenation is nullable iff all its operands are (the repaired defect, stated outright). -/
theorem C10_concat_nullable (xs : List Node) : (Node.concat xs).nullable = xs.all Node.nullable := concat_nullable_all xs

/-- **Quantified sub-expressions** have the documented language of the quantifier applied to the operand's language. -/
theorem C10_quantify (n : Node) (q : Quant) :
    Node.lang (quantNode n q) ≃
      (match q with
       | .opt => Lang.union Lang.eps (Node.lang n)
       | .star => Lang.star (Node.lang n)
       | .plus => Lang.cat (Node.lang n) (Lang.star (Node.lang n))
       | .rep lo none => Lang.cat (Lang.pow (Node.lang n) lo) (Lang.star (Node.lang n))
       | .rep lo (some u) => Lang.cat (Lang.pow (Node.lang n) lo) (Lang.upto (Node.lang n) (u - lo))) := quantify_lang n q

/-- `firstPos` contains the first position of every non-empty marked word -/
theorem C10_first_sound (n : Node) (a : Nat × Rune) (m : MWord) (h : Node.mlang n (a :: m)) : a.1 ∈ n.firstPos :=
  first_sound n a m h

/-- `lastPos` contains the last position of every non-empty marked word -/
theorem C10_last_sound (n : Node) (m : MWord) (a : Nat × Rune) (h : Node.mlang n (m ++ [a])) : a.1 ∈ n.lastPos :=
  last_sound n m a h

/-- `computeFollows` puts `q` into the follow set of `p` whenever `q` directly follows `p` in a marked word -/
theorem C10_follow_sound (n : Node) (m : MWord) (h : Node.mlang n m) (p q : Nat) (ha : Adj m p q) (M : FollowMap) :
    q ∈ (computeFollows M n).get p := follow_sound n m h p q ha M

/-- **Every sentence is a path through the position automaton.** For every word of the language of a tree there is a
    marking of it that starts in `firstPos`, ends in `lastPos`, steps only along the computed follow sets, and is empty
    only if the tree is nullable: the automaton the direct route builds from these sets cannot reject a sentence. -/
theorem C10_paths (n : Node) (w : List Rune) (h : Node.lang n w) :
    ∃ m : MWord, m.map (·.2) = w ∧
      (∀ a rest, m = a :: rest → a.1 ∈ n.firstPos) ∧
      (∀ p q, Adj m p q → ∀ M, q ∈ (computeFollows M n).get p) ∧
      (∀ init a, m = init ++ [a] → a.1 ∈ n.lastPos) ∧
      (m = [] → n.nullable = true) := by
  obtain ⟨m, hm, e⟩ := mlang_lift n w h
  refine ⟨m, e, ?_, ?_, ?_, ?_⟩
  · intro a rest hr; exact first_sound n a rest (hr ▸ hm)
  · intro p q ha M; exact follow_sound n m hm p q ha M
  · intro init a hr; exact last_sound n init a (hr ▸ hm)
  · intro hr; exact (mlang_nil_iff n).mp (hr ▸ hm)

/-- Non-vacuity / regression: the trees of `a?`, `(a*)b` … : a concatenation of nullable operands is nullable,
    `a{0}` (an empty concatenation) is nullable, `ab?` is not. -/
example : (Node.concat [.alt [.empty, .char 97 1], .star (.char 98 2)]).nullable = true := by decide
example : (quantNode (.char 97 0) (.rep 0 (some 0))).nullable = true := by decide
example : (Node.concat [.char 97 1, .alt [.empty, .char 98 2]]).nullable = false := by decide
/-- `(a|ab)#`: `a#` is a path 1 → 4 and `ab#` a path 2 → 3 → 4 through the follow map -/
example : (computeFollows [] (.concat [.alt [.char 97 1, .concat [.char 97 2, .char 98 3]], .char 35 4])).get 1 = [4] ∧
    (computeFollows [] (.concat [.alt [.char 97 1, .concat [.char 97 2, .char 98 3]], .char 35 4])).get 2 = [3] := by decide

end Emerge.Props.C10
