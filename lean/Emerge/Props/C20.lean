import Emerge.Inst.Tables
import Emerge.Proofs.LRDriver
/-
  C20 — syntax errors are reported at the first offending token (driver level).
  Lexical errors: `Emerge.Props.C05.C05_error_prefix` (the error is the first run ending in a
  non-accepting state; everything before it was tokenised).
-/
namespace Emerge.Props.C20
open Emerge Emerge.LR Emerge.Inst.Tables

/-- A syntax error is reported for token index `i ≤ |w|` (`|w|` = the end marker: the input ended
    too early); all tokens before `i` — and only those — were shifted (token callbacks `0..i-1`). -/
theorem C20_error_token {w : List Nat} {fuel : Nat} {ev : List Event} {i : Nat} {st : Option Nat}
    (h : parse raw.tables w none none fuel = (ev, .syntaxError i st)) :
    i ≤ w.length ∧ toksOf ev.reverse = (List.range i).reverse := by
  have key : ∀ n c, Inv raw w c → run raw.tables w none none n c = (ev, .syntaxError i st) →
      i ≤ w.length ∧ toksOf ev.reverse = (List.range i).reverse := by
    intro n
    induction n with
    | zero => intro c _ hr; simp [run] at hr
    | succ n ih =>
      intro c hi hr
      obtain ⟨c', r, hs⟩ : ∃ c' r, step raw.tables w none none c = (c', r) := ⟨_, _, rfl⟩
      cases r with
      | none =>
        rw [run_succ_none hs] at hr
        exact ih c' (step_inv raw_wf hi hs) hr
      | some res =>
        rw [run_succ_some hs] at hr
        simp at hr
        obtain ⟨hev, hres⟩ := hr
        subst hres
        have hp := step_syntaxError_pos hs
        -- a step that ends in a syntax error leaves the configuration unchanged
        have hc : c' = c := by
          unfold step at hs
          repeat' split at hs
          all_goals (simp at hs)
          all_goals (try exact hs.1.symm)
        subst hc
        subst hev
        rw [hp]
        exact ⟨hi.pos, by simpa using hi.toks⟩
  have hp : parse raw.tables w none none fuel = run raw.tables w none none fuel init := by simp [parse]
  rw [hp] at h
  exact key fuel init (init_inv raw w) h

/-- Nothing after the offending token influences the outcome: callbacks, error index and state are
    the same for every continuation of the input. -/
theorem C20_suffix_irrelevant (u : List Nat) (a : Nat) (v v' : List Nat) (fuel : Nat)
    (ev : List Event) (st : Option Nat)
    (h : parse raw.tables (u ++ a :: v) none none fuel = (ev, .syntaxError u.length st)) :
    parse raw.tables (u ++ a :: v') none none fuel = (ev, .syntaxError u.length st) := by
  have hp : ∀ x, parse raw.tables x none none fuel = run raw.tables x none none fuel init := by
    intro x; simp [parse]
  rw [hp] at h ⊢
  apply run_prefix_deterministic raw.tables (u ++ a :: v) (u ++ a :: v') none none u.length ?_ fuel init ev st h
  intro j hj
  rw [lookahead_append_left _ u a v j hj, lookahead_append_left _ u a v' j hj]

/-- **The offending token is the first one that cannot go on**: once the tokens `u` followed by `a` have been rejected
    at `a`, no continuation whatever makes the parser accept an input that begins with `u`, `a` (the reported token is
    not blamed for something a later token could have put right). The other half of minimality - that `u` alone can
    still be completed to a sentence - is the viable-prefix property of the LALR(1) automaton; it is explored against
    the recursive-descent recogniser, not proved. -/
theorem C20_no_continuation (u : List Nat) (a : Nat) (v : List Nat) (fuel : Nat) (ev : List Event) (st : Option Nat)
    (h : parse raw.tables (u ++ a :: v) none none fuel = (ev, .syntaxError u.length st)) (v' : List Nat) :
    (parse raw.tables (u ++ a :: v') none none fuel).2 ≠ .accept := by
  rw [C20_suffix_irrelevant u a v v' fuel ev st h]
  intro hc; cases hc

/-- Non-vacuity: `grammar x y` (kinds 13 17 17) is rejected at the end marker, index 3 — the input
    merely ends too early and no earlier token is blamed; `grammar x y = "s"` fails at its end too. -/
example : (parse raw.tables [13, 17, 17] none none 200).2 = .syntaxError 3 (some 44) := by decide +kernel
example : (parse raw.tables [13, 17, 17, 0, 19] none none 200).2 = .syntaxError 5 (some 50) := by decide +kernel

end Emerge.Props.C20
