import Emerge.LREval
import Emerge.Props.C18
import Emerge.Proofs.EbnfTyped
/-
  C11 — the syntax trees of a specification reflect the source exactly.

  Proved here (for every table and every callback sequence): the generic tree that
  `ParseAndBuildAST` assembles from the callbacks has, read left to right, exactly the tokens the
  token callback was given, in order (`C11_leaves`), and every interior node carries a production
  whose body has as many symbols as the node has children (`C11_arity`).  Together with
  `C18_tokens`/`C18_order` (the token callback fires once per token in source order; the production
  callbacks are a rightmost derivation in reverse) this is "the leaves reproduce the significant
  tokens and every interior node applies one rule".
  The typed tree (ebnf/parser/ast): `EbnfTyped.typedAction` models all 35 evaluation actions of
  `ast.Parse` (tied to the code by printing both trees as S-expressions on every generated
  specification); `build` is what they do on the tree of a right-hand side (`C11_typed_actions`,
  `rfl`).  Proved: the typed right-hand side has the atoms of the source in source order
  (`C11_typed_order`), it has the documented meaning of the source (`C11_typed_meaning`: flattening
  juxtapositions/alternations and dropping parentheses change nothing), and therefore the language
  read off the typed tree is the language of the grammar `spec.Parse` derives for the same
  right-hand side (`C11_typed_language`, via C01's `C01_eval`).  The round trip through printing is
  decided per specification by checks/c11.py.
-/
namespace Emerge.Props.C11
open Emerge Emerge.LR

mutual
/-- the tokens at the leaves of a tree, left to right -/
def leaves : Node → List Nat
  | .leaf i => [i]
  | .inner _ cs => leavesList cs
def leavesList : List Node → List Nat
  | [] => []
  | c :: cs => leaves c ++ leavesList cs
end

theorem leavesList_append (a b : List Node) : leavesList (a ++ b) = leavesList a ++ leavesList b := by
  induction a with
  | nil => simp [leavesList]
  | cons x a ih => simp [leavesList, ih, List.append_assoc]

/-- the stack read from the bottom: the leaves of everything built so far -/
def stackLeaves (st : List Node) : List Nat := leavesList st.reverse

theorem popValues_split {α} : ∀ (n : Nat) (st : List α) (vs st' : List α),
    popValues n st = some (vs, st') → st = vs.reverse ++ st' ∧ vs.length = n := by
  intro n
  induction n with
  | zero => intro st vs st' h; simp [popValues] at h; obtain ⟨rfl, rfl⟩ := h; simp
  | succ n ih =>
    intro st vs st' h
    cases st with
    | nil => simp [popValues] at h
    | cons v st =>
      simp only [popValues] at h
      cases hp : popValues n st with
      | none => simp [hp] at h
      | some r =>
        obtain ⟨vs0, st0⟩ := r
        simp only [hp, Option.some.injEq, Prod.mk.injEq] at h
        obtain ⟨rfl, rfl⟩ := h
        obtain ⟨h1, h2⟩ := ih st vs0 st0 hp
        subst h1
        simp [h2]

/-- tokens handed to the token callback, in order -/
def toks (evs : List Event) : List Nat := evs.filterMap fun e => match e with | .tok i => some i | _ => none

/-- **Leaves = tokens**: whatever the tables, if the tree builder runs through the callback
    sequence, the stack it ends with has, bottom to top and left to right, exactly the tokens of
    the token callbacks, in order. -/
theorem astEvents_leaves (prods : List Prod) : ∀ (evs : List Event) (st st' : List Node),
    astEvents prods evs st = some st' → stackLeaves st' = stackLeaves st ++ toks evs := by
  intro evs
  induction evs with
  | nil => intro st st' h; simp [astEvents] at h; subst h; simp [toks]
  | cons e es ih =>
    intro st st' h
    cases e with
    | tok i =>
      simp only [astEvents] at h
      have := ih _ _ h
      rw [this]
      simp [stackLeaves, leavesList_append, leavesList, leaves, toks]
    | prod p =>
      simp only [astEvents] at h
      cases hp : prods[p]? with
      | none => simp [hp] at h
      | some pr =>
        obtain ⟨A, β⟩ := pr
        simp only [hp] at h
        cases hv : popValues β.length st with
        | none => simp [hv] at h
        | some r =>
          obtain ⟨cs, st0⟩ := r
          simp only [hv] at h
          have := ih _ _ h
          rw [this]
          obtain ⟨hsplit, _⟩ := popValues_split _ _ _ _ hv
          subst hsplit
          simp [stackLeaves, leavesList_append, leavesList, leaves, toks]

/-- For an accepted specification the root's leaves are the significant tokens 0, 1, …, n-1. -/
theorem C11_leaves {w : List Nat} (hw : ∀ a ∈ w, a ≠ Inst.Tables.raw.eof) {fuel : Nat} {ev : List Event}
    (hacc : parse Inst.Tables.raw.tables w none none fuel = (ev, .accept)) {root : Node} {rest : List Node}
    (hb : astEvents Inst.Tables.raw.tables.prods ev [] = some (root :: rest)) :
    stackLeaves (root :: rest) = List.range w.length := by
  have h1 := astEvents_leaves _ ev [] _ hb
  have h2 := Props.C18.C18_tokens hw hacc
  simp only [stackLeaves, List.reverse_nil, leavesList, List.nil_append] at h1
  rw [show toks ev = Props.C18.tokCalls ev from rfl] at h1
  simp only [stackLeaves]
  rw [h1, h2]

mutual
/-- every interior node has as many children as its production's body has symbols -/
def arityOK (prods : List Prod) : Node → Bool
  | .leaf _ => true
  | .inner p cs => (match prods[p]? with | some (_, β) => β.length == lenList cs | none => false) && arityAll prods cs
def arityAll (prods : List Prod) : List Node → Bool
  | [] => true
  | c :: cs => arityOK prods c && arityAll prods cs
def lenList : List Node → Nat
  | [] => 0
  | _ :: cs => lenList cs + 1
end

theorem lenList_eq (cs : List Node) : lenList cs = cs.length := by
  induction cs with
  | nil => rfl
  | cons c cs ih => simp [lenList, ih]

theorem arityAll_append (prods) (a b : List Node) : arityAll prods (a ++ b) = (arityAll prods a && arityAll prods b) := by
  induction a with
  | nil => simp [arityAll]
  | cons x a ih => simp [arityAll, ih, Bool.and_assoc]

theorem arityAll_reverse (prods) (a : List Node) : arityAll prods a.reverse = arityAll prods a := by
  induction a with
  | nil => rfl
  | cons x a ih => simp [arityAll_append, arityAll, ih, Bool.and_comm]

/-- **Every interior node applies one rule**: the builder only ever creates nodes whose children
    are as many as the body symbols of the node's production. -/
theorem C11_arity (prods : List Prod) : ∀ (evs : List Event) (st st' : List Node),
    astEvents prods evs st = some st' → arityAll prods st = true → arityAll prods st' = true := by
  intro evs
  induction evs with
  | nil => intro st st' h hst; simp [astEvents] at h; subst h; exact hst
  | cons e es ih =>
    intro st st' h hst
    cases e with
    | tok i => simp only [astEvents] at h; exact ih _ _ h (by simp [arityAll, arityOK, hst])
    | prod p =>
      simp only [astEvents] at h
      cases hp : prods[p]? with
      | none => simp [hp] at h
      | some pr =>
        obtain ⟨A, β⟩ := pr
        simp only [hp] at h
        cases hv : popValues β.length st with
        | none => simp [hv] at h
        | some r =>
          obtain ⟨cs, st0⟩ := r
          simp only [hv] at h
          obtain ⟨hsplit, hlen⟩ := popValues_split _ _ _ _ hv
          subst hsplit
          rw [arityAll_append, arityAll_reverse] at hst
          simp only [Bool.and_eq_true] at hst
          refine ih _ _ h ?_
          simp [arityAll, arityOK, hp, lenList_eq, hlen, hst.1, hst.2]

/-- Non-vacuity: `grammar x ; x = "s" ;` -/
example : (match astEvents Inst.Tables.raw.tables.prods (parse Inst.Tables.raw.tables [13, 17, 1, 17, 0, 19, 1] none none 200).1 [] with
    | some (root :: _) => leaves root == List.range 7 && arityOK Inst.Tables.raw.tables.prods root
    | _ => false) = true := by decide +kernel

/-! ### the typed tree -/

open Emerge.Ebnf Emerge.EbnfTyped Emerge.Props.C01 in
/-- **Operand order**: the typed right-hand side has the terminals, non-terminals and empty alternatives of the source,
    left to right, in the order of the source. -/
theorem C11_typed_order (r : Rhs) : atomsT (build r) = atoms r := build_atoms r

open Emerge.Ebnf Emerge.EbnfTyped Emerge.Props.C01 in
/-- **Meaning**: the typed right-hand side (juxtaposition and alternation flattened, parentheses dropped) has the
    documented meaning of the right-hand side as written, for every interpretation of the non-terminals. -/
theorem C11_typed_meaning (env : String → Lang) (r : Rhs) (w : List String) : denoteT env (build r) w ↔ denote env r w :=
  build_denote env r w

open Emerge.Ebnf Emerge.EbnfTyped Emerge.Props.C01 in
/-- **Agreement with the derived grammar**: the language read off the typed tree of a right-hand side is the language
    of the alternatives `spec.Parse` derives for it, in the least fixed point of any later well-formed table. -/
theorem C11_typed_language (cfg : Cfg) (names : List (String × String)) (r : Rhs) (t : SymTab)
    (ht : TableOk t) (hf : FreshNames cfg names t r) (t'' : SymTab) (ht'' : TableOk t'')
    (hext : Ext (evalRhs cfg names t r).1 t'') (w : List String) :
    denoteT (L t''.prods) (build r) w ↔ langStrings (L t''.prods) (evalRhs cfg names t r).2 w := by
  rw [build_denote]
  exact ((evalRhs_sound cfg names r t ht hf).2.2 t'' ht'' hext w).symm

open Emerge.Ebnf Emerge.EbnfTyped Emerge.Props.C01 in
/-- `build` is `typedAction` (the model of the evaluation function of `ast.Parse`), case by case. -/
theorem C11_typed_actions (pd : List (String × String)) (l r : Rhs) (x y : TVal) (a : String) :
    typedAction pd 31 [.str a] = .ok (.rhs (build (.term a))) ∧
    typedAction pd 30 [.str a] = .ok (.rhs (build (.nonterm a))) ∧
    typedAction pd 23 [.rhs (build l), .rhs (build r)] = .ok (.rhs (build (.cat l r))) ∧
    typedAction pd 28 [.rhs (build l), x, .rhs (build r)] = .ok (.rhs (build (.alt l r))) ∧
    typedAction pd 29 [.rhs (build l), x] = .ok (.rhs (build (.altEmpty l))) ∧
    typedAction pd 24 [x, .rhs (build r), y] = .ok (.rhs (build (.op .group r))) ∧
    typedAction pd 25 [x, .rhs (build r), y] = .ok (.rhs (build (.op .opt r))) ∧
    typedAction pd 26 [x, .rhs (build r), y] = .ok (.rhs (build (.op .star r))) ∧
    typedAction pd 27 [x, .rhs (build r), y] = .ok (.rhs (build (.op .plus r))) :=
  ⟨rfl, rfl, rfl, rfl, rfl, rfl, rfl, rfl, rfl⟩

open Emerge.Ebnf Emerge.EbnfTyped Emerge.Props.C01 in
/-- Non-vacuity: `a ( b c ) d | ( x | y ) |` is built as `alt [concat [a, b, c, d], x, y, ε]`. -/
example : build (.altEmpty (.alt (.cat (.cat (.nonterm "a") (.op .group (.cat (.nonterm "b") (.nonterm "c")))) (.nonterm "d"))
    (.op .group (.alt (.nonterm "x") (.nonterm "y"))))) =
    .alt [.concat [.nonterm "a", .nonterm "b", .nonterm "c", .nonterm "d"], .nonterm "x", .nonterm "y", .empty] := rfl

end Emerge.Props.C11
