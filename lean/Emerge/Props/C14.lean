import Emerge.Props.C16
import Emerge.Props.C09
/-
  C14 — no input crashes or hangs emerge; failures are errors and clean non-zero exits.

  The Lean models of the entry points are total functions in which every Go operation that can
  panic is an explicit outcome; the check (checks/c14.py) compares their outcome class with the
  implementation's on arbitrary inputs and looks for panics, hangs, (nil, nil) results and stack
  traces directly.  Proved here: what the command-line model does on failure, and that the pattern
  entry points reject the empty pattern (a former panic).  Termination of the real LR driver and
  of the dependency's automata constructions is NOT proved (time-outs stand in for it).
-/
namespace Emerge.Props.C14
open Emerge Emerge.Cli

/-- Every failing run carries a message and a non-zero exit status; a run never ends in both. -/
theorem C14_cli_failure_has_message (fl : Flags) (fs : FS) (input : InputState) (sr : SpecResult) (idValid : String → Bool)
    (render : String → String) (faults : List Fault) :
    (run fl fs input sr idValid render faults).success = false → (run fl fs input sr idValid render faults).message = true := by
  unfold run
  split; · simp
  split; · simp
  split; · simp
  split; · simp
  split
  · simp
  · split
    · simp
    · split
      · split
        · simp
        · simp only; split <;> simp
      · simp

/-- An unparsable command line (unknown flag, missing value) ends with exit status 2 and changes nothing. -/
theorem C14_cli_usage_error (fl : Flags) (fs : FS) (input : InputState) (sr : SpecResult) (idValid : String → Bool)
    (render : String → String) (faults : List Fault) (h : fl.parseError = true) :
    (run fl fs input sr idValid render faults).exit = 2 ∧ (run fl fs input sr idValid render faults).fs = fs := by
  simp [run, h]

/-- The exit status is always 0, 1 or 2 (never Go's crash status). -/
theorem C14_cli_exit_codes (fl : Flags) (fs : FS) (input : InputState) (sr : SpecResult) (idValid : String → Bool)
    (render : String → String) (faults : List Fault) :
    (run fl fs input sr idValid render faults).exit ≤ 2 := by
  unfold run
  split; · simp
  split; · simp
  split; · simp
  split; · simp
  split
  · simp
  · split
    · simp
    · split
      · split
        · simp
        · simp only; split <;> simp
      · simp

/-- The empty pattern is an error, not a crash (model of the repaired entry points). -/
theorem C14_empty_pattern : Props.C09.accept [] = .invalid := rfl

end Emerge.Props.C14
