import Emerge.Emitted
import Emerge.Proofs.Scanner
import Emerge.Proofs.Reader
import Emerge.Proofs.ReaderNext
import Emerge.Proofs.Utf8
import Emerge.Inst.ReaderTmpl
import Emerge.Inst.LexerTmpl
/-
  C19 — the emitted lexer tokenises input exactly as the token automaton prescribes.

  `Emitted.segments` is the model of the emitted `NextToken` loop (tied to the compiled artefact by
  checks/c19.py).  Proved here for EVERY automaton (any transition function, any accepting table —
  including automata that re-enter their start state): the segmentation it computes is the
  declarative one (`Tokenised`): from each token start the longest run the automaton allows, a
  lexical error naming the run if the state reached is not accepting, spaces/tabs/line terminators
  that no token starts with discarded, any other stray character a lexical error naming it, end of
  input after the last token; every lexeme is the exact text, every position that of its first
  character; nothing but discarded blanks is lost.
  The emitted two-half reader (input.go.tmpl; model `Emerge.Reader`, tied to the compiled template
  by the `reader` correspondence of checks/c19.py) is proved to be the plain byte stream for EVERY
  half size, source length and block alignment (`C19_reader`, `C19_reader_lexeme`): `next`,
  `Retract`, `Lexeme` and `Skip` return what a cursor over the whole source returns, as long as the
  calls stay within the reader's contract (a `Retract` gives back bytes of the pending lexeme, at most one
  half outstanding) - for EVERY source, zero bytes included: the end of the input is the index of the sentinel
  (`RState.stop`), not the first zero byte (the repair of a second defect this model exposed: the refinement
  needed the hypothesis "the source has no NUL", and the real lexer silently dropped everything after a zero byte). A lexeme may be longer than the buffer: its bytes
  are kept as they are read (the repair of a defect this model exposed: `Lexeme` used to read them
  back from the halves, and the refinement needed the hypothesis "lexeme plus look-ahead fit into one
  half" - the real lexer returned the tail of any token longer than 8 KiB). UTF-8: the bytes of any text of Unicode
  scalar values decode to that text (`C19_utf8`, `Utf8.decode` is the table-driven decoder of the
  emitted `Next`), a rune gives back 1 to 4 bytes, and a text without U+0000 has no NUL byte. The emitted `Next` (model `Reader.nextRune`: 1 to 4 calls of
  `next`, first-byte classes and second-byte ranges as the template's tables give them) returns, in
  every reachable state of the reader, the scalar value whose encoding lies at the cursor and moves
  the cursor behind it (`C19_next_rune`) - also when the bytes of the rune straddle a reload.
-/
namespace Emerge.Props.C19
open Emerge Emerge.Scanner Emerge.Emitted

/-- What the property prescribes, declaratively. -/
inductive Tokenised (S : Spec) : Pos → List Rune → List Seg → End → Prop where
  | eof (p : Pos) : Tokenised S p [] [] .eof
  | blank (p : Pos) (r : Rune) (rest : List Rune) (segs : List Seg) (e : End) :
      S.adv 0 r = none → isSpace r = true → Tokenised S (advPos p r) rest segs e →
      Tokenised S p (r :: rest) segs e
  | stray (p : Pos) (r : Rune) (rest : List Rune) :
      S.adv 0 r = none → isSpace r = false → Tokenised S p (r :: rest) [] (.lexErr p [r])
  | seg (p : Pos) (rs c rest : List Rune) (q : Nat) (segs : List Seg) (e : End) :
      LongestRun S.adv 0 rs c q → rs = c ++ rest → c ≠ [] → (S.eval q).isSome = true →
      Tokenised S (advPosList p c) rest segs e →
      Tokenised S p rs (⟨q, c, p⟩ :: segs) e
  | err (p : Pos) (rs c : List Rune) (q : Nat) :
      LongestRun S.adv 0 rs c q → c ≠ [] → S.eval q = none →
      Tokenised S p rs [] (.lexErr p c)

theorem munch_cons_some {adv : Nat → Rune → Option Nat} {s s' : Nat} {r : Rune} (rs : List Rune) (h : adv s r = some s') :
    munch adv s (r :: rs) = ((munch adv s' rs).1, r :: (munch adv s' rs).2.1, (munch adv s' rs).2.2) := by
  simp [munch, h]

/-- **The emitted lexer is maximal munch over the automaton** — for every automaton, every input,
    every starting position. -/
theorem C19_lexer (S : Spec) : ∀ (fuel : Nat) (p : Pos) (rs : List Rune), rs.length < fuel →
    Tokenised S p rs (Emitted.segments S fuel p rs).1 (Emitted.segments S fuel p rs).2 := by
  intro fuel
  induction fuel with
  | zero => intro p rs h; omega
  | succ n ih =>
    intro p rs hlen
    cases rs with
    | nil => simp [Emitted.segments]; exact .eof p
    | cons r rest =>
      simp only [Emitted.segments]
      cases hadv : S.adv 0 r with
      | none =>
        simp only
        cases hsp : isSpace r with
        | true =>
          simp only [if_true]
          exact .blank p r rest _ _ hadv hsp (ih (advPos p r) rest (by simp at hlen; omega))
        | false =>
          simp only [Bool.false_eq_true, if_false]
          exact .stray p r rest hadv hsp
      | some s' =>
        simp only
        have hm := munch_cons_some (adv := S.adv) rest hadv
        have hlong := munch_longest S.adv 0 (r :: rest)
        have happ := munch_append S.adv 0 (r :: rest)
        have hne : (munch S.adv 0 (r :: rest)).2.1 ≠ [] := by rw [hm]; simp
        cases hev : S.eval (munch S.adv 0 (r :: rest)).1 with
        | none => exact .err p _ _ _ hlong hne hev
        | some v =>
          simp only
          have hrest : (munch S.adv 0 (r :: rest)).2.2.length < n := by
            have := congrArg List.length happ
            simp only [List.length_append, List.length_cons] at this
            have h1 : 0 < (munch S.adv 0 (r :: rest)).2.1.length := List.length_pos_iff.mpr hne
            simp at hlen; omega
          exact .seg p _ _ _ _ _ _ hlong happ.symm hne (by rw [hev]; rfl) (ih _ _ hrest)

theorem C19_scan (S : Spec) (rs : List Rune) :
    Tokenised S Pos.start rs (Emitted.segments S (rs.length + 1) Pos.start rs).1 (Emitted.segments S (rs.length + 1) Pos.start rs).2 :=
  C19_lexer S _ _ _ (Nat.lt_succ_self _)

/-- **Exact lexemes at exact positions**: every segment is a piece of the input, and its position
    is the position reached by reading everything before it (offset, line and column of its first
    character). -/
theorem C19_positions {S : Spec} {p : Pos} {rs : List Rune} {segs : List Seg} {e : End}
    (h : Tokenised S p rs segs e) :
    ∀ g ∈ segs, ∃ pre post, rs = pre ++ g.text ++ post ∧ g.pos = advPosList p pre := by
  induction h with
  | eof p => intro g hg; cases hg
  | blank p r rest segs e _ _ _ ih =>
    intro g hg
    obtain ⟨pre, post, h1, h2⟩ := ih g hg
    exact ⟨r :: pre, post, by rw [h1]; simp, by rw [h2]; rfl⟩
  | stray p r rest _ _ => intro g hg; cases hg
  | seg p rs c rest q segs e _ hrs _ _ _ ih =>
    intro g hg
    rcases List.mem_cons.mp hg with rfl | hg
    · exact ⟨[], rest, by simpa using hrs, rfl⟩
    · obtain ⟨pre, post, h1, h2⟩ := ih g hg
      exact ⟨c ++ pre, post, by rw [hrs, h1]; simp, by rw [h2, advPosList_append]⟩
  | err p rs c q _ _ _ => intro g hg; cases hg

/-- **Nothing but discarded blanks is lost**: when the end of the input is reached, the input is
    the segments' texts in order with only spaces, tabs and line terminators in between. -/
theorem C19_partition {S : Spec} {p : Pos} {rs : List Rune} {segs : List Seg} {e : End}
    (h : Tokenised S p rs segs e) (he : e = .eof) :
    rs.filter (fun r => !isSpace r) = (segs.flatMap (·.text)).filter (fun r => !isSpace r) := by
  induction h with
  | eof p => rfl
  | blank p r rest segs e _ hsp _ ih => simp [hsp, ih he]
  | stray p r rest _ _ => cases he
  | seg p rs c rest q segs e _ hrs _ _ _ ih => rw [hrs]; simp [ih he]
  | err p rs c q _ _ _ => cases he

/-- The end of input is reported only after the last token: if the segmentation ends with `eof`
    every character of the input was consumed by a segment or discarded as a blank (previous
    theorem), and an error is reported at the first position where no token and no blank fits. -/
theorem C19_error_position {S : Spec} {p : Pos} {rs : List Rune} {segs : List Seg} {q : Pos} {t : List Rune}
    (h : Tokenised S p rs segs (.lexErr q t)) :
    ∃ pre post, rs = pre ++ t ++ post ∧ q = advPosList p pre ∧ t ≠ [] := by
  generalize he : End.lexErr q t = e at h
  induction h with
  | eof p => cases he
  | blank p r rest segs e _ _ _ ih =>
    obtain ⟨pre, post, h1, h2, h3⟩ := ih he
    exact ⟨r :: pre, post, by rw [h1]; simp, by rw [h2]; rfl, h3⟩
  | stray p r rest _ _ => injection he with h1 h2; subst h1; subst h2; exact ⟨[], rest, by simp, rfl, by simp⟩
  | seg p rs c rest q' segs e _ hrs _ _ _ ih =>
    obtain ⟨pre, post, h1, h2, h3⟩ := ih he
    exact ⟨c ++ pre, post, by rw [hrs, h1]; simp, by rw [h2, advPosList_append], h3⟩
  | err p rs c q' hl hne _ =>
    injection he with h1 h2; subst h1; subst h2
    obtain ⟨post, hp⟩ := hl.1
    exact ⟨[], post, by simpa using hp.symm, rfl, hne⟩

/-- Non-vacuity: identifiers, a keyword winning over them, unmatched blanks discarded, last token without newline. -/
def demo : Spec := specOf [(0, 97, 122, 1), (1, 97, 122, 1), (0, 48, 57, 2), (2, 48, 57, 2)] [(1, "ID"), (2, "NUM")]
example : (Emitted.scan demo [97, 98, 32, 10, 49, 50, 9, 120]).1.map (fun t => (t.kind, t.lexeme, t.pos.off, t.pos.line, t.pos.col)) =
    [("ID", [97, 98], 0, 1, 1), ("NUM", [49, 50], 4, 2, 1), ("ID", [120], 7, 2, 4)] := by decide
example : (Emitted.scan demo [97, 63]).2 = .lexErr ⟨1, 1, 2⟩ [63] := by decide

/-! ### the reader under the emitted lexer -/

open Emerge.Reader in
/-- **The two-half reader is the plain stream.** For every source (any bytes, zero bytes included), every half size `n ≥ 1`
    (the emitted constant is 4096; the check also compiles it with 4 and 8) and every sequence of `next` /
    `Retract(size)` / `Lexeme` / `Skip` calls within the contract, the outputs of the reader (bytes, end of input,
    lexemes of any length) are those of a cursor over the whole source: independent of the input length, of where
    the buffer halves fall and of how often a half has been reloaded. -/
theorem C19_reader {src : Nat → Nat} {len n : Nat} (hn : 0 < n) (buf0 : Nat → Nat)
    (ops : List Reader.Op) (outs : List Out) (h : aRun src len n ⟨0, 0, 0⟩ ops = some outs) :
    cRun src len n (init src len n buf0) ops = outs :=
  reader_is_stream hn buf0 ops outs h

open Emerge.Reader in
/-- `Lexeme` in any reachable state returns the bytes between the start of the pending lexeme and the cursor —
    however long the lexeme is (the bytes are kept as they are read, not read back from the buffer halves). -/
theorem C19_reader_lexeme {src : Nat → Nat} {len n : Nat} {s : RState} {a : AState} {g : Ghost}
    (h : Inv2 src len n s a g) : (lexeme s).1 = (List.range (a.k - a.kb)).map (fun i => src (a.kb + i)) :=
  h.pending

open Emerge.Reader in
/-- Non-vacuity: half size 4, an 11-byte source, a run that crosses three half boundaries, gives bytes back across a
    boundary and takes lexemes; it is within the contract, and the reader's outputs are the stream's. -/
example :
    let src : Nat → Nat := fun i => [97, 98, 99, 100, 101, 102, 103, 104, 105, 106, 107].getD i 0
    let ops : List Reader.Op := [.next, .next, .next, .retract 2, .next, .lexeme, .next, .next, .next, .next, .skip,
      .next, .next, .next, .retract 3, .next, .next, .next, .lexeme, .next, .next, .next, .next]
    aRun src 11 4 ⟨0, 0, 0⟩ ops = some (cRun src 11 4 (init src 11 4 (fun _ => 0)) ops) ∧
    (cRun src 11 4 (init src 11 4 (fun _ => 0)) ops).getLast? = some .eof := by decide

/-- **Text and bytes**: for every text of Unicode scalar values, tokenising the decoded bytes of its UTF-8 encoding
    is tokenising the text (decoding ends at end of input, never in an error). -/
theorem C19_utf8 (S : Spec) (rs : List Rune) (h : ∀ r ∈ rs, Utf8.Scalar r) (fuel : Nat) (hf : rs.length ≤ fuel) :
    Emitted.scan S (Utf8.decode fuel (Utf8.encode rs)).1 = Emitted.scan S rs ∧
    (Utf8.decode fuel (Utf8.encode rs)).2 = .eof := by
  rw [Utf8.decode_encode rs h fuel hf]; exact ⟨rfl, rfl⟩

/-- the bytes of a text without U+0000 contain no NUL: the reader's sentinel cannot occur in the source -/
theorem C19_no_nul (rs : List Rune) (h : ∀ r ∈ rs, r ≠ 0) : ∀ b ∈ Utf8.encode rs, b ≠ 0 := by
  intro b hb
  simp only [Utf8.encode, List.mem_flatMap] at hb
  obtain ⟨r, hr, hb⟩ := hb
  exact Utf8.encodeRune_nul_free r (h r hr) b hb

example : Utf8.decode 3 (Utf8.encode [0x61, 0x20AC, 0x1F600]) = ([0x61, 0x20AC, 0x1F600], .eof) := by decide

/-! ### the tie of the reader model to the template (regenerated from input.go.tmpl on every run) -/

open Emerge.Reader in
/-- **`Next` returns the rune at the cursor**, in every reachable state of the reader (any half size, any alignment,
    re-reading given-back bytes or loading a half in the middle of the sequence): if the UTF-8 encoding of the scalar
    value `r` lies in the source at the cursor, the result is `r` with the length of that encoding (what `Retract` will
    give back), and the reader is at the cursor behind it. -/
theorem C19_next_rune {src : Nat → Nat} {len n : Nat} {s : RState} {a : AState} {g : Ghost}
    (h : Inv2 src len n s a g) (r : Nat) (hr : Utf8.Scalar r)
    (hfit : a.k + (Utf8.encodeRune r).length ≤ len)
    (hat : ∀ i, i < (Utf8.encodeRune r).length → src (a.k + i) = (Utf8.encodeRune r).getD i 0) :
    ∃ g', (nextRune src len n s).1 = .rune r (Utf8.encodeRune r).length ∧
      Inv2 src len n (nextRune src len n s).2
        ⟨a.k + (Utf8.encodeRune r).length, a.p - (Utf8.encodeRune r).length, a.kb⟩ g' :=
  nextRune_refines h r hr hfit hat

/-- The byte-level methods of the emitted reader read, statement for statement, as the ones `Emerge.Reader` models;
    its sentinel is NUL; its UTF-8 tables classify every first byte as `Utf8.decode` does. -/
theorem C19_reader_template :
    Gen.ReaderTmpl.body_load = Ref.ReaderTmpl.body_load ∧ Gen.ReaderTmpl.body_loadFirst = Ref.ReaderTmpl.body_loadFirst ∧
    Gen.ReaderTmpl.body_loadSecond = Ref.ReaderTmpl.body_loadSecond ∧ Gen.ReaderTmpl.body_next = Ref.ReaderTmpl.body_next ∧
    Gen.ReaderTmpl.body_Next = Ref.ReaderTmpl.body_Next ∧
    Gen.ReaderTmpl.body_Retract = Ref.ReaderTmpl.body_Retract ∧ Gen.ReaderTmpl.body_Lexeme = Ref.ReaderTmpl.body_Lexeme ∧
    Gen.ReaderTmpl.body_Skip = Ref.ReaderTmpl.body_Skip ∧ Gen.ReaderTmpl.eof = 0 ∧
    (∀ b0 : Nat, b0 < 256 → Inst.ReaderTmpl.tableClass b0 = Inst.ReaderTmpl.rangeClass b0) :=
  ⟨Inst.ReaderTmpl.body_load_eq, Inst.ReaderTmpl.body_loadFirst_eq, Inst.ReaderTmpl.body_loadSecond_eq,
   Inst.ReaderTmpl.body_next_eq, Inst.ReaderTmpl.body_Next_eq, Inst.ReaderTmpl.body_Retract_eq, Inst.ReaderTmpl.body_Lexeme_eq,
   Inst.ReaderTmpl.body_Skip_eq, Inst.ReaderTmpl.sentinel_is_nul, Inst.ReaderTmpl.class_eq⟩

/-- The emitted lexer's `New`, `NextToken`, `scanToken`, `evalToken`, its constants and the two table templates read, statement for
    statement, as the ones `Emerge.Emitted` (and `Emerge.Lexgen`, C08) model. -/
theorem C19_lexer_template :
    Gen.LexerTmpl.body_NextToken = Ref.LexerTmpl.body_NextToken ∧ Gen.LexerTmpl.body_scanToken = Ref.LexerTmpl.body_scanToken ∧
    Gen.LexerTmpl.body_evalToken = Ref.LexerTmpl.body_evalToken ∧
    Gen.LexerTmpl.body_New = Ref.LexerTmpl.body_New ∧ Gen.LexerTmpl.const_errorState = "-1" ∧
    Gen.LexerTmpl.const_bufferSize = "4096" ∧ Gen.LexerTmpl.tmpl_evalDFA = Ref.LexerTmpl.tmpl_evalDFA ∧
    Gen.LexerTmpl.tmpl_advanceDFA = Ref.LexerTmpl.tmpl_advanceDFA :=
  ⟨Inst.LexerTmpl.body_NextToken_eq, Inst.LexerTmpl.body_scanToken_eq, Inst.LexerTmpl.body_evalToken_eq, Inst.LexerTmpl.body_New_eq, rfl, rfl,
   Inst.LexerTmpl.tmpl_evalDFA_eq, Inst.LexerTmpl.tmpl_advanceDFA_eq⟩

end Emerge.Props.C19
