import Emerge.Gen.Globals
/-
  C17 — processing is a pure function of the text: no cross-run / cross-goroutine interference.

  The logic that can be carried by a theorem: if every task touches only its own cells (everything
  emerge allocates per call) and shared cells are never written, then under EVERY interleaving each
  task ends in the state it reaches when run alone (`C17_frame`), and so in every sequential order
  (`C17_sequential`); and a single shared cell that tasks reset, update and read — a package-level
  hasher — does make results depend on the interleaving (`C17_shared_hasher_interferes`, a kernel-checked
  witness with a toy hash).  The tie to the source: the package-level variables of the tool's
  non-test code are re-extracted on every run and must be exactly the classified, read-only ones.
  What a theorem cannot carry is the Go memory model: absence of data races in the real code
  (including the dependency's package-level hashers and shuffle generator) is observed with the
  race detector (checks/c17.py), not proved.
-/
namespace Emerge.Props.C17
open Emerge

/-- package-level variables and why each is not shared mutable state -/
def classified : List ((String × String × String) × String) := [
  (("internal/command/command.go", "plum", "call ui.Fg256Color"), "colour constant"),
  (("internal/command/command.go", "gold", "call ui.Fg256Color"), "colour constant"),
  (("internal/command/command.go", "chartreuse", "call ui.Fg256Color"), "colour constant"),
  (("internal/command/command.go", "emojis", "literal"), "read-only table"),
  (("internal/ebnf/parser/parser.go", "Predefs", "literal"), "read-only table"),
  (("internal/ebnf/parser/parsing_table.go", "terminals", "literal"), "read-only table"),
  (("internal/ebnf/parser/parsing_table.go", "nonTerminals", "literal"), "read-only table"),
  (("internal/ebnf/parser/parsing_table.go", "productions", "literal"), "read-only table"),
  (("internal/ebnf/parser/parsing_table.go", "G", "call grammar.NewCFG"), "read-only grammar object"),
  (("internal/ebnf/parser/parsing_table.go", "precedences", "literal"), "read-only table"),
  (("internal/ebnf/parser/spec/symbol_table.go", "terminalNames", "literal"), "read-only table"),
  (("internal/generate/golang/code.go", "idRegex", "call regexp.MustCompile"), "regexp.Regexp is safe for concurrent use"),
  (("internal/generate/golang/code.go", "builtin", "literal"), "read-only table"),
  (("internal/generate/golang/golang.go", "templates", "zero embed.FS"), "embedded read-only files"),
  (("internal/generate/golang/golang.go", "navajoWhite", "call ui.Fg256Color"), "colour constant"),
  (("internal/generate/golang/golang.go", "darkOrange", "call ui.Fg256Color"), "colour constant"),
  (("internal/generate/golang/golang.go", "hotPink", "call ui.Fg256Color"), "colour constant"),
  (("internal/generate/golang/golang.go", "orchid", "call ui.Fg256Color"), "colour constant"),
  (("internal/regex/parser/parser.go", "escapedChars", "literal"), "read-only table"),
  (("internal/regex/parser/rune.go", "RuneClasses", "literal"), "read-only table")]

/-- **Tie**: emerge itself has no package-level mutable state (after the `fix:` that made the key
    hasher of `hashStrings` local to the call). -/
theorem C17_no_shared_mutable_state : Gen.Globals.vars = classified.map (·.1) := rfl

/-! ### the frame argument -/

/-- A step of task `i` computes its new private state from the read-only shared data and its own state. -/
structure System (Shared Priv : Type) where
  step : Nat → Shared → Priv → Priv        -- task id ↦ one atomic step

/-- run a schedule (a sequence of task ids, one atomic step each) from the private states `st` -/
def exec {Shared Priv : Type} (S : System Shared Priv) (sh : Shared) : List Nat → (Nat → Priv) → (Nat → Priv)
  | [], st => st
  | i :: rest, st => exec S sh rest (fun j => if j = i then S.step i sh (st i) else st j)

/-- task `i` alone, for as many steps as it has in the schedule -/
def alone {Shared Priv : Type} (S : System Shared Priv) (sh : Shared) (i : Nat) : Nat → Priv → Priv
  | 0, p => p
  | n + 1, p => alone S sh i n (S.step i sh p)

/-- **Frame**: under every interleaving, every task ends exactly where it ends when run alone. -/
theorem C17_frame {Shared Priv : Type} (S : System Shared Priv) (sh : Shared) (sched : List Nat) (st : Nat → Priv) (i : Nat) :
    exec S sh sched st i = alone S sh i (sched.filter (· == i)).length (st i) := by
  induction sched generalizing st with
  | nil => rfl
  | cons j rest ih =>
    simp only [exec]
    rw [ih]
    by_cases hj : j = i
    · subst hj; simp [alone]
    · have : (j == i) = false := by simpa using hj
      simp [List.filter, this, Ne.symm hj]

/-- **Sequential orders**: processing inputs one after the other in any order is one particular
    interleaving, so the result for each input is again the isolated one. -/
theorem C17_sequential {Shared Priv : Type} (S : System Shared Priv) (sh : Shared) (order : List (Nat × Nat)) (st : Nat → Priv) (i : Nat) :
    exec S sh (order.flatMap fun (t, n) => List.replicate n t) st i =
      alone S sh i ((order.flatMap fun (t, n) => List.replicate n t).filter (· == i)).length (st i) :=
  C17_frame S sh _ st i

/-! ### a shared hasher does interfere -/

/-- a toy hasher cell: `reset` sets it to 7, `write b` mixes a byte in; `sum` reads it -/
inductive HOp where
  | reset
  | write (b : Nat)
  deriving DecidableEq

def hstep (h : Nat) : HOp → Nat
  | .reset => 7
  | .write b => (h * 31 + b) % 1009

def hrun (ops : List HOp) (h : Nat) : Nat := ops.foldl hstep h

/-- Two tasks hashing different keys through ONE shared cell: run alone the first obtains 255;
    in the interleaving where the second resets the cell in the middle it obtains 247 — a different
    key hash, hence a different table slot. -/
theorem C17_shared_hasher_interferes :
    hrun [.reset, .write 1, .write 2] 0 ≠ hrun [.reset, .write 1, /- other task -/ .reset, .write 9, /- back -/ .write 2] 0 := by
  decide

end Emerge.Props.C17
