import Emerge.Inst.Regex
/-
  C09 — a pattern is accepted only as a whole sentence of the documented pattern grammar.

  `parsePat Gen.rules Gen.top T` is the model of `nfa.Parse` and of regex `ast.Parse` up to the
  construction of the automaton (both run the same grammar and the same checks); the grammar it
  interprets is regenerated from parser.go on every run and proved equal to the documented one.
-/
namespace Emerge.Props.C09
open Emerge Emerge.Regex

abbrev accept (s : List Rune) : ParseOutcome :=
  parsePat Gen.Regex.rules Gen.Regex.top Gen.Regex.runeClasses s

/-- **Nothing is ignored**: if a pattern is accepted, its *entire* text is a sentence of the
    documented pattern grammar (derivable from `regex`). -/
theorem C09_whole_input (s : List Rune) (p : Pat) (h : accept s = .ok p) : Ref.Regex.DocRegex s := by
  unfold accept parsePat at h
  cases s with
  | nil => simp at h
  | cons x xs =>
    simp only at h
    split at h
    · cases h
    · cases h
    · rename_i v rest hev
      split at h
      · cases h
      · rename_i hrest
        have hr : rest = [] := by simpa using hrest
        obtain ⟨u, hu, hm⟩ := ev_sound _ _ _ _ _ _ _ hev
        rw [hr, List.append_nil] at hu
        rw [← hu] at hm
        rw [Inst.Regex.rules_eq, Inst.Regex.top_eq] at hm
        exact hm

/-- The same for every outcome that got as far as the semantic checks: a pattern is reported as
    *meaningless* (rather than ungrammatical) only if its whole text is grammatical. -/
theorem C09_semantic_is_grammatical (s : List Rune) (es : List String) (h : accept s = .semantic es) :
    Ref.Regex.DocRegex s := by
  unfold accept parsePat at h
  cases s with
  | nil => simp at h
  | cons x xs =>
    simp only at h
    split at h
    · cases h
    · cases h
    · rename_i v rest hev
      split at h
      · cases h
      · rename_i hrest
        have hr : rest = [] := by simpa using hrest
        obtain ⟨u, hu, hm⟩ := ev_sound _ _ _ _ _ _ _ hev
        rw [hr, List.append_nil] at hu
        rw [← hu] at hm
        rw [Inst.Regex.rules_eq, Inst.Regex.top_eq] at hm
        exact hm

/-- well-formedness of the ranges of a pattern -/
def GItem.valid : GItem → Bool
  | .range lo hi => decide (lo ≤ hi)
  | _ => true

def Quant.valid : Quant → Bool
  | .rep lo (some u) => decide (lo ≤ u)
  | _ => true

def Pat.valid : Pat → Bool
  | .any | .char _ | .cls _ _ | .snil => true
  | .group _ items => items.all GItem.valid
  | .quant p q _ => Pat.valid p && Quant.valid q
  | .scons a r => Pat.valid a && Pat.valid r
  | .alt a b => Pat.valid a && Pat.valid b

theorem GItem.errors_nil (g : GItem) : g.errors = [] ↔ GItem.valid g = true := by
  cases g <;> simp [GItem.errors, GItem.valid]

theorem Quant.errors_nil (q : Quant) : q.errors = [] ↔ Quant.valid q = true := by
  cases q with
  | rep lo up =>
    cases up with
    | none => simp [Quant.errors, Quant.valid]
    | some u =>
      simp [Quant.errors, Quant.valid]
  | _ => simp [Quant.errors, Quant.valid]

theorem Pat.errors_nil (p : Pat) : p.errors = [] ↔ Pat.valid p = true := by
  induction p with
  | any => simp [Pat.errors, Pat.valid]
  | char c => simp [Pat.errors, Pat.valid]
  | cls n rs => simp [Pat.errors, Pat.valid]
  | snil => simp [Pat.errors, Pat.valid]
  | group neg items =>
    simp only [Pat.errors, Pat.valid]
    induction items with
    | nil => simp
    | cons g gs ih => simp [List.flatMap_cons, GItem.errors_nil, ih]
  | quant p q l ih => simp [Pat.errors, Pat.valid, ih, Quant.errors_nil]
  | scons a r iha ihr => simp [Pat.errors, Pat.valid, iha, ihr]
  | alt a b iha ihb => simp [Pat.errors, Pat.valid, iha, ihb]

/-- **Meaningless patterns are not accepted**: an accepted pattern has no descending character
    range and no repetition range whose minimum exceeds its maximum. -/
theorem C09_semantic (s : List Rune) (p : Pat) (h : accept s = .ok p) : Pat.valid p = true := by
  unfold accept parsePat at h
  cases s with
  | nil => simp at h
  | cons x xs =>
    simp only at h
    split at h
    · cases h
    · cases h
    · split at h
      · cases h
      · split at h
        · split at h
          · rename_i herr; injection h with hp; subst hp; exact (Pat.errors_nil _).mp herr
          · cases h
        · cases h

/-- … and when the text is grammatical but has such a range, the outcome is a semantic error that
    names every offending range (never success, never a bare syntax error). -/
theorem C09_semantic_err (s : List Rune) (es : List String) (h : accept s = .semantic es) :
    es ≠ [] ∧ ∃ p : Pat, es = p.errors ∧ Pat.valid p = false := by
  unfold accept parsePat at h
  cases s with
  | nil => simp at h
  | cons x xs =>
    simp only at h
    split at h
    · cases h
    · cases h
    · split at h
      · cases h
      · split at h
        · rename_i p _ _
          split at h
          · cases h
          · rename_i herr; injection h with he; subst he
            refine ⟨herr, p, rfl, ?_⟩
            cases hv : Pat.valid p with
            | false => rfl
            | true => exact absurd ((Pat.errors_nil p).mpr hv) herr
        · cases h

/-- The empty pattern is rejected (and does not crash). -/
theorem C09_empty_rejected : accept [] = .invalid := rfl

/-- **A count that does not fit into a Go `int` is not a number** (the repair d601844 of the silent wrap-around): whatever
    the number mapper returns is at most 2^63 - 1; longer digit strings make it fail, and with it the pattern. -/
theorem C09_counts_fit (T : ClassTable) (v : Val) (n : Nat) (h : app T "toNum" v = some (.int n)) : n ≤ 9223372036854775807 := by
  simp only [app] at h
  split at h
  · split at h
    · cases h
    · rename_i hle
      simp only [Option.some.injEq, Val.int.injEq] at h
      subst h
      omega
  · cases h
example : (app [] "toNum" (.list [.int 9, .int 2, .int 2, .int 3, .int 3, .int 7, .int 2, .int 0, .int 3, .int 6, .int 8, .int 5, .int 4, .int 7, .int 7, .int 5, .int 8, .int 0, .int 7])).isSome = true := by decide +kernel
example : (app [] "toNum" (.list [.int 9, .int 2, .int 2, .int 3, .int 3, .int 7, .int 2, .int 0, .int 3, .int 6, .int 8, .int 5, .int 4, .int 7, .int 7, .int 5, .int 8, .int 0, .int 8])).isNone = true := by decide +kernel

/-- Non-vacuity: `a|b*` and `[a-c]{1,2}` are accepted; `a)` (unparsed suffix), `[c-a]` and `a{2,1}` are not. -/
example : (match accept ("a|b*".toList.map Char.toNat) with | .ok _ => true | _ => false) = true := by decide +kernel
example : accept ("a)".toList.map Char.toNat) = .invalid := by decide +kernel
example : accept ("[c-a]".toList.map Char.toNat) = .semantic ["invalid character range c-a"] := by decide +kernel
example : accept ("a{2,1}".toList.map Char.toNat) = .semantic ["invalid repetition range {2,1}"] := by decide +kernel

end Emerge.Props.C09
